import KafVerif.Model.LfsResolve
/-!
Model of the proxy's LFS produce rewriting (`cmd/proxy/lfs_rewrite.go`, `cmd/proxy/lfs_record.go`).

Two layers:

* **structure level** — `rewriteRecord` / `rewriteRecords` / `rewriteBatch` / `rewritePartition` /
  `rewriteRequest` mirror `rewriteProduceRecords` on decoded records (`kmsg.Record` fields), with a
  ghost S3 (append-only list of uploaded objects; `buildObjectKey` yields a fresh key per upload,
  modelled by the upload counter), the checksum rules, `lfsFindHeaderValue`, `lfsDropHeader`,
  `lfsHeaderValue`, `lfsHeadersToMap`, the `NumRecords` prefix rule of `lfsReadRawRecordsInto`;
* **byte level** — `encodeRecord` (= `lfsEncodeRecord`, zig-zag LEB128 varints) with a decoder
  (`kmsg.Record.ReadFrom`'s format), and the 61-byte batch header with the `Length` / `CRC` fix-up
  of the rewrite (`finishBatch`).

Parameters: hash functions `H`, the CRC-32C function, compression codecs (a batch's records are
given decompressed; the compressor is assumed to report the codec it was asked for), JSON
encoding of the envelope (the rewritten value is kept symbolic: `Val.env fields`).
-/
namespace KafVerif.LfsRewrite
open KafVerif.LfsResolve (Alg normalizeAlg trimSpace toLower)
open KafVerif.LfsEnvelope (ascii)

/-! ### records -/

structure Header where
  key : Bytes
  value : Option Bytes          -- Go nil slice = none
deriving DecidableEq, Repr

structure Record where
  attrs : Int                   -- int8
  tsDelta : Int                 -- int64
  offDelta : Int                -- int32
  key : Option Bytes
  value : Option Bytes
  headers : List Header
deriving DecidableEq, Repr

def blobKey : Bytes := ascii "LFS_BLOB"
def blobAlgKey : Bytes := ascii "LFS_BLOB_ALG"

/-- `lfsFindHeaderValue`: value of the first header with exactly this key. -/
def findHeader (hs : List Header) (key : Bytes) : Option (Option Bytes) :=
  (hs.find? (·.key == key)).map (·.value)

/-- `lfsDropHeader`: removes EVERY header with this key, keeps the order of the others. -/
def dropHeader (hs : List Header) (key : Bytes) : List Header := hs.filter (·.key != key)

def orEmpty : Option Bytes → Bytes
  | some b => b
  | none => []

/-- `lfsHeaderValue(headers, "content-type")` -/
def headerValue (hs : List Header) (key : Bytes) : Bytes :=
  match findHeader hs key with
  | some v => orEmpty v
  | none => []

def allowlist : List Bytes :=
  [ascii "content-type", ascii "content-encoding", ascii "correlation-id", ascii "message-id",
   ascii "x-correlation-id", ascii "x-request-id", ascii "traceparent", ascii "tracestate"]

/-- `lfsHeadersToMap`: allow-listed headers (key compared lower-cased) as a map keyed by the
ORIGINAL key; a later header with the same key overwrites.  Returned as an association list. -/
def headersToMap (hs : List Header) : List (Bytes × Bytes) :=
  hs.foldl (fun m h =>
    if allowlist.contains (toLower h.key) then (m.filter (·.1 != h.key)) ++ [(h.key, orEmpty h.value)] else m) []

/-! ### envelope construction -/

structure EnvFields where
  objKey : Nat                 -- which upload (ghost S3 index) the envelope points to
  size : Nat
  shaOf : Bytes                -- sha256 field = SHA-256 of these bytes
  alg : Alg                    -- checksum_alg
  ckOf : Option Bytes          -- checksum field = H alg of these bytes (`none` = empty checksum)
  contentType : Bytes
  originalHeaders : List (Bytes × Bytes)
deriving DecidableEq, Repr

inductive Val where
  | raw (v : Option Bytes)
  | env (e : EnvFields)
deriving DecidableEq, Repr

structure OutRecord where
  attrs : Int
  tsDelta : Int
  offDelta : Int
  key : Option Bytes
  value : Val
  headers : List Header
deriving DecidableEq, Repr

def asIs (r : Record) : OutRecord := ⟨r.attrs, r.tsDelta, r.offDelta, r.key, .raw r.value, r.headers⟩

structure Cfg where
  maxBlob : Int
  defaultAlg : Bytes           -- KAFSCALE_LFS_PROXY_CHECKSUM_ALGO
  failUploadAt : Option Nat    -- the n-th upload (0-based) fails
  failDelete : Bool

/-- ghost S3: uploaded objects in upload order (index = key), `none` = deleted again -/
abbrev S3 := List (Option Bytes)

/-- `resolveChecksumAlg` -/
def resolveAlg (cfg : Cfg) (raw : Bytes) : Option Alg :=
  if (trimSpace raw).isEmpty then normalizeAlg cfg.defaultAlg else normalizeAlg raw

def equalFoldAscii (a b : Bytes) : Bool := toLower a == toLower b

def flagged (r : Record) : Bool := (findHeader r.headers blobKey).isSome

/-- one record of `rewriteProduceRecords`' inner loop; `none` = the whole request fails.
`H` computes the checksum the uploader returns (as hex bytes). -/
def rewriteRecord (H : Alg → Bytes → Bytes) (cfg : Cfg) (s3 : S3) (r : Record) : Option (S3 × OutRecord) :=
  match findHeader r.headers blobKey with
  | none => some (s3, asIs r)
  | some lfsValue =>
    let checksumHeader := trimSpace (orEmpty lfsValue)
    let algHeader := match findHeader r.headers blobAlgKey with
      | some v => orEmpty v
      | none => []
    match resolveAlg cfg algHeader with
    | none => none
    | some alg =>
      if !checksumHeader.isEmpty && alg == .none then none
      else
        let payload := orEmpty r.value
        if (payload.length : Int) > cfg.maxBlob then none
        else if cfg.failUploadAt == some s3.length then none
        else
          let k := s3.length
          let checksum : Bytes := if alg == .none then [] else H alg payload
          if !checksumHeader.isEmpty && !checksum.isEmpty && !equalFoldAscii checksumHeader checksum then none
          else
            let env : EnvFields := ⟨k, payload.length, payload, alg, if alg == .none then none else some payload,
              headerValue r.headers (ascii "content-type"), headersToMap r.headers⟩
            some (s3 ++ [some payload], ⟨r.attrs, r.tsDelta, r.offDelta, r.key, .env env, dropHeader r.headers blobKey⟩)

/-- a stateful traversal that stops at the first failure (every loop of `rewriteProduceRecords`
returns the error immediately) -/
def traverse {α β : Type} (f : S3 → α → Option (S3 × β)) : S3 → List α → Option (S3 × List β)
  | s3, [] => some (s3, [])
  | s3, a :: rest =>
    match f s3 a with
    | none => none
    | some (s3', o) =>
      match traverse f s3' rest with
      | none => none
      | some (s3'', os) => some (s3'', o :: os)

def rewriteRecords (H : Alg → Bytes → Bytes) (cfg : Cfg) : S3 → List Record → Option (S3 × List OutRecord) :=
  traverse (rewriteRecord H cfg)

/-! ### batches, partitions, requests -/

structure Batch where
  codec : Nat                   -- attributes & 7
  numRecords : Int              -- header field (what the producer claims)
  records : List Record         -- the records actually encoded in the (decompressed) payload
deriving DecidableEq, Repr

structure OutBatch where
  modified : Bool
  codec : Nat
  numRecords : Int
  records : List OutRecord
deriving DecidableEq, Repr

/-- `lfsDecodeBatchRecords` + the record loop + re-encoding of one batch. -/
def rewriteBatch (H : Alg → Bytes → Bytes) (cfg : Cfg) (s3 : S3) (b : Batch) : Option (S3 × OutBatch) :=
  if b.codec > 4 then none                                   -- unknown codec: Decompress fails
  else
    let read := b.records.take b.numRecords.toNat             -- lfsReadRawRecordsInto: at most NumRecords, a prefix
    if read.isEmpty then some (s3, ⟨false, b.codec, b.numRecords, b.records.map asIs⟩)
    else match rewriteRecords H cfg s3 read with
      | none => none
      | some (s3', outs) =>
        if read.any flagged then some (s3', ⟨true, b.codec, read.length, outs⟩)
        else some (s3', ⟨false, b.codec, b.numRecords, b.records.map asIs⟩)

def rewriteBatches (H : Alg → Bytes → Bytes) (cfg : Cfg) : S3 → List Batch → Option (S3 × List OutBatch) :=
  traverse (rewriteBatch H cfg)

abbrev Partition := Int × List Batch
abbrev Topic := Bytes × List Partition
abbrev OutPartition := Int × List OutBatch
abbrev OutTopic := Bytes × List OutPartition

def rewritePartition (H : Alg → Bytes → Bytes) (cfg : Cfg) (s3 : S3) (p : Partition) : Option (S3 × OutPartition) :=
  (rewriteBatches H cfg s3 p.2).map fun r => (r.1, (p.1, r.2))

def rewriteTopic (H : Alg → Bytes → Bytes) (cfg : Cfg) (s3 : S3) (t : Topic) : Option (S3 × OutTopic) :=
  (traverse (rewritePartition H cfg) s3 t.2).map fun r => (r.1, (t.1, r.2))

def rewriteRequest (H : Alg → Bytes → Bytes) (cfg : Cfg) (req : List Topic) : Option (S3 × List OutTopic) :=
  traverse (rewriteTopic H cfg) [] req

/-! ### byte level: varints and `lfsEncodeRecord` -/

/-- unsigned LEB128 (`binary.PutUvarint`) -/
def uvarint (n : Nat) : Bytes :=
  if h : n < 128 then [UInt8.ofNat n] else UInt8.ofNat (n % 128 + 128) :: uvarint (n / 128)
termination_by n
decreasing_by omega

/-- zig-zag (`binary.PutVarint`): 0,-1,1,-2,… ↦ 0,1,2,3,… -/
def zigzag (v : Int) : Nat := if v ≥ 0 then (2 * v).toNat else (-2 * v - 1).toNat
def unzigzag (u : Nat) : Int := if u % 2 == 0 then (u / 2 : Nat) else -((u / 2 : Nat) : Int) - 1

def varint (v : Int) : Bytes := uvarint (zigzag v)

/-- `binary.Uvarint` without the 10-byte overflow rule (never reached on encoder output) -/
def readUvarint : Bytes → Option (Nat × Bytes)
  | [] => none
  | b :: rest =>
    if b < 128 then some (b.toNat, rest)
    else match readUvarint rest with
      | some (v, r) => some (b.toNat - 128 + 128 * v, r)
      | none => none

def readVarint (bs : Bytes) : Option (Int × Bytes) :=
  (readUvarint bs).map fun p => (unzigzag p.1, p.2)

/-- `lfsAppendVarintBytes` (nil ↦ length −1) -/
def varintBytes : Option Bytes → Bytes
  | none => varint (-1)
  | some b => varint b.length ++ b

def encodeHeader (h : Header) : Bytes := varint h.key.length ++ h.key ++ varintBytes h.value

def encodeBody (r : Record) : Bytes :=
  [UInt8.ofNat (r.attrs % 256).toNat] ++ varint r.tsDelta ++ varint r.offDelta ++ varintBytes r.key ++
  varintBytes r.value ++ varint r.headers.length ++ (r.headers.map encodeHeader).flatten

/-- `lfsEncodeRecord` -/
def encodeRecord (r : Record) : Bytes :=
  let body := encodeBody r
  varint body.length ++ body

/-- `lfsEncodeRecords` -/
def encodeRecords (rs : List Record) : Bytes := (rs.map encodeRecord).flatten

/-! ### byte level: the record decoder (`kmsg.Record.ReadFrom`'s wire format) -/

/-- varint-length-prefixed bytes; a negative length is a nil slice -/
def readBytes (bs : Bytes) : Option (Option Bytes × Bytes) :=
  match readVarint bs with
  | none => none
  | some (n, rest) =>
    if n < 0 then some (none, rest)
    else if rest.length < n.toNat then none
    else some (some (rest.take n.toNat), rest.drop n.toNat)

def readHeaders : Nat → Bytes → Option (List Header × Bytes)
  | 0, bs => some ([], bs)
  | n + 1, bs =>
    match readVarint bs with
    | none => none
    | some (kl, r1) =>
      if kl < 0 || r1.length < kl.toNat then none
      else match readBytes (r1.drop kl.toNat) with
        | none => none
        | some (v, r2) =>
          match readHeaders n r2 with
          | none => none
          | some (hs, r3) => some (⟨r1.take kl.toNat, v⟩ :: hs, r3)

/-- int8 from a byte -/
def int8OfByte (b : UInt8) : Int := if b.toNat < 128 then b.toNat else (b.toNat : Int) - 256

def decodeBody : Bytes → Option Record
  | [] => none
  | a :: r0 =>
    match readVarint r0 with
    | none => none
    | some (ts, r1) =>
      match readVarint r1 with
      | none => none
      | some (off, r2) =>
        match readBytes r2 with
        | none => none
        | some (k, r3) =>
          match readBytes r3 with
          | none => none
          | some (v, r4) =>
            match readVarint r4 with
            | none => none
            | some (nh, r5) =>
              if nh < 0 then none
              else match readHeaders nh.toNat r5 with
                | some (hs, []) => some ⟨int8OfByte a, ts, off, k, v, hs⟩
                | _ => none

/-- one length-prefixed record from the front of a record payload -/
def decodeRecord (bs : Bytes) : Option (Record × Bytes) :=
  match readVarint bs with
  | none => none
  | some (len, r) =>
    if len < 0 || r.length < len.toNat then none
    else match decodeBody (r.take len.toNat) with
      | none => none
      | some rec => some (rec, r.drop len.toNat)

/-! ### byte level: batch header fix-up -/

def beN : Nat → Nat → Bytes
  | 0, _ => []
  | k + 1, n => beN k (n / 256) ++ [UInt8.ofNat (n % 256)]

/-- big-endian two's complement of `v` in `k` bytes -/
def be (k : Nat) (v : Int) : Bytes := beN k (v % (256 ^ k : Nat)).toNat

structure BatchHeader where
  baseOffset : Int
  length : Int
  leaderEpoch : Int
  magic : Int
  crc : Int
  attributes : Int
  lastOffsetDelta : Int
  firstTimestamp : Int
  maxTimestamp : Int
  producerId : Int
  producerEpoch : Int
  firstSequence : Int
  numRecords : Int
deriving DecidableEq, Repr

/-- `kmsg.RecordBatch.AppendTo` -/
def serialize (h : BatchHeader) (records : Bytes) : Bytes :=
  be 8 h.baseOffset ++ be 4 h.length ++ be 4 h.leaderEpoch ++ be 1 h.magic ++ be 4 h.crc ++
  (be 2 h.attributes ++ be 4 h.lastOffsetDelta ++ be 8 h.firstTimestamp ++ be 8 h.maxTimestamp ++
   be 8 h.producerId ++ be 2 h.producerEpoch ++ be 4 h.firstSequence ++ be 4 h.numRecords ++ records)

/-- the end of the batch loop in `rewriteProduceRecords`: new record count, codec bits, then
`Length = len − 12`, `CRC = crc32c(bytes[21:])`. -/
def finishBatch (crc32c : Bytes → Int) (h : BatchHeader) (count : Nat) (attrBits : Int) (records : Bytes) : BatchHeader :=
  let h1 := { h with numRecords := count, attributes := attrBits, length := 0, crc := 0 }
  let h2 := { h1 with length := ((serialize h1 records).length : Int) - 12 }
  { h2 with crc := crc32c ((serialize h2 records).drop 21) }

end KafVerif.LfsRewrite
