import KafVerif.Model.StorageLogS3
/-!
Model of the READ side of the S3 clients of this repository over an endpoint whose answers arrive the way real
HTTP answers do (lower seam of C03 / C06 / C07):

* `GetObject` answers with an announced `ContentLength` (set / unset / over-reported) and a BODY that hands the selected
  bytes out in several `Read`s of scripted sizes and ends with `io.EOF`, `io.ErrUnexpectedEOF` (the transfer ended
  before Content-Length bytes arrived) or a connection error — possibly in the same `Read` as the last bytes;
* `ListObjectsV2` answers in pages: at most 1000 keys, but a page may be SHORTER (even empty) while `IsTruncated` is
  true and a continuation token is given; the listing is complete only when `IsTruncated` is false.

Modelled code: `io.ReadAll`, `awsS3Client.DownloadSegment / DownloadIndex / ListSegments` (pkg/storage/s3_aws.go; the
SDK paginator loop), the processors' `s3Decoder.getObject` + `Decode` (iceberg and sql: `io.ReadAll` of the body, then
`decodeSegment`).  The `…ReadFullTolerant`, `…ReadAtLeast`, `…ShortStop` variants are the seeded rewrites C03-r3-2,
C07-r3-1, C06-r3-2 (refuted by witnesses in Props).  Fake: harness/*/zz_verif_c07_s3chunks_fake.go.
-/
namespace KafVerif.S3Chunks
open KafVerif
open KafVerif.S3Aws (Api Err lookup Ret isBucketMissing isNotFound)

/-! ### response bodies -/

/-- how a body ends: `io.EOF`, `io.ErrUnexpectedEOF`, another transfer error; `fuel` = the model's loop bound ran out
(never reached on a complete transfer with the fuel the model uses: `readAll_complete` in Lemmas/S3Chunks.lean) -/
inductive Term where
  | eof | uexp | reset | fuel
deriving Repr, DecidableEq

/-- a `GetObject` response body (an `io.ReadCloser`) plus the announced length -/
structure Body where
  data : Bytes                 -- the bytes that will arrive
  sizes : List Nat := []       -- sizes of the successive `Read`s; afterwards whatever fits
  term : Term := .eof          -- what follows the last byte
  ew : Bool := false           -- the terminal condition comes with the last bytes (n > 0, err) instead of (0, err)
  cl : Option Nat := none      -- `GetObjectOutput.ContentLength`
deriving Repr

/-- hand out the next `n` bytes -/
def Body.deliver (b : Body) (n : Nat) : (Bytes × Option Term) × Body :=
  let b' : Body := { b with data := b.data.drop n, sizes := b.sizes.tail }
  if (b.data.drop n).isEmpty && b.ew && decide (n > 0) then ((b.data.take n, some b.term), b')
  else ((b.data.take n, none), b')

/-- one `Read(p)` with `len(p) = cap`: the bytes, the error (if any), the body afterwards -/
def Body.read (b : Body) (cap : Nat) : (Bytes × Option Term) × Body :=
  if b.data.isEmpty then (([], some b.term), b)
  else if cap = 0 then (([], none), b)
  else
    b.deliver (min (match b.sizes with
      | [] => b.data.length
      | k :: _ => min k b.data.length) cap)

/-- `io.ReadAll`: read until an error; `io.EOF` is success.  `cap` = free space of the growing buffer (512 at first in
Go; the result does not depend on it, see `readAll_ok`). -/
def readAll (cap : Nat) : Nat → Body → Bytes → Except Term Bytes
  | 0, _, _ => .error .fuel
  | fuel + 1, b, acc =>
    match b.read cap with
    | ((d, none), b') => readAll cap fuel b' (acc ++ d)
    | ((d, some .eof), _) => .ok (acc ++ d)
    | ((_, some t), _) => .error t

/-- enough `Read` calls for any body: every call uses up a scripted size or delivers a byte or ends -/
def fuelFor (b : Body) : Nat := b.sizes.length + b.data.length + 2

/-- `io.ReadAtLeast(r, buf, min)` with `len(buf) = bufLen ≥ min`: (n, err) — the bytes read so far -/
def readAtLeast (bufLen min : Nat) : Nat → Body → Bytes → Bytes × Option Term
  | 0, _, acc => (acc, some .fuel)
  | fuel + 1, b, acc =>
    if acc.length ≥ min then (acc, none)
    else
      match b.read (bufLen - acc.length) with
      | ((d, none), b') => readAtLeast bufLen min fuel b' (acc ++ d)
      | ((d, some t), _) =>
        let acc := acc ++ d
        if acc.length ≥ min then (acc, none)
        else if acc.length > 0 ∧ t = .eof then (acc, some .uexp)
        else (acc, some t)

/-! ### the endpoint -/

inductive Cl where
  | none | exact | over (k : Nat)
deriving Repr, DecidableEq

/-- body token of the fake: `b:cl=…:ch=…:cut=…:ew` -/
structure BodySpec where
  cl : Cl := .exact
  sizes : List Nat := []
  cut : Option (Nat × Bool) := none      -- (J, connection reset instead of ErrUnexpectedEOF)
  ew : Bool := false
deriving Repr

inductive GetTok where
  | nat
  | fail (e : Err)
  | body (b : BodySpec)
deriving Repr

inductive ListTok where
  | nat
  | fail (e : Err)
  | page (n : Nat)
deriving Repr, DecidableEq

structure St where
  api : Api
  gets : List GetTok := []
  lists : List ListTok := []
  calls : List String := []
deriving Repr

def note (s : St) (api outcome : String) : St := { s with calls := s.calls ++ [api ++ ":" ++ outcome] }

/-- the response the endpoint builds for the selected bytes: like HTTP, a transfer that ends before the announced
length ends with an error, never with a clean EOF -/
def mkBody (sel : Bytes) (sp : BodySpec) : Body :=
  let cutApplies : Option (Nat × Bool) := match sp.cut with
    | some (j, r) => if j < sel.length then some (j, r) else none
    | none => none
  { data := match cutApplies with
      | some (j, _) => sel.take j
      | none => sel
    sizes := sp.sizes
    term := match cutApplies with
      | some (_, true) => .reset
      | some (_, false) => .uexp
      | none => match sp.cl with
        | .over _ => .uexp
        | _ => .eof
    ew := sp.ew
    cl := match sp.cl with
      | .none => none
      | .exact => some sel.length
      | .over k => some (sel.length + k) }

/-- HTTP range semantics (inclusive, end clamped; a start beyond the object is InvalidRange) -/
def sliceOf (data : Bytes) (rng : Option (Int × Int)) : Option Bytes :=
  match rng with
  | none => some data
  | some (a, b) =>
    if a < 0 ∨ a > b ∨ a ≥ data.length then none
    else
      let b := if b ≥ data.length then (data.length : Int) - 1 else b
      some ((data.drop a.toNat).take (b + 1 - a).toNat)

def popGet (s : St) : GetTok × St :=
  match s.gets with
  | [] => (.nat, s)
  | t :: r => (t, { s with gets := r })

/-- `api.GetObject` -/
def apiGet (s : St) (key : String) (rng : Option (Int × Int)) : St × Except Err Body :=
  let (t, s) := popGet s
  let sp? : Except Err BodySpec := match t with
    | .nat => .ok {}
    | .body sp => .ok sp
    | .fail e => .error e
  match sp? with
  | .error e => (note s "GET" e.name, .error e)
  | .ok sp =>
    if !s.api.bucket then (note s "GET" "nsb", .error .nsb) else
    match lookup s.api.objs key with
    | none => (note s "GET" "nokey", .error .nokey)
    | some data =>
      match sliceOf data rng with
      | none => (note s "GET" "badrange", .error .badrange)
      | some sel => (note s "GET" "ok", .ok (mkBody sel sp))

/-! ### awsS3Client, read side -/

/-- `DownloadSegment`: `GetObject` (+ Range), `io.ReadAll(resp.Body)` -/
def downloadSegment (s : St) (key : String) (rng : Option (Int × Int)) : St × Ret :=
  match apiGet s key rng with
  | (s, .error _) => (s, .err)
  | (s, .ok body) =>
    match readAll 512 (fuelFor body) body [] with
    | .ok d => (s, .data d)
    | .error _ => (s, .err)

/-- `DownloadIndex`: a missing object is `ErrNotFound` -/
def downloadIndex (s : St) (key : String) : St × Ret :=
  match apiGet s key none with
  | (s, .error e) => (s, if isNotFound e then .notfound else .err)
  | (s, .ok body) =>
    match readAll 512 (fuelFor body) body [] with
    | .ok d => (s, .data d)
    | .error _ => (s, .err)

/-- the body handling of the seeded rewrite C03-r3-2: when Content-Length is announced, `io.ReadFull` into a buffer
of that size, `io.ErrUnexpectedEOF` tolerated, the WHOLE buffer returned -/
def readBodyReadFullTolerant (body : Body) : Except Term Bytes :=
  match body.cl with
  | some size =>
    if size > 0 then
      match readAtLeast size size (fuelFor body) body [] with
      | (got, none) => .ok (got ++ List.replicate (size - got.length) 0)
      | (got, some .uexp) => .ok (got ++ List.replicate (size - got.length) 0)
      | (_, some t) => .error t
    else readAll 512 (fuelFor body) body []
  | none => readAll 512 (fuelFor body) body []

/-! ### processors' decoders: `s3Decoder.getObject` + `Decode` -/

/-- `getObject` of the iceberg / sql decoder: `GetObject` without a range, `io.ReadAll` -/
def fetchObject (s : St) (key : String) : St × Option Bytes :=
  match apiGet s key none with
  | (s, .error _) => (s, none)
  | (s, .ok body) =>
    match readAll 512 (fuelFor body) body [] with
    | .ok d => (s, some d)
    | .error _ => (s, none)

/-- `Decode`: fetch the segment object, hand the bytes to `decodeSegment` (any decoder `dec`) -/
def decodeOverS3 {ρ : Type} (dec : Bytes → Option ρ) (s : St) (key : String) : St × Option ρ :=
  match fetchObject s key with
  | (s, none) => (s, none)
  | (s, some d) => (s, dec d)

/-- the body handling of the seeded rewrite C07-r3-1: buffer of Content-Length bytes, `io.ReadAtLeast(body, data, 48)`,
`data[:n]` -/
def readBodyReadAtLeast (body : Body) : Except Term Bytes :=
  match body.cl with
  | some size =>
    if size > 0 then
      match readAtLeast size 48 (fuelFor body) body [] with
      | (got, none) => .ok got
      | (_, some t) => .error t
    else readAll 512 (fuelFor body) body []
  | none => readAll 512 (fuelFor body) body []

/-! ### ListObjectsV2 and the paginator, over the ordered key list `all` the endpoint holds for the prefix -/

def maxPage : Nat := 1000

inductive ListOut (κ : Type) where
  | keys (ks : List κ)
  | bucketMissing
  | err
  | diverged
deriving Repr, DecidableEq

structure LSt (κ : Type) where
  bucket : Bool
  all : List κ                 -- the endpoint's keys under the prefix, in key order
  lists : List ListTok := []
  calls : List String := []

def popList {κ} (s : LSt κ) : ListTok × LSt κ :=
  match s.lists with
  | [] => (.nat, s)
  | t :: r => (t, { s with lists := r })

def lnote {κ} (s : LSt κ) (outcome : String) : LSt κ := { s with calls := s.calls ++ ["LIST:" ++ outcome] }

/-- `api.ListObjectsV2(MaxKeys, ContinuationToken = from)`: the page, and the next token iff keys remain -/
def apiList {κ} (s : LSt κ) (maxKeys : Option Nat) (frm : Nat) : LSt κ × Except Err (List κ × Option Nat) :=
  let (t, s) := popList s
  let page? : Except Err Nat := match t with
    | .nat => .ok maxPage
    | .page n => .ok (min n maxPage)
    | .fail e => .error e
  match page? with
  | .error e => (lnote s e.name, .error e)
  | .ok page =>
    if !s.bucket then (lnote s "nsb", .error .nsb) else
    let page := match maxKeys with
      | some m => if 0 < m ∧ m < page then m else page
      | none => page
    let rest := s.all.drop frm
    let ks := rest.take page
    (lnote s ("ok" ++ toString ks.length), .ok (ks, if rest.length > page then some (frm + page) else none))

/-- `ListSegments`: the SDK paginator (no MaxKeys; continues while `IsTruncated` with a token) -/
def listLoop {κ} : Nat → LSt κ → Nat → List κ → LSt κ × ListOut κ
  | 0, s, _, _ => (s, .diverged)
  | fuel + 1, s, frm, out =>
    match apiList s none frm with
    | (s, .error e) => (s, if isBucketMissing e then .bucketMissing else .err)
    | (s, .ok (page, next)) =>
      match next with
      | none => (s, .keys (out ++ page))
      | some n => listLoop fuel s n (out ++ page)

/-- the loop of the seeded rewrite C06-r3-2: `MaxKeys = 1000`, stop when a page has fewer than 1000 keys or no token -/
def listLoopShortStop {κ} : Nat → LSt κ → Nat → List κ → LSt κ × ListOut κ
  | 0, s, _, _ => (s, .diverged)
  | fuel + 1, s, frm, out =>
    match apiList s (some 1000) frm with
    | (s, .error e) => (s, if isBucketMissing e then .bucketMissing else .err)
    | (s, .ok (page, next)) =>
      match next with
      | none => (s, .keys (out ++ page))
      | some n => if page.length < 1000 then (s, .keys (out ++ page)) else listLoopShortStop fuel s n (out ++ page)

/-- the endpoint's keys (with sizes) under a prefix, in key order -/
def allKeys (a : Api) (pfx : String) : List (String × Nat) :=
  ((a.objs.filter fun x => pfx.isPrefixOf x.1).map fun x => (x.1, x.2.length)).mergeSort fun x y => decide (x.1 ≤ y.1)

/-- enough pages: every call uses up a token or (natural page) makes progress -/
def listFuel (s : St) (pfx : String) : Nat := s.lists.length + (allKeys s.api pfx).length + 2

/-- `awsS3Client.ListSegments`: a bucket-missing answer + successful `EnsureBucket` is the empty listing -/
def listSegments (s : St) (pfx : String) : St × Option (List (String × Nat)) :=
  let (l, out) := listLoop (listFuel s pfx) { bucket := s.api.bucket, all := allKeys s.api pfx, lists := s.lists, calls := s.calls } 0 []
  let s : St := { s with lists := l.lists, calls := l.calls }
  match out with
  | .keys ks => (s, some ks)
  | .bucketMissing =>
    match S3Aws.ensureBucket { api := s.api, script := [], calls := s.calls } with
    | (t, true) => ({ s with api := t.api, calls := t.calls }, some [])
    | (t, false) => ({ s with api := t.api, calls := t.calls }, none)
  | _ => (s, none)

end KafVerif.S3Chunks
