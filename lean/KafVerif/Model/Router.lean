import KafVerif.Prelude.Basic
/-!
Model of `pkg/metadata/partition_router.go` and `group_router.go` (`PartitionRouter`,
`GroupRouter`: `loadAll` + `watch` loop + `Invalidate`).

etcd side: the history under the lease prefix is a revision-ordered list of put/delete events
(`log`); the state at revision `n` is the fold of the first `n` events.  Keys are abstract ids;
`acc k` says whether `leaseKeyToRouteKey` / `groupLeaseKeyToGroupID` accepts key `k` (events on
rejected keys are skipped by `loadAll` and by the watch loop alike).  The parsers are injective
on the keys the lease managers write (`%s/%d` of a topic and an int32), which is what lets the
model use the key id as the route key.

Router side:
  * `load`       — `loadAll`: table := snapshot at the read's revision; the FIXED code remembers
                   that revision (`rev`)
  * `loadFail`   — the `Get` of a reconnect fails: table and `rev` stay as they are
  * `watch`      — `client.Watch(...)`: FIXED code `WithRev(rev+1)` (cursor := rev);
                   the code before the fix passes no revision (cursor := "now" = log.length)
  * `deliver`    — the watch loop applies the next event and (fixed) advances `rev`
  * `close`      — the watch channel closes (leader election, compaction, network)
  * `invalidate` — `Invalidate`: the proxy drops one route after NOT_LEADER / NOT_COORDINATOR
  * `put`/`del`  — lease changes committed in etcd by anybody, at any point of the above

Revisions: `log` has ONE ENTRY PER etcd REVISION, holding all events committed in that revision
(a lease revoke / session close deletes every attached key in one revision; a txn may write
several keys).  etcd never splits one revision over two watch responses, and the watch loop applies
a whole response under its lock, so `deliver` processes one revision's events atomically — event by
event, with the code's per-event revision bookkeeping (`procEv`).

Variants (`Variant`):
  * `fixed`       — the code with the fix: `WithRev(rev+1)`; `if ev.ModRevision > rev { rev = ... }`
  * `noRev`       — the code as found: revision-less watch
  * `skipSameRev` — a "de-duplicating" variant that skips events with `ModRevision <= rev`: wrong,
                    because the 2nd, 3rd … event of one revision carry the same ModRevision

Compaction: `compact` compacts etcd at the current revision; a watch whose start revision lies
before the compaction point fails (ErrCompacted), the loop sleeps and reloads.

etcd watch contract (assumption): a watch created with start revision `w` (not compacted)
delivers every event with revision ≥ `w`, in order, one or more whole revisions per response.
-/
namespace KafVerif.Router

inductive Ev where
  | put (k v : Nat)
  | del (k : Nat)
deriving DecidableEq, Repr

def applyEv (acc : Nat → Bool) (t : Nat → Option Nat) : Ev → Nat → Option Nat
  | .put k v => if acc k then (fun x => if x = k then some v else t x) else t
  | .del k => if acc k then (fun x => if x = k then none else t x) else t

structure Router where
  table : Nat → Option Nat
  rev : Nat
  watching : Bool
  cursor : Nat
  inval : Nat → Bool      -- ghost: routes dropped by `Invalidate` and not yet re-learnt

structure World where
  log : List (List Ev)    -- entry i = the events of revision i+1
  compacted : Nat         -- revisions ≤ this one can no longer be watched from
  r : Router

def init : World :=
  { log := [], compacted := 0,
    r := { table := fun _ => none, rev := 0, watching := false, cursor := 0, inval := fun _ => false } }

inductive Variant where
  | fixed | noRev | skipSameRev
deriving DecidableEq, Repr

inductive Op where
  | put (k v : Nat)
  | del (k : Nat)
  | batch (evs : List Ev)
  | compact
  | load
  | loadFail
  | watch
  | deliver
  | close
  | invalidate (k : Nat)
deriving DecidableEq, Repr

def evKey : Ev → Nat
  | .put k _ => k
  | .del k => k

def applyEvs (acc : Nat → Bool) (t : Nat → Option Nat) (evs : List Ev) : Nat → Option Nat :=
  evs.foldl (applyEv acc) t

/-- accepted-key view of the etcd state at revision `n` -/
def stateAt (acc : Nat → Bool) (log : List (List Ev)) (n : Nat) : Nat → Option Nat :=
  (log.take n).foldl (applyEvs acc) (fun _ => none)

/-- the part of the router the watch loop's inner `for _, ev := range resp.Events` touches -/
structure Loop where
  table : Nat → Option Nat
  rev : Nat
  inval : Nat → Bool

/-- one iteration of the event loop for an event of revision `R` -/
def procEv (acc : Nat → Bool) (var : Variant) (R : Nat) (st : Loop) (e : Ev) : Loop :=
  let applied : Loop :=
    { table := applyEv acc st.table e,
      rev := if R > st.rev then R else st.rev,
      inval := fun x => if x = evKey e ∧ acc x then false else st.inval x }
  match var with
  | .skipSameRev => if R ≤ st.rev then st else applied
  | _ => applied

def startOk (var : Variant) (w : World) : Bool :=
  match var with
  | .noRev => true
  | _ => !(w.r.rev + 1 < w.compacted)

/-- does the write change etcd (and so create a revision)?  Deleting an absent key does not. -/
def effective (w : World) : Ev → Bool
  | .put _ _ => true
  | .del k => (stateAt (fun _ => true) w.log w.log.length k).isSome

def step (acc : Nat → Bool) (var : Variant) (w : World) : Op → World
  | .put k v => { w with log := w.log ++ [[.put k v]] }
  | .del k => if effective w (.del k) then { w with log := w.log ++ [[.del k]] } else w
  | .batch evs => if evs.any (effective w) then { w with log := w.log ++ [evs] } else w
  | .compact => { w with compacted := w.log.length }
  | .load =>
    if w.r.watching then w else
    { w with r := { w.r with table := stateAt acc w.log w.log.length, rev := w.log.length, inval := fun _ => false } }
  | .loadFail => w
  | .watch =>
    if w.r.watching then w
    else if startOk var w then
      { w with r := { w.r with watching := true, cursor := if var = .noRev then w.log.length else w.r.rev } }
    else w            -- ErrCompacted: the channel closes at once, the loop sleeps and reloads
  | .deliver =>
    if w.r.watching then
      match w.log[w.r.cursor]? with
      | some evs =>
        let st := evs.foldl (procEv acc var (w.r.cursor + 1)) ⟨w.r.table, w.r.rev, w.r.inval⟩
        { w with r := { w.r with table := st.table, rev := st.rev, inval := st.inval, cursor := w.r.cursor + 1 } }
      | none => w
    else w
  | .close => { w with r := { w.r with watching := false } }
  | .invalidate k => { w with r := { w.r with table := fun x => if x = k then none else w.r.table x,
                                              inval := fun x => if x = k then true else w.r.inval x } }

def run (acc : Nat → Bool) (var : Variant) (w : World) (ops : List Op) : World :=
  ops.foldl (step acc var) w

def deliverN (acc : Nat → Bool) (var : Variant) : Nat → World → World
  | 0, w => w
  | n + 1, w => deliverN acc var n (step acc var w .deliver)

/-- "once changes stop": the router (re)establishes its watch if it has none — the reconnect
`loadAll` may succeed or fail — and every event the watch owes is delivered. -/
def quiesce (acc : Nat → Bool) (var : Variant) (reloadOk : Bool) (w : World) : World :=
  let w1 := if w.r.watching then w
            else step acc var (step acc var w (if reloadOk then .load else .loadFail)) .watch
  deliverN acc var (w1.log.length - w1.r.cursor) w1

end KafVerif.Router
