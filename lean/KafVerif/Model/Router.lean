import KafVerif.Prelude.Basic
/-!
Model of `pkg/metadata/partition_router.go` and `group_router.go` (`PartitionRouter`,
`GroupRouter`: `loadAll` + `watch` loop + `Invalidate`).

etcd side: the history under the lease prefix is a revision-ordered list of put/delete events
(`log`); the state at revision `n` is the fold of the first `n` events.  Keys are abstract ids;
`acc k` says whether `leaseKeyToRouteKey` / `groupLeaseKeyToGroupID` accepts key `k` (events on
rejected keys are skipped by `loadAll` and by the watch loop alike).  The parsers are injective
on the keys the lease managers write (`%s/%d` of a topic and an int32), which is what lets the
model use the key id as the route key.

Router side:
  * `load`       — `loadAll`: table := snapshot at the read's revision; the FIXED code remembers
                   that revision (`rev`)
  * `loadFail`   — the `Get` of a reconnect fails: table and `rev` stay as they are
  * `watch`      — `client.Watch(...)`: FIXED code `WithRev(rev+1)` (cursor := rev);
                   the code before the fix passes no revision (cursor := "now" = log.length)
  * `deliver`    — the watch loop applies the next event and (fixed) advances `rev`
  * `close`      — the watch channel closes (leader election, compaction, network)
  * `invalidate` — `Invalidate`: the proxy drops one route after NOT_LEADER / NOT_COORDINATOR
  * `put`/`del`  — lease changes committed in etcd by anybody, at any point of the above

etcd watch contract (assumption): a watch created with start revision `w` delivers every event
with revision ≥ `w`, in order.
-/
namespace KafVerif.Router

inductive Ev where
  | put (k v : Nat)
  | del (k : Nat)
deriving DecidableEq, Repr

def applyEv (acc : Nat → Bool) (t : Nat → Option Nat) : Ev → Nat → Option Nat
  | .put k v => if acc k then (fun x => if x = k then some v else t x) else t
  | .del k => if acc k then (fun x => if x = k then none else t x) else t

/-- accepted-key view of the etcd state at revision `n` -/
def stateAt (acc : Nat → Bool) (log : List Ev) (n : Nat) : Nat → Option Nat :=
  (log.take n).foldl (applyEv acc) (fun _ => none)

structure Router where
  table : Nat → Option Nat
  rev : Nat
  watching : Bool
  cursor : Nat
  inval : Nat → Bool      -- ghost: routes dropped by `Invalidate` and not yet re-learnt

structure World where
  log : List Ev
  r : Router

def init : World :=
  { log := [], r := { table := fun _ => none, rev := 0, watching := false, cursor := 0, inval := fun _ => false } }

inductive Op where
  | put (k v : Nat)
  | del (k : Nat)
  | load
  | loadFail
  | watch
  | deliver
  | close
  | invalidate (k : Nat)
deriving DecidableEq, Repr

def evKey : Ev → Nat
  | .put k _ => k
  | .del k => k

/-- `fixed = true`: the code with the proposed fix; `false`: the code as found. -/
def step (acc : Nat → Bool) (fixed : Bool) (w : World) : Op → World
  | .put k v => { w with log := w.log ++ [.put k v] }
  | .del k => { w with log := w.log ++ [.del k] }
  | .load =>
    if w.r.watching then w else
    { w with r := { w.r with table := stateAt acc w.log w.log.length, rev := w.log.length, inval := fun _ => false } }
  | .loadFail => w
  | .watch =>
    if w.r.watching then w else
    { w with r := { w.r with watching := true, cursor := if fixed then w.r.rev else w.log.length } }
  | .deliver =>
    if w.r.watching then
      match w.log[w.r.cursor]? with
      | some e =>
        { w with r := { w.r with
            table := applyEv acc w.r.table e,
            cursor := w.r.cursor + 1,
            rev := w.r.cursor + 1,
            inval := fun x => if x = evKey e ∧ acc x then false else w.r.inval x } }
      | none => w
    else w
  | .close => { w with r := { w.r with watching := false } }
  | .invalidate k => { w with r := { w.r with table := fun x => if x = k then none else w.r.table x,
                                              inval := fun x => if x = k then true else w.r.inval x } }

def run (acc : Nat → Bool) (fixed : Bool) (w : World) (ops : List Op) : World :=
  ops.foldl (step acc fixed) w

def deliverN (acc : Nat → Bool) (fixed : Bool) : Nat → World → World
  | 0, w => w
  | n + 1, w => deliverN acc fixed n (step acc fixed w .deliver)

/-- "once changes stop": the router (re)establishes its watch if it has none — the reconnect
`loadAll` may succeed or fail — and every event the watch owes is delivered. -/
def quiesce (acc : Nat → Bool) (fixed : Bool) (reloadOk : Bool) (w : World) : World :=
  let w1 := if w.r.watching then w
            else step acc fixed (step acc fixed w (if reloadOk then .load else .loadFail)) .watch
  deliverN acc fixed (w1.log.length - w1.r.cursor) w1

end KafVerif.Router
