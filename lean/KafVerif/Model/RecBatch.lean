import KafVerif.Prelude.Basic
/-!
Model of `pkg/storage/recordbatch.go` (record batch header as the storage layer sees it) and of
the header validation `RecordBatch.ValidateForAppend` added by the C02 "fix:" commit.

Header fields are read with their Go widths: `BaseOffset` = int64 at bytes 0:8, batch length =
int32 at 8:12, `LastOffsetDelta` = int32 at 23:27, `MessageCount` = int32 at 57:61.  Offsets
themselves are unbounded `Int` (int64 overflow of assigned offsets is outside the model).
-/
namespace KafVerif.RecBatch

/-- big-endian unsigned value of a byte string -/
def beNat (bs : Bytes) : Nat := bs.foldl (fun acc b => acc * 256 + b.toNat) 0

/-- Go `int32(uint32)` -/
def toInt32 (n : Nat) : Int :=
  if n % 4294967296 < 2147483648 then ((n % 4294967296 : Nat) : Int) else ((n % 4294967296 : Nat) : Int) - 4294967296

/-- Go `int64(uint64)` -/
def toInt64 (n : Nat) : Int :=
  if n % 18446744073709551616 < 9223372036854775808 then ((n % 18446744073709551616 : Nat) : Int)
  else ((n % 18446744073709551616 : Nat) : Int) - 18446744073709551616

/-- Go `int32(x)` on an `int` / int32 wrap-around of an arithmetic result -/
def wrap32 (x : Int) : Int := toInt32 (x % 4294967296).toNat

/-- `b[i:i+n]` for in-range reads (callers check the length first, as the Go code does) -/
def field (b : Bytes) (i n : Nat) : Bytes := (b.drop i).take n

/-- `binary.BigEndian.PutUint64(_, uint64(v))` -/
def be64Bytes (v : Int) : Bytes :=
  let u := (v % 18446744073709551616).toNat
  [UInt8.ofNat (u / 72057594037927936 % 256), UInt8.ofNat (u / 281474976710656 % 256),
   UInt8.ofNat (u / 1099511627776 % 256), UInt8.ofNat (u / 4294967296 % 256),
   UInt8.ofNat (u / 16777216 % 256), UInt8.ofNat (u / 65536 % 256),
   UInt8.ofNat (u / 256 % 256), UInt8.ofNat (u % 256)]

def hdrMin : Nat := 61

/-- `storage.RecordBatch` -/
structure Batch where
  base : Int
  lod : Int
  count : Int
  bytes : Bytes
deriving Repr, DecidableEq

def Batch.last (b : Batch) : Int := b.base + b.lod

/-- the int64 at bytes 0:8 -/
def hdrBase (b : Bytes) : Int := toInt64 (beNat (field b 0 8))
/-- the int32 batch length at bytes 8:12 -/
def hdrLen (b : Bytes) : Int := toInt32 (beNat (field b 8 4))
/-- the int32 last offset delta at bytes 23:27 -/
def hdrLod (b : Bytes) : Int := toInt32 (beNat (field b 23 4))
/-- the int32 record count at bytes 57:61 -/
def hdrCount (b : Bytes) : Int := toInt32 (beNat (field b 57 4))

/-- `NewRecordBatchFromBytes` -/
def parse (data : Bytes) : Option Batch :=
  if data.length < hdrMin then none
  else some { base := hdrBase data, lod := hdrLod data, count := hdrCount data, bytes := data }

/-- `RecordBatch.ValidateForAppend` (fix for C02): the delta is not negative and a declared batch
length covers exactly the record set. -/
def validOk (b : Batch) : Bool :=
  decide (0 ≤ b.lod) &&
    (decide (b.bytes.length < hdrMin) || decide (hdrLen b.bytes = 0) ||
      decide (hdrLen b.bytes + 12 = (b.bytes.length : Int)))

/-- `PatchRecordBatchBaseOffset` -/
def patch (b : Batch) (base : Int) : Batch :=
  { b with base := base, bytes := be64Bytes base ++ b.bytes.drop 8 }

/-- A stored batch is *framed* when its length field covers it: a reader that walks the stored
log by frames sees exactly this batch. -/
def Framed (b : Batch) : Prop := hdrLen b.bytes + 12 = (b.bytes.length : Int) ∧ hdrMin ≤ b.bytes.length

/-- The header fields inside the stored bytes agree with the struct fields (what `parse`
established and `patch` maintains). -/
def HdrOK (b : Batch) : Prop := hdrBase b.bytes = b.base ∧ hdrLod b.bytes = b.lod ∧ hdrMin ≤ b.bytes.length

end KafVerif.RecBatch
