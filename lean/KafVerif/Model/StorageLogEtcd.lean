import KafVerif.Prelude.Basic
/-!
Model of `EtcdStore.UpdateOffsets` (`pkg/metadata/etcd_store.go`) at etcd-operation granularity,
for C05: any number of concurrent callers (the onFlush callbacks of consecutive flushes run
outside the partition lock), every interleaving of their `Get` / `Txn` operations, every
operation may also fail (the call then returns the error).

* the key `…/next_offset` is `kv : Option (value, modRevision)`; `rev` is the cluster revision;
  a successful put sets `modRevision := rev + 1`.  A missing key has mod revision 0 (the code's
  `CreateRevision(key) = 0` guard for a missing key is the same condition: existing keys have
  revisions ≥ 1).
* `fixed` = the code: `for { Get; if cur >= next return; Txn(If modRev = read).Then(Put) ; retry }`
* `once`  = the compare-once restructuring: value compared only after the first `Get`; on a txn
  conflict the `Else` branch returns the current mod revision and the loop retries the txn.
-/
namespace KafVerif.StorageLogEtcd

inductive CPc where
  | idle
  | get (next : Nat)                -- about to `client.Get(key)`
  | txn (next : Nat) (r : Nat)      -- about to `Txn.If(ModRevision(key) = r).Then(Put next)`
  | done                            -- returned nil
  | err                             -- returned an error
deriving Repr, DecidableEq

inductive Variant where
  | fixed
  | once
deriving Repr, DecidableEq

structure State where
  kv : Option (Nat × Nat)
  rev : Nat
  pcs : Nat → CPc

def init : State := { kv := none, rev := 1, pcs := fun _ => .idle }

def stored (s : State) : Nat := match s.kv with | some p => p.1 | none => 0
def modRev (s : State) : Nat := match s.kv with | some p => p.2 | none => 0

def setPc (s : State) (i : Nat) (pc : CPc) : State :=
  { s with pcs := fun j => if j = i then pc else s.pcs j }

inductive Ev where
  | call (i : Nat) (next : Nat)   -- UpdateOffsets(lastOffset) with next = lastOffset + 1
  | get (i : Nat) (ok : Bool)
  | txn (i : Nat) (ok : Bool)
deriving Repr, DecidableEq

def step (v : Variant) (s : State) : Ev → Option State
  | .call i next =>
    match s.pcs i with
    | .idle => some (setPc s i (.get next))
    | _ => none
  | .get i ok =>
    match s.pcs i with
    | .get next =>
      if ok then
        match s.kv with
        | some p => if next ≤ p.1 then some (setPc s i .done) else some (setPc s i (.txn next p.2))
        | none => some (setPc s i (.txn next 0))
      else some (setPc s i .err)
    | _ => none
  | .txn i ok =>
    match s.pcs i with
    | .txn next r =>
      if ok then
        if modRev s = r then
          some { setPc s i .done with kv := some (next, s.rev + 1), rev := s.rev + 1 }
        else
          match v with
          | .fixed => some (setPc s i (.get next))          -- loop: read and compare again
          | .once => some (setPc s i (.txn next (modRev s))) -- adopt the revision, never re-compare
      else some (setPc s i .err)
    | _ => none

def run (v : Variant) (s : State) : List Ev → Option State
  | [] => some s
  | e :: es => match step v s e with
    | some s' => run v s' es
    | none => none

inductive Reachable (v : Variant) : State → Prop where
  | init : Reachable v init
  | step {s s' : State} (e : Ev) : Reachable v s → step v s e = some s' → Reachable v s'

end KafVerif.StorageLogEtcd
