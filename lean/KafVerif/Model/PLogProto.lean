import KafVerif.Model.PLogRead
import KafVerif.Model.PLogLoss
import KafVerif.Prelude.Driver
/-!
Line protocol of the C02/C03/C04 storage-level correspondence (same op lines and result lines as
`harness/C03/root/cmd/verif_c03/main.go`).  Driver code: nothing is proved about this file.
-/
namespace KafVerif.PLogProto
open KafVerif KafVerif.RecBatch KafVerif.PLog

structure World where
  logs : List (Option PLog)     -- 3 slots
  gatedLog : Option Nat
  foa : Bool := true            -- broker ops: flushOnAck
  lost : List (List Int) := [[], [], []]   -- per log: bases of S3 segment objects whose index object is lost

def World.init : World := { logs := [none, none, none], gatedLog := none }

def showBatches (bs : List Batch) : String :=
  if bs.isEmpty then "-" else
  joinWith "," (bs.map fun b => s!"{b.base}:{b.lod}:{b.count}:{b.bytes.length}:{hdrBase b.bytes}")

def showSegs (ss : List Seg) : String :=
  if ss.isEmpty then "-" else
  joinWith ";" (ss.map fun s =>
    let es := joinWith "," (s.entries.map fun e => s!"{e.1}@{e.2}")
    s!"{s.base}:{s.last}:{s.size}[{es}]")

def showCached (l : PLog) : String :=
  let cs := l.segs.filter fun s => l.cacheOn && (cacheGet l.cached s.base).isSome
  if cs.isEmpty then "-" else joinWith "," (cs.map fun s => toString s.base)

def dump (l : PLog) : String :=
  s!"n={l.next} hw={l.hw} segs={showSegs l.segs} buf={showBatches l.buf} fl={showBatches l.fl} c={showCached l}"

def setLog (w : World) (k : Nat) (l : PLog) : World := { w with logs := w.logs.set k (some l) }

def getL (w : World) (k : Nat) (l : PLog) : LLog := { l := l, noIdx := w.lost.getD k [] }

def setL (w : World) (k : Nat) (x : LLog) : World :=
  { w with logs := w.logs.set k (some x.l), lost := w.lost.set k x.noIdx }

def showRead : ReadOut → String
  | .data b => "d:" ++ toHex b
  | .oor => "oor"
  | .err => "err"
  | .panic => "panic"

def parseEntries : List String → Option (List (Int × Int))
  | [] => some []
  | w :: t => match w.splitOn "@" with
    | [a, b] => do
      let o ← a.toInt?
      let p ← b.toInt?
      let r ← parseEntries t
      pure ((o, p) :: r)
    | _ => none

def stepLog (w : World) (k : Nat) (ws : List String) : World × String :=
  match ws with
  | ["new", iv, c, st] =>
    match iv.toInt?, st.toInt? with
    | some iv, some st =>
      if (c ≠ "0" ∧ c ≠ "1") ∨ w.gatedLog.isSome then (w, "bad-op") else
      let w := if k == 0 then World.init else w
      let l := PLog.new iv (c == "1") st
      (setL w k { l := l }, "new | " ++ dump l)
    | _, _ => (w, "bad-op")
  | _ =>
  match (w.logs.getD k none) with
  | none => (w, "bad-op")
  | some l =>
    match ws with
    | ["append", hx] =>
      match fromHex hx with
      | none => (w, "bad-op")
      | some data =>
        match parse data with
        | none => (w, "parse-err | " ++ dump l)
        | some b =>
          let (l', r) := append l b
          (setLog w k l', (match r with
            | .ok base last => s!"ok {base} {last}"
            | .rej => "rej") ++ " | " ++ dump l')
    | ["flush"] =>
      if w.gatedLog.isSome then (w, "busy") else
      let l' := flush l
      (setL w k (afterCommit (getL w k l) l'), "flushed | " ++ dump l')
    | ["gate"] =>
      if w.gatedLog.isSome then (w, "busy") else
      let (l', g) := gate l
      if g then ({ setLog w k l' with gatedLog := some k }, "gated | " ++ dump l')
      else (setL w k (afterCommit (getL w k l) l'), "nogate | " ++ dump l')
    | ["release"] =>
      if w.gatedLog != some k then (w, "busy") else
      let l' := release l
      ({ setL w k (afterCommit (getL w k l) l') with gatedLog := none }, "released | " ++ dump l')
    | ["restart"] =>
      if w.gatedLog.isSome then (w, "busy") else
      let (x', r) := restoreAt (getL w k l) l.hw
      (setL w k x', (match r with | .ok last => s!"restarted {last}" | .err => "err") ++ " | " ++ dump x'.l)
    | ["restartat", st] =>
      match st.toInt? with
      | none => (w, "bad-op")
      | some st =>
        if w.gatedLog.isSome then (w, "busy") else
        if st < l.origin ∨ st > l.hw then (w, "bad-op") else
        let (x', r) := restoreAt (getL w k l) st
        (setL w k x', (match r with | .ok last => s!"restarted {last}" | .err => "err") ++ " | " ++ dump x'.l)
    | ["dropcache"] =>
      if l.cacheOn then
        let w' := { w with logs := w.logs.map fun ol => ol.map fun q => if q.cacheOn then { q with cached := [] } else q }
        (w', "dropped | " ++ dump { l with cached := [] })
      else (w, "dropped | " ++ dump l)
    | ["read", o, m] =>
      match o.toInt?, m.toInt? with
      | some o, some m =>
        let (l', r) := read l o m
        (setLog w k l', (match r with
          | .data b => "data " ++ toHex b
          | .oor => "oor"
          | .err => "err"
          | .panic => "panic") ++ " | " ++ dump l')
      | _, _ => (w, "bad-op")
    | ["read2", o1, m1, o2, m2] =>
      match o1.toInt?, m1.toInt?, o2.toInt?, m2.toInt? with
      | some o1, some m1, some o2, some m2 =>
        let (l1, r1) := read l o1 m1
        let (l2, r2) := read l1 o2 m2
        (setLog w k l2, s!"read2 {showRead r1} {showRead r2} | " ++ dump l2)
      | _, _, _, _ => (w, "bad-op")
    | "find" :: o :: es =>
      match o.toInt?, parseEntries es with
      | some o, some es => let e := findIndexEntry es o; (w, s!"entry {e.1}@{e.2}")
      | _, _ => (w, "bad-op")
    | [lossOp, b] =>
      match b.toInt? with
      | none => (w, "bad-op")
      | some b =>
        if w.gatedLog.isSome then (w, "bad-op") else
        if lossOp == "delindex" || lossOp == "badindex" then
          (setL w k (loseIndex (getL w k l) b), "lost | " ++ dump l)
        else if lossOp == "delseg" then
          let x' := loseSeg (getL w k l) b
          (setL w k x', "lost | " ++ dump x'.l)
        else (w, "bad-op")
    | _ => (w, "bad-op")

/-! ### broker-level ops (`handleProduce` / `handleFetch` / broker restart) -/

/-- the watermark `handleFetch` bounds reads with: the metadata store's `NextOffset`, raised to the
in-memory `nextOffset` when flush-on-ack is off -/
def fetchWatermark (foa : Bool) (l : PLog) : Int :=
  if !foa && decide (l.next > l.hw) then l.next else l.hw

def stepBroker (w : World) (k : Nat) (ws : List String) : Option (World × String) :=
  match ws with
  | ["bnew", f] =>
    let l := PLog.new 100 true 0
    some ({ logs := [some l, some l, none], gatedLog := none, foa := f == "1" }, "bnew | " ++ dump l)
  | ["brestart"] =>
    match w.logs.getD 0 none with
    | none => some (w, "bad-op")
    | some _ =>
      let logs := w.logs.map fun ol => ol.map fun l => { (restart l).1 with cached := [] }
      some ({ w with logs := logs }, "brestarted | " ++ (match logs.getD 0 none with | some l => dump l | none => ""))
  | ["produce", acks, hx] =>
    match w.logs.getD k none, acks.toInt?, fromHex hx with
    | some l, some acks, some data =>
      match parse data with
      | none => some (w, (if acks == 0 then "noresp" else "rej -1") ++ " | " ++ dump l)
      | some b =>
        let (l', r) := append l b
        match r with
        | .rej => some (w, (if acks == 0 then "noresp" else "rej 2") ++ " | " ++ dump l)
        | .ok base _ =>
          let l'' := if acks != 0 && w.foa then flush l' else l'
          some (setLog w k l'', (if acks == 0 then "noresp" else s!"ok {base}") ++ " | " ++ dump l'')
    | _, _, _ => some (w, "bad-op")
  | ["fetch", o, m] =>
    match w.logs.getD k none, o.toInt?, m.toInt? with
    | some l, some o, some m =>
      let hw := fetchWatermark w.foa l
      if o > hw then some (w, s!"err 1 hw={hw} | " ++ dump l)
      else if o == hw then some (w, s!"data - hw={hw} | " ++ dump l)
      else
        let (l', r) := read l o m
        some (setLog w k l', (match r with
          | .data b => s!"data {toHex b} hw={hw}"
          | .oor => s!"err 1 hw={hw}"
          | .err => s!"err 7 hw={hw}"
          | .panic => "panic") ++ " | " ++ dump l')
    | _, _, _ => some (w, "bad-op")
  | _ => none

def stepLine (w : World) (ws : List String) : World × String :=
  match ws with
  | [] => (w, "bad-op")
  | first :: rest =>
    let (k, ops) := if first.startsWith "@" then (((first.drop 1).toNat?).getD 99, rest) else (0, ws)
    match (if k < 2 then stepBroker w k ops else none) with
    | some r => r
    | none =>
    if first.startsWith "@" then
      match (first.drop 1).toNat? with
      | some k => if k < 3 ∧ !rest.isEmpty then stepLog w k rest else (w, "bad-op")
      | none => (w, "bad-op")
    else stepLog w 0 ws

end KafVerif.PLogProto
