/-!
Row types of the lock / persist skeleton that `harness/C12/tools/extract` (go/ast) regenerates from
`pkg/broker/coordinator.go` on every run of C12, C13 and C15 (`lean/KafVerif/Gen/C12CoordOps.lean`).

One `Row` = one fact of one function, in source order.  ENTRY functions are the request paths the model
(`Model/Group/Coordinator.lean`) has a step for; HELPERS are the functions of the file an entry reaches that
have an effect (a `c.mu` operation, a call on `c.store`, a write of a groupState / memberState /
GroupCoordinator field), each with its own table.

  * `lock` / `unlock` / `deferUnlock`   `c.mu.Lock()`, `c.mu.Unlock()`, `defer c.mu.Unlock()`
  * `store m`                            call `c.store.m(..)`
  * `write t v fresh owner`              `t = v` for a field of groupState/memberState (`owner = "state"`) or of
                                         GroupCoordinator (`"coord"`); `delete(x.f, k)` has target `delete x.f`;
                                         `fresh`: the object was built by a composite literal in this function
  * `check c`                            an `if`/`switch` header that reads group state (a `range` header only
                                         when it names a state field)
  * `call f callee async`                call of helper `f` (`callee` = its function id; `go` statement: async)
  * `reply t v kind`                     `resp.F = v` for the returned local, `v` computed from group state or a
                                         coordinator field; kind = call | addr | field | other
  * `ret vals dirty unlocks`             return; `dirty`: group state was written since the last persist on some
                                         path to here; `unlocks`: a deferred `c.mu.Unlock()` runs here

`lk` is the abstract lock state on the paths that reach the row (`inherit`: a helper that never touches
`c.mu` — whatever its caller holds), `region` the number of `c.mu.Lock()` calls executed so far on the path:
two rows with `lk = held` and the same `region` have no `Unlock` between them.
-/
namespace KafVerif.CoordOps

inductive Lk where
  | held | free | inherit
deriving DecidableEq, Repr

inductive Ev where
  | lock
  | unlock
  | deferUnlock
  | store (method : String)
  | write (target value : String) (fresh : Bool) (owner : String)
  | check (cond : String)
  | call (fn : String) (callee : Nat) (async : Bool)
  | reply (target value kind : String)
  | ret (vals : List String) (dirty unlocks : Bool)
deriving DecidableEq, Repr

structure Row where
  fn : String
  fid : Nat          -- id of `fn` (FNV-1a of the name: stable when helpers come and go)
  entry : Bool
  lk : Lk
  region : Nat
  ev : Ev
deriving DecidableEq, Repr

/-- first index at which two tables differ (with the two rows found there) -/
def firstDiff : List Row → List Row → Nat → Option (Nat × Option Row × Option Row)
  | [], [], _ => none
  | a :: _, [], i => some (i, some a, none)
  | [], b :: _, i => some (i, none, some b)
  | a :: as, b :: bs, i => if a = b then firstDiff as bs (i + 1) else some (i, some a, some b)

theorem firstDiff_none_iff (xs ys : List Row) (i : Nat) : firstDiff xs ys i = none ↔ xs = ys := by
  induction xs generalizing ys i with
  | nil => cases ys <;> simp [firstDiff]
  | cons a as ih =>
    cases ys with
    | nil => simp [firstDiff]
    | cons b bs =>
      by_cases h : a = b
      · simp [firstDiff, h, ih]
      · simp [firstDiff, h]

def Lk.show : Lk → String
  | .held => "c.mu held"
  | .free => "c.mu NOT held"
  | .inherit => "lock of the caller"

/-- human-readable one-liner for diagnostics -/
def Row.show (r : Row) : String :=
  let ev := match r.ev with
    | .lock => "c.mu.Lock()"
    | .unlock => "c.mu.Unlock()"
    | .deferUnlock => "defer c.mu.Unlock()"
    | .store m => "c.store." ++ m ++ "(..)"
    | .write t v f _ => t ++ " := " ++ v ++ (if f then "  (fresh object)" else "")
    | .check c => "if " ++ c
    | .call f _ a => (if a then "go " else "") ++ f ++ "(..)"
    | .reply t v k => t ++ " := " ++ v ++ "  (" ++ k ++ ")"
    | .ret vals d u => "return " ++ ", ".intercalate vals ++ (if d then "  [state written, not persisted]" else "") ++
        (if u then "  [deferred Unlock]" else "")
  r.fn ++ ": " ++ ev ++ "   [" ++ r.lk.show ++ ", lock region " ++ toString r.region ++ "]"

def showDiff (what : String) (extracted expected : List Row) : List String :=
  match firstDiff extracted expected 0 with
  | none => []
  | some (i, a, b) =>
    [what ++ ": row " ++ toString i ++ " differs",
     "  source now : " ++ (match a with | some r => r.show | none => "(no further row)"),
     "  model needs: " ++ (match b with | some r => r.show | none => "(no further row)")]

end KafVerif.CoordOps
