import KafVerif.Model.Group.CoordSrcOps
/-!
C12 / C13 / C15, static tie: the lock / persist skeleton of `pkg/broker/coordinator.go` the model
(`Model/Group/Coordinator.lean`) was written against, and the predicates over such a skeleton that the
model's ONE-REQUEST-ONE-STEP reading of the code rests on.

The model executes every request (`join`, `sync`, `heartbeat`, `leave`, `commit`, `cleanup`) as a single
atomic transition that ends with `persist`.  That is faithful only while, in the source,

  * every group-state write and every persisting store call (`PutConsumerGroup`, `DeleteConsumerGroup`,
    `CommitConsumerOffset`) happens with `c.mu` held                      (`stateWritesLocked`, `storeWritesLocked`);
  * each request has ONE critical section: no `Unlock` … `Lock` between its generation / member checks and
    the state writes, store calls and reply construction that depend on them        (`oneRegion`);
  * a reply that reports success is only returned after the state it reports was handed to the store, by the
    same goroutine, synchronously                                                    (`persistBeforeReply`);
  * bytes handed out in a reply are freshly built, never a buffer kept on the coordinator  (`replyBytesFresh`);
  * no return leaves with the mutex held                                             (`lockBalanced`).

`expected` below is the skeleton of the code the model mirrors, one section per function, each naming the
model definition it stands for.  `Props/C12Ops.lean` proves that the skeleton regenerated from the CURRENT
source equals `expected` and that the predicates hold on it.
-/
namespace KafVerif.CoordOps

-- BEGIN SECTIONS (written by harness/C12/tools/mkspec.py from the extractor output; review the diff before keeping it)
/-- `JoinGroup` ↦ model `join` (= ensureGroup, joinMember, joinPhase, joinMark, joinFinish, joinReply, persist) — ONE step of the model -/
def sec_JoinGroup : List Row := [
  ⟨"JoinGroup", 373232048, true, .held, 1, .lock⟩,
  ⟨"JoinGroup", 373232048, true, .held, 1, .call "ensureGroup" 1073514270 false⟩,
  ⟨"JoinGroup", 373232048, true, .held, 1, .check "err != nil"⟩,
  ⟨"JoinGroup", 373232048, true, .held, 1, .unlock⟩,
  ⟨"JoinGroup", 373232048, true, .free, 1, .ret ["nil", "err"] false false⟩,
  ⟨"JoinGroup", 373232048, true, .held, 1, .write "state.protocolType" "req.ProtocolType" false "state"⟩,
  ⟨"JoinGroup", 373232048, true, .held, 1, .write "state.protocolName" "req.Protocols[0].Name" false "state"⟩,
  ⟨"JoinGroup", 373232048, true, .held, 1, .check "memberID == \"\" || member == nil"⟩,
  ⟨"JoinGroup", 373232048, true, .held, 1, .write "state.members[memberID]" "member" false "state"⟩,
  ⟨"JoinGroup", 373232048, true, .held, 1, .write "member.sessionTimeout" "time.Duration(req.SessionTimeoutMillis) * time.Millisecond" false "state"⟩,
  ⟨"JoinGroup", 373232048, true, .held, 1, .check "member.sessionTimeout == 0"⟩,
  ⟨"JoinGroup", 373232048, true, .held, 1, .write "member.sessionTimeout" "defaultSessionTimeout" false "state"⟩,
  ⟨"JoinGroup", 373232048, true, .held, 1, .write "member.topics" "c.parseSubscriptionTopics(req.Protocols)" false "state"⟩,
  ⟨"JoinGroup", 373232048, true, .held, 1, .write "member.lastHeartbeat" "time.Now()" false "state"⟩,
  ⟨"JoinGroup", 373232048, true, .held, 1, .check "len(state.members) == 1 && state.state == groupStateEmpty"⟩,
  ⟨"JoinGroup", 373232048, true, .held, 1, .write "state.leaderID" "memberID" false "state"⟩,
  ⟨"JoinGroup", 373232048, true, .held, 1, .call "startRebalance" 1758786586 false⟩,
  ⟨"JoinGroup", 373232048, true, .held, 1, .check "state.state == groupStateStable && !exists"⟩,
  ⟨"JoinGroup", 373232048, true, .held, 1, .call "startRebalance" 1758786586 false⟩,
  ⟨"JoinGroup", 373232048, true, .held, 1, .check "state.state == groupStateStable && !slices.Equal(previousTopics, member.topics)"⟩,
  ⟨"JoinGroup", 373232048, true, .held, 1, .call "startRebalance" 1758786586 false⟩,
  ⟨"JoinGroup", 373232048, true, .held, 1, .check "state.state == groupStateEmpty"⟩,
  ⟨"JoinGroup", 373232048, true, .held, 1, .call "startRebalance" 1758786586 false⟩,
  ⟨"JoinGroup", 373232048, true, .held, 1, .check "state.state == groupStatePreparingRebalance || state.state == groupStateCompletingRebalance"⟩,
  ⟨"JoinGroup", 373232048, true, .held, 1, .call "bumpRebalanceDeadline" 1943582328 false⟩,
  ⟨"JoinGroup", 373232048, true, .held, 1, .write "member.joinGeneration" "state.generationID" false "state"⟩,
  ⟨"JoinGroup", 373232048, true, .held, 1, .check "state.leaderID == \"\""⟩,
  ⟨"JoinGroup", 373232048, true, .held, 1, .call "ensureLeader" 1839402498 false⟩,
  ⟨"JoinGroup", 373232048, true, .held, 1, .check "!ready"⟩,
  ⟨"JoinGroup", 373232048, true, .held, 1, .call "completeIfReady" 156153604 false⟩,
  ⟨"JoinGroup", 373232048, true, .held, 1, .reply "resp.Generation" "state.generationID" "field"⟩,
  ⟨"JoinGroup", 373232048, true, .held, 1, .reply "resp.Protocol" "&state.protocolName" "addr"⟩,
  ⟨"JoinGroup", 373232048, true, .held, 1, .reply "resp.LeaderID" "state.leaderID" "field"⟩,
  ⟨"JoinGroup", 373232048, true, .held, 1, .reply "resp.MemberID" "memberID" "field"⟩,
  ⟨"JoinGroup", 373232048, true, .held, 1, .check "ready && memberID == state.leaderID"⟩,
  ⟨"JoinGroup", 373232048, true, .held, 1, .reply "resp.Members" "c.encodeMemberSubscriptions(state)" "call"⟩,
  ⟨"JoinGroup", 373232048, true, .held, 1, .check "ready"⟩,
  ⟨"JoinGroup", 373232048, true, .held, 1, .call "persistGroupLocked" 360340956 false⟩,
  ⟨"JoinGroup", 373232048, true, .held, 1, .check "err != nil"⟩,
  ⟨"JoinGroup", 373232048, true, .held, 1, .unlock⟩,
  ⟨"JoinGroup", 373232048, true, .free, 1, .ret ["resp", "nil"] false false⟩]

/-- `SyncGroup` ↦ model `sync` (= loadGroup, the four fencing checks, leaderAssign, syncFinish, persist) — ONE step -/
def sec_SyncGroup : List Row := [
  ⟨"SyncGroup", 1226214797, true, .held, 1, .lock⟩,
  ⟨"SyncGroup", 1226214797, true, .held, 1, .call "loadGroupIfMissing" 212243093 false⟩,
  ⟨"SyncGroup", 1226214797, true, .held, 1, .check "err != nil"⟩,
  ⟨"SyncGroup", 1226214797, true, .held, 1, .unlock⟩,
  ⟨"SyncGroup", 1226214797, true, .free, 1, .ret ["nil", "err"] false false⟩,
  ⟨"SyncGroup", 1226214797, true, .held, 1, .check "state == nil"⟩,
  ⟨"SyncGroup", 1226214797, true, .held, 1, .unlock⟩,
  ⟨"SyncGroup", 1226214797, true, .free, 1, .ret ["mkErrResp(protocol.UNKNOWN_MEMBER_ID)", "nil"] false false⟩,
  ⟨"SyncGroup", 1226214797, true, .held, 1, .check "req.Generation != state.generationID"⟩,
  ⟨"SyncGroup", 1226214797, true, .held, 1, .unlock⟩,
  ⟨"SyncGroup", 1226214797, true, .free, 1, .ret ["mkErrResp(protocol.ILLEGAL_GENERATION)", "nil"] false false⟩,
  ⟨"SyncGroup", 1226214797, true, .held, 1, .check "!ok"⟩,
  ⟨"SyncGroup", 1226214797, true, .held, 1, .unlock⟩,
  ⟨"SyncGroup", 1226214797, true, .free, 1, .ret ["mkErrResp(protocol.UNKNOWN_MEMBER_ID)", "nil"] false false⟩,
  ⟨"SyncGroup", 1226214797, true, .held, 1, .check "state.state == groupStatePreparingRebalance"⟩,
  ⟨"SyncGroup", 1226214797, true, .held, 1, .unlock⟩,
  ⟨"SyncGroup", 1226214797, true, .free, 1, .ret ["mkErrResp(protocol.REBALANCE_IN_PROGRESS)", "nil"] false false⟩,
  ⟨"SyncGroup", 1226214797, true, .held, 1, .check "state.state == groupStateCompletingRebalance && len(state.assignments) == 0"⟩,
  ⟨"SyncGroup", 1226214797, true, .held, 1, .check "req.MemberID != state.leaderID"⟩,
  ⟨"SyncGroup", 1226214797, true, .held, 1, .unlock⟩,
  ⟨"SyncGroup", 1226214797, true, .free, 1, .ret ["mkErrResp(protocol.REBALANCE_IN_PROGRESS)", "nil"] false false⟩,
  ⟨"SyncGroup", 1226214797, true, .held, 1, .call "assignPartitions" 2316168795 false⟩,
  ⟨"SyncGroup", 1226214797, true, .held, 1, .write "state.assignments" "c.assignPartitions(ctx, state)" false "state"⟩,
  ⟨"SyncGroup", 1226214797, true, .held, 1, .call "markStable" 1268681347 false⟩,
  ⟨"SyncGroup", 1226214797, true, .held, 1, .check "assignments == nil && state.state != groupStateStable"⟩,
  ⟨"SyncGroup", 1226214797, true, .held, 1, .unlock⟩,
  ⟨"SyncGroup", 1226214797, true, .free, 1, .ret ["mkErrResp(protocol.REBALANCE_IN_PROGRESS)", "nil"] true false⟩,
  ⟨"SyncGroup", 1226214797, true, .held, 1, .check "state.protocolType != \"\""⟩,
  ⟨"SyncGroup", 1226214797, true, .held, 1, .reply "resp.ProtocolType" "&state.protocolType" "addr"⟩,
  ⟨"SyncGroup", 1226214797, true, .held, 1, .check "state.protocolName != \"\""⟩,
  ⟨"SyncGroup", 1226214797, true, .held, 1, .reply "resp.Protocol" "&state.protocolName" "addr"⟩,
  ⟨"SyncGroup", 1226214797, true, .held, 1, .reply "resp.MemberAssignment" "encodeAssignment(assignments)" "call"⟩,
  ⟨"SyncGroup", 1226214797, true, .held, 1, .call "persistGroupLocked" 360340956 false⟩,
  ⟨"SyncGroup", 1226214797, true, .held, 1, .check "err != nil"⟩,
  ⟨"SyncGroup", 1226214797, true, .held, 1, .unlock⟩,
  ⟨"SyncGroup", 1226214797, true, .free, 1, .ret ["resp", "nil"] false false⟩]

/-- `Heartbeat` ↦ model `heartbeat` (= loadGroup, member / generation check, lastHb update, persist) — ONE step -/
def sec_Heartbeat : List Row := [
  ⟨"Heartbeat", 1315087287, true, .held, 1, .lock⟩,
  ⟨"Heartbeat", 1315087287, true, .held, 1, .call "loadGroupIfMissing" 212243093 false⟩,
  ⟨"Heartbeat", 1315087287, true, .held, 1, .check "err != nil"⟩,
  ⟨"Heartbeat", 1315087287, true, .held, 1, .unlock⟩,
  ⟨"Heartbeat", 1315087287, true, .free, 1, .ret ["mkResp(protocol.UNKNOWN_SERVER_ERROR)"] false false⟩,
  ⟨"Heartbeat", 1315087287, true, .held, 1, .check "state == nil"⟩,
  ⟨"Heartbeat", 1315087287, true, .held, 1, .unlock⟩,
  ⟨"Heartbeat", 1315087287, true, .free, 1, .ret ["mkResp(protocol.UNKNOWN_MEMBER_ID)"] false false⟩,
  ⟨"Heartbeat", 1315087287, true, .held, 1, .check "member == nil"⟩,
  ⟨"Heartbeat", 1315087287, true, .held, 1, .unlock⟩,
  ⟨"Heartbeat", 1315087287, true, .free, 1, .ret ["mkResp(protocol.UNKNOWN_MEMBER_ID)"] false false⟩,
  ⟨"Heartbeat", 1315087287, true, .held, 1, .check "req.Generation != state.generationID"⟩,
  ⟨"Heartbeat", 1315087287, true, .held, 1, .unlock⟩,
  ⟨"Heartbeat", 1315087287, true, .free, 1, .ret ["mkResp(protocol.ILLEGAL_GENERATION)"] false false⟩,
  ⟨"Heartbeat", 1315087287, true, .held, 1, .write "member.lastHeartbeat" "time.Now()" false "state"⟩,
  ⟨"Heartbeat", 1315087287, true, .held, 1, .check "state.state != groupStateStable"⟩,
  ⟨"Heartbeat", 1315087287, true, .held, 1, .call "persistGroupLocked" 360340956 false⟩,
  ⟨"Heartbeat", 1315087287, true, .held, 1, .check "err != nil"⟩,
  ⟨"Heartbeat", 1315087287, true, .held, 1, .unlock⟩,
  ⟨"Heartbeat", 1315087287, true, .free, 1, .ret ["resp"] false false⟩]

/-- `LeaveGroup` ↦ model `leave` (= loadGroup, member check, leaveCore, persist / delete) — ONE step -/
def sec_LeaveGroup : List Row := [
  ⟨"LeaveGroup", 1385767587, true, .held, 1, .lock⟩,
  ⟨"LeaveGroup", 1385767587, true, .held, 1, .call "loadGroupIfMissing" 212243093 false⟩,
  ⟨"LeaveGroup", 1385767587, true, .held, 1, .check "err != nil"⟩,
  ⟨"LeaveGroup", 1385767587, true, .held, 1, .unlock⟩,
  ⟨"LeaveGroup", 1385767587, true, .free, 1, .ret ["mkResp(protocol.UNKNOWN_SERVER_ERROR)"] false false⟩,
  ⟨"LeaveGroup", 1385767587, true, .held, 1, .check "state == nil"⟩,
  ⟨"LeaveGroup", 1385767587, true, .held, 1, .unlock⟩,
  ⟨"LeaveGroup", 1385767587, true, .free, 1, .ret ["mkResp(protocol.UNKNOWN_MEMBER_ID)"] false false⟩,
  ⟨"LeaveGroup", 1385767587, true, .held, 1, .check "!ok"⟩,
  ⟨"LeaveGroup", 1385767587, true, .held, 1, .unlock⟩,
  ⟨"LeaveGroup", 1385767587, true, .free, 1, .ret ["mkResp(protocol.UNKNOWN_MEMBER_ID)"] false false⟩,
  ⟨"LeaveGroup", 1385767587, true, .held, 1, .write "delete state.members" "req.MemberID" false "state"⟩,
  ⟨"LeaveGroup", 1385767587, true, .held, 1, .write "delete state.assignments" "req.MemberID" false "state"⟩,
  ⟨"LeaveGroup", 1385767587, true, .held, 1, .check "len(state.members) == 0"⟩,
  ⟨"LeaveGroup", 1385767587, true, .held, 1, .write "delete c.groups" "req.Group" false "coord"⟩,
  ⟨"LeaveGroup", 1385767587, true, .held, 1, .call "persistGroupLocked" 360340956 false⟩,
  ⟨"LeaveGroup", 1385767587, true, .held, 1, .check "err != nil"⟩,
  ⟨"LeaveGroup", 1385767587, true, .held, 1, .unlock⟩,
  ⟨"LeaveGroup", 1385767587, true, .free, 1, .ret ["resp"] false false⟩,
  ⟨"LeaveGroup", 1385767587, true, .held, 1, .check "state.leaderID == req.MemberID"⟩,
  ⟨"LeaveGroup", 1385767587, true, .held, 1, .write "state.leaderID" "\"\"" false "state"⟩,
  ⟨"LeaveGroup", 1385767587, true, .held, 1, .call "startRebalance" 1758786586 false⟩,
  ⟨"LeaveGroup", 1385767587, true, .held, 1, .call "persistGroupLocked" 360340956 false⟩,
  ⟨"LeaveGroup", 1385767587, true, .held, 1, .check "err != nil"⟩,
  ⟨"LeaveGroup", 1385767587, true, .held, 1, .unlock⟩,
  ⟨"LeaveGroup", 1385767587, true, .free, 1, .ret ["resp"] false false⟩]

/-- `OffsetCommit` ↦ model `commit` (= loadGroup, commitCheck, commitWrites) — ONE step since the C13 fix (defer Unlock) -/
def sec_OffsetCommit : List Row := [
  ⟨"OffsetCommit", 2133201031, true, .held, 1, .lock⟩,
  ⟨"OffsetCommit", 2133201031, true, .held, 1, .deferUnlock⟩,
  ⟨"OffsetCommit", 2133201031, true, .held, 1, .call "loadGroupIfMissing" 212243093 false⟩,
  ⟨"OffsetCommit", 2133201031, true, .held, 1, .check "err != nil"⟩,
  ⟨"OffsetCommit", 2133201031, true, .held, 1, .ret ["nil", "err"] false true⟩,
  ⟨"OffsetCommit", 2133201031, true, .held, 1, .check "state == nil"⟩,
  ⟨"OffsetCommit", 2133201031, true, .held, 1, .check "!ok"⟩,
  ⟨"OffsetCommit", 2133201031, true, .held, 1, .check "req.Generation != state.generationID"⟩,
  ⟨"OffsetCommit", 2133201031, true, .held, 1, .store "CommitConsumerOffset"⟩,
  ⟨"OffsetCommit", 2133201031, true, .held, 1, .check "err != nil"⟩,
  ⟨"OffsetCommit", 2133201031, true, .held, 1, .ret ["resp", "nil"] false true⟩]

/-- `OffsetFetch` ↦ model `fetch` — takes no lock, reads the store only -/
def sec_OffsetFetch : List Row := [
  ⟨"OffsetFetch", 4030500494, true, .free, 0, .call "fetchCommittedOffset" 293414232 false⟩,
  ⟨"OffsetFetch", 4030500494, true, .free, 0, .check "err != nil"⟩,
  ⟨"OffsetFetch", 4030500494, true, .free, 0, .ret ["resp", "nil"] false false⟩]

/-- `fetchCommittedOffset` ↦ model `fetchRows` (one row) -/
def sec_fetchCommittedOffset : List Row := [
  ⟨"fetchCommittedOffset", 293414232, false, .inherit, 0, .store "FetchConsumerOffset"⟩,
  ⟨"fetchCommittedOffset", 293414232, false, .inherit, 0, .ret ["c.store.FetchConsumerOffset(ctx, group, topic, partition)"] false false⟩,
  ⟨"fetchCommittedOffset", 293414232, false, .inherit, 0, .store "LookupConsumerOffset"⟩,
  ⟨"fetchCommittedOffset", 293414232, false, .inherit, 0, .check "err == nil && !found"⟩,
  ⟨"fetchCommittedOffset", 293414232, false, .inherit, 0, .ret ["-1", "\"\"", "nil"] false false⟩,
  ⟨"fetchCommittedOffset", 293414232, false, .inherit, 0, .ret ["offset", "metadataStr", "err"] false false⟩]

/-- `ensureGroup` ↦ model `ensureGroup` -/
def sec_ensureGroup : List Row := [
  ⟨"ensureGroup", 1073514270, false, .inherit, 0, .check "ok"⟩,
  ⟨"ensureGroup", 1073514270, false, .inherit, 0, .ret ["state", "nil"] false false⟩,
  ⟨"ensureGroup", 1073514270, false, .inherit, 0, .call "loadGroupIfMissing" 212243093 false⟩,
  ⟨"ensureGroup", 1073514270, false, .inherit, 0, .check "err != nil"⟩,
  ⟨"ensureGroup", 1073514270, false, .inherit, 0, .ret ["nil", "err"] false false⟩,
  ⟨"ensureGroup", 1073514270, false, .inherit, 0, .check "state != nil"⟩,
  ⟨"ensureGroup", 1073514270, false, .inherit, 0, .ret ["state", "nil"] false false⟩,
  ⟨"ensureGroup", 1073514270, false, .inherit, 0, .write "c.groups[groupID]" "state" false "coord"⟩,
  ⟨"ensureGroup", 1073514270, false, .inherit, 0, .ret ["state", "nil"] false false⟩]

/-- `loadGroupIfMissing` ↦ model `loadGroup` (the restore path: FetchConsumerGroup, restore, cache) -/
def sec_loadGroupIfMissing : List Row := [
  ⟨"loadGroupIfMissing", 212243093, false, .inherit, 0, .check "ok"⟩,
  ⟨"loadGroupIfMissing", 212243093, false, .inherit, 0, .ret ["state", "nil"] false false⟩,
  ⟨"loadGroupIfMissing", 212243093, false, .inherit, 0, .store "FetchConsumerGroup"⟩,
  ⟨"loadGroupIfMissing", 212243093, false, .inherit, 0, .check "err != nil"⟩,
  ⟨"loadGroupIfMissing", 212243093, false, .inherit, 0, .ret ["nil", "err"] false false⟩,
  ⟨"loadGroupIfMissing", 212243093, false, .inherit, 0, .check "group == nil"⟩,
  ⟨"loadGroupIfMissing", 212243093, false, .inherit, 0, .ret ["nil", "nil"] false false⟩,
  ⟨"loadGroupIfMissing", 212243093, false, .inherit, 0, .call "restoreGroupState" 385884333 false⟩,
  ⟨"loadGroupIfMissing", 212243093, false, .inherit, 0, .write "c.groups[groupID]" "state" false "coord"⟩,
  ⟨"loadGroupIfMissing", 212243093, false, .inherit, 0, .ret ["state", "nil"] false false⟩]

/-- `persistGroupLocked` ↦ model `persist` (Delete when no member is left, Put otherwise) -/
def sec_persistGroupLocked : List Row := [
  ⟨"persistGroupLocked", 360340956, false, .inherit, 0, .check "state == nil || len(state.members) == 0"⟩,
  ⟨"persistGroupLocked", 360340956, false, .inherit, 0, .store "DeleteConsumerGroup"⟩,
  ⟨"persistGroupLocked", 360340956, false, .inherit, 0, .ret ["c.store.DeleteConsumerGroup(ctx, groupID)"] false false⟩,
  ⟨"persistGroupLocked", 360340956, false, .inherit, 0, .store "PutConsumerGroup"⟩,
  ⟨"persistGroupLocked", 360340956, false, .inherit, 0, .ret ["c.store.PutConsumerGroup(ctx, group)"] false false⟩]

/-- `restoreGroupState` ↦ model `restore` (writes go to the freshly built object only) -/
def sec_restoreGroupState : List Row := [
  ⟨"restoreGroupState", 385884333, false, .inherit, 0, .check "state.state == groupStatePreparingRebalance"⟩,
  ⟨"restoreGroupState", 385884333, false, .inherit, 0, .write "entry.lastHeartbeat" "parsed" true "state"⟩,
  ⟨"restoreGroupState", 385884333, false, .inherit, 0, .write "state.members[memberID]" "entry" true "state"⟩,
  ⟨"restoreGroupState", 385884333, false, .inherit, 0, .write "state.assignments[memberID]" "memberAssignments" true "state"⟩,
  ⟨"restoreGroupState", 385884333, false, .inherit, 0, .check "state.state == groupStatePreparingRebalance || state.state == groupStateCompletingRebalance"⟩,
  ⟨"restoreGroupState", 385884333, false, .inherit, 0, .write "state.rebalanceDeadline" "time.Now().Add(state.rebalanceTimeout)" true "state"⟩,
  ⟨"restoreGroupState", 385884333, false, .inherit, 0, .call "ensureLeader" 1839402498 false⟩,
  ⟨"restoreGroupState", 385884333, false, .inherit, 0, .ret ["state"] false false⟩]

/-- `assignPartitions` ↦ model `assignPartitions` (first calls collectTopicPartitions = `partsOf` for every subscribed topic) -/
def sec_assignPartitions : List Row := [
  ⟨"assignPartitions", 2316168795, false, .inherit, 0, .call "collectTopicPartitions" 3800458599 false⟩,
  ⟨"assignPartitions", 2316168795, false, .inherit, 0, .check "len(state.members) == 0"⟩,
  ⟨"assignPartitions", 2316168795, false, .inherit, 0, .ret ["map[string][]assignmentTopic{}"] false false⟩,
  ⟨"assignPartitions", 2316168795, false, .inherit, 0, .check "memberSubscribes(state.members[memberID], topic)"⟩,
  ⟨"assignPartitions", 2316168795, false, .inherit, 0, .check "len(eligible) == 0"⟩,
  ⟨"assignPartitions", 2316168795, false, .inherit, 0, .check "len(topics) == 0"⟩,
  ⟨"assignPartitions", 2316168795, false, .inherit, 0, .ret ["assignments"] false false⟩]

/-- `collectTopicPartitions` ↦ model `partsOf` / the `metadata` fault: the one store READ of the leader's sync -/
def sec_collectTopicPartitions : List Row := [
  ⟨"collectTopicPartitions", 3800458599, false, .inherit, 0, .check "range state.members"⟩,
  ⟨"collectTopicPartitions", 3800458599, false, .inherit, 0, .check "range member.topics"⟩,
  ⟨"collectTopicPartitions", 3800458599, false, .inherit, 0, .check "!ok"⟩,
  ⟨"collectTopicPartitions", 3800458599, false, .inherit, 0, .check "len(subscriptions) == 0"⟩,
  ⟨"collectTopicPartitions", 3800458599, false, .inherit, 0, .ret ["map[string][]int32{}"] false false⟩,
  ⟨"collectTopicPartitions", 3800458599, false, .inherit, 0, .store "Metadata"⟩,
  ⟨"collectTopicPartitions", 3800458599, false, .inherit, 0, .check "err != nil || meta == nil"⟩,
  ⟨"collectTopicPartitions", 3800458599, false, .inherit, 0, .ret ["result"] false false⟩,
  ⟨"collectTopicPartitions", 3800458599, false, .inherit, 0, .check "len(partitions) == 0"⟩,
  ⟨"collectTopicPartitions", 3800458599, false, .inherit, 0, .ret ["result"] false false⟩]

/-- `cleanupGroups` ↦ model `cleanup` (= cleanupOutcome, cleanupGroup per loaded group) — ONE step, whole loop under the lock -/
def sec_cleanupGroups : List Row := [
  ⟨"cleanupGroups", 2838853979, true, .held, 1, .lock⟩,
  ⟨"cleanupGroups", 2838853979, true, .held, 1, .deferUnlock⟩,
  ⟨"cleanupGroups", 2838853979, true, .held, 1, .check "range c.groups"⟩,
  ⟨"cleanupGroups", 2838853979, true, .held, 1, .call "removeExpiredMembers" 1085485413 false⟩,
  ⟨"cleanupGroups", 2838853979, true, .held, 1, .call "dropRebalanceLaggers" 3767977962 false⟩,
  ⟨"cleanupGroups", 2838853979, true, .held, 1, .check "len(state.members) == 0"⟩,
  ⟨"cleanupGroups", 2838853979, true, .held, 1, .write "delete c.groups" "groupID" false "coord"⟩,
  ⟨"cleanupGroups", 2838853979, true, .held, 1, .call "persistGroupLocked" 360340956 false⟩,
  ⟨"cleanupGroups", 2838853979, true, .held, 1, .check "removed || lostDuringRebalance"⟩,
  ⟨"cleanupGroups", 2838853979, true, .held, 1, .call "startRebalance" 1758786586 false⟩,
  ⟨"cleanupGroups", 2838853979, true, .held, 1, .call "persistGroupLocked" 360340956 false⟩]

/-- `ensureLeader` ↦ model `ensureLeader` -/
def sec_ensureLeader : List Row := [
  ⟨"ensureLeader", 1839402498, false, .inherit, 0, .check "s.leaderID != \"\""⟩,
  ⟨"ensureLeader", 1839402498, false, .inherit, 0, .check "ok"⟩,
  ⟨"ensureLeader", 1839402498, false, .inherit, 0, .ret [] false false⟩,
  ⟨"ensureLeader", 1839402498, false, .inherit, 0, .check "len(s.members) == 0"⟩,
  ⟨"ensureLeader", 1839402498, false, .inherit, 0, .write "s.leaderID" "\"\"" false "state"⟩,
  ⟨"ensureLeader", 1839402498, false, .inherit, 0, .ret [] true false⟩,
  ⟨"ensureLeader", 1839402498, false, .inherit, 0, .write "s.leaderID" "ids[0]" false "state"⟩]

/-- `startRebalance` ↦ model `startRebalance` (the only place the generation grows) -/
def sec_startRebalance : List Row := [
  ⟨"startRebalance", 1758786586, false, .inherit, 0, .check "len(s.members) == 0"⟩,
  ⟨"startRebalance", 1758786586, false, .inherit, 0, .write "s.state" "groupStateEmpty" false "state"⟩,
  ⟨"startRebalance", 1758786586, false, .inherit, 0, .write "s.assignments" "make(map[string][]assignmentTopic)" false "state"⟩,
  ⟨"startRebalance", 1758786586, false, .inherit, 0, .write "s.rebalanceDeadline" "time.Time{}" false "state"⟩,
  ⟨"startRebalance", 1758786586, false, .inherit, 0, .write "s.leaderID" "\"\"" false "state"⟩,
  ⟨"startRebalance", 1758786586, false, .inherit, 0, .ret [] true false⟩,
  ⟨"startRebalance", 1758786586, false, .inherit, 0, .write "s.rebalanceTimeout" "timeout" false "state"⟩,
  ⟨"startRebalance", 1758786586, false, .inherit, 0, .check "s.rebalanceTimeout == 0"⟩,
  ⟨"startRebalance", 1758786586, false, .inherit, 0, .write "s.rebalanceTimeout" "defaultRebalanceTimeout" false "state"⟩,
  ⟨"startRebalance", 1758786586, false, .inherit, 0, .write "s.generationID" "++" false "state"⟩,
  ⟨"startRebalance", 1758786586, false, .inherit, 0, .write "s.state" "groupStatePreparingRebalance" false "state"⟩,
  ⟨"startRebalance", 1758786586, false, .inherit, 0, .write "s.assignments" "make(map[string][]assignmentTopic)" false "state"⟩,
  ⟨"startRebalance", 1758786586, false, .inherit, 0, .write "s.rebalanceDeadline" "time.Now().Add(s.rebalanceTimeout)" false "state"⟩,
  ⟨"startRebalance", 1758786586, false, .inherit, 0, .call "ensureLeader" 1839402498 false⟩,
  ⟨"startRebalance", 1758786586, false, .inherit, 0, .check "range s.members"⟩,
  ⟨"startRebalance", 1758786586, false, .inherit, 0, .write "member.joinGeneration" "0" false "state"⟩]

/-- `bumpRebalanceDeadline` ↦ model `bump` -/
def sec_bumpRebalanceDeadline : List Row := [
  ⟨"bumpRebalanceDeadline", 1943582328, false, .inherit, 0, .write "s.rebalanceTimeout" "timeout" false "state"⟩,
  ⟨"bumpRebalanceDeadline", 1943582328, false, .inherit, 0, .check "s.rebalanceTimeout == 0"⟩,
  ⟨"bumpRebalanceDeadline", 1943582328, false, .inherit, 0, .write "s.rebalanceTimeout" "defaultRebalanceTimeout" false "state"⟩,
  ⟨"bumpRebalanceDeadline", 1943582328, false, .inherit, 0, .write "s.rebalanceDeadline" "time.Now().Add(s.rebalanceTimeout)" false "state"⟩]

/-- `completeIfReady` ↦ model `completeIfReady` -/
def sec_completeIfReady : List Row := [
  ⟨"completeIfReady", 156153604, false, .inherit, 0, .check "len(s.members) == 0"⟩,
  ⟨"completeIfReady", 156153604, false, .inherit, 0, .ret ["false"] false false⟩,
  ⟨"completeIfReady", 156153604, false, .inherit, 0, .check "range s.members"⟩,
  ⟨"completeIfReady", 156153604, false, .inherit, 0, .check "member.joinGeneration != s.generationID"⟩,
  ⟨"completeIfReady", 156153604, false, .inherit, 0, .ret ["false"] false false⟩,
  ⟨"completeIfReady", 156153604, false, .inherit, 0, .write "s.state" "groupStateCompletingRebalance" false "state"⟩,
  ⟨"completeIfReady", 156153604, false, .inherit, 0, .write "s.rebalanceDeadline" "time.Time{}" false "state"⟩,
  ⟨"completeIfReady", 156153604, false, .inherit, 0, .ret ["true"] true false⟩]

/-- `markStable` ↦ model `markStable` -/
def sec_markStable : List Row := [
  ⟨"markStable", 1268681347, false, .inherit, 0, .check "s.state != groupStateDead"⟩,
  ⟨"markStable", 1268681347, false, .inherit, 0, .write "s.state" "groupStateStable" false "state"⟩,
  ⟨"markStable", 1268681347, false, .inherit, 0, .write "s.rebalanceDeadline" "time.Time{}" false "state"⟩]

/-- `removeExpiredMembers` ↦ model `removeExpired` -/
def sec_removeExpiredMembers : List Row := [
  ⟨"removeExpiredMembers", 1085485413, false, .inherit, 0, .check "range s.members"⟩,
  ⟨"removeExpiredMembers", 1085485413, false, .inherit, 0, .check "timeout == 0"⟩,
  ⟨"removeExpiredMembers", 1085485413, false, .inherit, 0, .check "now.Sub(member.lastHeartbeat) > timeout"⟩,
  ⟨"removeExpiredMembers", 1085485413, false, .inherit, 0, .write "delete s.members" "memberID" false "state"⟩,
  ⟨"removeExpiredMembers", 1085485413, false, .inherit, 0, .write "delete s.assignments" "memberID" false "state"⟩,
  ⟨"removeExpiredMembers", 1085485413, false, .inherit, 0, .check "s.leaderID == memberID"⟩,
  ⟨"removeExpiredMembers", 1085485413, false, .inherit, 0, .write "s.leaderID" "\"\"" false "state"⟩,
  ⟨"removeExpiredMembers", 1085485413, false, .inherit, 0, .check "len(s.members) == 0"⟩,
  ⟨"removeExpiredMembers", 1085485413, false, .inherit, 0, .write "s.state" "groupStateEmpty" false "state"⟩,
  ⟨"removeExpiredMembers", 1085485413, false, .inherit, 0, .ret ["changed"] true false⟩]

/-- `dropRebalanceLaggers` ↦ model `dropLaggers` -/
def sec_dropRebalanceLaggers : List Row := [
  ⟨"dropRebalanceLaggers", 3767977962, false, .inherit, 0, .check "s.rebalanceDeadline.IsZero() || now.Before(s.rebalanceDeadline)"⟩,
  ⟨"dropRebalanceLaggers", 3767977962, false, .inherit, 0, .ret ["false"] false false⟩,
  ⟨"dropRebalanceLaggers", 3767977962, false, .inherit, 0, .check "range s.members"⟩,
  ⟨"dropRebalanceLaggers", 3767977962, false, .inherit, 0, .check "member.joinGeneration != s.generationID"⟩,
  ⟨"dropRebalanceLaggers", 3767977962, false, .inherit, 0, .write "delete s.members" "memberID" false "state"⟩,
  ⟨"dropRebalanceLaggers", 3767977962, false, .inherit, 0, .write "delete s.assignments" "memberID" false "state"⟩,
  ⟨"dropRebalanceLaggers", 3767977962, false, .inherit, 0, .check "s.leaderID == memberID"⟩,
  ⟨"dropRebalanceLaggers", 3767977962, false, .inherit, 0, .write "s.leaderID" "\"\"" false "state"⟩,
  ⟨"dropRebalanceLaggers", 3767977962, false, .inherit, 0, .check "len(s.members) == 0"⟩,
  ⟨"dropRebalanceLaggers", 3767977962, false, .inherit, 0, .write "s.state" "groupStateEmpty" false "state"⟩,
  ⟨"dropRebalanceLaggers", 3767977962, false, .inherit, 0, .ret ["changed"] true false⟩]

/-- function ↦ its rows, in the order of the source file -/
def sections : List (String × List Row) := [
  ("JoinGroup", sec_JoinGroup),
  ("SyncGroup", sec_SyncGroup),
  ("Heartbeat", sec_Heartbeat),
  ("LeaveGroup", sec_LeaveGroup),
  ("OffsetCommit", sec_OffsetCommit),
  ("OffsetFetch", sec_OffsetFetch),
  ("fetchCommittedOffset", sec_fetchCommittedOffset),
  ("ensureGroup", sec_ensureGroup),
  ("loadGroupIfMissing", sec_loadGroupIfMissing),
  ("persistGroupLocked", sec_persistGroupLocked),
  ("restoreGroupState", sec_restoreGroupState),
  ("assignPartitions", sec_assignPartitions),
  ("collectTopicPartitions", sec_collectTopicPartitions),
  ("cleanupGroups", sec_cleanupGroups),
  ("ensureLeader", sec_ensureLeader),
  ("startRebalance", sec_startRebalance),
  ("bumpRebalanceDeadline", sec_bumpRebalanceDeadline),
  ("completeIfReady", sec_completeIfReady),
  ("markStable", sec_markStable),
  ("removeExpiredMembers", sec_removeExpiredMembers),
  ("dropRebalanceLaggers", sec_dropRebalanceLaggers)]

/-- the table the model was written against -/
def expected : List Row := sections.flatMap (·.2)
-- END SECTIONS

/-! ### Predicates over a skeleton -/

/-- store methods that persist something (the ones a lost lock region lets overtake each other) -/
def Ev.isStoreWrite : Ev → Bool
  | .store m => m == "PutConsumerGroup" || m == "DeleteConsumerGroup" || m == "CommitConsumerOffset"
  | _ => false

/-- write of a field of a group / member object that is (possibly) shared -/
def Ev.isStateWrite : Ev → Bool
  | .write _ _ fresh _ => !fresh
  | _ => false

def Ev.isLock : Ev → Bool
  | .lock => true
  | _ => false

def Ev.callee? : Ev → Option Nat
  | .call _ c _ => some c
  | _ => none

/-- the call rows that enter function `f` -/
def callersOf (rows : List Row) (f : Nat) : List Row := rows.filter fun r => r.ev.callee? == some f

/-- `c.mu` is held at row `r` on EVERY call chain that reaches it from an entry function
(fuel = call depth; a helper nobody calls is not "held") -/
def effHeld (rows : List Row) : Nat → Row → Bool
  | 0, _ => false
  | n + 1, r =>
    match r.lk with
    | .held => true
    | .free => false
    | .inherit =>
      let cs := callersOf rows r.fid
      !cs.isEmpty && cs.all (effHeld rows n)

def callDepth : Nat := 6

/-- every PutConsumerGroup / DeleteConsumerGroup / CommitConsumerOffset happens with `c.mu` held -/
def storeWritesLocked (rows : List Row) : Bool :=
  rows.all fun r => !r.ev.isStoreWrite || effHeld rows callDepth r

/-- every write of (possibly shared) group state happens with `c.mu` held -/
def stateWritesLocked (rows : List Row) : Bool :=
  rows.all fun r => !r.ev.isStateWrite || effHeld rows callDepth r

/-- the request paths that take the coordinator lock (`OffsetFetch` only reads the store) -/
def lockedEntries : List String := ["JoinGroup", "SyncGroup", "Heartbeat", "LeaveGroup", "OffsetCommit", "cleanupGroups"]

/-- the rows that must sit inside the one critical section of a request: what it checks, what it writes,
what it calls and what it puts into the reply -/
def Ev.inCritical : Ev → Bool
  | .check _ | .write .. | .store _ | .call .. | .reply .. => true
  | _ => false

/-- ONE critical section per request: helpers never touch the mutex themselves; a locking entry calls
`Lock` exactly once, and every check / write / store call / helper call / reply field of it is in lock
region 1 with the lock held — so there is no `Unlock` between any check and any use -/
def oneRegion (rows : List Row) : Bool :=
  (rows.all fun r => r.entry || r.lk == .inherit) &&
  lockedEntries.all fun f =>
    let rs := rows.filter fun r => r.entry && r.fn == f
    (rs.filter (·.ev.isLock)).length == 1 &&
    rs.all fun r => !r.ev.inCritical || (r.lk == .held && r.region == 1)

/-- return values that report a failure to the client (no state is promised by them) -/
def errorReturns : List (List String) := [
  ["nil", "err"],
  ["mkErrResp(protocol.UNKNOWN_MEMBER_ID)", "nil"],
  ["mkErrResp(protocol.ILLEGAL_GENERATION)", "nil"],
  ["mkErrResp(protocol.REBALANCE_IN_PROGRESS)", "nil"],
  ["mkResp(protocol.UNKNOWN_SERVER_ERROR)"],
  ["mkResp(protocol.UNKNOWN_MEMBER_ID)"],
  ["mkResp(protocol.ILLEGAL_GENERATION)"]]

/-- what `persistGroupLocked` may return: the store's own answer -/
def persistReturns : List (List String) := [
  ["c.store.DeleteConsumerGroup(ctx, groupID)"],
  ["c.store.PutConsumerGroup(ctx, group)"]]

/-- persist before reply: an entry returns a non-error reply only when no group-state write is pending
since the last persist; nothing is handed to another goroutine; the persist helper returns the store's answer -/
def persistBeforeReply (rows : List Row) : Bool :=
  (rows.all fun r =>
    match r.ev with
    | .ret vals dirty _ => !r.entry || !dirty || errorReturns.contains vals
    | .call _ _ async => !async
    | _ => true) &&
  (rows.all fun r =>
    match r.ev with
    | .ret vals _ _ => r.fn != "persistGroupLocked" || persistReturns.contains vals
    | _ => true) &&
  (rows.any fun r => r.fn == "persistGroupLocked" && r.ev == .store "PutConsumerGroup") &&
  (rows.any fun r => r.fn == "persistGroupLocked" && r.ev == .store "DeleteConsumerGroup")

/-- byte-valued reply fields are built by a call (a fresh slice), and the coordinator keeps no field other
than the group table that a request writes (no scratch buffers shared between requests) -/
def replyBytesFresh (rows : List Row) : Bool :=
  rows.all fun r =>
    match r.ev with
    | .reply t _ k => !(t == "resp.MemberAssignment" || t == "resp.Members") || k == "call"
    | .write t _ _ owner => owner != "coord" || t == "c.groups[groupID]" || t == "delete c.groups"
    | _ => true

/-- no entry returns with the mutex held (explicit Unlock before, or a deferred one at the return) -/
def lockBalanced (rows : List Row) : Bool :=
  rows.all fun r =>
    match r.ev with
    | .ret _ _ unlocks => !r.entry || (r.lk == .free && !unlocks) || (r.lk == .held && unlocks)
    | _ => true

/-! ### Diagnostics (printed by the checks when the build of `Props/C12Ops.lean` fails) -/

def showRows (rs : List Row) : String := "; ".intercalate (rs.map Row.show)

def diagnose (rows : List Row) : List String :=
  showDiff "KafVerif.C12.coord_ops_match" rows expected ++
  (if storeWritesLocked rows then [] else
    ["KafVerif.C12.store_writes_under_lock: a persisting store call is made without c.mu: " ++
      showRows (rows.filter fun r => r.ev.isStoreWrite && !effHeld rows callDepth r)]) ++
  (if stateWritesLocked rows then [] else
    ["KafVerif.C12.state_writes_under_lock: group state is written without c.mu: " ++
      showRows (rows.filter fun r => r.ev.isStateWrite && !effHeld rows callDepth r)]) ++
  (if oneRegion rows then [] else
    ["KafVerif.C12.no_unlock_between_check_and_use: a request no longer is ONE critical section (Unlock/Lock between a check and a use, a use outside the lock, or a helper touching c.mu): " ++
      showRows ((rows.filter fun r => !r.entry && r.lk != .inherit) ++
        (rows.filter fun r => r.entry && lockedEntries.contains r.fn && r.ev.inCritical && !(r.lk == .held && r.region == 1)) ++
        (rows.filter fun r => r.entry && lockedEntries.contains r.fn && r.ev.isLock && r.region != 1))]) ++
  (if persistBeforeReply rows then [] else
    ["KafVerif.C12.persist_before_reply: a success reply can be returned before the state it reports was persisted (or persisting was handed to another goroutine): " ++
      showRows (rows.filter fun r => match r.ev with
        | .ret vals dirty _ => (r.entry && dirty && !errorReturns.contains vals) || (r.fn == "persistGroupLocked" && !persistReturns.contains vals)
        | .call _ _ async => async
        | _ => false)]) ++
  (if replyBytesFresh rows then [] else
    ["KafVerif.C12.reply_bytes_fresh: reply bytes alias coordinator state (a buffer kept on the coordinator, or a field instead of a freshly built slice): " ++
      showRows (rows.filter fun r => match r.ev with
        | .reply t _ k => (t == "resp.MemberAssignment" || t == "resp.Members") && k != "call"
        | .write t _ _ owner => owner == "coord" && !(t == "c.groups[groupID]" || t == "delete c.groups")
        | _ => false)]) ++
  (if lockBalanced rows then [] else
    ["KafVerif.C12.lock_balanced: a return leaves with c.mu held (or unlocks twice): " ++
      showRows (rows.filter fun r => match r.ev with
        | .ret _ _ unlocks => r.entry && !((r.lk == .free && !unlocks) || (r.lk == .held && unlocks))
        | _ => false)])

end KafVerif.CoordOps
