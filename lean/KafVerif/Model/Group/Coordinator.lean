import KafVerif.Prelude.Basic
/-!
Model of `pkg/broker/coordinator.go` (GroupCoordinator) together with the parts of
`pkg/metadata/store.go` it talks to (persisted consumer groups, committed offsets, topic
metadata).  One transition system shared by C12 C13 C14 C15 C43 C16.

Conventions
* member ids, group ids, topic ids, protocol names, commit-metadata strings are `Nat`s; `0`
  stands for the empty string.  New member ids (`newMemberID`: group name + `rand.Int63()`) are
  an input of the `join` operation (`newKey`): the theorems hold for every choice; the
  correspondence harness feeds the rank of the id the real code drew.
* `members` is an association list kept sorted by id (a canonical form of the Go map), so
  `sortedMembers()` is `members.map (·.1)`.
* time is a `Nat` clock in milliseconds; `0` is Go's zero `time.Time`.
* Go maps with possibly-nil values (`assignments`) keep the key; `[]` is the nil slice.
* every store call can be made to fail once (`fail` op) — the replies and what is (not)
  persisted follow the code.
* the main definitions mirror the code AFTER the proposed fixes (fixes/C12-*, C13-*, C14-*,
  C15-*, C16-*, C43-*); the behaviour before each fix is kept as `…Old` and selected by a
  `Variant` so the drivers can replay the defects.
* `joinLog` and `used` are ghost state (never read by any transition).
-/
namespace KafVerif.Group

/-! ### small association-list library (keys are `Nat`) -/

def lookup {α : Type} : List (Nat × α) → Nat → Option α
  | [], _ => none
  | (k', v) :: t, k => if k' = k then some v else lookup t k

def erase {α : Type} (l : List (Nat × α)) (k : Nat) : List (Nat × α) :=
  l.filter fun e => e.1 != k

/-- ordered insert, replacing an existing binding -/
def insert {α : Type} : List (Nat × α) → Nat → α → List (Nat × α)
  | [], k, v => [(k, v)]
  | (k', v') :: t, k, v =>
    if k < k' then (k, v) :: (k', v') :: t
    else if k = k' then (k, v) :: t
    else (k', v') :: insert t k v

def keys {α : Type} (l : List (Nat × α)) : List Nat := l.map (·.1)

/-- insertion sort on `Nat` (Go `sort.Slice(.., <)` / `sort.Strings` on ids) -/
def insertNat : List Nat → Nat → List Nat
  | [], a => [a]
  | b :: t, a => if a ≤ b then a :: b :: t else b :: insertNat t a

def isort : List Nat → List Nat
  | [] => []
  | a :: t => insertNat (isort t) a

def dedup : List Nat → List Nat
  | [] => []
  | a :: t => if t.contains a then dedup t else a :: dedup t

/-! ### state -/

inductive Phase where
  | empty | preparing | completing | stable | dead
deriving DecidableEq, Repr, Inhabited

structure Member where
  topics : List Nat
  session : Nat
  lastHb : Nat
  joinGen : Nat
deriving DecidableEq, Repr, Inhabited

/-- `[]assignmentTopic`: (topic, partitions); `[]` is nil. -/
abbrev Asg := List (Nat × List Nat)

structure Group where
  protoName : Nat
  protoType : Nat
  gen : Nat
  leader : Nat
  phase : Phase
  members : List (Nat × Member)
  asg : List (Nat × Asg)
  rebTimeout : Nat
  deadline : Nat
deriving DecidableEq, Repr, Inhabited

/-- `metadatapb.GroupMember` as written by `buildConsumerGroup`. -/
structure PMember where
  subs : List Nat
  sessionMs : Nat
  hbAt : Nat
  asg : Asg
deriving DecidableEq, Repr, Inhabited

/-- `metadatapb.ConsumerGroup`. -/
structure PGroup where
  state : Phase
  protoType : Nat
  protoName : Nat
  leader : Nat
  gen : Nat
  rebTimeoutMs : Nat
  members : List (Nat × PMember)
deriving DecidableEq, Repr, Inhabited

/-- one-shot failure switches of the store (set by the `fail` op, consumed by the next call) -/
structure Faults where
  put : Bool := false
  del : Bool := false
  fetchGroup : Bool := false
  commit : Bool := false
  fetchOff : Bool := false
  metaF : Bool := false
deriving DecidableEq, Repr, Inhabited

/-- which code is modelled: the fixed tree (all `false`) or a pre-fix behaviour -/
structure Variant where
  c12Old : Bool := false   -- re-join of a stable group with a changed subscription does not rebalance
  c14Old : Bool := false   -- restore marks every member as joined also while PreparingRebalance
  c15Old : Bool := false   -- InMemoryStore.cloneConsumerGroup drops the two timeouts
  c43Old : Bool := false   -- heartbeat while rebalancing does not refresh lastHeartbeat
  c16Old : Bool := false   -- OffsetFetch answers 0 for a never-committed partition
  c13Old : Bool := false   -- OffsetCommit releases the lock between its check and its writes (only `race` can tell)
deriving DecidableEq, Repr, Inhabited

structure State where
  groups : List (Nat × Group)                        -- c.groups
  persisted : List (Nat × PGroup)                    -- store.consumerGroups
  offsets : List ((Nat × Nat × Int) × (Int × Nat))   -- store.consumerOffsets / consumerMeta, struct key
  tmeta : List (Nat × List Nat)                       -- store.state.Topics: topic ↦ partition ids
  clock : Nat
  faults : Faults
  joinLog : List (Nat × Nat × Nat)                   -- GHOST: (group, generation, member) of every processed join
  used : List Nat                                    -- GHOST: member ids handed out so far
deriving Repr, Inhabited

def clock0 : Nat := 1000000000000

def init : State :=
  { groups := [], persisted := [], offsets := [], tmeta := [], clock := clock0, faults := {}, joinLog := [], used := [] }

def defaultSession : Nat := 30000
def defaultRebalance : Nat := 30000

-- Kafka error codes used by the coordinator
def NONE : Int := 0
def UNKNOWN_SERVER_ERROR : Int := -1
def ILLEGAL_GENERATION : Int := 22
def UNKNOWN_MEMBER_ID : Int := 25
def REBALANCE_IN_PROGRESS : Int := 27

/-! ### groupState methods -/

namespace Group

/-- `ensureLeader`: keep a leader that is a member, else the smallest member id, else "". -/
def ensureLeader (s : Group) : Group :=
  if s.leader ≠ 0 ∧ (lookup s.members s.leader).isSome then s
  else match s.members with
    | [] => { s with leader := 0 }
    | e :: _ => { s with leader := e.1 }

def resetJoins (ms : List (Nat × Member)) : List (Nat × Member) :=
  ms.map fun e => (e.1, { e.2 with joinGen := 0 })

/-- `startRebalance(timeout)` at time `now` (`timeout = 0` means "keep"). -/
def startRebalance (s : Group) (timeout now : Nat) : Group :=
  if s.members.isEmpty then
    { s with phase := .empty, asg := [], deadline := 0, leader := 0 }
  else
    let rt := if timeout > 0 then timeout else if s.rebTimeout = 0 then defaultRebalance else s.rebTimeout
    let s1 : Group := { s with rebTimeout := rt, gen := s.gen + 1, phase := .preparing, asg := [], deadline := now + rt }
    let s2 := s1.ensureLeader
    { s2 with members := resetJoins s2.members }

/-- `bumpRebalanceDeadline(timeout)`. -/
def bump (s : Group) (timeout now : Nat) : Group :=
  let rt := if timeout > 0 then timeout else s.rebTimeout
  let rt := if rt = 0 then defaultRebalance else rt
  { s with rebTimeout := rt, deadline := now + rt }

def allJoined (s : Group) : Bool := s.members.all fun e => e.2.joinGen == s.gen

/-- `completeIfReady`. -/
def completeIfReady (s : Group) : Group × Bool :=
  if s.members.isEmpty then (s, false)
  else if s.allJoined then ({ s with phase := .completing, deadline := 0 }, true)
  else (s, false)

/-- `markStable`. -/
def markStable (s : Group) : Group :=
  if s.phase = .dead then s else { s with phase := .stable, deadline := 0 }

def sessionOf (m : Member) : Nat := if m.session = 0 then defaultSession else m.session

/-- the test of `removeExpiredMembers`: `now.Sub(lastHeartbeat) > timeout` -/
def expired (now : Nat) (m : Member) : Bool := now - m.lastHb > sessionOf m

/-- remove the members selected by `gone` (shared tail of removeExpiredMembers / dropRebalanceLaggers) -/
def dropMembers (s : Group) (gone : Member → Bool) : Group × Bool :=
  let goneIds := keys (s.members.filter fun e => gone e.2)
  let members := s.members.filter fun e => !gone e.2
  let asg := s.asg.filter fun e => !goneIds.contains e.1
  let leader := if goneIds.contains s.leader then 0 else s.leader
  let phase := if members.isEmpty then Phase.empty else s.phase
  ({ s with members := members, asg := asg, leader := leader, phase := phase }, !goneIds.isEmpty)

/-- `removeExpiredMembers(now)`. -/
def removeExpired (s : Group) (now : Nat) : Group × Bool := s.dropMembers (expired now)

/-- `dropRebalanceLaggers(now)`. -/
def dropLaggers (s : Group) (now : Nat) : Group × Bool :=
  if s.deadline = 0 ∨ now < s.deadline then (s, false)
  else s.dropMembers fun m => m.joinGen != s.gen

end Group

/-! ### persistence: buildConsumerGroup / cloneConsumerGroup / restoreGroupState -/

def asgOf (s : Group) (m : Nat) : Asg := (lookup s.asg m).getD []

/-- `buildConsumerGroup`. -/
def build (s : Group) : PGroup :=
  { state := s.phase, protoType := s.protoType, protoName := s.protoName, leader := s.leader, gen := s.gen,
    rebTimeoutMs := s.rebTimeout,
    members := s.members.map fun e =>
      (e.1, { subs := e.2.topics, sessionMs := e.2.session, hbAt := e.2.lastHb, asg := asgOf s e.1 }) }

/-- `InMemoryStore.cloneConsumerGroup` (applied on Put and on Fetch). -/
def cloneGroup (v : Variant) (p : PGroup) : PGroup :=
  if v.c15Old then
    { p with rebTimeoutMs := 0, members := p.members.map fun e => (e.1, { e.2 with sessionMs := 0 }) }
  else p

/-- `restoreGroupState` at time `now`. -/
def restore (v : Variant) (p : PGroup) (now : Nat) : Group :=
  let rt := if p.rebTimeoutMs > 0 then p.rebTimeoutMs else defaultRebalance
  let jg := if p.state = .preparing ∧ !v.c14Old then 0 else p.gen
  let members := p.members.map fun e =>
    (e.1, ({ topics := e.2.subs, session := if e.2.sessionMs > 0 then e.2.sessionMs else defaultSession,
             lastHb := e.2.hbAt, joinGen := jg } : Member))
  let asg := p.members.filterMap fun e => if e.2.asg.isEmpty then none else some (e.1, e.2.asg)
  let deadline := if p.state = .preparing ∨ p.state = .completing then now + rt else 0
  Group.ensureLeader
    { protoName := p.protoName, protoType := p.protoType, gen := p.gen, leader := p.leader, phase := p.state,
      members := members, asg := asg, rebTimeout := rt, deadline := deadline }

/-- `loadGroupIfMissing`: `none` = the store returned an error. -/
def loadGroup (v : Variant) (s : State) (g : Nat) : Option (State × Option Group) :=
  match lookup s.groups g with
  | some st => some (s, some st)
  | none =>
    if s.faults.fetchGroup then none
    else match lookup s.persisted g with
      | none => some (s, none)
      | some p =>
        let st := restore v (cloneGroup v p) s.clock
        some ({ s with groups := insert s.groups g st }, some st)

def newGroup : Group :=
  { protoName := 0, protoType := 0, gen := 0, leader := 0, phase := .empty, members := [], asg := [],
    rebTimeout := defaultRebalance, deadline := 0 }

/-- `ensureGroup`.  The code stores the fresh Empty group in `c.groups` right away and JoinGroup then
fills it in through the pointer, inside the same critical section; the model hands the fresh group to
`join`, which stores the finished group (`setGroup`) — no other step can observe the difference. -/
def ensureGroup (v : Variant) (s : State) (g : Nat) : Option (State × Group) :=
  match loadGroup v s g with
  | none => none
  | some (s', some st) => some (s', st)
  | some (s', none) => some (s', newGroup)

/-- the fetchGroup fault is consumed by the store call that observed it -/
def clearFetchGroup (s : State) : State := { s with faults := { s.faults with fetchGroup := false } }

/-- `persistGroupLocked(groupID, state)`: returns the new state and whether the store call succeeded.
`none` or an empty member map deletes the stored group. -/
def persist (v : Variant) (s : State) (g : Nat) (st : Option Group) : State × Bool :=
  match st with
  | some st' =>
    if st'.members.isEmpty then
      if s.faults.del then ({ s with faults := { s.faults with del := false } }, false)
      else ({ s with persisted := erase s.persisted g }, true)
    else
      if s.faults.put then ({ s with faults := { s.faults with put := false } }, false)
      else ({ s with persisted := insert s.persisted g (cloneGroup v (build st')) }, true)
  | none =>
    if s.faults.del then ({ s with faults := { s.faults with del := false } }, false)
    else ({ s with persisted := erase s.persisted g }, true)

def setGroup (s : State) (g : Nat) (st : Group) : State := { s with groups := insert s.groups g st }

/-! ### assignPartitions -/

def subscribes (m : Member) (t : Nat) : Bool := m.topics.contains t

/-- partitions of a topic as `collectTopicPartitions` sees them: sorted; `[0]` when the topic is
unknown, has no partitions, or the metadata call failed -/
def partsOf (tmeta : List (Nat × List Nat)) (metaFail : Bool) (t : Nat) : List Nat :=
  if metaFail then [0]
  else match lookup tmeta t with
    | some ps => if ps.isEmpty then [0] else isort ps
    | none => [0]

/-- the distinct subscribed topics in name order -/
def subscribedTopics (ms : List (Nat × Member)) : List Nat :=
  isort (dedup (ms.flatMap fun e => e.2.topics))

def eligible (ms : List (Nat × Member)) (t : Nat) : List Nat :=
  keys (ms.filter fun e => subscribes e.2 t)

/-- round-robin: partition number `i` of the sorted partition list goes to `eligible[i % len]` -/
def rrFrom (elig : List Nat) : Nat → List Nat → List (Nat × Nat)
  | _, [] => []
  | i, p :: ps => (elig.getD (i % elig.length) 0, p) :: rrFrom elig (i + 1) ps

def roundRobin (elig : List Nat) (parts : List Nat) : List (Nat × Nat) := rrFrom elig 0 parts

def partsFor (ms : List (Nat × Member)) (tmeta : List (Nat × List Nat)) (metaFail : Bool) (m t : Nat) : List Nat :=
  let elig := eligible ms t
  if elig.isEmpty then []
  else isort (((roundRobin elig (partsOf tmeta metaFail t)).filter fun e => e.1 == m).map (·.2))

def assignFor (ms : List (Nat × Member)) (tmeta : List (Nat × List Nat)) (metaFail : Bool) (m : Nat) : Asg :=
  (subscribedTopics ms).filterMap fun t =>
    let ps := partsFor ms tmeta metaFail m t
    if ps.isEmpty then none else some (t, ps)

/-- `assignPartitions`: one entry per member (nil when it gets nothing). -/
def assignPartitions (ms : List (Nat × Member)) (tmeta : List (Nat × List Nat)) (metaFail : Bool) : List (Nat × Asg) :=
  ms.map fun e => (e.1, assignFor ms tmeta metaFail e.1)

/-! ### operations -/

inductive Op where
  /-- JoinGroup: `proto = none` is an empty `Protocols` array; `some (name, topics)` the first protocol -/
  | join (g mid : Nat) (session rebalance : Int) (ptype : Nat) (proto : Option (Nat × List Nat)) (newKey : Nat)
  /-- the generation of a request is the client's int32: it may be negative (−1 = "no generation") -/
  | sync (g mid : Nat) (gen : Int)
  | heartbeat (g mid : Nat) (gen : Int)
  | leave (g mid : Nat)
  /-- OffsetCommit: entries (topic, partition, offset, metadata) -/
  | commit (g mid : Nat) (gen : Int) (parts : List (Nat × Int × Int × Nat))
  | fetch (g : Nat) (parts : List (Nat × Int))
  | tick (d : Nat)
  | cleanup
  | failover
  /-- `loadGroupIfMissing` alone (what any request does first after a failover) -/
  | load (g : Nat)
  /-- make the next store call of that kind fail: 0 put 1 delete 2 fetchGroup 3 commit 4 fetchOffset 5 metadata -/
  | fail (kind : Nat)
  | setMeta (tmeta : List (Nat × List Nat))
deriving Repr

inductive Reply where
  | goErr                                  -- the handler returned a Go error (connection-level failure)
  | join (code : Int) (gen leader member proto : Nat) (members : List (Nat × List Nat))
  | sync (code : Int) (asg : Asg)
  | code (c : Int)
  | commit (codes : List (Nat × Int × Int))
  | fetch (rows : List (Nat × Int × Int × Nat × Int))   -- topic, partition, offset, metadata, code
  | unit
deriving Repr, DecidableEq

def topicsOfProto (proto : Option (Nat × List Nat)) : List Nat :=
  match proto with | some (_, ts) => ts | none => []

def timeoutOf (rebalance : Int) : Nat := if rebalance ≤ 0 then defaultRebalance else rebalance.toNat

/-- the member record `JoinGroup` writes: the existing (or a fresh) record with the session timeout
applied / defaulted, the new subscription and `lastHeartbeat = now` -/
def joinRecord (found : Option Member) (session : Int) (proto : Option (Nat × List Nat)) (now : Nat) : Member :=
  let member : Member := found.getD { topics := [], session := 0, lastHb := 0, joinGen := 0 }
  let member := if session > 0 then { member with session := session.toNat }
                else if member.session = 0 then { member with session := defaultSession } else member
  { member with topics := topicsOfProto proto, lastHb := now }

def setProto (st : Group) (ptype : Nat) (proto : Option (Nat × List Nat)) : Group :=
  match proto with
  | some (n, _) => { st with protoType := ptype, protoName := n }
  | none => { st with protoType := ptype }

/-- first part of `JoinGroup`: protocol fields, member lookup / creation, session timeout,
subscription, lastHeartbeat.  Returns the group, the member id, whether the member existed and
its previous topic list. -/
def joinMember (st : Group) (mid : Nat) (session : Int) (ptype : Nat) (proto : Option (Nat × List Nat))
    (newKey now : Nat) : Group × Nat × Bool × List Nat :=
  let found := if mid = 0 then none else lookup st.members mid
  let memberID := if found.isSome then mid else newKey
  ({ setProto st ptype proto with members := insert st.members memberID (joinRecord found session proto now) },
   memberID, found.isSome, (found.map (·.topics)).getD [])

/-- the four-way branch of `JoinGroup` (plus the C12 fix): start a rebalance or push the deadline -/
def joinPhase (v : Variant) (st : Group) (memberID : Nat) (exists_ : Bool) (previousTopics newTopics : List Nat)
    (timeout now : Nat) : Group :=
  if st.members.length = 1 ∧ st.phase = .empty then ({ st with leader := memberID }).startRebalance timeout now
  else if st.phase = .stable ∧ !exists_ then st.startRebalance timeout now
  else if st.phase = .stable ∧ !v.c12Old ∧ previousTopics ≠ newTopics then st.startRebalance timeout now
  else if st.phase = .empty then st.startRebalance timeout now
  else if st.phase = .preparing ∨ st.phase = .completing then st.bump timeout now
  else st

def setJoinGen (ms : List (Nat × Member)) (memberID gen : Nat) : List (Nat × Member) :=
  ms.map fun e => if e.1 = memberID then (e.1, { e.2 with joinGen := gen }) else e

/-- `member.joinGeneration = generationID`, then `ensureLeader` when there is no leader -/
def joinMark (st : Group) (memberID : Nat) : Group :=
  let st := { st with members := setJoinGen st.members memberID st.gen }
  if st.leader = 0 then st.ensureLeader else st

/-- readiness: Stable / Completing, else `completeIfReady` -/
def joinFinish (st : Group) (memberID : Nat) : Group × Bool :=
  let st := joinMark st memberID
  if st.phase = .stable ∨ st.phase = .completing then (st, true) else st.completeIfReady

/-- the group-state part of `JoinGroup`: final group, member id, "member existed", "ready" -/
def joinCore (v : Variant) (st : Group) (mid : Nat) (session rebalance : Int) (ptype : Nat)
    (proto : Option (Nat × List Nat)) (newKey now : Nat) : Group × Nat × Bool × Bool :=
  let jm := joinMember st mid session ptype proto newKey now
  let st1 := joinPhase v jm.1 jm.2.1 jm.2.2.1 jm.2.2.2 (topicsOfProto proto) (timeoutOf rebalance) now
  let jf := joinFinish st1 jm.2.1
  (jf.1, jm.2.1, jm.2.2.1, jf.2)

/-- the answer of `JoinGroup` for a final group state -/
def joinReply (st : Group) (memberID : Nat) (ready ok : Bool) : Reply :=
  .join (if ok then (if ready then NONE else REBALANCE_IN_PROGRESS) else UNKNOWN_SERVER_ERROR) st.gen st.leader memberID st.protoName
    (if ready ∧ memberID = st.leader then st.members.map fun e => (e.1, e.2.topics) else [])

/-- `JoinGroup`. -/
def join (v : Variant) (s : State) (g mid : Nat) (session rebalance : Int) (ptype : Nat)
    (proto : Option (Nat × List Nat)) (newKey : Nat) : State × Reply :=
  match ensureGroup v s g with
  | none => (clearFetchGroup s, .goErr)
  | some (s, st) =>
    let r := joinCore v st mid session rebalance ptype proto newKey s.clock
    let p := persist v (setGroup s g r.1) g (some r.1)
    ({ p.1 with joinLog := (g, r.1.gen, r.2.1) :: p.1.joinLog,
                used := if r.2.2.1 then p.1.used else r.2.1 :: p.1.used },
     joinReply r.1 r.2.1 r.2.2.2 p.2)

/-- the leader's sync while CompletingRebalance: `assignPartitions` + `markStable`.  The metadata
fault is consumed only when `collectTopicPartitions` really calls the store. -/
def leaderAssign (s : State) (st : Group) : State × Group :=
  let calls := !(subscribedTopics st.members).isEmpty
  let mf := s.faults.metaF && calls
  let st' := ({ st with asg := assignPartitions st.members s.tmeta mf }).markStable
  ({ s with faults := { s.faults with metaF := if calls then false else s.faults.metaF } }, st')

/-- tail of `SyncGroup`: look up the member's assignment, reply, persist -/
def syncFinish (v : Variant) (s : State) (g : Nat) (st : Group) (mid : Nat) : State × Reply :=
  if (asgOf st mid).isEmpty ∧ st.phase ≠ .stable then (setGroup s g st, .sync REBALANCE_IN_PROGRESS [])
  else
    let p := persist v (setGroup s g st) g (some st)
    (p.1, .sync (if p.2 then NONE else UNKNOWN_SERVER_ERROR) (asgOf st mid))

/-- `SyncGroup`. -/
def sync (v : Variant) (s : State) (g mid : Nat) (gen : Int) : State × Reply :=
  match loadGroup v s g with
  | none => (clearFetchGroup s, .goErr)
  | some (s, none) => (s, .sync UNKNOWN_MEMBER_ID [])
  | some (s, some st) =>
    if gen ≠ (st.gen : Int) then (s, .sync ILLEGAL_GENERATION [])
    else if (lookup st.members mid).isNone then (s, .sync UNKNOWN_MEMBER_ID [])
    else if st.phase = .preparing then (s, .sync REBALANCE_IN_PROGRESS [])
    else if st.phase = .completing ∧ st.asg.isEmpty then
      if mid ≠ st.leader then (s, .sync REBALANCE_IN_PROGRESS [])
      else syncFinish v (leaderAssign s st).1 g (leaderAssign s st).2 mid
    else syncFinish v s g st mid

/-- `Heartbeat`. -/
def heartbeat (v : Variant) (s : State) (g mid : Nat) (gen : Int) : State × Reply :=
  match loadGroup v s g with
  | none => (clearFetchGroup s, .code UNKNOWN_SERVER_ERROR)
  | some (s, none) => (s, .code UNKNOWN_MEMBER_ID)
  | some (s, some st) =>
    match lookup st.members mid with
    | none => (s, .code UNKNOWN_MEMBER_ID)
    | some m =>
      if gen ≠ (st.gen : Int) then (s, .code ILLEGAL_GENERATION)
      else if v.c43Old ∧ st.phase ≠ .stable then (s, .code REBALANCE_IN_PROGRESS)
      else
        let st' : Group := { st with members := insert st.members mid { m with lastHb := s.clock } }
        let code := if st'.phase ≠ .stable then REBALANCE_IN_PROGRESS else NONE
        let p := persist v (setGroup s g st') g (some st')
        (p.1, .code (if p.2 then code else UNKNOWN_SERVER_ERROR))

/-- the group-state part of `LeaveGroup` when members remain: drop the member and its assignment,
clear the leader if it left, `startRebalance(0)` -/
def leaveCore (st : Group) (mid now : Nat) : Group :=
  let st := { st with members := erase st.members mid, asg := erase st.asg mid }
  let st := if st.leader = mid then { st with leader := 0 } else st
  st.startRebalance 0 now

/-- `LeaveGroup`. -/
def leave (v : Variant) (s : State) (g mid : Nat) : State × Reply :=
  match loadGroup v s g with
  | none => (clearFetchGroup s, .code UNKNOWN_SERVER_ERROR)
  | some (s, none) => (s, .code UNKNOWN_MEMBER_ID)
  | some (s, some st) =>
    if (lookup st.members mid).isNone then (s, .code UNKNOWN_MEMBER_ID)
    else if (erase st.members mid).isEmpty then
      let p := persist v { s with groups := erase s.groups g } g none
      (p.1, .code (if p.2 then NONE else UNKNOWN_SERVER_ERROR))
    else
      let st' := leaveCore st mid s.clock
      let p := persist v (setGroup s g st') g (some st')
      (p.1, .code (if p.2 then NONE else UNKNOWN_SERVER_ERROR))

/-- `InMemoryStore.CommitConsumerOffset` (struct key after the fix). -/
def putOffset (offs : List ((Nat × Nat × Int) × (Int × Nat))) (k : Nat × Nat × Int) (val : Int × Nat) :
    List ((Nat × Nat × Int) × (Int × Nat)) :=
  match offs with
  | [] => [(k, val)]
  | e :: t => if e.1 = k then (k, val) :: t else e :: putOffset t k val

def getOffset (offs : List ((Nat × Nat × Int) × (Int × Nat))) (k : Nat × Nat × Int) : Option (Int × Nat) :=
  match offs with
  | [] => none
  | e :: t => if e.1 = k then some e.2 else getOffset t k

/-- the write loop of `OffsetCommit`: one store call per partition, each may fail -/
def commitWrites (s : State) (g : Nat) : List (Nat × Int × Int × Nat) → State × List (Nat × Int × Int)
  | [] => (s, [])
  | (t, p, off, md) :: rest =>
    if s.faults.commit then
      let (s', r) := commitWrites { s with faults := { s.faults with commit := false } } g rest
      (s', (t, p, UNKNOWN_SERVER_ERROR) :: r)
    else
      let (s', r) := commitWrites { s with offsets := putOffset s.offsets (g, t, p) (off, md) } g rest
      (s', (t, p, NONE) :: r)

/-- the check of `OffsetCommit` -/
def commitCheck (st : Option Group) (mid : Nat) (gen : Int) : Int :=
  match st with
  | none => UNKNOWN_MEMBER_ID
  | some st =>
    if (lookup st.members mid).isNone then UNKNOWN_MEMBER_ID
    else if gen ≠ (st.gen : Int) then ILLEGAL_GENERATION
    else NONE

/-- `OffsetCommit` (check and writes in one critical section after the fix). -/
def commit (v : Variant) (s : State) (g mid : Nat) (gen : Int) (parts : List (Nat × Int × Int × Nat)) : State × Reply :=
  match loadGroup v s g with
  | none => (clearFetchGroup s, .goErr)
  | some (s, st) =>
    if commitCheck st mid gen = NONE then ((commitWrites s g parts).1, .commit (commitWrites s g parts).2)
    else (s, .commit (parts.map fun e => (e.1, e.2.1, commitCheck st mid gen)))

/-- `OffsetFetch` (no group check in the code; never-committed reads −1 after the fix). -/
def fetchRows (v : Variant) (s : State) (g : Nat) : List (Nat × Int) → State × List (Nat × Int × Int × Nat × Int)
  | [] => (s, [])
  | (t, p) :: rest =>
    if s.faults.fetchOff then
      let (s', r) := fetchRows v { s with faults := { s.faults with fetchOff := false } } g rest
      (s', (t, p, 0, 0, UNKNOWN_SERVER_ERROR) :: r)
    else
      let row := match getOffset s.offsets (g, t, p) with
        | some (off, md) => (t, p, off, md, NONE)
        | none => (t, p, if v.c16Old then 0 else -1, 0, NONE)
      let (s', r) := fetchRows v s g rest
      (s', row :: r)

def fetch (v : Variant) (s : State) (g : Nat) (parts : List (Nat × Int)) : State × Reply :=
  let (s, r) := fetchRows v s g parts
  (s, .fetch r)

inductive CleanupOutcome where
  | gone                        -- no member left: the group is deleted
  | rebalanced (st : Group)     -- somebody was removed: `startRebalance(0)` and persist
  | kept (st : Group)           -- nothing to do
deriving Repr

/-- what the loop body of `cleanupGroups` does to one group at time `now` -/
def cleanupOutcome (st : Group) (now : Nat) : CleanupOutcome :=
  let r1 := st.removeExpired now
  let r2 := r1.1.dropLaggers now
  if r2.1.members.isEmpty then .gone
  else if r1.2 || r2.2 then .rebalanced (r2.1.startRebalance 0 now)
  else .kept r2.1

/-- body of the loop in `cleanupGroups` for one loaded group -/
def cleanupGroup (v : Variant) (s : State) (g : Nat) (st : Group) : State :=
  match cleanupOutcome st s.clock with
  | .gone => (persist v { s with groups := erase s.groups g } g none).1
  | .rebalanced st' => (persist v (setGroup s g st') g (some st')).1
  | .kept st' => setGroup s g st'

/-- `cleanupGroups`: every loaded group (the groups are independent, so map order is immaterial). -/
def cleanup (v : Variant) (s : State) : State :=
  s.groups.foldl (fun acc e => cleanupGroup v acc e.1 e.2) s

def setFault (f : Faults) (kind : Nat) : Faults :=
  match kind with
  | 0 => { f with put := true }
  | 1 => { f with del := true }
  | 2 => { f with fetchGroup := true }
  | 3 => { f with commit := true }
  | 4 => { f with fetchOff := true }
  | 5 => { f with metaF := true }
  | _ => f

def stepV (v : Variant) (s : State) : Op → State × Reply
  | .join g mid se rb pt pr nk => join v s g mid se rb pt pr nk
  | .sync g mid gen => sync v s g mid gen
  | .heartbeat g mid gen => heartbeat v s g mid gen
  | .leave g mid => leave v s g mid
  | .commit g mid gen parts => commit v s g mid gen parts
  | .fetch g parts => fetch v s g parts
  | .tick d => ({ s with clock := s.clock + d }, .unit)
  | .cleanup => (cleanup v s, .unit)
  | .failover => ({ s with groups := [] }, .unit)
  | .load g => match loadGroup v s g with
    | none => (clearFetchGroup s, .unit)
    | some (s', _) => (s', .unit)
  | .fail k => ({ s with faults := setFault s.faults k }, .unit)
  | .setMeta m => ({ s with tmeta := m }, .unit)

/-- Two requests in flight: an `OffsetCommit` that is held inside the store's first
`CommitConsumerOffset` call while `other` (a request that takes the coordinator lock) is issued.
After the fix the commit holds the lock, so `other` waits: commit, then other.  Before the fix
(`c13Old`) the check has released the lock: check, other, writes.  The `Bool` tells whether
`other` ran between check and writes. -/
def raceV (v : Variant) (s : State) (g mid : Nat) (gen : Int) (parts : List (Nat × Int × Int × Nat)) (other : Op) :
    State × Reply × Reply × Bool :=
  if v.c13Old then
    match loadGroup v s g with
    | none =>
      let (s2, r2) := stepV v (clearFetchGroup s) other
      (s2, .goErr, r2, false)
    | some (s1, st) =>
      let code := commitCheck st mid gen
      if code = NONE ∧ !parts.isEmpty then
        let (s2, r2) := stepV v s1 other
        let (s3, r) := commitWrites s2 g parts
        (s3, .commit r, r2, true)
      else
        let (s2, r2) := stepV v s1 other
        (s2, .commit (parts.map fun e => (e.1, e.2.1, code)), r2, false)
  else
    let (s1, r1) := commit v s g mid gen parts
    let (s2, r2) := stepV v s1 other
    (s2, r1, r2, false)

/-- the fixed code -/
def fixed : Variant := {}

def step (s : State) (op : Op) : State × Reply := stepV fixed s op

def run (s : State) (ops : List Op) : State := ops.foldl (fun acc op => (step acc op).1) s

end KafVerif.Group
