import KafVerif.Prelude.Basic
/-!
Model of `pkg/storage/s3_aws.go` (`awsS3Client`) over an S3 API with an outcome oracle per call — the
lower seam of C01 ("acknowledged ⇒ durable"): `Flush` acknowledges when `UploadSegment` and `UploadIndex`
returned nil, so "the upload returned nil ⇒ the object is stored with exactly these bytes" is the fact the
transition system `Model/StorageLog.lean` assumes of its `seg t ok` / `idx t ok` events.

* `Api` is the endpoint: does the bucket exist, which objects does it hold.
* every API call first pops an outcome token from the script (`nat` = the endpoint's natural answer for its
  state, anything else = that failure is injected; an exhausted script answers naturally).
* `putObject` = first PUT; on a bucket-missing error `EnsureBucket` (HEAD, CREATE) and ONE retry; the error of
  the retry is reported.  `putObjectShadow` is the same function with the first attempt's `err` shadowing a
  named result (seeded change C01-r2-2): the retry's error is lost.
* `downloadSegment` / `downloadIndex` (not-found mapping), `listSegments` (paginator, bucket-missing → ensure →
  empty list), `deleteObject`, `ensureBucket`.
-/
namespace KafVerif.S3Aws
open KafVerif

/-- failure classes of an API call (`smithy.APIError` codes / HTTP status / body read error) -/
inductive Err where
  | nsb | nf | slow | owned | exists_ | h404 | nokey | badrange | badbody
deriving Repr, DecidableEq

/-- oracle token for one API call -/
inductive Tok where
  | nat
  | fail (e : Err)
deriving Repr, DecidableEq

structure Api where
  bucket : Bool
  objs : List (String × Bytes)
deriving Repr

structure St where
  api : Api
  script : List Tok
  calls : List String := []     -- ghost: the calls made with their outcome
deriving Repr

def Err.name : Err → String
  | .nsb => "nsb" | .nf => "nf" | .slow => "slow" | .owned => "owned" | .exists_ => "exists"
  | .h404 => "h404" | .nokey => "nokey" | .badrange => "badrange" | .badbody => "badbody"

def lookup (objs : List (String × Bytes)) (key : String) : Option Bytes :=
  (objs.find? (·.1 == key)).map (·.2)

def store (objs : List (String × Bytes)) (key : String) (body : Bytes) : List (String × Bytes) :=
  if objs.any (·.1 == key) then objs.map (fun x => if x.1 == key then (key, body) else x) else objs ++ [(key, body)]

def pop (s : St) : Tok × St :=
  match s.script with
  | [] => (.nat, s)
  | t :: r => (t, { s with script := r })

def note (s : St) (api outcome : String) : St := { s with calls := s.calls ++ [api ++ ":" ++ outcome] }

def failWith (s : St) (api : String) (e : Err) : St × Except Err α := (note s api e.name, .error e)

/-- `api.PutObject` -/
def apiPut (s : St) (key : String) (body : Bytes) : St × Except Err Unit :=
  let (t, s) := pop s
  match t with
  | .fail e => failWith s "PUT" e
  | .nat =>
    if s.api.bucket then (note { s with api := { s.api with objs := store s.api.objs key body } } "PUT" "ok", .ok ())
    else failWith s "PUT" .nsb

/-- `api.HeadBucket` -/
def apiHead (s : St) : St × Except Err Unit :=
  let (t, s) := pop s
  match t with
  | .fail e => failWith s "HEAD" e
  | .nat => if s.api.bucket then (note s "HEAD" "ok", .ok ()) else failWith s "HEAD" .nf

/-- `api.CreateBucket`; "already owned / already exists" answers mean the bucket is there -/
def apiCreate (s : St) : St × Except Err Unit :=
  let (t, s) := pop s
  let e? : Option Err := match t with
    | .fail e => some e
    | .nat => if s.api.bucket then some .owned else none
  match e? with
  | none => (note { s with api := { s.api with bucket := true } } "CREATE" "ok", .ok ())
  | some e =>
    let s := if e = .owned ∨ e = .exists_ then { s with api := { s.api with bucket := true } } else s
    failWith s "CREATE" e

/-- `api.GetObject` with an optional inclusive byte range (HTTP semantics: the end is clamped, a start beyond
the object is InvalidRange) -/
def apiGet (s : St) (key : String) (rng : Option (Int × Int)) : St × Except Err Bytes :=
  let (t, s) := pop s
  let bad : Bool := decide (t = .fail .badbody)
  let t := if bad then Tok.nat else t
  match t with
  | .fail e => failWith s "GET" e
  | .nat =>
    if !s.api.bucket then failWith s "GET" .nsb else
    match lookup s.api.objs key with
    | none => failWith s "GET" .nokey
    | some data =>
      let sel : Option Bytes := match rng with
        | none => some data
        | some (a, b) =>
          if a < 0 ∨ a > b ∨ a ≥ data.length then none
          else
            let b := if b ≥ data.length then (data.length : Int) - 1 else b
            some ((data.drop a.toNat).take (b + 1 - a).toNat)
      match sel with
      | none => failWith s "GET" .badrange
      | some d => if bad then failWith s "GET" .badbody else (note s "GET" "ok", .ok d)

/-- `api.DeleteObject` -/
def apiDelete (s : St) (key : String) : St × Except Err Unit :=
  let (t, s) := pop s
  match t with
  | .fail e => failWith s "DELETE" e
  | .nat =>
    if s.api.bucket then (note { s with api := { s.api with objs := s.api.objs.filter (·.1 != key) } } "DELETE" "ok", .ok ())
    else failWith s "DELETE" .nsb

def insertKey (k : String × Nat) : List (String × Nat) → List (String × Nat)
  | [] => [k]
  | x :: t => if k.1 < x.1 then k :: x :: t else x :: insertKey k t

def pageSize : Nat := 2

/-- `api.ListObjectsV2`: at most `pageSize` keys after the continuation token, in key order -/
def apiList (s : St) (pfx : String) (token : Option String) : St × Except Err (List (String × Nat) × Option String) :=
  let (t, s) := pop s
  match t with
  | .fail e => failWith s "LIST" e
  | .nat =>
    if !s.api.bucket then failWith s "LIST" .nsb else
    let ks := (s.api.objs.filter fun x => pfx.isPrefixOf x.1 && (match token with | none => true | some tk => decide (tk < x.1)))
    let ks := (ks.map fun x => (x.1, x.2.length)).foldr insertKey []
    let page := ks.take pageSize
    let next := if ks.length > pageSize then (page.getLast?.map (·.1)) else none
    (note s "LIST" "ok", .ok (page, next))

/-! ### awsS3Client -/

def isBucketMissing (e : Err) : Bool := e = .nsb || e = .nf
def isNotFound (e : Err) : Bool := e = .nokey || e = .nf || e = .h404

/-- `EnsureBucket`: true = nil -/
def ensureBucket (s : St) : St × Bool :=
  match apiHead s with
  | (s, .ok _) => (s, true)
  | (s, .error e) =>
    if isBucketMissing e then
      match apiCreate s with
      | (s, .ok _) => (s, true)
      | (s, .error e) => (s, e = .owned || e = .exists_)
    else (s, false)

/-- `putObject` (`UploadSegment` / `UploadIndex`): true = returned nil -/
def putObject (s : St) (key : String) (body : Bytes) : St × Bool :=
  match apiPut s key body with
  | (s, .ok _) => (s, true)
  | (s, .error e) =>
    if isBucketMissing e then
      match ensureBucket s with
      | (s, true) =>
        match apiPut s key body with
        | (s, .ok _) => (s, true)
        | (s, .error _) => (s, false)       -- err = retryErr, reported
      | (s, false) => (s, false)
    else (s, false)

/-- `putObject` as rewritten by the seeded change C01-r2-2: `if _, err := c.api.PutObject(...); err != nil {`
shadows the named result; the retry assigns the shadowing variable and `return err` returns the named one. -/
def putObjectShadow (s : St) (key : String) (body : Bytes) : St × Bool :=
  match apiPut s key body with
  | (s, .ok _) => (s, true)
  | (s, .error e) =>
    if isBucketMissing e then
      match ensureBucket s with
      | (s, true) => ((apiPut s key body).1, true)     -- the retry's error is lost
      | (s, false) => (s, false)
    else (s, false)

inductive Ret where
  | data (b : Bytes)
  | notfound
  | err
deriving Repr, DecidableEq

/-- `DownloadSegment` (no not-found mapping) -/
def downloadSegment (s : St) (key : String) (rng : Option (Int × Int)) : St × Ret :=
  match apiGet s key rng with
  | (s, .ok d) => (s, .data d)
  | (s, .error _) => (s, .err)

/-- `DownloadIndex`: a missing object is `ErrNotFound` -/
def downloadIndex (s : St) (key : String) : St × Ret :=
  match apiGet s key none with
  | (s, .ok d) => (s, .data d)
  | (s, .error e) => (s, if isNotFound e then .notfound else .err)

/-- `deleteObject` -/
def deleteObject (s : St) (key : String) : St × Bool :=
  match apiDelete s key with
  | (s, .ok _) => (s, true)
  | (s, .error _) => (s, false)

/-- `ListSegments`: the paginator loop; a bucket-missing error + successful `EnsureBucket` answers the empty list -/
def listSegments (s : St) (pfx : String) : Nat → Option String → List (String × Nat) → St × Option (List (String × Nat))
  | 0, _, out => (s, some out)
  | fuel + 1, token, out =>
    match apiList s pfx token with
    | (s, .error e) =>
      if isBucketMissing e then
        match ensureBucket s with
        | (s, true) => (s, some [])
        | (s, false) => (s, none)
      else (s, none)
    | (s, .ok (page, next)) =>
      match next with
      | none => (s, some (out ++ page))
      | some tk => if tk.isEmpty then (s, some (out ++ page)) else listSegments s pfx fuel (some tk) (out ++ page)

end KafVerif.S3Aws
