import KafVerif.Prelude.Basic
/-!
Model of `internal/console/auth.go` (authManager, loginRateLimiter) and of the part of
`internal/console/server.go` that matters for C38: the route table registered by `NewMux` and the
dispatch rule of `http.ServeMux` for plain patterns.

Time is a `Nat` clock in seconds advanced by explicit `tick` operations (the harness shifts the
stored expiry / hit timestamps backwards instead).  Session tokens are abstract ids handed out by a
counter (`generateToken` = 32 bytes from crypto/rand: assumed never to repeat / be guessed; the
theorem `protected_needs_session` does NOT rely on that, only `live_session_served` does).
Client addresses are abstract ids (`remoteIP` = host part of RemoteAddr; the harness varies ports).

`hist` is a ghost event log (not in the code) over which the property is stated.
-/
namespace KafVerif.Console

/-- what the login payload carries for one credential field, relative to the configured value -/
inductive Cred where
  | ok | bad | empty
deriving Repr, DecidableEq

structure Config where
  enabled : Bool      -- `cfg.Username != "" && cfg.Password != ""`
  ttl : Nat           -- `authManager.ttl` (seconds)
  limit : Nat         -- `newLoginRateLimiter(limit, window)`: nil limiter when either is ≤ 0
  window : Nat
deriving Repr

inductive Event where
  | issued (tok t : Nat)      -- handleLogin stored `sessions[tok] = t + ttl` and set the cookie
  | loggedOut (tok : Nat)     -- handleLogout ran with this cookie
  | attempt (ip t : Nat)      -- a login attempt of `ip` got past the limiter at time t
deriving Repr, DecidableEq

structure State where
  cfg : Config
  now : Nat
  sessions : List (Nat × Nat)        -- token ↦ expiry (Go map: assoc list without duplicate keys)
  hits : List (Nat × List Nat)       -- ip ↦ timestamps (Go map of slices)
  next : Nat                         -- next fresh token id
  hist : List Event                  -- ghost
deriving Repr

def init (cfg : Config) : State :=
  { cfg := cfg, now := 0, sessions := [], hits := [], next := 0, hist := [] }

/-! ### Go map operations on association lists -/

def lookup {β : Type} (m : List (Nat × β)) (k : Nat) : Option β :=
  match m with
  | [] => none
  | (k', v) :: t => if k' = k then some v else lookup t k

def erase {β : Type} (m : List (Nat × β)) (k : Nat) : List (Nat × β) :=
  m.filter fun e => e.1 != k

def insert {β : Type} (m : List (Nat × β)) (k : Nat) (v : β) : List (Nat × β) :=
  (k, v) :: erase m k

def hitsOf (m : List (Nat × List Nat)) (ip : Nat) : List Nat := (lookup m ip).getD []

/-! ### loginRateLimiter.Allow -/

/-- the in-place filter loop: keep `ts` with `ts.After(now - window)`, i.e. `now < ts + window` -/
def prune (window now : Nat) (l : List Nat) : List Nat := l.filter fun ts => now < ts + window

def limiterOff (c : Config) : Bool := c.limit == 0 || c.window == 0

/-- the surviving hits of `ip` after the filter loop of `Allow` -/
def pruned (s : State) (ip : Nat) : List Nat := prune s.cfg.window s.now (hitsOf s.hits ip)

def allow (s : State) (ip : Nat) : State × Bool :=
  if limiterOff s.cfg then
    -- `a.limiter == nil` (or `l == nil` in Allow): always allowed
    ({ s with hist := s.hist ++ [.attempt ip s.now] }, true)
  else if s.cfg.limit ≤ (pruned s ip).length then
    ({ s with hits := insert s.hits ip (pruned s ip) }, false)
  else
    ({ s with hits := insert s.hits ip (pruned s ip ++ [s.now]), hist := s.hist ++ [.attempt ip s.now] }, true)

/-! ### handleLogin / handleLogout / hasValidSession / requireAuth / handleSession -/

inductive LoginOut where
  | method | disabled | limited | badPayload | denied | ok (tok : Nat)
deriving Repr, DecidableEq

def login (s : State) (ip : Nat) (post payloadOk : Bool) (u p : Cred) : State × LoginOut :=
  if !post then (s, .method)
  else if !s.cfg.enabled then (s, .disabled)
  else
    let (s1, a) := allow s ip
    if !a then (s1, .limited)
    else if !payloadOk then (s1, .badPayload)
    else if !(u == .ok && p == .ok) then (s1, .denied)
    else
      let tok := s1.next
      ({ s1 with sessions := insert s1.sessions tok (s1.now + s1.cfg.ttl), next := tok + 1,
                 hist := s1.hist ++ [.issued tok s1.now] }, .ok tok)

/-- `handleLogout`: `false` = 405 (not POST), `true` = 200 -/
def logout (s : State) (post : Bool) (cookie : Option Nat) : State × Bool :=
  if !post then (s, false)
  else match cookie with
    | some tok => ({ s with sessions := erase s.sessions tok, hist := s.hist ++ [.loggedOut tok] }, true)
    | none => (s, true)

/-- `hasValidSession` (deletes an expired entry as the code does) -/
def validate (s : State) (cookie : Option Nat) : State × Bool :=
  match cookie with
  | none => (s, false)
  | some tok =>
    match lookup s.sessions tok with
    | none => (s, false)
    | some exp =>
      if exp < s.now then ({ s with sessions := erase s.sessions tok }, false)   -- time.Now().After(expiry)
      else (s, true)

inductive Guard where
  | disabled | unauth | served
deriving Repr, DecidableEq

/-- `requireAuth(next)` -/
def guard (s : State) (cookie : Option Nat) : State × Guard :=
  if !s.cfg.enabled then (s, .disabled)
  else
    let (s1, v) := validate s cookie
    if v then (s1, .served) else (s1, .unauth)

/-- `handleSession`: the `authenticated` field of the answer -/
def sessionInfo (s : State) (cookie : Option Nat) : State × Bool :=
  if !s.cfg.enabled then (s, false) else validate s cookie

/-! ### the route table and `http.ServeMux` dispatch for plain patterns -/

structure Route where
  pattern : List Char
  wrapped : Bool        -- handler argument is `auth.requireAuth(...)`
  cond : Bool           -- registered inside an `if` (the LFS block)
deriving Repr, DecidableEq

def endsWithSlash (p : List Char) : Bool := p.getLast? == some '/'

/-- a plain pattern matches a clean path when equal, or when it ends in '/' and is a prefix -/
def matchesPath (pat path : List Char) : Bool :=
  pat == path || (endsWithSlash pat && pat.isPrefixOf path)

/-- most specific (= longest) matching pattern; the first of equal length wins (duplicates panic in Go) -/
def best : List Route → List Char → Option Route
  | [], _ => none
  | r :: t, path =>
    match best t path with
    | some r' => if matchesPath r.pattern path && r'.pattern.length < r.pattern.length then some r else some r'
    | none => if matchesPath r.pattern path then some r else none

inductive Disp where
  | notFound
  | redirect                 -- `path + "/"` is registered and `path` has no exact pattern
  | route (r : Route)
deriving Repr, DecidableEq

def hasPattern (rs : List Route) (p : List Char) : Bool := rs.any fun r => r.pattern == p

def dispatch (rs : List Route) (path : List Char) : Disp :=
  if !hasPattern rs path && !endsWithSlash path && hasPattern rs (path ++ ['/']) then .redirect
  else match best rs path with
    | some r => .route r
    | none => .notFound

def apiPrefix : List Char := ['/', 'u', 'i', '/', 'a', 'p', 'i', '/']
def authPrefix : List Char := ['/', 'u', 'i', '/', 'a', 'p', 'i', '/', 'a', 'u', 't', 'h', '/']

/-- a pattern that registers a protected console endpoint: under /ui/api/ but not /ui/api/auth/ -/
def protectedPattern (p : List Char) : Bool := apiPrefix.isPrefixOf p && !authPrefix.isPrefixOf p

inductive MuxOut where
  | notFound | redirect
  | open_                    -- handler not behind requireAuth (static files, auth endpoints, healthz)
  | guarded (g : Guard)
deriving Repr, DecidableEq

/-- a request through the mux: only requireAuth-wrapped routes consult the session table -/
def muxRequest (rs : List Route) (s : State) (path : List Char) (cookie : Option Nat) : State × MuxOut :=
  match dispatch rs path with
  | .notFound => (s, .notFound)
  | .redirect => (s, .redirect)
  | .route r => if r.wrapped then let (s1, g) := guard s cookie; (s1, .guarded g) else (s, .open_)

/-! ### operations -/

inductive Op where
  | tick (d : Nat)
  | login (ip : Nat) (post payloadOk : Bool) (u p : Cred)
  | logout (post : Bool) (cookie : Option Nat)
  | request (cookie : Option Nat)                     -- any requireAuth-wrapped endpoint
  | session (cookie : Option Nat)
deriving Repr

def step (s : State) : Op → State
  | .tick d => { s with now := s.now + d }
  | .login ip post pl u p => (login s ip post pl u p).1
  | .logout post c => (logout s post c).1
  | .request c => (guard s c).1
  | .session c => (sessionInfo s c).1

def run (cfg : Config) (ops : List Op) : State := ops.foldl step (init cfg)

end KafVerif.Console
