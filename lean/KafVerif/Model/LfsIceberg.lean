import KafVerif.Model.LfsResolve
/-!
Model of the iceberg processor's LFS resolve path (third C30 reader):

* `addons/processors/iceberg-processor/internal/processor/lfs.go`   `resolveLfsRecords`, `resolveLfsRecord`
* `addons/processors/iceberg-processor/internal/config/config.go`  `LfsConfig`, `ChecksumEnabled`
* `addons/processors/iceberg-processor/internal/processor/processor.go`  the call site in `Run`
  (`if mapping, ok := p.mappingByTopic[seg.Topic]; ok { p.resolveLfsRecords(ctx, records, mapping.Lfs, seg.Topic) }`)

One `Processor` serves SEVERAL mappings, each with its own `LfsConfig`; all mappings share one
`lfs.S3Reader`.  `resolveLfsRecords` builds a fresh `lfs.Resolver` from the mapping's own
`LfsConfig` on every call (`perMapping`).  How the resolver configuration is obtained is a
parameter (`Provider`) of the step function so that the counter-model "build it once from whichever
mapping comes first and keep it in the Processor" (`onceCached`) can be stated over the same step.

Not modelled (no influence on which bytes are returned): `StoreMetadata` (only adds columns),
`ResolveConcurrency` (number of workers; results are re-ordered by index), metrics, logging.
Both are generated and passed to the real code by the correspondence harness.
-/
namespace KafVerif.LfsIceberg
open KafVerif.LfsResolve
open KafVerif.LfsEnvelope (isEnvGo)

/-- `LfsConfig.Mode`; `other` = any string that is none of the five known ones. -/
inductive LMode where
  | off | resolve | reference | skip | hybrid | other
deriving DecidableEq, Repr

/-- the fields of `config.LfsConfig` that decide which bytes are returned -/
structure LfsCfg where
  mode : LMode
  maxInline : Int              -- MaxInlineSize
  validate : Option Bool       -- ValidateChecksum *bool; `none` = nil
deriving DecidableEq, Repr

/-- `LfsConfig.ChecksumEnabled` (nil = on). -/
def checksumEnabled (c : LfsCfg) : Bool :=
  match c.validate with
  | none => true
  | some b => b

/-- `lfs.ResolverConfig{MaxSize: lfsCfg.MaxInlineSize, ValidateChecksum: lfsCfg.ChecksumEnabled()}` -/
def resolverCfg (c : LfsCfg) : Cfg := ⟨c.maxInline, checksumEnabled c⟩

/-- a record: its value and, for an envelope, the `size` field (only hybrid mode looks at it) -/
structure Rec where
  value : Value
  size : Int

/-- what happens to one record of a call -/
inductive RecOut where
  | dropped                 -- not in the result (skip mode, undecodable envelope)
  | kept                    -- in the result with its value unchanged
  | blob (b : Bytes)        -- in the result with the value replaced by the fetched blob
  | fail                    -- the resolver returned an error
deriving DecidableEq, Repr

/-- one record through the loop body of `resolveLfsRecords` + `resolveLfsRecord`; `c` is the
`lfsCfg` argument (routing), `rc` the configuration of the `lfs.Resolver` the workers use. -/
def resolveRecordWith (H : Alg → Bytes → Bytes) (c : LfsCfg) (rc : Cfg) (s3 : Option (Bytes → Option Bytes))
    (r : Rec) : RecOut :=
  let job : RecOut :=
    match resolve H rc s3 r.value with
    | .err => .fail
    | .passthrough _ => .kept
    | .ok b _ _ => .blob b
  match r.value with
  | .raw v => if !isEnvGo v then .kept else .dropped        -- marker but undecodable: skipped or decode error
  | .env e =>
    if c.mode == .skip then .dropped
    else if !decodeValid e then .dropped
    else match c.mode with
      | .reference => .kept
      | .hybrid => if r.size > 0 && r.size ≤ c.maxInline then job else .kept
      | .resolve => job
      | _ => .kept

/-- the result of one `resolveLfsRecords` call: an error (no records), or the surviving records as
(outcome, index in the input) in input order -/
inductive CallOut where
  | err
  | ok (outs : List (RecOut × Nat))
deriving DecidableEq, Repr

/-- every record handed back unchanged -/
def passAll (recs : List Rec) : CallOut := .ok ((recs.map fun _ => RecOut.kept).zipIdx)

/-- the two early returns of `resolveLfsRecords` (they precede the construction of the resolver) -/
def earlyPass (c : LfsCfg) (recs : List Rec) : Bool := recs.isEmpty || c.mode == .off
def earlyErr (c : LfsCfg) (s3 : Option (Bytes → Option Bytes)) : Bool :=
  s3.isNone && (c.mode == .resolve || c.mode == .hybrid)

/-- `resolveLfsRecords` with a resolver configured by `rc`. -/
def callWith (H : Alg → Bytes → Bytes) (c : LfsCfg) (rc : Cfg) (s3 : Option (Bytes → Option Bytes))
    (recs : List Rec) : CallOut :=
  if earlyPass c recs then passAll recs
  else if earlyErr c s3 then .err
  else
    let outs := recs.map (resolveRecordWith H c rc s3)
    if outs.any (· == .fail) then .err
    else .ok (outs.zipIdx.filter fun p => p.1 != .dropped)

/-! ### the Processor: several mappings, one reader -/

structure Proc where
  s3 : Option (Bytes → Option Bytes)       -- Processor.lfsS3 (nil when no mapping enables LFS)
  mappings : List LfsCfg                   -- mappingByTopic, topics numbered

/-- what a `Processor` could remember between calls about its resolver.  The code keeps NOTHING
(`perMapping` never writes it); the field exists for the counter-model. -/
structure PState where
  cached : Option Cfg

/-- how a call obtains the configuration of its resolver -/
abbrev Provider := PState → LfsCfg → PState × Cfg

/-- the code: `lfs.NewResolver(lfs.ResolverConfig{…lfsCfg…}, p.lfsS3)` inside every call -/
def perMapping : Provider := fun st c => (st, resolverCfg c)

/-- counter-model: built once (`sync.Once`) from the first mapping that needs it, reused for all -/
def onceCached : Provider := fun st c =>
  match st.cached with
  | some rc => (st, rc)
  | none => (⟨some (resolverCfg c)⟩, resolverCfg c)

/-- one segment of mapping `m` through `Run`'s LFS stage. -/
def stepWith (prov : Provider) (H : Alg → Bytes → Bytes) (p : Proc) (st : PState) (m : Nat) (recs : List Rec) :
    PState × CallOut :=
  match p.mappings[m]? with
  | none => (st, passAll recs)                 -- no mapping for the topic: the stage is not entered
  | some c =>
    if earlyPass c recs || earlyErr c p.s3 then (st, callWith H c (resolverCfg c) p.s3 recs)   -- no resolver is built
    else
      let (st', rc) := prov st c
      (st', callWith H c rc p.s3 recs)

/-- a history of segments (mapping index, records) processed one after the other -/
def runWith (prov : Provider) (H : Alg → Bytes → Bytes) (p : Proc) : PState → List (Nat × List Rec) → PState × List CallOut
  | st, [] => (st, [])
  | st, (m, recs) :: rest =>
    let (st', o) := stepWith prov H p st m recs
    let (st'', os) := runWith prov H p st' rest
    (st'', o :: os)

/-- SPEC: the outcome of a segment of mapping `m` computed from `m`'s OWN `LfsConfig` and nothing else -/
def ownCall (H : Alg → Bytes → Bytes) (p : Proc) (m : Nat) (recs : List Rec) : CallOut :=
  match p.mappings[m]? with
  | none => passAll recs
  | some c => callWith H c (resolverCfg c) p.s3 recs

end KafVerif.LfsIceberg
