/-!
Checker for the slice / index provenance table that `harness/C35/extract` regenerates from
`internal/sql/parser.go` on every run (`lean/KafVerif/Gen/C35Slices.lean`).

A sequence (string or slice) is a ROOT plus a byte OFFSET expression into it.  Within one
function a root is a parameter (`param i`) or a value created in the function (`fresh id`).  The
extractor gives the result of the byte-length-preserving lowering (`lowerASCII`) the root of its
argument and every other newly built string (`strings.ToLower`, `TrimSpace`, …) a fresh root, so
"same root and same offset" means "byte offsets carry over".

`rowOk`: every index value used in `x[i:j]` / `x[i]` was computed on `x` itself or on a sequence
with `x`'s root and offset; two different PARAMETERS count as the same root only if every call
site of the function passes arguments with the same root and offset (checked recursively up the
call graph).  Offsets and function names are interned as numbers by the generator.
-/
namespace KafVerif.SqlSlices

inductive Root where
  | param (i : Nat)
  | fresh (id : Nat)
deriving Repr, DecidableEq

structure Origin where
  root : Root
  off : Nat
deriving Repr, DecidableEq

structure SliceRow where
  fn : Nat
  line : Nat
  root : Root
  off : Nat
  bounds : List Origin
deriving Repr, DecidableEq

structure CallRow where
  caller : Nat
  callee : Nat
  args : List (Option Origin)
deriving Repr, DecidableEq

/-- are two roots of function `f` byte-aligned?  Equal roots are; two different parameters are if
every call site of `f` passes arguments with equal offsets whose roots are aligned in the caller
(`fuel` bounds the walk up the call graph; structural, so the kernel can evaluate it). -/
def rootsAligned (calls : List CallRow) : Nat → Nat → Root → Root → Bool
  | 0, _, r1, r2 => r1 == r2
  | fuel + 1, f, r1, r2 =>
    r1 == r2 ||
    (match r1, r2 with
      | .param i, .param j =>
        let cs := calls.filter (fun c => c.callee == f)
        !cs.isEmpty && cs.all fun c =>
          match c.args[i]?, c.args[j]? with
          | some (some a), some (some b) => a.off == b.off && rootsAligned calls fuel c.caller a.root b.root
          | _, _ => false
      | _, _ => false)

/-- call-graph depth explored (the parser's call graph is four levels deep) -/
def depth : Nat := 8

def rowOk (calls : List CallRow) (r : SliceRow) : Bool :=
  r.bounds.all fun b => b.off == r.off && rootsAligned calls depth r.fn b.root r.root

def checkAll (slices : List SliceRow) (calls : List CallRow) : Bool := slices.all (rowOk calls)

/-- the rows that fail, for the report -/
def failing (slices : List SliceRow) (calls : List CallRow) : List SliceRow := slices.filter (fun r => !rowOk calls r)

/-! ## Package-level variables (shared between the goroutines that call `Parse`)

`sql.Parse` runs on one goroutine per client connection, so it must not touch unsynchronised
shared mutable state: a Go map written by two goroutines is a `fatal error: concurrent map
writes` that no `recover` can stop.  The extractor lists every package-level `var` of the
package with its type class and how the function bodies use it (`init()` excluded):
`writes` = sites that assign it / an element / a field, `delete`/`clear`/`copy` into it, sort it,
pass it to a package function that writes or aliases that parameter, plus sites that alias it
(`&v`, `x := v`, `return v`); `unguarded` = access sites (reads included) in functions that take no
lock.  Compiled regexps and tables that are only read have `writes = 0`. -/

/-- type classes, as interned by the generator -/
def kScalar : Nat := 0
def kMap : Nat := 1
def kSlice : Nat := 2
def kArray : Nat := 3
def kPointer : Nat := 4
def kRegexp : Nat := 5
def kSync : Nat := 6
def kFunc : Nat := 7
def kOther : Nat := 8

structure VarRow where
  line : Nat
  kind : Nat
  writes : Nat
  unguarded : Nat
deriving Repr, DecidableEq

/-- a package-level variable is harmless for concurrent `Parse` calls if it is a synchronisation
object (sync.*, atomic.*, channel), or no function writes / aliases it, or every access happens in
a function that takes a lock. -/
def varOk (v : VarRow) : Bool := v.kind == kSync || v.writes == 0 || v.unguarded == 0

def varsOk (vs : List VarRow) : Bool := vs.all varOk

theorem varsOk_iff (vs : List VarRow) :
    varsOk vs = true ↔ ∀ v ∈ vs, v.kind = kSync ∨ v.writes = 0 ∨ v.unguarded = 0 := by
  simp [varsOk, varOk, List.all_eq_true, Bool.or_eq_true]
  constructor
  · intro h v hv
    rcases h v hv with (h | h) | h
    · exact Or.inl h
    · exact Or.inr (Or.inl h)
    · exact Or.inr (Or.inr h)
  · intro h v hv
    rcases h v hv with h | h | h
    · exact Or.inl (Or.inl h)
    · exact Or.inl (Or.inr h)
    · exact Or.inr h

/-- a hoisted compiled regexp, a read-only keyword table and a mutex-guarded cache are accepted … -/
example : varsOk [⟨10, kRegexp, 0, 3⟩, ⟨11, kSlice, 0, 5⟩, ⟨12, kSync, 0, 0⟩, ⟨13, kMap, 1, 0⟩] = true := by decide
/-- … the lock-less pattern cache (one write site, two unguarded accesses) is not. -/
example : varsOk [⟨624, kMap, 1, 2⟩] = false := by decide

end KafVerif.SqlSlices
