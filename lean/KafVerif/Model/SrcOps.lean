/-!
Row types of the control skeletons that `harness/C18/tools/extract` (go/ast) regenerates from
`pkg/metadata/lease_manager.go`, `partition_router.go` and `group_router.go` on every run
(`lean/KafVerif/Gen/C18LeaseOps.lean`, `lean/KafVerif/Gen/C20WatchOps.lean`), shared by C18 and C20.

One `Row` = one fact of one function, in source order:
  * `txn`     — `client.Txn(ctx).If(cmps).Then(ops).Else(ops).Commit()`
  * `etcd`    — any other call on the etcd client (`Put`/`Get`/`Delete`/`Watch`/…), context argument dropped
  * `session` — `concurrency.NewSession`, `X.Close()`, `X.Orphan()`, `X.Revoke`, `X.Grant`
  * `write`   — store to a field of the receiver (`m.owned[k] = v`: target `m.owned`, index `k`;
                `delete(m.owned, k)`: target `delete m.owned`, index `k`; `m.session = x`; `m.closed.Store(true)`)
                or to a re-assigned local (`rev`, `fresh`); `locked` = inside `mu.Lock()`
  * `call`    — call of another effectful method of the same type (`async` = `go` statement)
  * `ret`     — return statement
  * `jump`    — `continue` / `break` / `goto`
`guard` = every condition that dominates the row (enclosing `if`/`switch`/`select`/`for` headers and the
negation of every earlier `if c { …; return }` of the enclosing blocks).  Locals defined once are
replaced by their definition; the results of the n-th effect `M` of a function are `M#n.0`, `M#n.1`.
-/
namespace KafVerif.SrcOps

structure Cmp where
  target : String      -- CreateRevision | ModRevision | Value | Version | …
  key : String
  rel : String
  val : String
deriving DecidableEq, Repr

structure KOp where
  kind : String        -- OpPut | OpGet | OpDelete
  args : List String
deriving DecidableEq, Repr

inductive Ev where
  | txn (ifs : List Cmp) (thn els : List KOp)
  | etcd (method : String) (args : List String)
  | session (method recv : String) (args : List String)
  | write (target index value : String) (locked : Bool)
  | call (fn : String) (args : List String) (async : Bool)
  | ret (vals : List String)
  | jump (kind : String)
deriving DecidableEq, Repr

structure Row where
  fn : String
  guard : List String
  reads : List String   -- the re-assigned locals (`rev`, …) the guard mentions
  ev : Ev
deriving DecidableEq, Repr

/-- `p` is a prefix of `s` (kernel-reducible, unlike `String.startsWith`; decoding a string costs the
kernel milliseconds per character, so the obligations only use string EQUALITY, which is cheap) -/
def hasPrefix (p s : String) : Bool := p.toList.isPrefixOf s.toList

/-- `p` occurs in `s` -/
def hasInfix (p s : String) : Bool :=
  let rec go (pl : List Char) : List Char → Bool
    | [] => pl.isEmpty
    | c :: cs => pl.isPrefixOf (c :: cs) || go pl cs
  go p.toList s.toList

/-- a write row inside a `mu.Lock()` region -/
def Row.locked (r : Row) : Bool :=
  match r.ev with
  | .write _ _ _ l => l
  | _ => false

/-- rows of one function, in source order -/
def ofFn (rows : List Row) (fn : String) : List Row := rows.filter (·.fn == fn)

/-- first index at which two tables differ (with the two rows found there) -/
def firstDiff : List Row → List Row → Nat → Option (Nat × Option Row × Option Row)
  | [], [], _ => none
  | a :: _, [], i => some (i, some a, none)
  | [], b :: _, i => some (i, none, some b)
  | a :: as, b :: bs, i => if a = b then firstDiff as bs (i + 1) else some (i, some a, some b)

theorem firstDiff_none_iff (xs ys : List Row) (i : Nat) : firstDiff xs ys i = none ↔ xs = ys := by
  induction xs generalizing ys i with
  | nil => cases ys <;> simp [firstDiff]
  | cons a as ih =>
    cases ys with
    | nil => simp [firstDiff]
    | cons b bs =>
      by_cases h : a = b
      · simp [firstDiff, h, ih]
      · simp [firstDiff, h]

def Ev.isTxn : Ev → Bool
  | .txn .. => true
  | _ => false

def Ev.isEtcd (m : String) : Ev → Bool
  | .etcd m' _ => m == m'
  | _ => false

def Ev.isWriteTo (t : String) : Ev → Bool
  | .write t' _ _ _ => t == t'
  | _ => false

def Ev.isJump : Ev → Bool
  | .jump _ => true
  | _ => false

def Ev.isCall (f : String) : Ev → Bool
  | .call f' _ _ => f == f'
  | _ => false

/-- human-readable one-liner for diagnostics (`#eval` by the checks when an obligation fails) -/
def Row.show (r : Row) : String :=
  let ev := match r.ev with
    | .txn ifs thn els =>
      "Txn.If(" ++ ", ".intercalate (ifs.map fun c => c.target ++ "(" ++ c.key ++ ") " ++ c.rel ++ " " ++ c.val) ++
      ").Then(" ++ ", ".intercalate (thn.map fun o => o.kind ++ "(" ++ ", ".intercalate o.args ++ ")") ++
      ").Else(" ++ ", ".intercalate (els.map fun o => o.kind ++ "(" ++ ", ".intercalate o.args ++ ")") ++ ")"
    | .etcd m args => "client." ++ m ++ "(" ++ ", ".intercalate args ++ ")"
    | .session m recv args => (if recv == "" then "" else recv ++ ".") ++ m ++ "(" ++ ", ".intercalate args ++ ")"
    | .write t i v l => t ++ (if i == "" then "" else "[" ++ i ++ "]") ++ " := " ++ v ++ (if l then "  [under mu.Lock]" else "  [no write lock]")
    | .call f args a => (if a then "go " else "") ++ f ++ "(" ++ ", ".intercalate args ++ ")"
    | .ret vals => "return " ++ ", ".intercalate vals
    | .jump k => k
  r.fn ++ ": " ++ ev ++ "   when [" ++ "; ".intercalate r.guard ++ "]"

def showDiff (what : String) (extracted expected : List Row) : List String :=
  match firstDiff extracted expected 0 with
  | none => []
  | some (i, a, b) =>
    [what ++ ": row " ++ toString i ++ " differs",
     "  source now : " ++ (match a with | some r => r.show | none => "(no further row)"),
     "  model needs: " ++ (match b with | some r => r.show | none => "(no further row)")]

end KafVerif.SrcOps
