import KafVerif.Prelude.Basic
/-!
Model of `pkg/protocol`: `byteReader` (`read`, `Int16`, `Int32`, `NullableString`, `UVarint`,
`SkipTaggedFields`) of encoding.go, `ParseRequestHeader` of request.go, `ReadFrame` of frame.go and
the response-header rule of `EncodeResponse` / `encodeResponseHeader` of response.go.

* `Reader.pos` is an `Int` with Go `int` (64 bit) semantics where it matters: `int(size)` of a
  `uint64` tagged-field size is `toInt64`.  `read`/`UVarint` use Go slice expressions, modelled by
  `goSlice`, which panics exactly when Go does.
* `readOld` / `skipTaggedOld` / `parseHeaderOld` are the code BEFORE the proposed fix
  (`fixes/C10-reader-negative-length.patch`): `read` did not reject a negative `n`.
* kmsg's `RequestForKey(k) != nil && IsFlexible()` is the parameter `flex : Int → Int → Bool`
  (dumped from the linked kmsg by the harness on every run).
* `binary.Uvarint` is modelled with `+`/`*` instead of `|`/`<<` (the operands have disjoint bits).
* Body stage (`ParseRequestBody`, `ParseRequest`): kmsg's decoder is a parameter (`known`, `dec`); request.go's own logic around it —
  unknown key, the decode-error path incl. the evaluation of the error-message arguments, the header handed through — is modelled
  (`parseRequestBodyWith`); the header's client id is an `Option` (null client id = `none`).
-/
namespace KafVerif.ProtoHeader

structure Reader where
  buf : Bytes
  pos : Int
deriving Repr, DecidableEq

def Reader.remaining (r : Reader) : Int := (r.buf.length : Int) - r.pos

/-- `byteReader.read` after the fix: `if n < 0 || r.remaining() < n { return err }`. -/
def read (r : Reader) (n : Int) : GoResult (Bytes × Reader) :=
  if n < 0 ∨ r.remaining < n then .err
  else (goSlice r.buf r.pos (r.pos + n)).bind fun b => .ok (b, { r with pos := r.pos + n })

/-- `byteReader.read` before the fix: only `r.remaining() < n` is checked. -/
def readOld (r : Reader) (n : Int) : GoResult (Bytes × Reader) :=
  if r.remaining < n then .err
  else (goSlice r.buf r.pos (r.pos + n)).bind fun b => .ok (b, { r with pos := r.pos + n })

def u16 (b : Bytes) : Nat := match b with
  | [a, c] => a.toNat * 256 + c.toNat
  | _ => 0
def u32 (b : Bytes) : Nat := match b with
  | [a, c, d, e] => ((a.toNat * 256 + c.toNat) * 256 + d.toNat) * 256 + e.toNat
  | _ => 0
/-- `int16(uint16)` / `int32(uint32)` / `int(uint64)` conversions. -/
def toInt16 (u : Nat) : Int := if u % 65536 < 32768 then (u % 65536 : Nat) else (u % 65536 : Nat) - 65536
def toInt32 (u : Nat) : Int := if u % 2 ^ 32 < 2 ^ 31 then (u % 2 ^ 32 : Nat) else (u % 2 ^ 32 : Nat) - 2 ^ 32
def toInt64 (u : Nat) : Int := if u % 2 ^ 64 < 2 ^ 63 then (u % 2 ^ 64 : Nat) else (u % 2 ^ 64 : Nat) - 2 ^ 64

section generic
-- the reader functions, parametric in which `read` is linked (fixed or pre-fix)
variable (rd : Reader → Int → GoResult (Bytes × Reader))

def int16With (r : Reader) : GoResult (Int × Reader) :=
  (rd r 2).bind fun (b, r') => .ok (toInt16 (u16 b), r')

def int32With (r : Reader) : GoResult (Int × Reader) :=
  (rd r 4).bind fun (b, r') => .ok (toInt32 (u32 b), r')

/-- `NullableString`: -1 → nil; other negatives → error. -/
def nullableStringWith (r : Reader) : GoResult (Option Bytes × Reader) :=
  (int16With rd r).bind fun (l, r1) =>
    if l = -1 then .ok (none, r1)
    else if l < 0 then .err
    else (rd r1 l).bind fun (b, r2) => .ok (some b, r2)
end generic

/-- `binary.Uvarint(buf)`: `(value, n)`; `n = 0` buffer too small, `n < 0` overflow. -/
def uvarintAux : Bytes → Nat → Nat → Nat → Nat × Int
  | [], _, _, _ => (0, 0)
  | b :: rest, i, x, s =>
    if i = 10 then (0, -((i : Int) + 1))
    else if b.toNat < 128 then
      if i = 9 ∧ b.toNat > 1 then (0, -((i : Int) + 1)) else (x + b.toNat * 2 ^ s, (i : Int) + 1)
    else uvarintAux rest (i + 1) (x + (b.toNat % 128) * 2 ^ s) (s + 7)

def goUvarint (b : Bytes) : Nat × Int := uvarintAux b 0 0 0

/-- `byteReader.UVarint`: `binary.Uvarint(r.buf[r.pos:])`, `n <= 0` is an error. -/
def uvarint (r : Reader) : GoResult (Nat × Reader) :=
  (goSlice r.buf r.pos r.buf.length).bind fun tail =>
    let (v, n) := goUvarint tail
    if n ≤ 0 then .err else .ok (v, { r with pos := r.pos + n })

section generic
variable (rd : Reader → Int → GoResult (Bytes × Reader))

/-- the loop body of `SkipTaggedFields`, `count` iterations (`for i := uint64(0); i < count; i++`). -/
def skipLoopWith : Nat → Reader → GoResult Reader
  | 0, r => .ok r
  | c + 1, r =>
    (uvarint r).bind fun (_, r1) =>          -- tag
    (uvarint r1).bind fun (size, r2) =>      -- size
      if size = 0 then skipLoopWith c r2
      else (rd r2 (toInt64 size)).bind fun (_, r3) => skipLoopWith c r3

def skipTaggedWith (r : Reader) : GoResult Reader :=
  (uvarint r).bind fun (count, r1) => skipLoopWith rd count r1
end generic

structure Header where
  key : Int
  ver : Int
  corr : Int
  clientId : Option Bytes
deriving Repr, DecidableEq

/-- `ParseRequestHeader(b)`: header and `b[r.pos:]`. -/
def parseHeaderWith (rd : Reader → Int → GoResult (Bytes × Reader)) (flex : Int → Int → Bool) (b : Bytes) :
    GoResult (Header × Bytes) :=
  let r : Reader := { buf := b, pos := 0 }
  (int16With rd r).bind fun (key, r1) =>
  (int16With rd r1).bind fun (ver, r2) =>
  (int32With rd r2).bind fun (corr, r3) =>
  (nullableStringWith rd r3).bind fun (cid, r4) =>
  (if flex key ver then skipTaggedWith rd r4 else .ok r4).bind fun r5 =>
  (goSlice b r5.pos b.length).bind fun body =>
    .ok ({ key := key, ver := ver, corr := corr, clientId := cid }, body)

def int16 := int16With read
def int32 := int32With read
def nullableString := nullableStringWith read
def skipLoop := skipLoopWith read
def skipTagged := skipTaggedWith read
def parseHeader := parseHeaderWith read
def skipTaggedOld := skipTaggedWith readOld
def parseHeaderOld := parseHeaderWith readOld

/-! ### encoders (what a standard client writes: kmsg `RequestFormatter.AppendRequest`) -/

def putU16 (n : Nat) : Bytes := [UInt8.ofNat (n / 256 % 256), UInt8.ofNat (n % 256)]
def putU32 (n : Nat) : Bytes :=
  [UInt8.ofNat (n / 2 ^ 24 % 256), UInt8.ofNat (n / 2 ^ 16 % 256), UInt8.ofNat (n / 256 % 256), UInt8.ofNat (n % 256)]
/-- two's complement of an `Int` in `w` bits as a `Nat` -/
def twos (w : Nat) (i : Int) : Nat := (i % (2 ^ w : Nat)).toNat

/-- `binary.PutUvarint`, with fuel (10 groups of 7 bits cover 64 bits). -/
def putUvarintAux : Nat → Nat → Bytes
  | 0, v => [UInt8.ofNat (v % 128)]
  | f + 1, v => if v < 128 then [UInt8.ofNat v] else UInt8.ofNat (v % 128 + 128) :: putUvarintAux f (v / 128)
def putUvarint (v : Nat) : Bytes := putUvarintAux 9 v

/-- the fields of a tagged-field section: (uvarint tag, uvarint size, data) each -/
def encodeTagFields (tags : List (Nat × Bytes)) : Bytes :=
  tags.flatMap fun t => putUvarint t.1 ++ putUvarint t.2.length ++ t.2

/-- a tagged-field section: uvarint count, then the fields -/
def encodeTags (tags : List (Nat × Bytes)) : Bytes :=
  putUvarint tags.length ++ encodeTagFields tags

/-- Well-formed tagged-field section: count and tags fit a uint64 (what a uvarint carries), every field size is
below 2^63 (`int(size)` is then non-negative; a Kafka frame is < 2^31 bytes anyway). -/
def TagsWf (tags : List (Nat × Bytes)) : Prop :=
  tags.length < 2 ^ 64 ∧ ∀ t ∈ tags, t.1 < 2 ^ 64 ∧ t.2.length < 2 ^ 63

def encodeNullableString : Option Bytes → Bytes
  | none => [0xff, 0xff]
  | some s => putU16 s.length ++ s

/-- request header v1 (non-flexible) / v2 (flexible: + tagged fields) -/
def encodeHeader (h : Header) (flexible : Bool) (tags : List (Nat × Bytes)) : Bytes :=
  putU16 (twos 16 h.key) ++ putU16 (twos 16 h.ver) ++ putU32 (twos 32 h.corr) ++
    encodeNullableString h.clientId ++ (if flexible then encodeTags tags else [])

/-- Well-formed header values (what fits the wire types). -/
def Header.wf (h : Header) : Prop :=
  -32768 ≤ h.key ∧ h.key < 32768 ∧ -32768 ≤ h.ver ∧ h.ver < 32768 ∧
  -2 ^ 31 ≤ h.corr ∧ h.corr < 2 ^ 31 ∧ (∀ s, h.clientId = some s → s.length < 32768)

/-! ### the body stage: `ParseRequestBody` / `ParseRequest` (request.go)

kmsg is the body codec and a PARAMETER: `known k` = `kmsg.RequestForKey(k) != nil`, `dec k v body` = what `req.ReadFrom(body)` does after
`req.SetVersion(v)`: `some r` = decoded, `none` = kmsg returned an error.  What IS modelled is everything request.go itself does around
it, in particular the error path: Go evaluates every argument of `fmt.Errorf(...)` before the call, so an argument that dereferences an
optional header field (`*header.ClientID` of a request with a NULL client id) would panic there.  `errArgs h` is the outcome of evaluating
those arguments; the header's client id is an `Option` (`none` = the nil `*string` of a null client id). -/

/-- the arguments of the decode-error message of the CODE: `kmsg.NameForKey(header.APIKey), header.APIVersion, err` — only the two
non-optional fields are read. -/
def decodeErrArgs (_h : Header) : GoResult Unit := .ok ()

/-- NOT the code: an error message that also prints `*header.ClientID` (nil-pointer dereference when the client id is null). Kept so
the totality theorem has a witness of what it excludes (`C10.parseRequestDeref_panics`). -/
def decodeErrArgsDeref (h : Header) : GoResult Unit :=
  match h.clientId with
  | none => .panic
  | some _ => .ok ()

/-- `ParseRequestBody(header, body)`: `RequestForKey == nil` → error; `ReadFrom` error → (evaluate the message arguments) error;
else the SAME header and the decoded request. -/
def parseRequestBodyWith {R : Type} (errArgs : Header → GoResult Unit) (known : Int → Bool) (dec : Int → Int → Bytes → Option R)
    (h : Header) (body : Bytes) : GoResult (Header × R) :=
  if !known h.key then .err
  else match dec h.key h.ver body with
    | some r => .ok (h, r)
    | none => (errArgs h).bind fun _ => .err

/-- `ParseRequest(b)`: `ParseRequestHeader`, then `ParseRequestBody` on the header and the rest. -/
def parseRequestWith {R : Type} (errArgs : Header → GoResult Unit) (flex : Int → Int → Bool) (known : Int → Bool)
    (dec : Int → Int → Bytes → Option R) (b : Bytes) : GoResult (Header × R) :=
  (parseHeader flex b).bind fun (h, body) => parseRequestBodyWith errArgs known dec h body

def parseRequestBody {R : Type} := @parseRequestBodyWith R decodeErrArgs
def parseRequest {R : Type} := @parseRequestWith R decodeErrArgs

/-! ### frames -/

/-- `ReadFrame` over a stream that delivers `s` and then EOF: `(payload, rest of stream)`.
`make([]byte, length)` with `length ≤ 2^31-1` is within `AllocMax` (resource use is not modelled). -/
def readFrame (s : Bytes) : GoResult (Bytes × Bytes) :=
  if s.length < 4 then .err                                   -- io.ReadFull(lengthBuf) fails
  else
    let length := toInt32 (u32 (s.take 4))
    if length < 0 then .err
    else (goMake length 1).bind fun _ =>
      if ((s.drop 4).length : Int) < length then .err           -- io.ReadFull(payload) fails
      else .ok ((s.drop 4).take length.toNat, (s.drop 4).drop length.toNat)

/-- The connection loop (`handleConnection`): `ReadFrame` again and again on the same stream until it fails;
`(payloads in order, what is left of the stream when it stops)`.  Fuel = an upper bound on the number of frames. -/
def readFramesAux : Nat → Bytes → List Bytes × Bytes
  | 0, s => ([], s)
  | f + 1, s =>
    match readFrame s with
    | .ok (p, rest) => let (ps, r) := readFramesAux f rest; (p :: ps, r)
    | _ => ([], s)
def readFrames (s : Bytes) : List Bytes × Bytes := readFramesAux (s.length + 1) s

/-- `WriteFrame` (payload shorter than 2^31). -/
def writeFrame (payload : Bytes) : Bytes := putU32 payload.length ++ payload

/-! ### response header (`encodeResponseHeader` + the ApiVersions exception of `EncodeResponse`) -/

def encodeResponseHeader (corr : Int) (flexible : Bool) : Bytes :=
  if flexible then putU32 (twos 32 corr) ++ [0] else putU32 (twos 32 corr)

/-- `flexibleHeader := resp.IsFlexible() && resp.Key() != APIKeyApiVersion` -/
def flexibleHeader (respFlex : Int → Int → Bool) (key ver : Int) : Bool := respFlex key ver && key != 18

def responseHeader (respFlex : Int → Int → Bool) (key ver corr : Int) : Bytes :=
  encodeResponseHeader corr (flexibleHeader respFlex key ver)

/-- `SkipResponseHeader(apiKey, apiVersion, data)` (the proxy runs it on backend replies): `some body` or `none` (= `nil, false`).
`known k` = `kmsg.ResponseForKey(k) != nil`; `respFlex` = that response's `IsFlexible()` at the version.  NOTE: unlike
`EncodeResponse` it has no ApiVersions exception (its callers pass Produce, Fetch and the group keys only). -/
def skipResponseHeader (known : Int → Bool) (respFlex : Int → Int → Bool) (k v : Int) (data : Bytes) : GoResult (Option Bytes) :=
  if data.length < 4 then .ok none
  else if !known k then .ok none
  else if respFlex k v then
    if (4 : Int) ≥ data.length then .ok none
    else (goSlice data 4 data.length).bind fun tail =>          -- newByteReader(data[pos:])
      match skipTagged { buf := tail, pos := 0 } with
      | .ok r => (goSlice data (4 + r.pos) data.length).bind fun b => .ok (some b)
      | .err => .ok none
      | .panic => .panic
  else (goSlice data 4 data.length).bind fun b => .ok (some b)

end KafVerif.ProtoHeader
