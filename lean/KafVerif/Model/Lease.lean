import KafVerif.Prelude.Basic
/-!
Model of `pkg/metadata/lease_manager.go` (`LeaseManager`; `PartitionLeaseManager` and
`GroupLeaseManager` only translate names) at etcd-operation granularity.

World: etcd keys `resource ↦ (owner broker, attached lease, mod revision)`, the set of live
etcd leases, a revision counter.  Per broker: the manager (`closed`, `session`, `owned`) and the
in-flight calls, each with a program counter that walks the code:

  Acquire/doAcquire  entry checks (closed, owned) ............................ `Op.acquire`
    getOrCreateSession lock 1 ................................................ pc `g1`
    concurrency.NewSession = etcd Grant ...................................... pc `grant`
    getOrCreateSession lock 2 (closed? session raced? else publish) .......... pc `g3 l`
    create-if-absent txn ..................................................... pc `txn s`
      response handling: succeeded -> guarded insert ......................... pc `ins s v`
                         Else-branch owner == me -> reacquire ................ pc `mine s`
                         otherwise ErrNotOwner ............................... pc `notMine`
                         etcd error (lease gone) ............................. pc `errR`
    reacquire txn (value compare) ............................................ pc `re s`
  Release: locked local delete (`Op.release`), then the etcd delete (`Op.del i`)
  ReleaseAll: locked clear (`Op.releaseAll`), then session.Close = Revoke (`Op.revoke i`)
  monitorSession: `Op.sessionLost`;  server-side expiry: `Op.expire`;  restart: `Op.crash`.

Every step is one etcd operation or one mutex-protected region.  Same-resource Acquires on one
broker are serialised (singleflight): at most one in-flight acquire per (broker, resource).

Three variants of `Release`'s etcd delete are modelled (`Variant`):
  * `uncond`  — the code before the fix: `client.Delete(key)`                      (violates C18)
  * `byValue` — delete in a txn guarded by `Value(key) == brokerID`                (still violates)
  * `byRev`   — the proposed fix: `owned` remembers the mod revision of the put that made this
                broker owner; delete in a txn guarded by `ModRevision(key) == that revision`.

*Lease assumption* (standard; without it no lease protocol is safe): a broker observes the loss
of its session (`sessionLost`, the locked region of `monitorSession`, atomic with `Done()`
closing) no later than the server expires the lease: `expire l` is enabled only when no live
manager has `session = some l`.
-/
namespace KafVerif.Lease

structure KV where
  owner : Nat
  lease : Nat
  modRev : Nat
deriving DecidableEq, Repr

inductive PC where
  | g1
  | grant
  | g3 (l : Nat)
  | txn (s : Nat)
  | ins (s v : Nat)
  | mine (s : Nat)
  | notMine
  | errR
  | re (s : Nat)
deriving DecidableEq, Repr

inductive Variant where
  | uncond | byValue | byRev
deriving DecidableEq, Repr

/-- guard of a pending Release delete -/
inductive Guard where
  | none
  | value
  | rev (v : Nat)
deriving DecidableEq, Repr

structure Mgr where
  closed : Bool
  session : Option Nat
  owned : Nat → Option Nat      -- resource ↦ mod revision remembered at insert

def Mgr.fresh : Mgr := { closed := false, session := none, owned := fun _ => none }

structure Del where
  broker : Nat
  res : Nat
  guard : Guard
deriving DecidableEq, Repr

structure State where
  kv : Nat → Option KV
  live : Nat → Bool
  nextLease : Nat
  rev : Nat
  mgr : Nat → Mgr
  acq : Nat → Nat → Option PC
  dels : List Del
  revokes : List Nat

def init : State :=
  { kv := fun _ => none, live := fun _ => false, nextLease := 0, rev := 0,
    mgr := fun _ => Mgr.fresh, acq := fun _ _ => none, dels := [], revokes := [] }

inductive Res where
  | ok | notOwner | shuttingDown | err
deriving DecidableEq, Repr

inductive Op where
  | acquire (b r : Nat)
  | step (b r : Nat)
  | abort (b r : Nat)
  | release (b r : Nat)
  | del (i : Nat)
  | dropDel (i : Nat)
  | releaseAll (b : Nat)
  | revoke (i : Nat)
  | dropRevoke (i : Nat)
  | sessionLost (b : Nat)
  | expire (l : Nat)
  | crash (b : Nat)
deriving DecidableEq, Repr

def setMgr (s : State) (b : Nat) (m : Mgr) : State :=
  { s with mgr := fun x => if x = b then m else s.mgr x }

def setAcq (s : State) (b r : Nat) (p : Option PC) : State :=
  { s with acq := fun x y => if x = b ∧ y = r then p else s.acq x y }

def setKV (s : State) (r : Nat) (k : Option KV) : State :=
  { s with kv := fun x => if x = r then k else s.kv x }

/-- lease `l` ends (revoke or expiry): every key attached to it is deleted -/
def endLease (s : State) (l : Nat) : State :=
  { s with
    live := fun x => if x = l then false else s.live x,
    kv := fun r => match s.kv r with
      | some k => if k.lease = l then none else some k
      | none => none,
    rev := s.rev + 1 }

def setOwned (m : Mgr) (r : Nat) (v : Option Nat) : Mgr :=
  { m with owned := fun x => if x = r then v else m.owned x }

/-- the guarded insert at the end of `doAcquire` / `reacquire` -/
def insertStep (s : State) (b r sess v : Nat) : State × Option Res :=
  let m := s.mgr b
  if m.session = some sess then
    (setAcq (setMgr s b (setOwned m r (some v))) b r none, some .ok)
  else (setAcq s b r none, some .err)

/-- one atomic step of the in-flight acquire `(b, r)` -/
def acqStep (s : State) (b r : Nat) : PC → State × Option Res
  | .g1 =>
    match (s.mgr b).session with
    | some l => (setAcq s b r (some (.txn l)), none)
    | none => (setAcq s b r (some .grant), none)
  | .grant =>
    let l := s.nextLease
    (setAcq { s with nextLease := l + 1, live := fun x => if x = l then true else s.live x } b r (some (.g3 l)), none)
  | .g3 l =>
    let m := s.mgr b
    if m.closed then
      -- `_ = session.Close()`: our private lease is revoked (no key was ever attached to it)
      (setAcq { s with live := fun x => if x = l then false else s.live x } b r none, some .shuttingDown)
    else match m.session with
      | some l' =>
        (setAcq { s with live := fun x => if x = l then false else s.live x } b r (some (.txn l')), none)
      | none => (setAcq (setMgr s b { m with session := some l }) b r (some (.txn l)), none)
  | .txn l =>
    match s.kv r with
    | none =>
      if s.live l then
        let v := s.rev + 1
        (setAcq { setKV s r (some ⟨b, l, v⟩) with rev := v } b r (some (.ins l v)), none)
      else (setAcq s b r (some .errR), none)
    | some k =>
      if k.owner = b then (setAcq s b r (some (.mine l)), none)
      else (setAcq s b r (some .notMine), none)
  | .ins l v => insertStep s b r l v
  | .mine l => (setAcq s b r (some (.re l)), none)
  | .notMine => (setAcq s b r none, some .notOwner)
  | .errR => (setAcq s b r none, some .err)
  | .re l =>
    match s.kv r with
    | some k =>
      if k.owner = b then
        if s.live l then
          let v := s.rev + 1
          (setAcq { setKV s r (some ⟨b, l, v⟩) with rev := v } b r (some (.ins l v)), none)
        else (setAcq s b r (some .errR), none)
      else (setAcq s b r (some .notMine), none)
    | none => (setAcq s b r (some .notMine), none)

def guardOf (var : Variant) (v : Nat) : Guard :=
  match var with
  | .uncond => .none
  | .byValue => .value
  | .byRev => .rev v

/-- does the pending delete `d` remove the key it finds? -/
def delFires (d : Del) (k : KV) : Bool :=
  match d.guard with
  | .none => true
  | .value => k.owner == d.broker
  | .rev v => k.modRev == v

def step (var : Variant) (s : State) : Op → State × Option Res
  | .acquire b r =>
    let m := s.mgr b
    if m.closed then (s, some .shuttingDown)
    else if (m.owned r).isSome then (s, some .ok)
    else if (s.acq b r).isSome then (s, none)           -- joins the running flight
    else (setAcq s b r (some .g1), none)
  | .step b r =>
    match s.acq b r with
    | some pc => acqStep s b r pc
    | none => (s, none)
  | .abort b r => (setAcq s b r none, none)
  | .release b r =>
    let m := s.mgr b
    match m.owned r with
    | some v => ({ setMgr s b (setOwned m r none) with dels := s.dels ++ [⟨b, r, guardOf var v⟩] }, none)
    | none => (s, none)
  | .del i =>
    match s.dels[i]? with
    | some d =>
      let s' := { s with dels := s.dels.eraseIdx i }
      match s.kv d.res with
      | some k => if delFires d k then ({ setKV s' d.res none with rev := s.rev + 1 }, none) else (s', none)
      | none => (s', none)
    | none => (s, none)
  | .dropDel i => ({ s with dels := s.dels.eraseIdx i }, none)
  | .releaseAll b =>
    let m := s.mgr b
    let s' := setMgr s b { closed := true, session := none, owned := fun _ => none }
    match m.session with
    | some l => ({ s' with revokes := s.revokes ++ [l] }, none)
    | none => (s', none)
  | .revoke i =>
    match s.revokes[i]? with
    | some l => (endLease { s with revokes := s.revokes.eraseIdx i } l, none)
    | none => (s, none)
  | .dropRevoke i => ({ s with revokes := s.revokes.eraseIdx i }, none)
  | .sessionLost b =>
    let m := s.mgr b
    match m.session with
    | some _ => (setMgr s b { m with session := none, owned := fun _ => none }, none)
    | none => (s, none)
  | .expire l =>
    -- lease assumption: only `Enabled` when no live manager still relies on `l` (see below)
    if s.live l then (endLease s l, none) else (s, none)
  | .crash b =>
    ({ setMgr s b Mgr.fresh with acq := fun x y => if x = b then none else s.acq x y }, none)

/-- The lease assumption as an enabledness condition on schedules. -/
def Enabled (s : State) : Op → Prop
  | .expire l => ∀ b, (s.mgr b).session ≠ some l
  | _ => True

/-- executable version for the driver (brokers `< nb`; all others are untouched and have no session) -/
def enabledB (nb : Nat) (s : State) : Op → Bool
  | .expire l => (List.range nb).all fun b => (s.mgr b).session != some l
  | _ => true

/-- states reachable by schedules that respect the lease assumption -/
inductive Reach (var : Variant) : State → Prop where
  | init : Reach var init
  | step {s : State} (op : Op) : Reach var s → Enabled s op → Reach var (step var s op).1

def run (var : Variant) (s : State) (ops : List Op) : State :=
  ops.foldl (fun s op => (step var s op).1) s

/-- `r ∈ owned_b` -/
def owns (s : State) (b r : Nat) : Bool := ((s.mgr b).owned r).isSome

end KafVerif.Lease
