import KafVerif.Model.KafkaRecord
/-!
Shared byte-format model, part 4: the Kafka v2 record-batch header (61 bytes), the broker's
segment file and its sparse index.

Mirrors `pkg/storage/segment.go` (`BuildSegment`, `buildHeader`, `buildFooter`,
`parseSegmentFooter`), `pkg/storage/index.go` (`IndexBuilder.MaybeAdd`, `BuildBytes`,
`parseIndexMetadata`/`ParseIndex`), `pkg/storage/recordbatch.go` (`NewRecordBatchFromBytes`).
The checksum is a parameter `crc : Bytes → Nat` in every definition (CRC-32C in the driver).
-/
namespace KafVerif.Kafka

def segMagic : Bytes := [0x4B, 0x41, 0x46, 0x53]      -- "KAFS"
def footMagic : Bytes := [0x45, 0x4E, 0x44, 0x21]     -- "END!"
def idxMagic : Bytes := [0x49, 0x44, 0x58, 0x00]      -- "IDX\x00"

/-! ### record batch as a producer / the broker writes it -/

structure Batch where
  base : Int
  leaderEpoch : Int := 0
  attrs : Int := 0
  lastOffsetDelta : Int
  firstTs : Int
  maxTs : Int
  producerId : Int := -1
  producerEpoch : Int := -1
  baseSeq : Int := -1
  recs : List Rec
deriving Repr

/-- bytes 21.. of the batch (what the CRC covers) -/
def batchTail (b : Batch) : Bytes :=
  i16be b.attrs ++ (i32be b.lastOffsetDelta ++ (i64be b.firstTs ++ (i64be b.maxTs ++
    (i64be b.producerId ++ (i16be b.producerEpoch ++ (i32be b.baseSeq ++
      (i32be b.recs.length ++ encRecs b.recs)))))))

/-- the whole batch: baseOffset, batchLength, partitionLeaderEpoch, magic 2, crc, then the tail -/
def encBatch (crc : Bytes → Nat) (b : Batch) : Bytes :=
  i64be b.base ++ (u32be ((batchTail b).length + 9) ++ (i32be b.leaderEpoch ++
    ((2 : UInt8) :: (u32be (crc (batchTail b)) ++ batchTail b))))

/-! ### storage.RecordBatch and NewRecordBatchFromBytes -/

structure SBatch where
  base : Int
  lastOffsetDelta : Int
  msgCount : Int
  bytes : Bytes
deriving DecidableEq, Repr

def sl (b : Bytes) (i j : Nat) : Bytes := (b.drop i).take (j - i)

/-- `NewRecordBatchFromBytes` -/
def newRecordBatch (data : Bytes) : Option SBatch :=
  if data.length < 61 then none
  else some ⟨toS64 (beDec (sl data 0 8)), toS32 (beDec (sl data 23 27)), toS32 (beDec (sl data 57 61)), data⟩

/-! ### index builder -/

structure IdxB where
  interval : Int
  sinceLast : Int
  entries : List (Int × Int)       -- (offset, position), in insertion order
deriving DecidableEq, Repr

/-- `NewIndexBuilder` -/
def newIdx (interval : Int) : IdxB := ⟨if interval ≤ 0 then 1 else interval, 0, []⟩

/-- `IndexBuilder.MaybeAdd` (int32 arithmetic wraps) -/
def maybeAdd (b : IdxB) (offset position msgs : Int) : IdxB :=
  let b' := if b.entries.isEmpty || b.sinceLast ≥ b.interval
            then { b with entries := b.entries ++ [(offset, position)], sinceLast := 0 } else b
  { b' with sinceLast := wrap32 (b'.sinceLast + msgs) }

def encEntries : List (Int × Int) → Bytes
  | [] => []
  | e :: t => i64be e.1 ++ (i32be e.2 ++ encEntries t)

/-- `IndexBuilder.BuildBytes` -/
def indexBytes (b : IdxB) : Bytes :=
  idxMagic ++ (u16be 1 ++ (i32be b.entries.length ++ (i32be b.interval ++ (u16be 0 ++ encEntries b.entries))))

/-! ### segment -/

structure Artifact where
  base : Int
  last : Int
  count : Int
  seg : Bytes
  idx : Bytes
  entries : List (Int × Int)
deriving DecidableEq, Repr

/-- `buildHeader` -/
def segHeader (base count createdMs : Int) : Bytes :=
  segMagic ++ (u16be 1 ++ (u16be 0 ++ (i64be base ++ (i32be count ++ (i64be createdMs ++ u32be 0)))))

/-- `buildFooter` -/
def segFooter (crc : Nat) (last : Int) : Bytes := u32be crc ++ (i64be last ++ footMagic)

/-- loop state of `BuildSegment` -/
structure BuildSt where
  body : Bytes
  idx : IdxB
  total : Int
deriving DecidableEq, Repr

/-- the `for _, batch := range batches` loop; `none` = "batch payload empty" -/
def buildLoop : BuildSt → List SBatch → Option BuildSt
  | st, [] => some st
  | st, b :: t =>
    if b.bytes.isEmpty then none
    else
      let position := wrap32 (32 + st.body.length)
      buildLoop ⟨st.body ++ b.bytes, maybeAdd st.idx b.base position b.msgCount, wrap32 (st.total + b.msgCount)⟩ t

/-- `BuildSegment(cfg, batches, created)`; `none` = returned error -/
def buildSegment (crc : Bytes → Nat) (interval : Int) (batches : List SBatch) (createdMs : Int) : Option Artifact :=
  match batches with
  | [] => none
  | b0 :: _ =>
    match batches.getLast? with
    | none => none
    | some bl =>
      let last := wrap64 (bl.base + bl.lastOffsetDelta)
      match buildLoop ⟨[], newIdx interval, 0⟩ batches with
      | none => none
      | some st =>
        some ⟨b0.base, last, st.total,
              segHeader b0.base st.total createdMs ++ (st.body ++ segFooter (crc st.body) last),
              indexBytes st.idx, st.idx.entries⟩

/-- `parseSegmentFooter`: last offset, or error -/
def parseSegmentFooter (data : Bytes) : Option Int :=
  if data.length < 16 then none
  else if sl data 12 16 ≠ footMagic then none
  else some (toS64 (beDec (sl data 4 12)))

/-- `parseSegmentHeaderCreatedAt` (recovery.go): createdAt millis, or error -/
def parseSegmentHeaderCreatedAt (data : Bytes) : Option Int :=
  if data.length < 32 then none
  else if sl data 0 4 ≠ segMagic then none
  else some (toS64 (beDec (sl data 20 28)))

/-! ### index parsers -/

/-- the entry loop shared by the `binary.Read`-based parsers -/
def readEntries : Nat → Bytes → Option (List (Int × Int))
  | 0, _ => some []
  | n + 1, r =>
    match readN 8 r with
    | none => none
    | some (o, r1) =>
      match readN 4 r1 with
      | none => none
      | some (p, r2) =>
        match readEntries n r2 with
        | none => none
        | some t => some ((toS64 (beDec o), toS32 (beDec p)) :: t)

/-- `parseIndexMetadata` of pkg/storage/index.go: (interval, entries); pointer slice = 8 bytes/entry -/
def parseIndexRoot (mk : Alloc) (data : Bytes) : GoResult (Int × List (Int × Int)) :=
  if data.length < 16 then .err
  else do
    let magic ← goSlice data 0 4
    if magic ≠ idxMagic then .err
    else
      let version := beDec (sl data 4 6)
      if version ≠ 1 then .err
      else
        let count := toS32 (beDec (sl data 6 10))
        let interval := toS32 (beDec (sl data 10 14))
        if count < 0 then .err
        else if count * 12 > ((data.length - 16 : Nat) : Int) then .err
        else do
          mk count 8
          let es ← ofOpt (readEntries count.toNat (data.drop 16))
          .ok (interval, es)

/-- `parseIndex` of the iceberg decoder; `guard` = the count check added by fix C34; 16 bytes/entry -/
def parseIndexIceberg (mk : Alloc) (guard : Bool) (data : Bytes) : GoResult (List (Int × Int)) :=
  if data.length < 16 then .err
  else do
    let magic ← goSlice data 0 4
    if magic ≠ idxMagic then .err
    else
      let version := beDec (sl data 4 6)
      if version ≠ 1 then .err
      else
        let count := toS32 (beDec (sl data 6 10))
        if guard && (count < 0 || count * 12 > ((data.length - 16 : Nat) : Int)) then .err
        else do
          mk count 16
          ofOpt (readEntries count.toNat (data.drop 16))

/-- entry loop of the sql `parseIndex` (explicit bounds check per entry) -/
def readEntriesSql : Nat → Bytes → Option (List (Int × Int))
  | 0, _ => some []
  | n + 1, r =>
    if r.length < 12 then none
    else match readEntriesSql n (r.drop 12) with
      | none => none
      | some t => some ((toS64 (beDec (sl r 0 8)), toS32 (beDec (sl r 8 12))) :: t)

/-- `parseIndex` of the sql decoder (no version check; count read as uint32) -/
def parseIndexSql (mk : Alloc) (guard : Bool) (data : Bytes) : GoResult (List (Int × Int)) :=
  if data.length < 16 then .err
  else do
    let magic ← goSlice data 0 4
    if magic ≠ idxMagic then .err
    else
      let count := beDec (sl data 6 10)
      if guard && count > (data.length - 16) / 12 then .err
      else do
        mk count 16
        ofOpt (readEntriesSql count (data.drop 16))

end KafVerif.Kafka
