import KafVerif.Model.GoStrK
/-!
Model of `pkg/operator/etcd_resources.go`: `sanitizeBucketName`, `defaultEtcdSnapshotBucket`.

`strings.ToLower` is a PARAMETER `lower : Char → Char` (rune-wise map); the theorems only need
that it leaves `[a-z0-9-]` alone.  The driver instantiates it with ASCII + Latin-1 lowering.

`sanitize`     = the code AFTER the proposed fix (cut to 63 bytes, re-trim trailing '-').
`sanitizeOld`  = the code as found (no length cap).
-/
namespace KafVerif.OpBucket
open KafVerif.GoStr

/-- `defaultSnapshotBucketPrefix = "kafscale-etcd"` -/
def pfx : List Char := ['k', 'a', 'f', 's', 'c', 'a', 'l', 'e', '-', 'e', 't', 'c', 'd']

def isLowerAlnum (c : Char) : Bool :=
  (97 ≤ c.toNat && c.toNat ≤ 122) || (48 ≤ c.toNat && c.toNat ≤ 57)

def isDash (c : Char) : Bool := c == '-'

/-- the `for _, r := range raw` loop with its `lastDash` flag -/
def sanLoop : List Char → Bool → List Char
  | [], _ => []
  | r :: rest, lastDash =>
    if isLowerAlnum r then r :: sanLoop rest false
    else if !lastDash then '-' :: sanLoop rest true
    else sanLoop rest true

def trimRightBy (p : Char → Bool) (s : List Char) : List Char := (s.reverse.dropWhile p).reverse
/-- `strings.Trim(s, "-")` -/
def trimDash (s : List Char) : List Char := trimRightBy isDash (s.dropWhile isDash)

def maxBucketLen : Nat := 63

/-- `sanitizeBucketName` as found. -/
def sanitizeOld (lower : Char → Char) (raw : List Char) : List Char :=
  let raw := (trimSpace raw).map lower
  if raw = [] then pfx
  else
    let out := trimDash (sanLoop raw false)
    if out = [] then pfx else out

/-- `sanitizeBucketName` with the fix: `if len(out) > 63 { out = strings.TrimRight(out[:63], "-") }`. -/
def sanitize (lower : Char → Char) (raw : List Char) : List Char :=
  let raw := (trimSpace raw).map lower
  if raw = [] then pfx
  else
    let out := trimDash (sanLoop raw false)
    let out := if out.length > maxBucketLen then trimRightBy isDash (out.take maxBucketLen) else out
    if out = [] then pfx else out

/-- `defaultEtcdSnapshotBucket` (parametric in the sanitizer so old/new share it). -/
def defaultBucketWith (san : List Char → List Char) (namespace_ name : List Char) : List Char :=
  let name := trimSpace name
  let ns := trimSpace namespace_
  if name = [] ∧ ns = [] then pfx
  else if ns = [] then san (pfx ++ '-' :: name)
  else if name = [] then san (pfx ++ '-' :: ns)
  else san (pfx ++ '-' :: ns ++ '-' :: name)

def defaultBucket (lower : Char → Char) := defaultBucketWith (sanitize lower)
def defaultBucketOld (lower : Char → Char) := defaultBucketWith (sanitizeOld lower)

/-- Executable `unicode.ToLower` for ASCII and Latin-1 letters (driver only). -/
def lowerLatin1 (c : Char) : Char :=
  let n := c.toNat
  if (65 ≤ n ∧ n ≤ 90) ∨ (0xC0 ≤ n ∧ n ≤ 0xDE ∧ n ≠ 0xD7) then Char.ofNat (n + 32) else c

/-! ### what a valid S3 bucket name is (general-purpose bucket naming rules) -/

def okChar (c : Char) : Bool := isLowerAlnum c || isDash c

/-- no two adjacent dashes (so none of the reserved `--ol-s3`, `--x-s3`, `--table-s3` suffixes) -/
def noDoubleDash : List Char → Bool
  | a :: b :: t => !(isDash a && isDash b) && noDoubleDash (b :: t)
  | _ => true

/-- length 3..63, only `[a-z0-9-]` (hence no dots: not an IP address, no `..`, no `.mrap`),
begins and ends with a letter or digit, begins with `kafscale-etcd` (hence none of the reserved
prefixes `xn--`, `sthree-`, `amzn-s3-demo-`), no `--`. -/
def validBucket (s : List Char) : Bool :=
  3 ≤ s.length && s.length ≤ 63 && s.all okChar &&
  (match s.head? with | some c => isLowerAlnum c | none => false) &&
  (match s.getLast? with | some c => isLowerAlnum c | none => false) &&
  pfx.isPrefixOf s && noDoubleDash s

end KafVerif.OpBucket
