import KafVerif.Prelude.Basic
/-!
Dispatch model of `(*proxy).handleConnection` (cmd/proxy/main.go): the per-request part of the
loop, i.e. which api keys are answered by the proxy itself, which are handed to a routing
handler, and which fall through to the generic forward-to-backend path at the bottom of the loop.

```
for {
  frame := ReadFrame(conn); header := ParseRequestHeader(...)
  if key == ApiVersions { reply locally | return ; continue }          -- before the readiness gate
  if !p.isReady()       { buildNotReadyResponse → write ; return }
  switch key {
  case Metadata:        resp, err := handleMetadata(...)       ; err → return ; write ; continue
  case FindCoordinator: resp, err := handleFindCoordinator(...); err → return ; write ; continue
  case Produce:         handleProduceRouting  ; err → respondBackendError, return ; (acks=0: continue) ; write ; continue
  case Fetch:           handleFetchRouting    ; err → respondBackendError, return ; write ; continue
  case JoinGroup, SyncGroup, Heartbeat, LeaveGroup, OffsetCommit, OffsetFetch, DescribeGroups:
                        handleGroupRouting    ; err → respondBackendError, return ; write ; continue
  default:
  }
  -- generic path: the connection's own backend link
  if backendConn == nil { connectBackend ; err → respondBackendError, return }
  forwardToBackend ; err → close link, connectBackend (err → respondBackendError, return),
                           forwardToBackend (err → respondBackendError, return)
  write backend's reply verbatim
}
```

Everything the loop CALLS is abstracted to its outcome (`Outcomes`, one record per request, chosen
freely — the theorems quantify over all of them); what the loop DOES with the outcome is modelled
line by line (`step`).  The observable is the list of `Event`s: who built each reply the client
receives and which requests were written to a backend.

`stepFallthrough` is the class of the seeded change C28-r3-1: the error arm of the Metadata case
leaves the switch (`break`) instead of the loop (`return`).  Core Lean only.
-/
namespace KafVerif.ProxyDispatch

/-! ### api keys (pkg/protocol/types.go) -/
def kProduce : Nat := 0
def kFetch : Nat := 1
def kListOffsets : Nat := 2
def kMetadata : Nat := 3
def kOffsetCommit : Nat := 8
def kOffsetFetch : Nat := 9
def kFindCoordinator : Nat := 10
def kJoinGroup : Nat := 11
def kHeartbeat : Nat := 12
def kLeaveGroup : Nat := 13
def kSyncGroup : Nat := 14
def kDescribeGroups : Nat := 15
def kApiVersions : Nat := 18

/-- The arm of the loop a request takes. -/
inductive Arm where
  | apiVersions
  | metadata
  | findCoordinator
  | produce
  | fetch
  | group
  | forward
deriving Repr, DecidableEq, Inhabited

/-- `if header.APIKey == ApiVersions …` followed by `switch header.APIKey`. -/
def arm (k : Nat) : Arm :=
  if k = 18 then .apiVersions
  else if k = 3 then .metadata
  else if k = 10 then .findCoordinator
  else if k = 0 then .produce
  else if k = 1 then .fetch
  else if k = 11 ∨ k = 14 ∨ k = 12 ∨ k = 13 ∨ k = 8 ∨ k = 9 ∨ k = 15 then .group
  else .forward

/-- The requests the property speaks about. -/
def isMetaKey (k : Nat) : Bool := k == 3 || k == 10

/-- Outcome of everything the loop calls while serving ONE request. -/
structure Outcomes where
  /-- `p.isReady()` -/
  ready : Bool
  /-- the arm's handler returned no error (handleApiVersions / handleMetadata /
  handleFindCoordinator / handle{Produce,Fetch,Group}Routing) -/
  handlerOk : Bool
  /-- Produce with acks=0: the handler returns `(nil, nil)`, nothing is written to the client -/
  noReply : Bool
  /-- `buildNotReadyResponse` could parse the body and knows the api key -/
  notReadyOk : Bool
  /-- `WriteFrame(conn, resp)` to the client succeeded -/
  writeOk : Bool
  /-- `connectBackend` when the connection has no link yet -/
  connectOk : Bool
  /-- `forwardToBackend` on the current link -/
  forwardOk : Bool
  /-- `connectBackend` after the first forward failed -/
  reconnectOk : Bool
  /-- `forwardToBackend` on the fresh link -/
  forward2Ok : Bool
deriving Repr, DecidableEq, Inhabited

inductive Event where
  /-- a reply built by the arm's own handler inside the proxy, written to the client -/
  | localReply (k : Nat)
  /-- a reply built by `buildNotReadyResponse` (readiness gate or `respondBackendError`) -/
  | notReadyReply (k : Nat)
  /-- the reply of a routing handler (built from backend replies), written to the client -/
  | routedReply (k : Nat)
  /-- the request was written verbatim to the connection's backend link (generic path) -/
  | forwardSent (k : Nat)
  /-- the backend's reply to a forwarded request, relayed verbatim to the client -/
  | relayedReply (k : Nat)
  /-- `return`: the deferred `conn.Close()` runs -/
  | closed
deriving Repr, DecidableEq, Inhabited

/-- Per-connection state of the loop: still serving, `backendConn != nil`. -/
structure Conn where
  isOpen : Bool
  link : Bool
deriving Repr, DecidableEq, Inhabited

def Conn.fresh : Conn := { isOpen := true, link := false }
def Conn.shut : Conn := { isOpen := false, link := false }

/-- `p.respondBackendError`: a not-ready reply if one can be built; write errors are ignored. -/
def respondBackendError (k : Nat) (o : Outcomes) : List Event :=
  if o.notReadyOk && o.writeOk then [.notReadyReply k] else []

/-- `return` after `respondBackendError`. -/
def failClose (k : Nat) (o : Outcomes) (pre : List Event) : Conn × List Event :=
  (.shut, pre ++ respondBackendError k o ++ [.closed])

/-- An arm that answers from inside the proxy: handler, write, `continue`; any error → `return`. -/
def localArm (c : Conn) (k : Nat) (o : Outcomes) : Conn × List Event :=
  if o.handlerOk && o.writeOk then (c, [.localReply k]) else (.shut, [.closed])

/-- A routing arm (Produce / Fetch / group). -/
def routedArm (c : Conn) (k : Nat) (o : Outcomes) (mayBeSilent : Bool) : Conn × List Event :=
  if !o.handlerOk then failClose k o []
  else if mayBeSilent && o.noReply then (c, [])
  else if o.writeOk then (c, [.routedReply k]) else (.shut, [.closed])

/-- The generic path at the bottom of the loop. -/
def forwardPath (c : Conn) (k : Nat) (o : Outcomes) : Conn × List Event :=
  if !c.link && !o.connectOk then failClose k o []
  else
    let c1 : Conn := { c with link := true }
    if o.forwardOk then
      if o.writeOk then (c1, [.forwardSent k, .relayedReply k]) else (.shut, [.forwardSent k, .closed])
    else if !o.reconnectOk then failClose k o [.forwardSent k]
    else if !o.forward2Ok then failClose k o [.forwardSent k, .forwardSent k]
    else if o.writeOk then (c1, [.forwardSent k, .forwardSent k, .relayedReply k])
    else (.shut, [.forwardSent k, .forwardSent k, .closed])

/-- The readiness gate: one not-ready reply (if it can be built and written), then `return`. -/
def notReadyArm (k : Nat) (o : Outcomes) : Conn × List Event :=
  (.shut, (if o.notReadyOk && o.writeOk then [.notReadyReply k] else []) ++ [.closed])

/-- One iteration of the loop for a request with api key `k`. -/
def step (c : Conn) (k : Nat) (o : Outcomes) : Conn × List Event :=
  if !c.isOpen then (c, [])
  else match arm k with
    | .apiVersions => localArm c k o
    | a =>
      if !o.ready then notReadyArm k o
      else match a with
        | .apiVersions => localArm c k o
        | .metadata => localArm c k o
        | .findCoordinator => localArm c k o
        | .produce => routedArm c k o true
        | .fetch => routedArm c k o false
        | .group => routedArm c k o false
        | .forward => forwardPath c k o

/-- The class of the seeded change: `if err != nil { …; break }` in the Metadata case — the failed
request leaves the switch and runs into the generic path. -/
def stepFallthrough (c : Conn) (k : Nat) (o : Outcomes) : Conn × List Event :=
  if !c.isOpen then (c, [])
  else if arm k = .metadata && o.ready && !o.handlerOk then forwardPath c k o
  else step c k o

def runWith (st : Conn → Nat → Outcomes → Conn × List Event) : Conn → List (Nat × Outcomes) → List Event
  | _, [] => []
  | c, (k, o) :: rest => (st c k o).2 ++ runWith st (st c k o).1 rest

/-- Everything that happens on one client connection. -/
def run (c : Conn) (reqs : List (Nat × Outcomes)) : List Event := runWith step c reqs

/-- The connection after a request sequence. -/
def connAfter (c : Conn) : List (Nat × Outcomes) → Conn
  | [] => c
  | (k, o) :: rest => connAfter (step c k o).1 rest

/-- The api key of a request that reached a backend / whose reply stems from a backend. -/
def Event.backendKey : Event → Option Nat
  | .routedReply k => some k
  | .forwardSent k => some k
  | .relayedReply k => some k
  | _ => none

/-- The api key a reply event answers. -/
def Event.replyKey : Event → Option Nat
  | .localReply k => some k
  | .notReadyReply k => some k
  | .routedReply k => some k
  | .relayedReply k => some k
  | _ => none

/-- The reply was built inside the proxy. -/
def Event.builtLocally : Event → Bool
  | .localReply _ => true
  | .notReadyReply _ => true
  | _ => false

/-- What the client observes for one request. -/
inductive Obs where
  | localReply | notReadyReply | backendReply | closed | nothing
deriving Repr, DecidableEq, Inhabited

def observe : List Event → Obs
  | [] => .nothing
  | .localReply _ :: _ => .localReply
  | .notReadyReply _ :: _ => .notReadyReply
  | .routedReply _ :: _ => .backendReply
  | .relayedReply _ :: _ => .backendReply
  | .closed :: _ => .closed
  | .forwardSent _ :: rest => observe rest

/-- Did the request reach a backend that answered it (what the scripted backends log)? -/
def reachedBackend (evs : List Event) : Bool :=
  evs.any fun e => match e with
    | .routedReply _ => true
    | .relayedReply _ => true
    | _ => false

end KafVerif.ProxyDispatch
