import KafVerif.Prelude.Basic
/-!
Model for C41: traces of threads that acquire/release mutexes and read/write shared variables, and
the lock-discipline facts the go/ast pass extracts from `pkg/storage/log.go`, `buffer.go`,
`pkg/cache/segment_cache.go` and the `logs` map of the broker's handler.

This is the part of "free of data races" that is logic.  Atomics, `sync.Cond`, channels, WaitGroup /
errgroup and goroutine-start edges are NOT modelled (DESIGN C41); the `-race` stress run is what can
actually exhibit a race.
-/
namespace KafVerif.Lockset

inductive Ev where
  | acq (t m : Nat)      -- thread t acquires mutex m
  | rel (t m : Nat)      -- thread t releases mutex m
  | rd (t x : Nat)       -- thread t reads variable x
  | wr (t x : Nat)       -- thread t writes variable x
deriving Repr, DecidableEq

/-- one step of mutex `m`'s state (`none` = free, `some t` = held by t); the outer `Option` is
`none` when the event violates mutex semantics (acquire of a held mutex completing, release by a
non-holder) -/
def stepM (m : Nat) (s : Option Nat) : Ev → Option (Option Nat)
  | .acq t m' => if m' = m then (if s = none then some (some t) else none) else some s
  | .rel t m' => if m' = m then (if s = some t then some none else none) else some s
  | .rd _ _ => some s
  | .wr _ _ => some s

def runFrom (m : Nat) (s : Option Nat) : List Ev → Option (Option Nat)
  | [] => some s
  | e :: t => match stepM m s e with
    | some s' => runFrom m s' t
    | none => none

/-- the access (read or write) thread and variable of an event -/
def access : Ev → Option (Nat × Nat)
  | .rd t x => some (t, x)
  | .wr t x => some (t, x)
  | _ => none

/-- every access to `x` happens while its thread holds `m` -/
def Disciplined (m x : Nat) (tr : List Ev) : Prop :=
  ∀ (P R : List Ev) (e : Ev) (t : Nat), tr = P ++ e :: R → access e = some (t, x) → runFrom m none P = some (some t)

/-! ### extracted facts -/

structure Access where
  write : Bool
  func : String
  line : Nat
  locks : List Nat        -- mutexes (ids within the owning type) held for writing at this point
  rlocks : List Nat       -- mutexes held at least for reading (⊇ locks)
deriving Repr

structure Field where
  owner : String
  name : String
  mutable : Bool          -- written by some method after construction
  accesses : List Access
deriving Repr

def inter (a b : List Nat) : List Nat := a.filter fun x => b.contains x

/-- a mutex that guards every access: held exclusively at every write, at least shared at every read -/
def guards (f : Field) (m : Nat) : Bool :=
  f.accesses.all fun a => if a.write then a.locks.contains m else a.rlocks.contains m

def candidates (f : Field) : List Nat :=
  match f.accesses with
  | [] => []
  | a :: _ => a.rlocks

def guardedBySome (f : Field) : Bool := (candidates f).any (guards f)

def fieldOk (f : Field) : Bool := !f.mutable || f.accesses.isEmpty || guardedBySome f

/-! ### stores through shared elements

What the guarded fields HOLD is shared as well: `l.indexEntries[base]` is a `[]*IndexEntry` that `Read` copies out
under `l.mu` and uses after the lock is released, so the `*IndexEntry` values and the slices' backing arrays are
shared by every reader.  The extractor lists every store whose lvalue goes through such an element (a pointer to a
struct type stored by pointer in a container field of an analysed type, an index into a slice / map of such elements,
a sub-slice hanging off one) unless the root of the lvalue is a fresh local. -/

structure ElemWrite where
  owner : String          -- analysed type whose method performs the store ("" = free function / other type: no lock known)
  elem : String           -- element struct type the store goes through
  func : String
  line : Nat
  locks : List Nat        -- mutexes of `owner` held exclusively at the store
deriving Repr

/-- a store through a shared element is acceptable only inside a method of an analysed type, holding one of its
mutexes exclusively, and all stores through the same element type agree on the owner and share a mutex -/
def elemWriteOk (all : List ElemWrite) (w : ElemWrite) : Bool :=
  w.owner != "" && !w.locks.isEmpty &&
    all.all fun w' => w'.elem != w.elem || (w'.owner == w.owner && !(inter w.locks w'.locks).isEmpty)

def elemWritesOk (all : List ElemWrite) : Bool := all.all (elemWriteOk all)

end KafVerif.Lockset
