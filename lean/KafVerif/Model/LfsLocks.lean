/-!
Lock-region skeleton of the upload-session handlers of `cmd/proxy/lfs_http.go`, as regenerated from the source
on every run by the go/ast extractor of `harness/C32` (→ `lean/KafVerif/Gen/C32Locks.lean`).

One `LEv` = one event of a handler, in source order: operations on the session mutex, calls of the S3 seam
(`m.s3Uploader.X`), uses of the session's mutable fields (`Parts`, `PartSizes`, `TotalUploaded`, `NextPart`, the
hashers, `ExpiresAt`), reads of the request body, deletion of the session from the module's table.
`holdOf` is the denotation the concurrent model of `KafVerif.LfsHttp` takes as its parameter `hold`.
-/
namespace KafVerif.LfsLocks

inductive LEv where
  | lock                       -- session.mu.Lock()
  | unlock                     -- session.mu.Unlock()
  | deferUnlock                -- defer session.mu.Unlock()
  | otherMu (method : String)  -- any other method of session.mu (TryLock, …)
  | go                         -- a `go` statement inside the handler
  | s3 (method : String)       -- m.s3Uploader.<method>(…)
  | use (field : String)       -- session.<mutable field>
  | body                       -- r.Body
  | deleteSession              -- m.lfsDeleteUploadSession(…)
deriving DecidableEq, Repr

/-- a session / S3 / body event (what has to happen inside the lock region) -/
def LEv.guarded : LEv → Bool
  | .s3 _ | .use _ | .body | .deleteSession => true
  | _ => false

/-- the handler takes the session lock before its first event, releases it only on return (`defer`), and
everything else it does — S3 calls included — is a guarded event: ONE lock region = the whole handler -/
def lockedAcross : List LEv → Bool
  | .lock :: .deferUnlock :: rest => rest.all LEv.guarded
  | _ => false

/-- some S3 call happens while the session lock is not held (`held` = lock state so far) -/
def s3Unlocked : Bool → List LEv → Bool
  | _, [] => false
  | _, .lock :: rest => s3Unlocked true rest
  | _, .unlock :: rest => s3Unlocked false rest
  | held, .s3 _ :: rest => !held || s3Unlocked held rest
  | held, _ :: rest => s3Unlocked held rest

/-- denotation of a part handler's skeleton as the `hold` parameter of `LfsHttp.cstep`:
`some true` = lock held from the checks to the recording of the part; `some false` = the S3 call runs outside the
lock (checks on a snapshot, lock re-taken to record); `none` = a shape the model does not cover. -/
def holdOf (evs : List LEv) : Option Bool :=
  if lockedAcross evs then some true
  else if s3Unlocked false evs then some false
  else none

def callsS3 (evs : List LEv) (method : String) : Bool := evs.any (· == .s3 method)

end KafVerif.LfsLocks
