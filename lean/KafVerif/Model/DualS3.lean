import KafVerif.Prelude.Basic
/-!
Model of `cmd/broker/s3_dual.go` (`dualS3Client`) over two buckets with the range semantics of
`storage.MemoryS3Client`, plus the environment the property quantifies over: asynchronous
replication (`replSeg k`/`replIdx k` copy the primary's CURRENT state of object k to the replica, at
any time or never — including the absence of a deleted object) and per-key read faults on either side.

Keys are plain `Nat` (the harness maps ids to real segment/index key strings).
Buckets are functions `key ↦ Option bytes`; the set of keys ever uploaded is kept for listing.
-/
namespace KafVerif.DualS3

structure Rng where
  start : Int
  stop : Int     -- inclusive, as in `storage.ByteRange.End`
deriving Repr, DecidableEq

/-- `MemoryS3Client.DownloadSegment` on an existing object. -/
def rangeRead (data : Bytes) : Option Rng → GoResult Bytes
  | none => .ok data
  | some r =>
    let start := if r.start < 0 then 0 else r.start
    let stop := if r.stop ≥ data.length then (data.length : Int) - 1 else r.stop
    if start > stop ∨ start ≥ data.length then .err
    else .ok ((data.drop start.toNat).take (stop - start + 1).toNat)

structure Bucket where
  seg : Nat → Option Bytes
  idx : Nat → Option Bytes
  failing : Nat → Bool          -- injected read fault for this key (network / 5xx / throttling)
  keys : List Nat               -- keys ever uploaded as segments (for ListSegments)

def Bucket.empty : Bucket := { seg := fun _ => none, idx := fun _ => none, failing := fun _ => false, keys := [] }

def upd {α} (f : Nat → α) (k : Nat) (v : α) : Nat → α := fun k' => if k' = k then v else f k'

/-- one backend's `DownloadSegment` -/
def Bucket.readSeg (b : Bucket) (k : Nat) (r : Option Rng) : GoResult Bytes :=
  if b.failing k then .err
  else match b.seg k with
    | some d => rangeRead d r
    | none => .err

/-- one backend's `DownloadIndex` -/
def Bucket.readIdx (b : Bucket) (k : Nat) : GoResult Bytes :=
  if b.failing k then .err
  else match b.idx k with
    | some d => .ok d
    | none => .err

/-- one backend's `ListSegments` (all keys; sorted by the canonicaliser): key and size -/
def Bucket.list (b : Bucket) : List (Nat × Nat) :=
  (b.keys.eraseDups.filterMap fun k => (b.seg k).map fun d => (k, d.length))

structure State where
  pri : Bucket      -- `d.write`
  rep : Bucket      -- `d.read`

def State.init : State := { pri := Bucket.empty, rep := Bucket.empty }

/-- `dualS3Client.DownloadSegment`: replica first, on ANY error fall back to the primary. -/
def dualReadSeg (s : State) (k : Nat) (r : Option Rng) : GoResult Bytes :=
  match s.rep.readSeg k r with
  | .ok d => .ok d
  | _ => s.pri.readSeg k r

/-- `dualS3Client.DownloadIndex`. -/
def dualReadIdx (s : State) (k : Nat) : GoResult Bytes :=
  match s.rep.readIdx k with
  | .ok d => .ok d
  | _ => s.pri.readIdx k

/-- `dualS3Client.ListSegments` → `d.write.ListSegments`. -/
def dualList (s : State) : List (Nat × Nat) := s.pri.list

inductive Op where
  | upSeg (k : Nat) (b : Bytes)     -- dual.UploadSegment
  | upIdx (k : Nat) (b : Bytes)     -- dual.UploadIndex
  | delSeg (k : Nat)                -- dual.DeleteSegment
  | delIdx (k : Nat)                -- dual.DeleteIndex
  | replSeg (k : Nat)               -- environment: replication catches up on segment object k
  | replIdx (k : Nat)               -- environment: replication catches up on index object k
  | rFail (k : Nat) (on : Bool)     -- environment: replica reads of k fail / recover
  | pFail (k : Nat) (on : Bool)     -- environment: primary reads of k fail / recover
deriving Repr

def step (s : State) : Op → State
  | .upSeg k b => { s with pri := { s.pri with seg := upd s.pri.seg k (some b), keys := k :: s.pri.keys } }
  | .upIdx k b => { s with pri := { s.pri with idx := upd s.pri.idx k (some b) } }
  | .delSeg k => { s with pri := { s.pri with seg := upd s.pri.seg k none } }
  | .delIdx k => { s with pri := { s.pri with idx := upd s.pri.idx k none } }
  | .replSeg k => { s with rep := { s.rep with seg := upd s.rep.seg k (s.pri.seg k), keys := k :: s.rep.keys } }
  | .replIdx k => { s with rep := { s.rep with idx := upd s.rep.idx k (s.pri.idx k) } }
  | .rFail k on => { s with rep := { s.rep with failing := upd s.rep.failing k on } }
  | .pFail k on => { s with pri := { s.pri with failing := upd s.pri.failing k on } }

def run (ops : List Op) : State := ops.foldl step State.init

/-! ### which backend each `dualS3Client` method calls, in order (the delegation table) -/

inductive Method where
  | uploadSegment | uploadIndex | deleteSegment | deleteIndex | downloadSegment | downloadIndex | listSegments | ensureBucket
deriving Repr, DecidableEq

def Method.name : Method → String
  | .uploadSegment => "UploadSegment" | .uploadIndex => "UploadIndex" | .deleteSegment => "DeleteSegment"
  | .deleteIndex => "DeleteIndex" | .downloadSegment => "DownloadSegment" | .downloadIndex => "DownloadIndex"
  | .listSegments => "ListSegments" | .ensureBucket => "EnsureBucket"

/-- a call through the dual client -/
inductive Call where
  | upSeg (k : Nat) | upIdx (k : Nat) | delSeg (k : Nat) | delIdx (k : Nat)
  | rdSeg (k : Nat) (r : Option Rng) | rdIdx (k : Nat) | list | ensure
deriving Repr

/-- backend calls made by one dual-client call: `(true, m)` = replica (`d.read`), `(false, m)` = primary (`d.write`) -/
def backendCalls (s : State) : Call → List (Bool × Method)
  | .upSeg _ => [(false, .uploadSegment)]
  | .upIdx _ => [(false, .uploadIndex)]
  | .delSeg _ => [(false, .deleteSegment)]
  | .delIdx _ => [(false, .deleteIndex)]
  | .rdSeg k r => match s.rep.readSeg k r with
    | .ok _ => [(true, .downloadSegment)]
    | _ => [(true, .downloadSegment), (false, .downloadSegment)]
  | .rdIdx k => match s.rep.readIdx k with
    | .ok _ => [(true, .downloadIndex)]
    | _ => [(true, .downloadIndex), (false, .downloadIndex)]
  | .list => [(false, .listSegments)]
  | .ensure => [(false, .ensureBucket)]

end KafVerif.DualS3
