import KafVerif.Prelude.Basic
/-!
Model of `cmd/broker/s3_dual.go` (`dualS3Client`) over two buckets with the range semantics of
`storage.MemoryS3Client`, plus the environment the property quantifies over: asynchronous
replication (`replSeg k`/`replIdx k` copy the primary's CURRENT state of object k to the replica, at
any time or never — including the absence of a deleted object), per-key read faults on either side and
per-METHOD faults of the non-download calls (`UploadSegment`, `UploadIndex`, `DeleteSegment`, `DeleteIndex`,
`ListSegments`, `EnsureBucket`) on either side: `once` = the next call of that method fails (throttling /
5xx / network) and a retry succeeds, `always` = every call fails until the fault is cleared.  A failing
backend call changes nothing in the bucket (it only uses up a `once` fault).

Keys are plain `Nat` (the harness maps ids to real segment/index key strings).
Buckets are functions `key ↦ Option bytes`; the set of keys ever uploaded is kept for listing.
-/
namespace KafVerif.DualS3

structure Rng where
  start : Int
  stop : Int     -- inclusive, as in `storage.ByteRange.End`
deriving Repr, DecidableEq

/-- `MemoryS3Client.DownloadSegment` on an existing object. -/
def rangeRead (data : Bytes) : Option Rng → GoResult Bytes
  | none => .ok data
  | some r =>
    let start := if r.start < 0 then 0 else r.start
    let stop := if r.stop ≥ data.length then (data.length : Int) - 1 else r.stop
    if start > stop ∨ start ≥ data.length then .err
    else .ok ((data.drop start.toNat).take (stop - start + 1).toNat)

inductive Method where
  | uploadSegment | uploadIndex | deleteSegment | deleteIndex | downloadSegment | downloadIndex | listSegments | ensureBucket
deriving Repr, DecidableEq

def Method.name : Method → String
  | .uploadSegment => "UploadSegment" | .uploadIndex => "UploadIndex" | .deleteSegment => "DeleteSegment"
  | .deleteIndex => "DeleteIndex" | .downloadSegment => "DownloadSegment" | .downloadIndex => "DownloadIndex"
  | .listSegments => "ListSegments" | .ensureBucket => "EnsureBucket"

/-- injected fault of one backend method: `once` = the next call fails, `always` = every call fails -/
inductive Fault where
  | none | once | always
deriving Repr, DecidableEq

def Fault.fires : Fault → Bool
  | .none => false
  | _ => true

/-- state of the fault after one call of the method -/
def Fault.next : Fault → Fault
  | .once => .none
  | f => f

structure Bucket where
  seg : Nat → Option Bytes
  idx : Nat → Option Bytes
  failing : Nat → Bool          -- injected read fault for this key (network / 5xx / throttling)
  keys : List Nat               -- keys ever uploaded as segments (for ListSegments)
  opFault : Method → Fault      -- injected fault of the non-download methods (per method)

def Bucket.empty : Bucket :=
  { seg := fun _ => none, idx := fun _ => none, failing := fun _ => false, keys := [], opFault := fun _ => .none }

def upd {α} (f : Nat → α) (k : Nat) (v : α) : Nat → α := fun k' => if k' = k then v else f k'

/-- one backend's `DownloadSegment` -/
def Bucket.readSeg (b : Bucket) (k : Nat) (r : Option Rng) : GoResult Bytes :=
  if b.failing k then .err
  else match b.seg k with
    | some d => rangeRead d r
    | none => .err

/-- one backend's `DownloadIndex` -/
def Bucket.readIdx (b : Bucket) (k : Nat) : GoResult Bytes :=
  if b.failing k then .err
  else match b.idx k with
    | some d => .ok d
    | none => .err

/-- the content one backend's `ListSegments` reports (all keys; sorted by the canonicaliser): key and size -/
def Bucket.list (b : Bucket) : List (Nat × Nat) :=
  (b.keys.eraseDups.filterMap fun k => (b.seg k).map fun d => (k, d.length))

def updM {α} (f : Method → α) (m : Method) (v : α) : Method → α := fun m' => if m' = m then v else f m'

/-- One backend call of a non-download method `m`: an injected fault makes the call fail and leaves the
bucket content as it was (a `once` fault is used up); otherwise the effect `eff` is applied and `val` of
the bucket (before the effect) is returned. -/
def Bucket.call {α} (b : Bucket) (m : Method) (eff : Bucket → Bucket) (val : Bucket → α) : Bucket × GoResult α :=
  if (b.opFault m).fires then ({ b with opFault := updM b.opFault m (b.opFault m).next }, .err)
  else (eff b, .ok (val b))

/-- one backend's `UploadSegment` -/
def Bucket.uploadSegment (b : Bucket) (k : Nat) (d : Bytes) : Bucket × GoResult Unit :=
  b.call .uploadSegment (fun b => { b with seg := upd b.seg k (some d), keys := k :: b.keys }) (fun _ => ())
/-- one backend's `UploadIndex` -/
def Bucket.uploadIndex (b : Bucket) (k : Nat) (d : Bytes) : Bucket × GoResult Unit :=
  b.call .uploadIndex (fun b => { b with idx := upd b.idx k (some d) }) (fun _ => ())
/-- one backend's `DeleteSegment` -/
def Bucket.deleteSegment (b : Bucket) (k : Nat) : Bucket × GoResult Unit :=
  b.call .deleteSegment (fun b => { b with seg := upd b.seg k none }) (fun _ => ())
/-- one backend's `DeleteIndex` -/
def Bucket.deleteIndex (b : Bucket) (k : Nat) : Bucket × GoResult Unit :=
  b.call .deleteIndex (fun b => { b with idx := upd b.idx k none }) (fun _ => ())
/-- one backend's `ListSegments`: its listing, or its error -/
def Bucket.listSegments (b : Bucket) : Bucket × GoResult (List (Nat × Nat)) :=
  b.call .listSegments id Bucket.list
/-- one backend's `EnsureBucket` -/
def Bucket.ensureBucket (b : Bucket) : Bucket × GoResult Unit :=
  b.call .ensureBucket id (fun _ => ())

structure State where
  pri : Bucket      -- `d.write`
  rep : Bucket      -- `d.read`

def State.init : State := { pri := Bucket.empty, rep := Bucket.empty }

/-- `dualS3Client.DownloadSegment`: replica first, on ANY error fall back to the primary. -/
def dualReadSeg (s : State) (k : Nat) (r : Option Rng) : GoResult Bytes :=
  match s.rep.readSeg k r with
  | .ok d => .ok d
  | _ => s.pri.readSeg k r

/-- `dualS3Client.DownloadIndex`. -/
def dualReadIdx (s : State) (k : Nat) : GoResult Bytes :=
  match s.rep.readIdx k with
  | .ok d => .ok d
  | _ => s.pri.readIdx k

/-! ### reads with the error CLASS callers branch on

`PartitionLog.RestoreFromS3` skips a segment as orphaned exactly when `errors.Is(err, storage.ErrNotFound)` holds for
the index read; every other error aborts the restore (and is retried).  So the class of a failed read is an
observable of the S3 client: `notFound` (the backend says the object does not exist) vs `failed` (fault injected /
5xx / network / timeout / bad range). -/

/-- result of a download with the class of its error -/
inductive RRes where
  | ok (d : Bytes)
  | notFound
  | failed
deriving Repr, DecidableEq

/-- forget the class -/
def RRes.toGo : RRes → GoResult Bytes
  | .ok d => .ok d
  | _ => .err

def RRes.isOk : RRes → Bool
  | .ok _ => true
  | _ => false

/-- one backend's `DownloadSegment`, classified: an injected fault or a bad range is `failed`, a missing object `notFound` -/
def Bucket.readSegC (b : Bucket) (k : Nat) (r : Option Rng) : RRes :=
  if b.failing k then .failed
  else match b.seg k with
    | some d => match rangeRead d r with
      | .ok x => .ok x
      | _ => .failed
    | none => .notFound

/-- one backend's `DownloadIndex`, classified -/
def Bucket.readIdxC (b : Bucket) (k : Nat) : RRes :=
  if b.failing k then .failed
  else match b.idx k with
    | some d => .ok d
    | none => .notFound

/-- `dualS3Client.DownloadSegment` with error classes: `return d.write.DownloadSegment(…)` hands the caller the PRIMARY's
error value, whatever the replica's error was. -/
def dualReadSegC (s : State) (k : Nat) (r : Option Rng) : RRes :=
  match s.rep.readSegC k r with
  | .ok d => .ok d
  | _ => s.pri.readSegC k r

/-- `dualS3Client.DownloadIndex` with error classes. -/
def dualReadIdxC (s : State) (k : Nat) : RRes :=
  match s.rep.readIdxC k with
  | .ok d => .ok d
  | _ => s.pri.readIdxC k

/-- NOT the code: a dual index read that reports BOTH errors joined (`fmt.Errorf("replica: %w; primary: %w")`) when both
reads fail — `errors.Is(·, ErrNotFound)` is then true as soon as EITHER side said not-found. -/
def dualReadIdxJoined (s : State) (k : Nat) : RRes :=
  match s.rep.readIdxC k with
  | .ok d => .ok d
  | re => match s.pri.readIdxC k with
    | .ok d => .ok d
    | pe => if re = .notFound ∨ pe = .notFound then .notFound else .failed

/-- what `RestoreFromS3` does with a listed, not yet committed segment given its index read: `some true` = keep it,
`some false` = skip it as orphaned (only for not-found), `none` = abort the restore with the error -/
def restoreDecision : RRes → Option Bool
  | .ok _ => some true
  | .notFound => some false
  | .failed => none

/-- a dual-client method that is `return d.write.<Method>(…)`: the primary's answer (value or error) is the
answer, the primary's new state is the new state, the replica is not involved -/
def onPrimary {α} (s : State) (f : Bucket → Bucket × GoResult α) : State × GoResult α :=
  ({ s with pri := (f s.pri).1 }, (f s.pri).2)

/-- `dualS3Client.UploadSegment` → `d.write.UploadSegment`. -/
def dualUploadSegment (s : State) (k : Nat) (d : Bytes) : State × GoResult Unit := onPrimary s (·.uploadSegment k d)
/-- `dualS3Client.UploadIndex` → `d.write.UploadIndex`. -/
def dualUploadIndex (s : State) (k : Nat) (d : Bytes) : State × GoResult Unit := onPrimary s (·.uploadIndex k d)
/-- `dualS3Client.DeleteSegment` → `d.write.DeleteSegment`. -/
def dualDeleteSegment (s : State) (k : Nat) : State × GoResult Unit := onPrimary s (·.deleteSegment k)
/-- `dualS3Client.DeleteIndex` → `d.write.DeleteIndex`. -/
def dualDeleteIndex (s : State) (k : Nat) : State × GoResult Unit := onPrimary s (·.deleteIndex k)
/-- `dualS3Client.ListSegments` → `d.write.ListSegments` (the primary's listing or the primary's error). -/
def dualListSegments (s : State) : State × GoResult (List (Nat × Nat)) := onPrimary s (·.listSegments)
/-- `dualS3Client.EnsureBucket` → `d.write.EnsureBucket`. -/
def dualEnsureBucket (s : State) : State × GoResult Unit := onPrimary s (·.ensureBucket)

inductive Op where
  | upSeg (k : Nat) (b : Bytes)     -- dual.UploadSegment
  | upIdx (k : Nat) (b : Bytes)     -- dual.UploadIndex
  | delSeg (k : Nat)                -- dual.DeleteSegment
  | delIdx (k : Nat)                -- dual.DeleteIndex
  | list                            -- dual.ListSegments
  | ensure                          -- dual.EnsureBucket
  | replSeg (k : Nat)               -- environment: replication catches up on segment object k
  | replIdx (k : Nat)               -- environment: replication catches up on index object k
  | rFail (k : Nat) (on : Bool)     -- environment: replica reads of k fail / recover
  | pFail (k : Nat) (on : Bool)     -- environment: primary reads of k fail / recover
  | pOpFail (m : Method) (f : Fault) -- environment: the primary's method m fails once / always / recovers
  | rOpFail (m : Method) (f : Fault) -- environment: the replica's method m fails once / always / recovers
deriving Repr

/-- what the caller of a dual-client write/list call sees (`env` for environment events) -/
inductive Out where
  | unit (r : GoResult Unit)
  | listing (r : GoResult (List (Nat × Nat)))
  | env
deriving Repr, DecidableEq

def stepOut (s : State) : Op → State × Out
  | .upSeg k b => ((dualUploadSegment s k b).1, .unit (dualUploadSegment s k b).2)
  | .upIdx k b => ((dualUploadIndex s k b).1, .unit (dualUploadIndex s k b).2)
  | .delSeg k => ((dualDeleteSegment s k).1, .unit (dualDeleteSegment s k).2)
  | .delIdx k => ((dualDeleteIndex s k).1, .unit (dualDeleteIndex s k).2)
  | .list => ((dualListSegments s).1, .listing (dualListSegments s).2)
  | .ensure => ((dualEnsureBucket s).1, .unit (dualEnsureBucket s).2)
  | .replSeg k => ({ s with rep := { s.rep with seg := upd s.rep.seg k (s.pri.seg k), keys := k :: s.rep.keys } }, .env)
  | .replIdx k => ({ s with rep := { s.rep with idx := upd s.rep.idx k (s.pri.idx k) } }, .env)
  | .rFail k on => ({ s with rep := { s.rep with failing := upd s.rep.failing k on } }, .env)
  | .pFail k on => ({ s with pri := { s.pri with failing := upd s.pri.failing k on } }, .env)
  | .pOpFail m f => ({ s with pri := { s.pri with opFault := updM s.pri.opFault m f } }, .env)
  | .rOpFail m f => ({ s with rep := { s.rep with opFault := updM s.rep.opFault m f } }, .env)

def step (s : State) (op : Op) : State := (stepOut s op).1

def run (ops : List Op) : State := ops.foldl step State.init

/-- what the callers saw, one entry per op -/
def trace : State → List Op → List Out
  | _, [] => []
  | s, op :: ops => (stepOut s op).2 :: trace (step s op) ops

/-! ### which backend each `dualS3Client` method calls, in order (the delegation table) -/

/-- a call through the dual client -/
inductive Call where
  | upSeg (k : Nat) | upIdx (k : Nat) | delSeg (k : Nat) | delIdx (k : Nat)
  | rdSeg (k : Nat) (r : Option Rng) | rdIdx (k : Nat) | list | ensure
deriving Repr

/-- backend calls made by one dual-client call: `(true, m)` = replica (`d.read`), `(false, m)` = primary (`d.write`) -/
def backendCalls (s : State) : Call → List (Bool × Method)
  | .upSeg _ => [(false, .uploadSegment)]
  | .upIdx _ => [(false, .uploadIndex)]
  | .delSeg _ => [(false, .deleteSegment)]
  | .delIdx _ => [(false, .deleteIndex)]
  | .rdSeg k r => match s.rep.readSeg k r with
    | .ok _ => [(true, .downloadSegment)]
    | _ => [(true, .downloadSegment), (false, .downloadSegment)]
  | .rdIdx k => match s.rep.readIdx k with
    | .ok _ => [(true, .downloadIndex)]
    | _ => [(true, .downloadIndex), (false, .downloadIndex)]
  | .list => [(false, .listSegments)]
  | .ensure => [(false, .ensureBucket)]

end KafVerif.DualS3
