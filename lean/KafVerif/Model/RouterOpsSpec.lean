import KafVerif.Model.Router
import KafVerif.Model.SrcOps
/-!
What `Model/Router.lean` ASSUMES about the source of `PartitionRouter` / `GroupRouter`
(`NewXRouter`, `loadAll`, `watch`, `Invalidate`), as a table of rows (format: `Model/SrcOps.lean`).
`checks/C20.py` regenerates the tables from the current `partition_router.go` / `group_router.go`
(`Gen/C20WatchOps.lean`, go/ast) on every run; `Props/C20Ops.lean` demands equality with
`routerSpec …` and, independently of the exact shape, the *watch discipline* the convergence
theorem needs:

  every `client.Watch` registration passes `WithRev(rev+1)`, where `rev` is only ever assigned
  (a) from `loadAll`'s `Header.Revision` after a successful read, or (b) from the `ModRevision` of
  an event that is being applied, under `ModRevision > rev`; no event is skipped because of `rev`;
  after the stream closes the loop reloads.

`variantOf` maps a table to the `Variant` of the model it implements (`fixed` / `noRev` /
`skipSameRev`); `converges` is proved for `fixed`, the other two have violation witnesses.
-/
namespace KafVerif.RouterOps
open KafVerif.SrcOps KafVerif.Router

/-- loop headers of `watch` -/
def gLoop : List String := ["for"]
def gResp : List String := gLoop ++ ["for resp := range Watch#1.0", "resp.Err() == nil"]
def gEv : List String := gResp ++ ["for _, ev := range resp.Events"]

/-- the names that differ between the two routers (all literal: the kernel compares string literals
cheaply but computes with strings slowly) -/
structure Names where
  ctor : String       -- constructor
  key : String        -- the watched / read prefix
  okKv : String       -- loadAll: the key parser accepted kv.Key
  notOkKv : String
  rkKv : String       -- loadAll: the route key
  okEv : String       -- watch: the key parser accepted ev.Kv.Key
  notOkEv : String
  rkEv : String       -- watch: the route key
  invalKey : String   -- the map key `Invalidate` deletes

def partitionNames : Names :=
  { ctor := "NewPartitionRouter", key := "partitionLeasePrefix + \"/\"",
    okKv := "leaseKeyToRouteKey(string(kv.Key)).1", notOkKv := "!leaseKeyToRouteKey(string(kv.Key)).1",
    rkKv := "leaseKeyToRouteKey(string(kv.Key)).0",
    okEv := "leaseKeyToRouteKey(string(ev.Kv.Key)).1", notOkEv := "!leaseKeyToRouteKey(string(ev.Kv.Key)).1",
    rkEv := "leaseKeyToRouteKey(string(ev.Kv.Key)).0",
    invalKey := "partitionKey(topic, partition)" }

def groupNames : Names :=
  { ctor := "NewGroupRouter", key := "groupLeasePrefix + \"/\"",
    okKv := "groupLeaseKeyToGroupID(string(kv.Key)).1", notOkKv := "!groupLeaseKeyToGroupID(string(kv.Key)).1",
    rkKv := "groupLeaseKeyToGroupID(string(kv.Key)).0",
    okEv := "groupLeaseKeyToGroupID(string(ev.Kv.Key)).1", notOkEv := "!groupLeaseKeyToGroupID(string(ev.Kv.Key)).1",
    rkEv := "groupLeaseKeyToGroupID(string(ev.Kv.Key)).0",
    invalKey := "groupID" }

/-- The table of one router. -/
def routerSpec (n : Names) : List Row :=
  [ -- constructor: `load` then `watch` from the revision of that read            (model: load; watch)
    ⟨n.ctor, [], [], .call "loadAll" ["ctx"] false⟩,
    ⟨n.ctor, ["loadAll#1.1 != nil"], [], .ret ["nil", "error(..)"]⟩,
    ⟨n.ctor, ["loadAll#1.1 == nil"], [], .call "watch" ["context.WithCancel(ctx).0", "loadAll#1.0"] true⟩,
    ⟨n.ctor, ["loadAll#1.1 == nil"], [], .ret ["r", "nil"]⟩,
    -- Invalidate                                                                  (model: invalidate k)
    ⟨"Invalidate", [], [], .write "delete r.routes" n.invalKey "" true⟩,
    -- loadAll: one prefix read = snapshot at Header.Revision; table := that snapshot   (model: load / loadFail)
    ⟨"loadAll", [], [], .etcd "Get" [n.key, "WithPrefix()"]⟩,
    ⟨"loadAll", ["Get#1.1 != nil"], [], .ret ["0", "Get#1.1"]⟩,
    ⟨"loadAll", ["Get#1.1 == nil"], [], .write "fresh" "" "make(map[string]string, len(Get#1.0.Kvs))" false⟩,
    ⟨"loadAll", ["Get#1.1 == nil", "for _, kv := range Get#1.0.Kvs", n.notOkKv], [], .jump "continue"⟩,
    ⟨"loadAll", ["Get#1.1 == nil", "for _, kv := range Get#1.0.Kvs", n.okKv], [], .write "fresh" n.rkKv "string(kv.Value)" false⟩,
    ⟨"loadAll", ["Get#1.1 == nil"], [], .write "r.routes" "" "fresh" true⟩,
    ⟨"loadAll", ["Get#1.1 == nil"], [], .ret ["Get#1.0.Header.Revision", "nil"]⟩,
    -- watch: register from rev+1                                                  (model: watch)
    ⟨"watch", gLoop, [], .etcd "Watch" [n.key, "WithPrefix()", "WithPrevKV()", "WithRev(rev + 1)"]⟩,
    ⟨"watch", gLoop ++ ["for resp := range Watch#1.0", "resp.Err() != nil"], [], .jump "continue"⟩,
    -- one response = whole revisions, applied under the lock, event by event      (model: deliver / procEv)
    ⟨"watch", gEv ++ ["ev.Kv.ModRevision > rev"], ["rev"], .write "rev" "" "ev.Kv.ModRevision" true⟩,
    ⟨"watch", gEv ++ [n.notOkEv], [], .jump "continue"⟩,
    ⟨"watch", gEv ++ [n.okEv, "ev.Type == EventTypePut"], [], .write "r.routes" n.rkEv "string(ev.Kv.Value)" true⟩,
    ⟨"watch", gEv ++ [n.okEv, "ev.Type == EventTypeDelete"], [], .write "delete r.routes" n.rkEv "" true⟩,
    -- the channel closed                                                          (model: close; load | loadFail)
    ⟨"watch", gLoop ++ ["ctx.Err() != nil"], [], .ret []⟩,
    ⟨"watch", gLoop ++ ["ctx.Err() == nil"], [], .call "loadAll" ["ctx"] false⟩,
    ⟨"watch", gLoop ++ ["ctx.Err() == nil", "loadAll#1.1 == nil"], [], .write "rev" "" "loadAll#1.0" false⟩ ]

def partitionExpected : List Row := routerSpec partitionNames
def groupExpected : List Row := routerSpec groupNames

/-! ### The watch discipline, independent of the exact shape of the loop

All tests are string EQUALITIES on the rows' fields (cheap for the kernel). -/

def watchRows (rows : List Row) : List Row := ofFn rows "watch"

def watchArgs : Row → Option (List String)
  | ⟨_, _, _, .etcd "Watch" args⟩ => some args
  | _ => none

def isWatchReg (r : Row) : Bool := r.ev.isEtcd "Watch"

/-- options a registration may carry besides the start revision -/
def plainOpt (a : String) : Bool := a == "WithPrefix()" || a == "WithPrevKV()"

/-- (1) every registration resumes right after the tracked revision, on the whole prefix:
`Watch(ctx, key, opts…)` with `WithPrefix()`, `WithRev(rev + 1)` and nothing but plain options besides -/
def regsFromRev (rows : List Row) : Bool :=
  let regs := rows.filter isWatchReg
  !regs.isEmpty && regs.all fun r =>
    match watchArgs r with
    | some (_ :: opts) => opts.contains "WithRev(rev + 1)" && opts.contains "WithPrefix()" &&
                          opts.all fun a => plainOpt a || a == "WithRev(rev + 1)"
    | _ => false

/-- registrations without any start revision (the code as found) -/
def regsWithoutRev (rows : List Row) : Bool :=
  let regs := rows.filter isWatchReg
  !regs.isEmpty && regs.all fun r =>
    match watchArgs r with
    | some (_ :: opts) => opts.all plainOpt
    | _ => false

inductive RevUpd where
  | eventMax     -- `if ev.Kv.ModRevision > rev { rev = ev.Kv.ModRevision }` inside the event loop
  | fromLoad     -- `rev = loaded` after a successful `loadAll`
  | other
deriving DecidableEq, Repr

def revUpd (r : Row) : Option RevUpd :=
  match r.ev with
  | .write "rev" _ v _ =>
    if v == "ev.Kv.ModRevision" && r.guard.getLast? == some "ev.Kv.ModRevision > rev" &&
       r.guard.contains "for _, ev := range resp.Events" then some .eventMax
    else if v == "loadAll#1.0" && r.guard.contains "loadAll#1.1 == nil" && r.reads.isEmpty then some .fromLoad
    else some .other
  | _ => none

/-- (2) how `rev` is assigned inside `watch` -/
def revUpds (rows : List Row) : List RevUpd := (watchRows rows).filterMap revUpd

def isRouteWrite : SrcOps.Ev → Bool
  | .write t _ _ _ => t == "r.routes" || t == "delete r.routes"
  | _ => false

/-- (3) nothing in the event loop is skipped or applied depending on `rev`: no jump, return or route
write whose guard reads `rev` (the extractor lists the re-assigned locals a guard mentions in `reads`) -/
def revGuarded (rows : List Row) : List Row :=
  (watchRows rows).filter fun r =>
    (r.ev.isJump || isRouteWrite r.ev || (match r.ev with | .ret _ => true | .call .. => true | _ => false)) &&
    r.reads.contains "rev"

/-- the "de-duplicating" skip `if ev.Kv.ModRevision <= rev { continue }` -/
def skipsSameRev (rows : List Row) : Bool :=
  (watchRows rows).any fun r => r.ev.isJump && r.guard.contains "ev.Kv.ModRevision <= rev"

/-- (4) after the stream closed the loop reloads (outside the response loop), and PUT and DELETE
events are both applied -/
def reloadsAfterClose (rows : List Row) : Bool :=
  (watchRows rows).any fun r => r.ev.isCall "loadAll" && !(r.guard.contains "for resp := range Watch#1.0")

def appliesPutAndDelete (rows : List Row) : Bool :=
  ((watchRows rows).any fun r => (match r.ev with | .write "r.routes" i _ true => i != "" | _ => false) &&
      r.guard.contains "ev.Type == EventTypePut") &&
  ((watchRows rows).any fun r => (match r.ev with | .write "delete r.routes" i _ true => i != "" | _ => false) &&
      r.guard.contains "ev.Type == EventTypeDelete")

/-- (5) the first registration starts from the revision of the constructor's read, and `loadAll`
returns the header revision of the very (single) read it built the table from -/
def startsFromLoad (rows : List Row) : Bool :=
  (rows.any fun r => (match r.ev with
                      | .call "watch" [_, a] true => a == "loadAll#1.0"
                      | _ => false) && r.guard.contains "loadAll#1.1 == nil") &&
  ((ofFn rows "loadAll").any fun r => r.ev == .ret ["Get#1.0.Header.Revision", "nil"]) &&
  ((ofFn rows "loadAll").any fun r => r.ev == .write "r.routes" "" "fresh" true && r.guard == ["Get#1.1 == nil"]) &&
  ((ofFn rows "loadAll").filter (·.ev.isEtcd "Get")).length == 1

def watchDiscipline (rows : List Row) : Bool :=
  regsFromRev rows && revUpds rows == [.eventMax, .fromLoad] && (revGuarded rows).isEmpty &&
  reloadsAfterClose rows && appliesPutAndDelete rows && startsFromLoad rows

/-- which `Variant` of `Model/Router.lean` a table implements (by its registration and bookkeeping only) -/
def variantOf (rows : List Row) : Option Variant :=
  if regsWithoutRev rows then some .noRev
  else if regsFromRev rows && skipsSameRev rows then some .skipSameRev
  else if regsFromRev rows && revUpds rows == [.eventMax, .fromLoad] && (revGuarded rows).isEmpty then some .fixed
  else none

/-! ### Meaning over the model -/

/-- first revision a registration asks for -/
inductive StartK where
  | afterRev     -- `WithRev(rev+1)`
  | now          -- no start revision: whatever is committed from now on
deriving DecidableEq, Repr

def startOf : Variant → StartK
  | .noRev => .now
  | _ => .afterRev

def startRev (k : StartK) (w : World) : Nat :=
  match k with
  | .afterRev => w.r.rev + 1
  | .now => w.log.length + 1

def diagnose (what : String) (rows expected : List Row) : List String :=
  showDiff ("KafVerif.C20." ++ what ++ "_ops_match") rows expected ++
  (if regsFromRev rows then [] else
    ["KafVerif.C20." ++ what ++ "_watch_discipline: a Watch registration does not pass WithRev(rev + 1) (with WithPrefix()): " ++
      "; ".intercalate ((rows.filter isWatchReg).map Row.show)]) ++
  (if revUpds rows == [.eventMax, .fromLoad] then [] else
    ["KafVerif.C20." ++ what ++ "_watch_discipline: `rev` is not assigned exactly (a) from an applied event's ModRevision under `ModRevision > rev` and (b) from loadAll's revision after a successful reload: " ++
      "; ".intercalate (((watchRows rows).filter fun r => (revUpd r).isSome).map Row.show)]) ++
  (if (revGuarded rows).isEmpty then [] else
    ["KafVerif.C20." ++ what ++ "_watch_discipline: an event is skipped/applied depending on `rev`: " ++
      "; ".intercalate ((revGuarded rows).map Row.show)]) ++
  (if reloadsAfterClose rows then [] else
    ["KafVerif.C20." ++ what ++ "_watch_discipline: the loop no longer reloads (loadAll) after the watch stream closed"]) ++
  (if appliesPutAndDelete rows then [] else
    ["KafVerif.C20." ++ what ++ "_watch_discipline: PUT and DELETE events are no longer both applied to the table"]) ++
  (if startsFromLoad rows then [] else
    ["KafVerif.C20." ++ what ++ "_watch_discipline: the first watch does not start from the Header.Revision of the constructor's read, or loadAll does not (unconditionally, after its single successful Get) install the table built from that read and return its Header.Revision"]) ++
  (match variantOf rows with
    | some .fixed => []
    | some .noRev => ["KafVerif.C20." ++ what ++ "_variant_fixed: the loop is model variant noRev (revision-less watch), for which KafVerif.C20.norev_violates_startup / norev_violates_failed_reload prove lost updates"]
    | some .skipSameRev => ["KafVerif.C20." ++ what ++ "_variant_fixed: the loop is model variant skipSameRev (skips events with ModRevision <= rev), for which KafVerif.C20.skipSameRev_violates proves a route that stays forever"]
    | none => ["KafVerif.C20." ++ what ++ "_variant_fixed: the loop is none of the modelled variants"])

end KafVerif.RouterOps
