import KafVerif.Model.GoStrK
/-!
Model of `addons/processors/sql-processor/internal/proxy/acl.go` (`ACL.Allows`,
`ACL.AllowShowTopics`, `matchPatterns`), parametric in `path.Match`
(`pm pattern topic = some b` for `(b, nil)`, `none` for `ErrBadPattern`).

`globMatch` is an executable `path.Match` for patterns over literals, `*` and `?` (no `[`, no
`\`) — the domain of the correspondence generator.
-/
namespace KafVerif.SqlAcl
open KafVerif.GoStr

structure ACL where
  allow : List (List Char)
  deny : List (List Char)
deriving Repr, DecidableEq

def starStr : List Char := ['*']

/-- one iteration of the `for` loop of `matchPatterns`: does this pattern accept the topic? -/
def patAccepts (pm : List Char → List Char → Option Bool) (pattern topic : List Char) : Bool :=
  let p := trimSpace pattern
  if p = [] then false
  else if p = starStr then true
  else if pm p topic = some true then true
  else p == topic

/-- `matchPatterns` (the `len(patterns) == 0` guard is the empty `any`). -/
def matchPatterns (pm : List Char → List Char → Option Bool) (patterns : List (List Char)) (topic : List Char) : Bool :=
  if patterns.length = 0 then false else patterns.any fun p => patAccepts pm p topic

/-- `ACL.Allows`. -/
def allows (pm : List Char → List Char → Option Bool) (a : ACL) (topic : List Char) : Bool :=
  if matchPatterns pm a.deny topic then false
  else if a.allow.length = 0 then true
  else matchPatterns pm a.allow topic

/-- `ACL.AllowShowTopics`. -/
def allowShowTopics (pm : List Char → List Char → Option Bool) (a : ACL) : Bool :=
  if a.deny.length > 0 then false
  else if a.allow.length = 0 then true
  else matchPatterns pm a.allow starStr

/-- `path.Match` on patterns made of literals, `*`, `?` (`*`/`?` never match '/'). -/
def globFuel : Nat → List Char → List Char → Bool
  | 0, _, _ => false
  | _ + 1, [], [] => true
  | _ + 1, [], _ :: _ => false
  | f + 1, '*' :: p, [] => globFuel f p []
  | f + 1, '*' :: p, c :: n => globFuel f p (c :: n) || (c != '/' && globFuel f ('*' :: p) n)
  | _ + 1, _ :: _, [] => false
  | f + 1, a :: p, c :: n => (if a = '?' then c != '/' else a == c) && globFuel f p n

def globMatch (p n : List Char) : Option Bool := some (globFuel (p.length + n.length + 1) p n)

end KafVerif.SqlAcl
