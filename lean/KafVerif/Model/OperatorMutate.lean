import KafVerif.Prelude.Basic
/-!
Model for C42: the IR the go/ast translator produces for the `controllerutil.CreateOrUpdate`
mutate closures of `pkg/operator` (13 call sites), and its semantics over a JSON-like object.

An object is a total map from field paths to values (`Obj := Path → Nat`; `0` is the zero value;
a path is the list of interned segment ids, the children of a field share its path as a prefix).
Expressions are opaque ids: their values come from `Env` — the cluster resource and the operator's
environment — and by construction cannot depend on the object being mutated; the translator emits
`other` for every statement whose right-hand side, condition or callee mentions the object variable.
`if` statements whose condition does not mention the object are flattened: every atom carries the
list of (condition id, polarity) under which it runs.
-/
namespace KafVerif.Operator

/-- field path: interned segment ids (`spec.template.labels` ↦ `[4, 9, 2]`) -/
abbrev Obj := List Nat → Nat

structure Env where
  cond : Nat → Bool                 -- value of every object-free `if` condition
  val : Nat → List Nat → Nat        -- value of expression `e` at every path below the assigned field
  owner : List Nat → Nat            -- the owner reference SetControllerReference writes
  havoc : Nat → Obj → Obj           -- whatever an unclassified statement does

inductive Atom where
  | assign (p : List Nat) (e : Nat)                 -- `obj.p = e`, also `obj.p[k] = e` (key is the last segment)
  | assignDefault (p : List Nat) (e d : Nat)        -- `obj.p = e; if obj.p == zero { obj.p = d }`
  | defaultIfZero (p : List Nat) (d : Nat)          -- `if obj.p == zero/nil { obj.p = d }` not right after an assignment of p
  | setOwnerRef                                     -- `controllerutil.SetControllerReference(cluster, obj, scheme)`
  | skip                                            -- locals, object-free calls, `return nil`
  | other (id : Nat)                                -- anything else that mentions the object
deriving Repr, DecidableEq

structure GStmt where
  conds : List (Nat × Bool)
  atom : Atom
deriving Repr, DecidableEq

def ownerPath : List Nat := [0]

/-- overwrite the field `p` and everything below it with the (object-independent) value `f` -/
def write (p : List Nat) (f : List Nat → Nat) (o : Obj) : Obj :=
  fun q => if p.isPrefixOf q then f q else o q

def exec (env : Env) (a : Atom) (o : Obj) : Obj :=
  match a with
  | .assign p e => write p (env.val e) o
  | .assignDefault p e d =>
    let o1 := write p (env.val e) o
    if o1 p = 0 then write p (env.val d) o1 else o1
  | .defaultIfZero p d => if o p = 0 then write p (env.val d) o else o
  | .setOwnerRef => write ownerPath env.owner o
  | .skip => o
  | .other id => env.havoc id o

def enabled (env : Env) (g : GStmt) : Bool := g.conds.all fun c => env.cond c.1 == c.2

def stepG (env : Env) (o : Obj) (g : GStmt) : Obj := if enabled env g then exec env g.atom o else o

def run (env : Env) (prog : List GStmt) (o : Obj) : Obj := prog.foldl (stepG env) o

/-- the fragment for which idempotence is proved -/
def atomOk : Atom → Bool
  | .assign .. => true
  | .assignDefault .. => true
  | .setOwnerRef => true
  | .skip => true
  | .defaultIfZero .. => false
  | .other _ => false

def inFragment (prog : List GStmt) : Bool := prog.all fun g => atomOk g.atom

/-- paths a program may write (for the write-coverage tie with the real objects) -/
def writes (prog : List GStmt) : List (List Nat) :=
  prog.filterMap fun g => match g.atom with
    | .assign p _ => some p
    | .assignDefault p _ _ => some p
    | .defaultIfZero p _ => some p
    | .setOwnerRef => some ownerPath
    | _ => none

def covers (prog : List GStmt) (q : List Nat) : Bool :=
  (writes prog).any fun w => w.isPrefixOf q || q.isPrefixOf w

structure Closure where
  func : String
  objType : String
  prog : List GStmt
  impure : Nat          -- number of purity findings (time.Now, rand, map-range feeding a slice …) in reachable code
deriving Repr

/-! ### names of the owned objects

Every object handed to `CreateOrUpdate` gets its `metadata.name` from an expression over the cluster
name.  The translator resolves it to `concat suffix` (`fmt.Sprintf("%s<suffix>", cluster.Name)`, directly,
through a one-line helper, or through a struct field filled at every call site) or `other` (anything
that computes: cut, trim, hash …).  Strings are byte lists. -/

inductive NameForm where
  | concat (suffix : List Nat)
  | other
deriving Repr, DecidableEq

structure NameSite where
  closure : Nat          -- index of the CreateOrUpdate site
  kind : Nat             -- interned object kind (names only have to differ within a kind)
  form : NameForm
deriving Repr, DecidableEq

/-- the name the site gives its object for cluster name `n` (`none`: not modelled) -/
def renderName (n : List Nat) : NameForm → Option (List Nat)
  | .concat s => some (n ++ s)
  | .other => none

def distinctSuffix : NameForm → NameForm → Bool
  | .concat s1, .concat s2 => s1 != s2
  | _, _ => false

/-- table obligation: within a kind, every two rows are plain concatenations with different suffixes
(a row of form `other` fails the obligation against every other row of its kind) -/
def namesOk (t : List NameSite) : Prop :=
  t.Pairwise fun a b => a.kind = b.kind → distinctSuffix a.form b.form = true

instance (t : List NameSite) : Decidable (namesOk t) := by unfold namesOk; infer_instance

/-- a name helper that cuts to `cap` bytes (what `other` may hide) -/
def cutName (cap : Nat) (n s : List Nat) : List Nat := (n ++ s).take cap

end KafVerif.Operator
