import KafVerif.Prelude.Basic
/-!
Model of the storage / metadata KEY CONSTRUCTORS that embed a topic name (C22), and of the
topic-name acceptance rule of `InMemoryStore.CreateTopic` (which `EtcdStore.CreateTopic`, the
CreateTopics handler and auto-creation all go through).

Go strings are byte strings: a model string is the list of its bytes, each byte a `Char` < 256
(the driver converts hex <-> `List Char` bytewise, so non-ASCII input is modelled bytewise, exactly
as Go's `path.Clean`, `fmt.Sprintf("%s")` and the byte loop of `ValidTopicName` treat it).

Mirrored code:
* `path.Clean` / `path.Join` (Go standard library, lexical, segment-wise) — `pathClean`, `pathJoin`
* `pkg/storage/log.go`: `NewPartitionLog` namespace default, `segmentKey`, `indexKey`,
  `segmentPrefix`, `cacheTopicKey`
* `pkg/cache/segment_cache.go`: `makeKey`
* `pkg/metadata/store.go`: `partitionKey`, `DeleteTopic`'s offset prefix `name+":"`,
  `ValidTopicName` (after the fix) / `name != ""` (before: `acceptedOld`)
* `pkg/metadata/etcd_store.go`: `offsetKey`, `deleteTopicOffsets` prefix
* `pkg/metadata/codec.go`: `TopicConfigKey`, `PartitionStateKey`, `PartitionAssignmentKey`
* `pkg/metadata/partition_lease.go`: `partitionLeaseKey`, `partitionResourceID`
* `cmd/broker/main.go`: the singleflight key of `getPartitionLog` (`h.logInit.Do(key, …)`,
  `key := fmt.Sprintf("%s/%d", topic, partition)`) — `logInitKey`; `Piece`/`fmtKey` interpret the key
  expression as it is REGENERATED from the source (`KafVerif/Gen/C22LogInit.lean`)
-/
namespace KafVerif.MetaKeys

/-! ### formatting -/

/-- `%d` of a non-negative integer. -/
def natStr (n : Nat) : List Char := Nat.toDigits 10 n

/-- `%d` (int32 / int64 — no width dependence). -/
def intStr : Int → List Char
  | .ofNat n => natStr n
  | .negSucc n => '-' :: natStr (n + 1)

/-- `%020d`: sign first, then zero padding to a total width of 20. -/
def pad20 : Int → List Char
  | .ofNat n => List.replicate (20 - (natStr n).length) '0' ++ natStr n
  | .negSucc n => '-' :: (List.replicate (19 - (natStr (n + 1)).length) '0' ++ natStr (n + 1))

/-! ### `strings.Split` on one separator byte, and `strings.Join` -/

def splitOn (c : Char) : List Char → List (List Char)
  | [] => [[]]
  | x :: r =>
    if x = c then [] :: splitOn c r
    else match splitOn c r with
      | [] => [[x]]
      | h :: t => (x :: h) :: t

def joinOn (c : Char) : List (List Char) → List Char
  | [] => []
  | [a] => a
  | a :: b :: r => a ++ c :: joinOn c (b :: r)

/-! ### `path.Clean`, `path.Join` -/

def dot : List Char := ['.']
def dotdot : List Char := ['.', '.']

/-- One path element processed by `Clean`.  `st` = the elements written so far.  Elements equal to
`..` only ever sit at the bottom of a non-rooted stack (Go's `dotdot` mark), so "can backtrack"
is "stack non-empty and its last element is not `..`". -/
def cleanStep (rooted : Bool) (st : List (List Char)) (seg : List Char) : List (List Char) :=
  if seg = [] ∨ seg = dot then st
  else if seg = dotdot then
    match st.getLast? with
    | some l => if l = dotdot then st ++ [seg] else st.dropLast
    | none => if rooted then st else st ++ [seg]
  else st ++ [seg]

def cleanStack (rooted : Bool) (p : List Char) : List (List Char) :=
  (splitOn '/' p).foldl (cleanStep rooted) []

def isRooted (p : List Char) : Bool := p.head? == some '/'

def render (rooted : Bool) (st : List (List Char)) : List Char :=
  if rooted then '/' :: joinOn '/' st else if st = [] then dot else joinOn '/' st

/-- `path.Clean`. -/
def pathClean (p : List Char) : List Char :=
  if p = [] then dot else render (isRooted p) (cleanStack (isRooted p) p)

/-- The buffer loop of `path.Join` (empty leading elements are skipped; later empty elements
still contribute a separator, which `Clean` then drops). -/
def joinBuf (buf : List Char) : List (List Char) → List Char
  | [] => buf
  | e :: r =>
    if buf ≠ [] ∨ e ≠ [] then joinBuf ((if buf ≠ [] then buf ++ ['/'] else buf) ++ e) r
    else joinBuf buf r

/-- `path.Join`. -/
def pathJoin (elems : List (List Char)) : List Char :=
  if elems.all (· = []) then [] else pathClean (joinBuf [] elems)

/-! ### topic-name acceptance -/

def legalChar (c : Char) : Bool :=
  ('a' ≤ c && c ≤ 'z') || ('A' ≤ c && c ≤ 'Z') || ('0' ≤ c && c ≤ '9') || c == '.' || c == '_' || c == '-'

/-- `metadata.ValidTopicName` (after the fix): Kafka's legal-name rule. -/
def accepted (t : List Char) : Bool :=
  t ≠ [] && t ≠ dot && t ≠ dotdot && t.length ≤ 249 && t.all legalChar

/-- Before the fix `CreateTopic` accepted every non-empty name. -/
def acceptedOld (t : List Char) : Bool := t ≠ []

/-! ### key constructors -/

def str (x : String) : List Char := x.toList

/-- `NewPartitionLog`: an empty namespace becomes `default`. -/
def effNs (ns : List Char) : List Char := if ns = [] then str "default" else ns

def segFile (base : Int) : List Char := str "segment-" ++ pad20 base ++ str ".kfs"
def idxFile (base : Int) : List Char := str "segment-" ++ pad20 base ++ str ".index"

def segmentKey (ns t : List Char) (p base : Int) : List Char := pathJoin [effNs ns, t, intStr p, segFile base]
def indexKey (ns t : List Char) (p base : Int) : List Char := pathJoin [effNs ns, t, intStr p, idxFile base]
def segmentPrefix (ns t : List Char) (p : Int) : List Char := pathJoin [effNs ns, t, intStr p] ++ ['/']
def cacheTopicKey (ns t : List Char) : List Char := pathJoin [effNs ns, t]
/-- `cache.makeKey(l.cacheTopicKey(), partition, base)`. -/
def cacheKey (ns t : List Char) (p base : Int) : List Char :=
  cacheTopicKey ns t ++ ':' :: intStr p ++ ':' :: intStr base

def topicsPfx : List Char := str "/kafscale/topics/"
def offsetKey (t : List Char) (p : Int) : List Char := topicsPfx ++ t ++ str "/partitions/" ++ intStr p ++ str "/next_offset"
def topicConfigKey (t : List Char) : List Char := topicsPfx ++ t ++ str "/config"
def partitionStateKey (t : List Char) (p : Int) : List Char := topicsPfx ++ t ++ str "/partitions/" ++ intStr p
/-- prefix removed by `EtcdStore.deleteTopicOffsets`. -/
def topicDeletePrefix (t : List Char) : List Char := topicsPfx ++ t ++ ['/']
def leaseKey (t : List Char) (p : Int) : List Char := str "/kafscale/partition-leases/" ++ t ++ '/' :: intStr p
def assignmentKey (t : List Char) (p : Int) : List Char := str "/kafscale/assignments/" ++ t ++ '/' :: intStr p
/-- `partitionResourceID` (key of `LeaseManager.owned`). -/
def resourceID (t : List Char) (p : Int) : List Char := t ++ '/' :: intStr p
/-- `partitionKey` (key of `InMemoryStore.offsets`). -/
def partitionKey (t : List Char) (p : Int) : List Char := t ++ ':' :: intStr p
/-- prefix removed by `InMemoryStore.DeleteTopic`. -/
def memDeletePrefix (t : List Char) : List Char := t ++ [':']

/-- `getPartitionLog`: `key := fmt.Sprintf("%s/%d", topic, partition)`, the key of the singleflight
group `handler.logInit`.  Two requests with the same key share ONE initialisation and receive the same
`*PartitionLog` (whose S3 prefix, cache key and offset callback are those of the first caller's
topic/partition). -/
def logInitKey (t : List Char) (p : Int) : List Char := t ++ '/' :: intStr p

/-- One piece of a key expression over the topic name and the partition number
(`fmt.Sprintf` verbs, `fmt.Sprint` operands, `+` operands, as extracted from the source). -/
inductive Piece where
  | topic
  | part
  | lit (s : List Char)
  deriving DecidableEq, Repr

/-- The string a key expression evaluates to. -/
def fmtKey : List Piece → List Char → Int → List Char
  | [], _, _ => []
  | .topic :: r, t, p => t ++ fmtKey r t p
  | .part :: r, t, p => intStr p ++ fmtKey r t p
  | .lit s :: r, t, p => s ++ fmtKey r t p

/-- The key expressions proved collision-free: topic, ONE separator byte that no accepted topic name
and no formatted integer contains, partition. -/
def formatSafe : List Piece → Bool
  | [.topic, .lit [c], .part] => !legalChar c
  | _ => false

/-- The format of `logInitKey` (what HEAD has). -/
def logInitFormat : List Piece := [.topic, .lit ['/'], .part]

/-- The S3 object keys of one partition (for two base offsets `b`). -/
def s3Keys (ns t : List Char) (p b : Int) : List (List Char) := [segmentKey ns t p b, indexKey ns t p b]

/-- The etcd keys derived from one (topic, partition). -/
def etcdKeys (t : List Char) (p : Int) : List (List Char) :=
  [offsetKey t p, topicConfigKey t, partitionStateKey t p, leaseKey t p, assignmentKey t p]

/-! ### consumer-offset keys and the DELETE SELECTORS of `DeleteTopic`

`EtcdStore.DeleteTopic(t)` removes (1) the key range with prefix `/kafscale/topics/<t>/`
(`deleteTopicOffsets`, one range delete) and (2) every key under `/kafscale/consumers/` that CONTAINS
`/offsets/<t>/` (`deleteConsumerOffsets`: `Get` with prefix, `strings.Contains` filter, one delete per key).
`InMemoryStore.DeleteTopic(t)` removes every `offsets` entry whose key has the prefix `<t>:` and every
`consumerOffsets` entry whose struct key has `topic == t`.  A selector is a predicate over keys. -/

def consumersPfx : List Char := str "/kafscale/consumers/"
/-- `consumerOffsetKey` / `ConsumerOffsetKey`: `/kafscale/consumers/<group>/offsets/<topic>/<partition>`. -/
def consumerOffsetKey (g t : List Char) (p : Int) : List Char :=
  consumersPfx ++ g ++ str "/offsets/" ++ t ++ '/' :: intStr p
/-- `ConsumerGroupKey`: `/kafscale/consumers/<group>/metadata` (same `Get` range as the commits). -/
def consumerGroupKey (g : List Char) : List Char := consumersPfx ++ g ++ str "/metadata"

/-- `strings.Contains(s, pat)`. -/
def containsB (pat : List Char) : List Char → Bool
  | [] => pat.isPrefixOf []
  | c :: r => pat.isPrefixOf (c :: r) || containsB pat r

/-- `fmt.Sprintf("/offsets/%s/", topic)`. -/
def offsetsMarker (t : List Char) : List Char := str "/offsets/" ++ t ++ ['/']

/-- Selector (1): `clientv3.WithPrefix()` on `/kafscale/topics/<t>/`. -/
def topicDeleteSel (t k : List Char) : Bool := (topicDeletePrefix t).isPrefixOf k
/-- Selector (2), HEAD: under `/kafscale/consumers/`, `strings.Contains(key, "/offsets/<t>/")`. -/
def coffDeleteSel (t k : List Char) : Bool := consumersPfx.isPrefixOf k && containsB (offsetsMarker t) k
/-- Everything `EtcdStore.DeleteTopic(t)` removes from etcd (the snapshot key is rewritten, not removed). -/
def etcdDeleteSel (t k : List Char) : Bool := topicDeleteSel t k || coffDeleteSel t k
/-- `InMemoryStore.DeleteTopic`: `strings.HasPrefix(key, name+":")` over the `offsets` map. -/
def memOffDeleteSel (t k : List Char) : Bool := (memDeletePrefix t).isPrefixOf k
/-- `InMemoryStore.DeleteTopic`: `key.topic == name` over the struct-keyed `consumerOffsets` map. -/
def memCoffDeleteSel (t : List Char) (key : List Char × List Char × Int) : Bool := key.2.1 == t

/-- `strconv.ParseInt(s, 10, 32)` succeeds (range aside): optional sign, then at least one digit. -/
def isIntStr : List Char → Bool
  | '-' :: d => d ≠ [] && d.all Char.isDigit
  | '+' :: d => d ≠ [] && d.all Char.isDigit
  | d => d ≠ [] && d.all Char.isDigit

/-- `key[:i]`, `key[i+1:]` for `i := strings.LastIndexByte(key, '/')`. -/
def lastSlashSplit (k : List Char) : Option (List Char × List Char) :=
  match k.reverse.dropWhile (· ≠ '/') with
  | [] => none
  | _ :: b => some (b.reverse, (k.reverse.takeWhile (· ≠ '/')).reverse)

/-- Selector (2) as PROPOSED (fixes/C22-delete-consumer-offsets-anchored.patch): anchored at the END of the
key — `…/offsets/<t>/<integer>` — instead of "contains". -/
def coffDeleteSelFixed (t k : List Char) : Bool :=
  consumersPfx.isPrefixOf k &&
  match lastSlashSplit k with
  | some (b, a) => isIntStr a && (str "/offsets/" ++ t).isSuffixOf b
  | none => false

/-- A regular-expression atom sequence built from a topic name WITHOUT `regexp.QuoteMeta`: `.` matches any
byte, every other legal topic byte matches itself (no other legal byte is a metacharacter). -/
def dotMatch : List Char → List Char → Bool
  | [], [] => true
  | c :: r, x :: s => (c == '.' || c == x) && dotMatch r s
  | _, _ => false

/-- Selector (2) of seeded change C22-r3-2: `^/kafscale/consumers/.+/offsets/<t>/[0-9]+$` with the topic
spliced in unquoted.  The lengths of the last three pieces are fixed by the pattern, so matching is
deterministic: last segment = digits, before it `<t>`-many bytes matched by `dotMatch`, before those
`/offsets/`, before that a non-empty `.+`. -/
def regexSel (t k : List Char) : Bool :=
  consumersPfx.isPrefixOf k &&
  match lastSlashSplit (k.drop consumersPfx.length) with
  | some (b, a) =>
    a ≠ [] && a.all Char.isDigit &&
    dotMatch t (b.drop (b.length - t.length)) &&
    (str "/offsets/").isSuffixOf (b.take (b.length - t.length)) &&
    decide (b.length > t.length + 9)
  | none => false

end KafVerif.MetaKeys
