import KafVerif.Model.MetaKeys
/-!
C18: the KEY FUNCTIONS between the three name spaces of a lease.

  (topic, partition) / group id  --partitionResourceID / identity-->  resource id (key of `LeaseManager.owned`)
  resource id                    --LeaseManager.leaseKey-------->     etcd key    (key of the lease in etcd)

The lease model (`Model/Lease.lean`) uses ONE abstract name (`Nat`) for a resource in both maps (`owned r`, `kv r`).
That is only sound when `leaseKey` is injective on resource ids: two ids that share an etcd key are two entries of
`owned` backed by one key, and releasing one deletes the key under the other (two owners).

`KeyExpr` is the expression as REGENERATED from the source on every run (`harness/C18/tools/extract`, table `keyexpr`,
`lean/KafVerif/Gen/C18LeaseOps.lean`): pieces over the manager's prefix, the string parameter, the integer parameter
and literals, combined by plain concatenation (`fmt.Sprintf("%s/%s", …)`, `+`, `strings.Join`) or by `path.Join`
(concatenation FOLLOWED BY `path.Clean`; model of Clean/Join: `Model/MetaKeys.lean`, diffed against Go by C22).
Go strings are byte lists (`List Char`, as in MetaKeys).
-/
namespace KafVerif.LeaseKey
open KafVerif.MetaKeys

inductive KPiece where
  | pfx                    -- `m.prefix` (constant per manager)
  | id                     -- the string parameter (resource id / topic)
  | part                   -- the integer parameter, formatted with %d
  | lit (s : List Char)
deriving DecidableEq, Repr

inductive KeyExpr where
  | concat (ps : List KPiece)      -- plain concatenation of the pieces
  | pathJoin (ps : List KPiece)    -- `path.Join(pieces…)`: joined with "/" and then CLEANED
  | other                          -- not of a shape the extractor resolves
deriving DecidableEq, Repr

def pieceStr (pfx id : List Char) (n : Int) : KPiece → List Char
  | .pfx => pfx
  | .id => id
  | .part => intStr n
  | .lit s => s

def evalConcat : List KPiece → List Char → List Char → Int → List Char
  | [], _, _, _ => []
  | p :: r, pfx, id, n => pieceStr pfx id n p ++ evalConcat r pfx id n

/-- the string the expression evaluates to -/
def eval : KeyExpr → List Char → List Char → Int → List Char
  | .concat ps, pfx, id, n => evalConcat ps pfx id n
  | .pathJoin ps, pfx, id, n => pathJoin (ps.map (pieceStr pfx id n))
  | .other, _, _, _ => []

/-- no piece depends on the string parameter -/
def idFree : List KPiece → Bool
  | [] => true
  | .id :: _ => false
  | _ :: r => idFree r

/-- the string parameter occurs exactly once (everything around it is constant per manager and integer) -/
def idOnce : List KPiece → Bool
  | [] => false
  | .id :: r => idFree r
  | _ :: r => idOnce r

/-- shape `id ++ [c] ++ %d` with a separator byte that no formatted integer contains: injective in BOTH parameters
for every string (the LAST separator splits the key) -/
def sepSafe : List KPiece → Bool
  | [.id, .lit [c], .part] => !c.isDigit && c != '-'
  | _ => false

/-- the key expressions the lease model's "one name per resource" stands on -/
def injectiveInId : KeyExpr → Bool
  | .concat ps => idOnce ps
  | _ => false

def injectiveInBoth : KeyExpr → Bool
  | .concat ps => sepSafe ps
  | _ => false

/-- what HEAD has -/
def leaseKeyHead : KeyExpr := .concat [.pfx, .lit ['/'], .id]
def partitionResourceIdHead : KeyExpr := .concat [.id, .lit ['/'], .part]

def showPiece : KPiece → String
  | .pfx => "m.prefix"
  | .id => "<id>"
  | .part => "<%d partition>"
  | .lit s => "\"" ++ String.ofList s ++ "\""

def showExpr : KeyExpr → String
  | .concat ps => " ++ ".intercalate (ps.map showPiece)
  | .pathJoin ps => "path.Join(" ++ ", ".intercalate (ps.map showPiece) ++ ")  [cleans the result]"
  | .other => "(an expression the extractor does not resolve)"

/-- diagnostics printed by checks/C18.py when the obligations of `Props/C18Ops.lean` no longer build -/
def diagnose (leaseKey resId : KeyExpr) : List String :=
  (if injectiveInId leaseKey then [] else
    ["KafVerif.C18.lease_key_injective: LeaseManager.leaseKey is now " ++ showExpr leaseKey ++
     " — not a plain concatenation with the resource id occurring once; with path.Join the ids \"a/b\", \"a//b\", \"a/./b\", \"a/b/\" " ++
     "(or \"\" and \".\") share ONE etcd key but are separate entries of `owned` (KafVerif.C18.lease_key_path_join_collides)"]) ++
  (if leaseKey == leaseKeyHead then [] else
    ["KafVerif.C18.lease_key_shape: leaseKey is " ++ showExpr leaseKey ++ ", the model and the routers assume " ++ showExpr leaseKeyHead]) ++
  (if injectiveInBoth resId then [] else
    ["KafVerif.C18.partition_resource_id_injective: partitionResourceID is now " ++ showExpr resId ++
     " — not `topic ++ sep ++ %d` with a non-digit separator"])

end KafVerif.LeaseKey
