import KafVerif.Prelude.Basic
/-!
Model of the ACL gate in `handler.Handle` (cmd/broker/main.go): for each request type, where the
`h.allow*` check sits relative to the effects, at which granularity (whole request / per named item), and what
a denied item gets back.  The per-arm facts are REGENERATED from the source (go/ast) into
`KafVerif/Gen/C24Guards.lean`; `spec` below is the hand-written reading of the property: which permission
each request type requires and what it can change or reveal.

The store is abstract: `resource name ↦ value` (a topic's existence/partitions/offsets/config/S3 objects, a
group's members/generation/committed offsets are all "the value of that resource").  `eff` is the arbitrary
effect an ALLOWED item has on its resource; `allowed` is the authorizer's verdict (C23 covers `Allows`).
-/
namespace KafVerif.AclGate

/-- action codes as the extractor writes them -/
def aNone := 0
def aProduce := 1
def aFetch := 2
def aGroupRead := 3
def aGroupWrite := 4
def aGroupAdmin := 5
def aAdmin := 6
/-- resource-kind codes: which `allow*` helper -/
def rTopic := 1     -- allowTopic / allowTopics
def rGroup := 2     -- allowGroup / allowGroups
def rCluster := 3   -- allowAdmin / allowCluster

inductive Gran where
  | none      -- no check at all
  | whole     -- one check for the request: any denied item rejects every item
  | perItem   -- checked item by item (inside the loop over topics/groups/resources)
deriving Repr, DecidableEq

/-- one event of an arm, in source order: kind 0 = guard, 1 = effect (state change), 2 = read of protected data -/
structure Ev where
  kind : Nat
  res : Nat       -- guard: resource-kind code
  action : Nat    -- guard: action code
  inLoop : Bool
  inCond : Bool   -- guard: the call is an `if` condition (its result decides a rejecting branch)
deriving Repr, DecidableEq

structure Arm where
  key : Int
  events : List Ev
deriving Repr, DecidableEq

/-- what the property requires of a request type -/
structure Need where
  key : Int
  res : Nat            -- 0 = nothing required (no effect, nothing protected revealed)
  actions : List Nat   -- acceptable actions of the guard (first guard of the arm)
deriving Repr, DecidableEq

/-- The hand-written table: permission required per request type (API key).  `res = 0`: the request changes
nothing and reveals no record/group/config data (ApiVersions, FindCoordinator). -/
def spec : List Need := [
  ⟨0, rTopic, [aProduce]⟩,        -- Produce: writes records, may auto-create the topic
  ⟨1, rTopic, [aFetch]⟩,          -- Fetch: returns record data
  ⟨2, rTopic, [aFetch]⟩,          -- ListOffsets
  ⟨3, rTopic, [aProduce]⟩,        -- Metadata: auto-creates topics (after the fix: produce on the topic or cluster admin)
  ⟨8, rGroup, [aGroupWrite]⟩,     -- OffsetCommit
  ⟨9, rGroup, [aGroupRead]⟩,      -- OffsetFetch
  ⟨10, 0, []⟩,                    -- FindCoordinator
  ⟨11, rGroup, [aGroupWrite]⟩,    -- JoinGroup
  ⟨12, rGroup, [aGroupWrite]⟩,    -- Heartbeat
  ⟨13, rGroup, [aGroupWrite]⟩,    -- LeaveGroup
  ⟨14, rGroup, [aGroupWrite]⟩,    -- SyncGroup
  ⟨15, rGroup, [aGroupRead]⟩,     -- DescribeGroups
  ⟨16, rGroup, [aGroupRead]⟩,     -- ListGroups
  ⟨18, 0, []⟩,                    -- ApiVersions
  ⟨19, rCluster, [aAdmin]⟩,       -- CreateTopics
  ⟨20, rCluster, [aAdmin]⟩,       -- DeleteTopics
  ⟨23, rTopic, [aFetch]⟩,         -- OffsetForLeaderEpoch
  ⟨32, rTopic, [aFetch]⟩,         -- DescribeConfigs (topic resources; broker resources: admin, second guard)
  ⟨33, rCluster, [aAdmin]⟩,       -- AlterConfigs
  ⟨37, rCluster, [aAdmin]⟩,       -- CreatePartitions
  ⟨42, rGroup, [aGroupAdmin]⟩     -- DeleteGroups
]

/-- the guard of an arm = its first guard event -/
def firstGuard (a : Arm) : Option Ev := a.events.find? (·.kind == 0)

/-- number of events before the first event satisfying `p` (= length when none does) -/
def idxOf (p : Ev → Bool) : List Ev → Nat
  | [] => 0
  | e :: t => if p e then 0 else idxOf p t + 1

/-- an arm satisfies a need: nothing required and nothing effectful/protected in the arm, or the first
guard is of the right resource kind and action, decides a branch, and precedes every effect and read -/
def armOk (n : Need) (a : Arm) : Bool :=
  if n.res = 0 then a.events.all (fun e => e.kind == 0)
  else match firstGuard a with
    | none => false
    | some g =>
      g.res == n.res && n.actions.contains g.action && g.inCond &&
        decide (idxOf (·.kind == 0) a.events < idxOf (fun e => e.kind != 0) a.events)

/-- every arm of the dispatch has a spec row and satisfies it (an arm without a row = a new request type
nobody classified: fails), and every spec row has an arm -/
def guardsComplete (arms : List Arm) : Bool :=
  arms.all (fun a => spec.any (fun n => n.key == a.key && armOk n a)) &&
  spec.all (fun n => arms.any (fun a => a.key == n.key))

/-- granularity the source gives the arm's guard -/
def granOf (a : Arm) : Gran :=
  match firstGuard a with
  | none => .none
  | some g => if g.inLoop then .perItem else .whole

/-! ### the gate as a transition -/

structure Item where
  name : Nat
  allowed : Bool
deriving Repr, DecidableEq

abbrev Store := List (Nat × Nat)

def lookup (st : Store) (n : Nat) : Option Nat := (st.find? (·.1 == n)).map (·.2)

/-- effect of an allowed item on its own resource (create if absent) -/
def apply (eff : Nat → Nat) (st : Store) (n : Nat) : Store :=
  match lookup st n with
  | some _ => st.map fun e => if e.1 == n then (e.1, eff e.2) else e
  | none => st ++ [(n, eff 0)]

/-- reply for one item: denied (authorization error, no data) or served with the resource's value -/
inductive Out where
  | denied
  | served (v : Option Nat)
deriving Repr, DecidableEq

def serveAll (eff : Nat → Nat) : Store → List Item → Store × List Out
  | st, [] => (st, [])
  | st, it :: rest =>
    let st' := apply eff st it.name
    let (s2, outs) := serveAll eff st' rest
    (s2, .served (lookup st' it.name) :: outs)

def servePerItem (eff : Nat → Nat) : Store → List Item → Store × List Out
  | st, [] => (st, [])
  | st, it :: rest =>
    if it.allowed then
      let st' := apply eff st it.name
      let (s2, outs) := servePerItem eff st' rest
      (s2, .served (lookup st' it.name) :: outs)
    else
      let (s2, outs) := servePerItem eff st rest
      (s2, .denied :: outs)

/-- one request through the gate -/
def handle (g : Gran) (eff : Nat → Nat) (st : Store) (items : List Item) : Store × List Out :=
  match g with
  | .none => serveAll eff st items
  | .whole => if items.all (·.allowed) then serveAll eff st items else (st, items.map fun _ => .denied)
  | .perItem => servePerItem eff st items

def denyBits (outs : List Out) : List Bool := outs.map fun o => o == .denied

end KafVerif.AclGate
