import KafVerif.Prelude.Basic
/-!
Shared byte-format model, part 1: fixed-width big-endian integers, Go integer conversions
(two's complement wrap), CRC-32C, and the simp set for the `GoResult` monad.

Used by the segment / index / record-batch models (C07, C08, C34) — core Lean only.

`encoding/binary.BigEndian.PutUintNN / UintNN` and `binary.Write/Read` of fixed-width values are
`beEnc k` / `beDec`; a Go conversion `intNN(x)` is `toS NN`, `uintNN(x)` is `toU NN`.
-/
namespace KafVerif.Kafka

/-! ### GoResult simp set -/

@[simp] theorem bind_ok {α β} (a : α) (f : α → GoResult β) : (GoResult.ok a >>= f) = f a := rfl
@[simp] theorem bind_err {α β} (f : α → GoResult β) : ((GoResult.err : GoResult α) >>= f) = .err := rfl
@[simp] theorem bind_panic {α β} (f : α → GoResult β) : ((GoResult.panic : GoResult α) >>= f) = .panic := rfl
@[simp] theorem pure_eq_ok {α} (a : α) : (pure a : GoResult α) = .ok a := rfl

/-- error-or-value view of an `Option` (Go `(v, err)` return where the callee cannot panic) -/
def ofOpt {α} : Option α → GoResult α
  | some a => .ok a
  | none => .err

@[simp] theorem ofOpt_some {α} (a : α) : ofOpt (some a) = .ok a := rfl
@[simp] theorem ofOpt_none {α} : ofOpt (none : Option α) = .err := rfl

/-! ### big-endian fixed width -/

/-- `k` bytes, most significant first, of `n mod 256^k`. -/
def beEnc : Nat → Nat → Bytes
  | 0, _ => []
  | k + 1, n => UInt8.ofNat (n / 256 ^ k) :: beEnc k n

/-- big-endian value of a byte string -/
def beDecAux (acc : Nat) : Bytes → Nat
  | [] => acc
  | b :: rest => beDecAux (acc * 256 + b.toNat) rest

def beDec (b : Bytes) : Nat := beDecAux 0 b

@[simp] theorem beEnc_length (k n : Nat) : (beEnc k n).length = k := by
  induction k with
  | zero => rfl
  | succ k ih => simp [beEnc, ih]

theorem beDecAux_append (acc : Nat) (a b : Bytes) :
    beDecAux acc (a ++ b) = beDecAux (beDecAux acc a) b := by
  induction a generalizing acc with
  | nil => rfl
  | cons x xs ih => simp [beDecAux, ih]

theorem beDecAux_beEnc (k n acc : Nat) :
    beDecAux acc (beEnc k n) = acc * 256 ^ k + n % 256 ^ k := by
  induction k generalizing acc with
  | zero => simp [beEnc, beDecAux, Nat.mod_one]
  | succ k ih =>
    simp only [beEnc, beDecAux, ih, UInt8.toNat_ofNat']
    have h256 : (2:Nat) ^ 8 = 256 := by decide
    rw [h256, Nat.pow_succ]
    have h1 : n % (256 ^ k * 256) = n % 256 ^ k + 256 ^ k * (n / 256 ^ k % 256) := Nat.mod_mul
    rw [h1, Nat.add_mul, Nat.mul_comm (n / 256 ^ k % 256) (256 ^ k), Nat.mul_assoc, Nat.mul_comm 256 (256 ^ k)]
    omega

/-- **Round trip** of a fixed-width big-endian integer. -/
theorem beDec_beEnc (k n : Nat) : beDec (beEnc k n) = n % 256 ^ k := by
  simp [beDec, beDecAux_beEnc]

theorem beDec_beEnc_of_lt {k n : Nat} (h : n < 256 ^ k) : beDec (beEnc k n) = n := by
  rw [beDec_beEnc, Nat.mod_eq_of_lt h]

theorem beDecAux_lt (b : Bytes) (acc : Nat) : beDecAux acc b < (acc + 1) * 256 ^ b.length := by
  induction b generalizing acc with
  | nil => simp [beDecAux]
  | cons x xs ih =>
    have := ih (acc * 256 + x.toNat)
    have hx := UInt8.toNat_lt x
    simp only [beDecAux, List.length_cons, Nat.pow_succ]
    have h2 : (acc * 256 + x.toNat + 1) * 256 ^ xs.length ≤ ((acc + 1) * 256) * 256 ^ xs.length :=
      Nat.mul_le_mul_right _ (by omega)
    rw [Nat.mul_comm (256 ^ xs.length) 256, ← Nat.mul_assoc]
    omega

theorem beDec_lt (b : Bytes) : beDec b < 256 ^ b.length := by
  have := beDecAux_lt b 0
  simpa [beDec] using this

/-! ### Go integer conversions -/

/-- `uint64(x)` for a signed x: the 64-bit pattern. -/
def toU64 (i : Int) : Nat := (i % 2 ^ 64).toNat
/-- `int64(u)`: two's complement reading of the low 64 bits. -/
def toS64 (n : Nat) : Int := if n % 2 ^ 64 < 2 ^ 63 then (n % 2 ^ 64 : Nat) else (n % 2 ^ 64 : Nat) - 2 ^ 64
def toU32 (i : Int) : Nat := (i % 2 ^ 32).toNat
def toS32 (n : Nat) : Int := if n % 2 ^ 32 < 2 ^ 31 then (n % 2 ^ 32 : Nat) else (n % 2 ^ 32 : Nat) - 2 ^ 32
def toU16 (i : Int) : Nat := (i % 2 ^ 16).toNat
def toS16 (n : Nat) : Int := if n % 2 ^ 16 < 2 ^ 15 then (n % 2 ^ 16 : Nat) else (n % 2 ^ 16 : Nat) - 2 ^ 16

/-- Go `a + b` on int64 (wraps). -/
def wrap64 (i : Int) : Int := toS64 (toU64 i)
/-- Go `int32(x)` of an int64 / int. -/
def wrap32 (i : Int) : Int := toS32 (toU32 i)

def InI64 (i : Int) : Prop := -(2:Int) ^ 63 ≤ i ∧ i < 2 ^ 63
def InI32 (i : Int) : Prop := -(2:Int) ^ 31 ≤ i ∧ i < 2 ^ 31
instance (i : Int) : Decidable (InI64 i) := by unfold InI64; exact inferInstance
instance (i : Int) : Decidable (InI32 i) := by unfold InI32; exact inferInstance

theorem toS64_toU64 {i : Int} (h : InI64 i) : toS64 (toU64 i) = i := by
  unfold InI64 at h; unfold toS64 toU64
  split <;> omega

theorem toS32_toU32 {i : Int} (h : InI32 i) : toS32 (toU32 i) = i := by
  unfold InI32 at h; unfold toS32 toU32
  split <;> omega

theorem wrap64_of_in {i : Int} (h : InI64 i) : wrap64 i = i := toS64_toU64 h
theorem wrap32_of_in {i : Int} (h : InI32 i) : wrap32 i = i := toS32_toU32 h

theorem toU64_lt (i : Int) : toU64 i < 256 ^ 8 := by unfold toU64; omega
theorem toU32_lt (i : Int) : toU32 i < 256 ^ 4 := by unfold toU32; omega
theorem toU16_lt (i : Int) : toU16 i < 256 ^ 2 := by unfold toU16; omega

theorem toS64_in (n : Nat) : InI64 (toS64 n) := by unfold InI64 toS64; split <;> omega
theorem toS32_in (n : Nat) : InI32 (toS32 n) := by unfold InI32 toS32; split <;> omega

/-- int64 field: 8 bytes big-endian -/
def i64be (i : Int) : Bytes := beEnc 8 (toU64 i)
def i32be (i : Int) : Bytes := beEnc 4 (toU32 i)
def i16be (i : Int) : Bytes := beEnc 2 (toU16 i)
def u32be (n : Nat) : Bytes := beEnc 4 n
def u16be (n : Nat) : Bytes := beEnc 2 n

theorem i64_roundtrip {i : Int} (h : InI64 i) : toS64 (beDec (i64be i)) = i := by
  unfold i64be; rw [beDec_beEnc_of_lt (toU64_lt i)]; exact toS64_toU64 h
theorem i32_roundtrip {i : Int} (h : InI32 i) : toS32 (beDec (i32be i)) = i := by
  unfold i32be; rw [beDec_beEnc_of_lt (toU32_lt i)]; exact toS32_toU32 h

/-! ### CRC-32C (Castagnoli), executable; the theorems treat the checksum as a parameter -/

def crcTableEntry (i : Nat) : UInt32 := Id.run do
  let mut c : UInt32 := UInt32.ofNat i
  for _ in [0:8] do
    c := if c &&& 1 == 1 then (c >>> 1) ^^^ 0x82F63B78 else c >>> 1
  return c

def crcTable : Array UInt32 := (Array.range 256).map crcTableEntry

def crc32cWith (tab : Array UInt32) (b : Bytes) : Nat :=
  let c := b.foldl (fun (c : UInt32) (x : UInt8) =>
    (tab.getD ((c ^^^ x.toUInt32) &&& 0xFF).toNat 0) ^^^ (c >>> 8)) 0xFFFFFFFF
  (c ^^^ 0xFFFFFFFF).toNat

/-- `crc32.Checksum(b, crc32.MakeTable(crc32.Castagnoli))` -/
def crc32c (b : Bytes) : Nat := crc32cWith crcTable b

/-! ### list helpers -/

theorem length_drop_le {α} (n : Nat) (l : List α) : (l.drop n).length ≤ l.length := by
  simp [List.length_drop]

end KafVerif.Kafka
