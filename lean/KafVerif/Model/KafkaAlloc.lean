import KafVerif.Model.KafkaRecovery
/-!
Allocation accounting for the byte-format models (C34): the decoders of the add-on processors, the
index parsers and the restore scanner, *instrumented* — every Go `make` of the model (`mk n elem`)
also adds `n·elem` bytes to a counter.

`AM α` = (bytes requested so far, outcome).  Each `…A` function below is the text of the function of
the same name in `KafkaRecord` / `KafkaDecoder` / `KafkaSegment` / `KafkaRecovery` with `mk n e`
replaced by `mkA mk n e` and every other step lifted unchanged; `Lemmas/KafkaAlloc.lean` proves that
the outcome component is *equal* to the uninstrumented function for every input and allocator
(`…A_res`), so the counter is the sum of the sizes of exactly the `make` calls the model executes.
The copy `append([]byte(nil), batch[:n]...)` of `truncateRecordBatchToTimestamp`, which the model
writes as `List.take`, is charged too (`tick`).

Core Lean only.
-/
namespace KafVerif.Kafka

/-- allocation-counting outcome -/
structure AM (α : Type) where
  cost : Nat
  res : GoResult α

namespace AM

def bind {α β} (x : AM α) (f : α → AM β) : AM β :=
  match x.res with
  | .ok a => ⟨x.cost + (f a).cost, (f a).res⟩
  | .err => ⟨x.cost, .err⟩
  | .panic => ⟨x.cost, .panic⟩

instance : Monad AM where
  pure a := ⟨0, .ok a⟩
  bind := bind

/-- a step that allocates nothing -/
def lift {α} (r : GoResult α) : AM α := ⟨0, r⟩

/-- `n` bytes allocated by something that cannot fail in the model (a slice copy) -/
def tick (n : Nat) : AM Unit := ⟨n, .ok ()⟩

end AM

open AM

/-- Go `make` through the allocator `mk`, charged `n·elem` bytes -/
def mkA (mk : Alloc) (n : Int) (elem : Nat) : AM Unit := ⟨n.toNat * elem, mk n elem⟩

/-! ### records (KafkaRecord) -/

def readNullableA (mk : Alloc) (c : Cfg) (len : Int) (r : Bytes) : AM (Option Bytes × Bytes) :=
  if len < 0 then lift (.ok (none, r))
  else if len = 0 then lift (.ok (some [], r))
  else if c.guard && len > r.length then lift .err
  else do
    mkA mk len 1
    let p ← lift (ofOpt (readN len.toNat r))
    lift (.ok (some p.1, p.2))

def readHeaderA (mk : Alloc) (c : Cfg) (r : Bytes) : AM (Hdr × Bytes) := do
  let k ← lift (ofOpt (c.rdInt r))
  let kb ← readNullableA mk c k.1 k.2
  let v ← lift (ofOpt (c.rdInt kb.2))
  let vb ← readNullableA mk c v.1 v.2
  lift (.ok (⟨kb.1.getD [], vb.1⟩, vb.2))

def readHeadersA (mk : Alloc) (c : Cfg) : Nat → Bytes → AM (List Hdr)
  | 0, _ => lift (.ok [])
  | n + 1, r => do
    let h ← readHeaderA mk c r
    let t ← readHeadersA mk c n h.2
    lift (.ok (h.1 :: t))

def decodeRecordBodyA (mk : Alloc) (c : Cfg) (base firstTs : Int) (data : Bytes) : AM DRec :=
  match data with
  | [] => lift .err
  | _ :: b1 => do
    let ts ← lift (ofOpt (c.rdTs b1))
    let od ← lift (ofOpt (c.rdInt ts.2))
    let kl ← lift (ofOpt (c.rdInt od.2))
    let key ← readNullableA mk c kl.1 kl.2
    let vl ← lift (ofOpt (c.rdInt key.2))
    let val ← readNullableA mk c vl.1 vl.2
    let hc ← lift (ofOpt (c.rdInt val.2))
    if c.guard && (hc.1 < 0 || hc.1 > hc.2.length) then lift .err
    else do
      mkA mk hc.1 hdrSize
      let hs ← readHeadersA mk c hc.1.toNat hc.2
      lift (.ok ⟨wrap64 (base + od.1), wrap64 (firstTs + ts.1), key.1, val.1, hs⟩)

def decodeRecordA (mk : Alloc) (c : Cfg) (base firstTs : Int) (r : Bytes) : AM (DRec × Bytes) := do
  let len ← lift (ofOpt (c.rdInt r))
  if len.1 < 0 then lift .err
  else if c.guard && len.1 > len.2.length then lift .err
  else do
    mkA mk len.1 1
    let p ← lift (ofOpt (readN len.1.toNat len.2))
    let rec_ ← decodeRecordBodyA mk c base firstTs p.1
    lift (.ok (rec_, p.2))

def decodeRecordsA (mk : Alloc) (c : Cfg) (base firstTs : Int) : Nat → Bytes → AM (List DRec)
  | 0, _ => lift (.ok [])
  | n + 1, r => do
    let d ← decodeRecordA mk c base firstTs r
    let t ← decodeRecordsA mk c base firstTs n d.2
    lift (.ok (d.1 :: t))

/-! ### segments (KafkaDecoder) -/

def decodeBatchRecordsA (mk : Alloc) (c : Cfg) (batch : Bytes) : AM (List DRec) :=
  if batch.length < 61 then lift .err
  else do
    let at_ ← lift (goSlice batch 21 23)
    if toS16 (beDec at_) % 8 ≠ 0 then lift .err
    else do
      let bo ← lift (goSlice batch 0 8)
      let ft ← lift (goSlice batch 27 35)
      let rc ← lift (goSlice batch 57 61)
      let recordCount := toS32 (beDec rc)
      if recordCount ≤ 0 then lift (.ok [])
      else do
        let recordsData ← lift (goSlice batch 61 batch.length)
        if c.guard && countExceeds c recordCount recordsData.length then lift .err
        else do
          mkA mk recordCount recSize
          decodeRecordsA mk c (toS64 (beDec bo)) (toS64 (beDec ft)) recordCount.toNat recordsData

def decodeBatchesA (mk : Alloc) (c : Cfg) : Nat → Bytes → AM (List DRec)
  | 0, _ => lift (.ok [])
  | fuel + 1, rem =>
    if rem.length < 12 then lift (.ok [])
    else do
      let lb ← lift (goSlice rem 8 12)
      let batchLen := beDec lb
      if batchLen = 0 then lift (.ok [])
      else
        let frameLen := 12 + batchLen
        if frameLen > rem.length then lift (.ok [])
        else do
          let batch ← lift (goSlice rem 0 frameLen)
          let rs ← decodeBatchRecordsA mk c batch
          let more ← decodeBatchesA mk c fuel (rem.drop frameLen)
          lift (.ok (rs ++ more))

def decodeSegmentA (mk : Alloc) (c : Cfg) (seg : Bytes) : AM (List DRec) :=
  if seg.length < 32 + 16 then lift .err
  else do
    let magic ← lift (goSlice seg 0 4)
    if magic ≠ segMagic then lift .err
    else do
      let body ← lift (goSlice seg 32 (seg.length - 16 : Nat))
      decodeBatchesA mk c (body.length + 1) body

/-! ### index parsers (KafkaSegment) -/

def parseIndexRootA (mk : Alloc) (data : Bytes) : AM (Int × List (Int × Int)) :=
  if data.length < 16 then lift .err
  else do
    let magic ← lift (goSlice data 0 4)
    if magic ≠ idxMagic then lift .err
    else
      let version := beDec (sl data 4 6)
      if version ≠ 1 then lift .err
      else
        let count := toS32 (beDec (sl data 6 10))
        let interval := toS32 (beDec (sl data 10 14))
        if count < 0 then lift .err
        else if count * 12 > ((data.length - 16 : Nat) : Int) then lift .err
        else do
          mkA mk count 8
          let es ← lift (ofOpt (readEntries count.toNat (data.drop 16)))
          lift (.ok (interval, es))

def parseIndexIcebergA (mk : Alloc) (guard : Bool) (data : Bytes) : AM (List (Int × Int)) :=
  if data.length < 16 then lift .err
  else do
    let magic ← lift (goSlice data 0 4)
    if magic ≠ idxMagic then lift .err
    else
      let version := beDec (sl data 4 6)
      if version ≠ 1 then lift .err
      else
        let count := toS32 (beDec (sl data 6 10))
        if guard && (count < 0 || count * 12 > ((data.length - 16 : Nat) : Int)) then lift .err
        else do
          mkA mk count 16
          lift (ofOpt (readEntries count.toNat (data.drop 16)))

def parseIndexSqlA (mk : Alloc) (guard : Bool) (data : Bytes) : AM (List (Int × Int)) :=
  if data.length < 16 then lift .err
  else do
    let magic ← lift (goSlice data 0 4)
    if magic ≠ idxMagic then lift .err
    else
      let count := beDec (sl data 6 10)
      if guard && count > (data.length - 16) / 12 then lift .err
      else do
        mkA mk count 16
        lift (ofOpt (readEntriesSql count (data.drop 16)))

/-! ### restore scanner (KafkaRecovery) -/

def scanRecordA (mk : Alloc) (r : Bytes) : AM ((Int × Int) × Bytes) := do
  let len ← lift (ofOpt (readVarint64 r))
  if len.1 < 0 then lift .err
  else if len.1 > len.2.length then lift .err
  else do
    mkA mk len.1 1
    let p ← lift (ofOpt (readN len.1.toNat len.2))
    match p.1 with
    | [] => lift .err
    | _ :: b1 => do
      let ts ← lift (ofOpt (readVarint64 b1))
      let od ← lift (ofOpt (readVarint64 ts.2))
      lift (.ok ((ts.1, wrap32 od.1), p.2))

def scanLoopA (mk : Alloc) (firstTs cutoff : Int) (total : Nat) : Nat → Bytes → ScanSt → AM ScanSt
  | 0, _, st => lift (.ok st)
  | n + 1, r, st => do
    let s ← scanRecordA mk r
    let rts := wrap64 (firstTs + s.1.1)
    if rts > cutoff then lift (.ok st)
    else
      let st' : ScanSt := ⟨st.kept + 1, total - s.2.length, s.1.2, if rts > st.maxIncl then rts else st.maxIncl⟩
      scanLoopA mk firstTs cutoff total n s.2 st'

def truncateBatchA (crc : Bytes → Nat) (mk : Alloc) (batch : Bytes) (cutoff : Int) : AM (Option SBatch × Bool) :=
  if batch.length < 61 then lift .err
  else
    let firstTs := toS64 (beDec (sl batch 27 35))
    let maxTs := toS64 (beDec (sl batch 35 43))
    if maxTs ≤ cutoff then (do let b ← lift (ofOpt (newRecordBatch batch)); lift (.ok (some b, false)))
    else if firstTs > cutoff then lift (.ok (none, true))
    else if toS16 (beDec (sl batch 21 23)) % 8 ≠ 0 then lift .err
    else
      let recordCount := toS32 (beDec (sl batch 57 61))
      let data := batch.drop 61
      do
        let st ← scanLoopA mk firstTs cutoff data.length recordCount.toNat data ⟨0, 0, 0, firstTs⟩
        if st.kept = 0 then lift (.ok (none, true))
        else if (st.kept : Int) = recordCount then (do let b ← lift (ofOpt (newRecordBatch batch)); lift (.ok (some b, true)))
        else do
          tick (61 + st.keptBytes)                       -- append([]byte(nil), batch[:61+keptBytes]...)
          let b ← lift (ofOpt (newRecordBatch (rewriteBatch crc batch st)))
          lift (.ok (some b, true))

def collectLoopA (crc : Bytes → Nat) (mk : Alloc) (cutoff : Int) : Nat → Bytes → AM (List SBatch)
  | 0, _ => lift (.ok [])
  | fuel + 1, rem =>
    if rem.length < 12 then lift (.ok [])
    else
      let batchLen := beDec (sl rem 8 12)
      if batchLen = 0 then lift (.ok [])
      else
        let frameLen := 12 + batchLen
        if frameLen > rem.length then lift .err
        else do
          mkA mk frameLen 1
          let t ← truncateBatchA crc mk (rem.take frameLen) cutoff
          if t.2 then lift (.ok t.1.toList)
          else do
            let more ← collectLoopA crc mk cutoff fuel (rem.drop frameLen)
            lift (.ok (t.1.toList ++ more))

def collectRecoverableA (crc : Bytes → Nat) (mk : Alloc) (seg : Bytes) (cutoff : Int) : AM (List SBatch) :=
  if seg.length < 32 + 16 then lift .err
  else if sl seg 0 4 ≠ segMagic then lift .err
  else
    let body := sl seg 32 (seg.length - 16)
    collectLoopA crc mk cutoff (body.length + 1) body

def buildRestorePlanA (crc : Bytes → Nat) (mk : Alloc) (seg idx : Bytes) (restoreMs createdMs : Int) : AM Plan := do
  let pi ← parseIndexRootA mk idx
  let batches ← collectRecoverableA crc mk seg restoreMs
  if batches.isEmpty then lift (.ok ⟨[], [], 0, 0, false⟩)
  else do
    let a ← lift (ofOpt (buildSegment crc pi.1 batches createdMs))
    lift (.ok ⟨a.seg, a.idx, a.base, a.last, true⟩)

/-! ### the proved bounds, as data (printed by the driver, used by the allocation monitor)

`totalAlloc ≤ a·|input| + b` with these `(a, b)`; the theorems in `Props/C34.lean` are stated with
these very definitions. -/

def allocDecodeA : Nat := 154      -- decodeSegment: 112 (record slice) + 1 (record buffer) + 1 (key/value/header bytes) + 40 (header slice)
def allocDecodeB : Nat := 0
def allocIndexRootA : Nat := 1     -- ParseIndex (pkg/storage): 8 bytes per 12-byte entry
def allocIndexProcA : Nat := 2     -- parseIndex (iceberg, sql): 16 bytes per 12-byte entry
def allocIndexB : Nat := 0
def allocCollectA : Nat := 3       -- collectRecoverableBatches: frame copy + record buffers + truncated copy
def allocCollectB : Nat := 0

end KafVerif.Kafka
