import KafVerif.Model.SrcOps
/-!
C21, static tie — the table the snapshot model (`Model/Snapshot.lean`) assumes about the CURRENT source, and
the checks run on the control skeletons that `harness/C21/tools/extract` (go/ast) regenerates from
`pkg/metadata/etcd_store.go` and `pkg/operator/snapshot.go` on every run (`Gen/C21SnapshotOps.lean`).

Model step ↔ rows:
* `begin b op`  = `updateSnapshot`: `refreshSnapshotLocked` (Get of the key, `metadata.Update` of what was read,
                  returns the read's mod revision, 0 when absent) → `mutate()` → …
* `commit b`    = … `persistSnapshotLocked(ctx, rev)` with the `rev` of the SAME attempt:
                  `Txn.If(ModRevision(key) = rev).Then(OpPut(key, local copy))`; conflict → next attempt
* `opGet`/`opTxn` = `PublishMetadataSnapshot`: Get → `mergeSnapshots` → `Txn.If(Version(key)=0)` when the read found
                  nothing, `Txn.If(ModRevision(key) = <the read's ModRevision>)` otherwise
* `UpdateOffsets` (same discipline on the per-partition offset key; not a step of the snapshot model).

Obligation (shape independent): every conditional write compares `ModRevision(key)` with the mod revision of
the read of the same call (or `Version`/`CreateRevision` with the literal 0 = "create only"); nothing else puts
or deletes the snapshot key; `refreshSnapshotLocked` returns a revision only together with installing what it
read.  `KeySt`/`formHolds` give the compares their etcd meaning: the safe forms fire iff the key was not
written since the read; a compare of `CreateRevision` with the read's value does not notice later writes.
-/
namespace KafVerif.SnapshotOps
open KafVerif.SrcOps

def snapKey : String := "\"/kafscale/metadata/snapshot\""

/-! ### the tables the model was written against -/

def storeCoreExpected : List Row := [
  ⟨"UpdateOffsets", ["for"], [],
     .etcd "Get" ["offsetKey(topic, partition)"]⟩,
  ⟨"UpdateOffsets", ["for", "Get#1.1 == nil", "unless reassigned"], [],
     .txn [⟨"CreateRevision", "offsetKey(topic, partition)", "=", "0"⟩] [⟨"OpPut", ["offsetKey(topic, partition)", "strconv.FormatInt(lastOffset + 1, 10)"]⟩] []⟩,
  ⟨"UpdateOffsets", ["for", "Get#1.1 == nil", "len(Get#1.0.Kvs) > 0", "!(strconv.ParseInt(strings.TrimSpace(string(Get#1.0.Kvs[0].Value)), 10, 64).1 == nil && strconv.ParseInt(strings.TrimSpace(string(Get#1.0.Kvs[0].Value)), 10, 64).0 >= lastOffset + 1)"], [],
     .txn [⟨"ModRevision", "offsetKey(topic, partition)", "=", "Get#1.0.Kvs[0].ModRevision"⟩] [⟨"OpPut", ["offsetKey(topic, partition)", "strconv.FormatInt(lastOffset + 1, 10)"]⟩] []⟩,
  ⟨"updateSnapshot", ["for attempt < snapshotUpdateAttempts"], [],
     .call "refreshSnapshotLocked" ["ctx"] false⟩,
  ⟨"updateSnapshot", ["for attempt < snapshotUpdateAttempts"], [],
     .write "rev" "" "refreshSnapshotLocked#1.0" false⟩,
  ⟨"updateSnapshot", ["for attempt < snapshotUpdateAttempts", "refreshSnapshotLocked#1.1 == nil"], [],
     .call "mutate" [] false⟩,
  ⟨"updateSnapshot", ["for attempt < snapshotUpdateAttempts", "refreshSnapshotLocked#1.1 == nil", "mutate#1.0 == nil"], [],
     .call "persistSnapshotLocked" ["ctx", "rev"] false⟩,
  ⟨"refreshSnapshot", [], [],
     .call "refreshSnapshotLocked" ["ctx"] false⟩,
  ⟨"refreshSnapshotLocked", [], [],
     .etcd "Get" ["\"/kafscale/metadata/snapshot\""]⟩,
  ⟨"refreshSnapshotLocked", ["Get#1.1 != nil"], [],
     .ret ["0", "Get#1.1"]⟩,
  ⟨"refreshSnapshotLocked", ["Get#1.1 == nil", "len(Get#1.0.Kvs) == 0"], [],
     .ret ["0", "nil"]⟩,
  ⟨"refreshSnapshotLocked", ["Get#1.1 == nil", "len(Get#1.0.Kvs) != 0", "json.Unmarshal(Get#1.0.Kvs[0].Value, &snapshot) != nil"], [],
     .ret ["0", "json.Unmarshal(Get#1.0.Kvs[0].Value, &snapshot)"]⟩,
  ⟨"refreshSnapshotLocked", ["Get#1.1 == nil", "len(Get#1.0.Kvs) != 0", "json.Unmarshal(Get#1.0.Kvs[0].Value, &snapshot) == nil"], [],
     .call "metadata.Update" ["snapshot"] false⟩,
  ⟨"refreshSnapshotLocked", ["Get#1.1 == nil", "len(Get#1.0.Kvs) != 0", "json.Unmarshal(Get#1.0.Kvs[0].Value, &snapshot) == nil"], [],
     .ret ["Get#1.0.Kvs[0].ModRevision", "nil"]⟩,
  ⟨"persistSnapshotLocked", [], [],
     .call "metadata.Metadata" ["nil"] false⟩,
  ⟨"persistSnapshotLocked", [], [],
     .txn [⟨"ModRevision", "\"/kafscale/metadata/snapshot\"", "=", "rev"⟩] [⟨"OpPut", ["\"/kafscale/metadata/snapshot\"", "string(json.Marshal(metadata.Metadata#1.0).0)"]⟩] []⟩]

def operatorCoreExpected : List Row := [
  ⟨"PublishMetadataSnapshot", ["for attempt < 5"], [],
     .etcd "Get" ["\"/kafscale/metadata/snapshot\""]⟩,
  ⟨"PublishMetadataSnapshot", ["for attempt < 5", "Get#1.1 == nil", "len(Get#1.0.Kvs) > 0", "json.Unmarshal(Get#1.0.Kvs[0].Value, &metadata.ClusterMetadata{}) == nil"], [],
     .write "snapshot" "" "mergeSnapshots(snapshot, metadata.ClusterMetadata{})" false⟩,
  ⟨"PublishMetadataSnapshot", ["for attempt < 5", "Get#1.1 == nil", "len(Get#1.0.Kvs) == 0"], [],
     .txn [⟨"Version", "\"/kafscale/metadata/snapshot\"", "=", "0"⟩] [⟨"OpPut", ["\"/kafscale/metadata/snapshot\"", "string(json.Marshal(snapshot).0)"]⟩] []⟩,
  ⟨"PublishMetadataSnapshot", ["for attempt < 5", "Get#1.1 == nil", "len(Get#1.0.Kvs) != 0"], [],
     .txn [⟨"ModRevision", "\"/kafscale/metadata/snapshot\"", "=", "Get#1.0.Kvs[0].ModRevision"⟩] [⟨"OpPut", ["\"/kafscale/metadata/snapshot\"", "string(json.Marshal(snapshot).0)"]⟩] []⟩]

def writersExpected : List Row := [
  ⟨"updateSnapshot", [], [],
     .call "persistSnapshotLocked" ["ctx", "rev"] false⟩,
  ⟨"persistSnapshotLocked", [], [],
     .etcd "OpPut" ["\"/kafscale/metadata/snapshot\""]⟩,
  ⟨"PublishMetadataSnapshot", [], [],
     .etcd "OpPut" ["\"/kafscale/metadata/snapshot\""]⟩]

/-! ### what a conditional write may compare -/

inductive Form where
  /-- `ModRevision(key) = <n-th Get of the same function, same key>.Kvs[0].ModRevision` -/
  | modRevOfRead
  /-- `ModRevision(key) = rev`, `rev` a parameter (persistSnapshotLocked; tied to the read by `persistFromRefresh`) -/
  | modRevParam
  /-- `Version(key) = 0` / `CreateRevision(key) = 0`: create only -/
  | createOnly
  | other
deriving DecidableEq, Repr

def isGet (r : Row) : Bool := r.ev.isEtcd "Get"

/-- key of the n-th (0-based) `Get` of a function -/
def nthGetKey (rows : List Row) (fn : String) (n : Nat) : Option String :=
  match ((ofFn rows fn).filter isGet)[n]? with
  | some ⟨_, _, _, .etcd _ [k]⟩ => some k
  | _ => none

def readRevName : Nat → String
  | 0 => "Get#1.0.Kvs[0].ModRevision"
  | 1 => "Get#2.0.Kvs[0].ModRevision"
  | _ => "Get#3.0.Kvs[0].ModRevision"

def classify (rows : List Row) (fn : String) (c : Cmp) : Form :=
  if c.rel != "=" then .other
  else if c.target == "ModRevision" then
    if [0, 1, 2].any (fun n => c.val == readRevName n && nthGetKey rows fn n == some c.key) then .modRevOfRead
    else if c.val == "rev" then .modRevParam
    else .other
  else if (c.target == "Version" || c.target == "CreateRevision") && c.val == "0" then .createOnly
  else .other

def putsOnly (key : String) (thn els : List KOp) : Bool :=
  !thn.isEmpty && thn.all (fun o => o.kind == "OpPut" && o.args.head? == some key) && els.isEmpty

/-- one transaction row: exactly one compare, of a safe form, guarding puts of the compared key only -/
def txnOk (rows : List Row) (r : Row) : Bool :=
  match r.ev with
  | .txn [c] thn els =>
    putsOnly c.key thn els &&
    (match classify rows r.fn c with
     | .modRevOfRead => true
     | .createOnly => true
     | .modRevParam => r.fn == "persistSnapshotLocked"
     | .other => false)
  | .txn _ _ _ => false
  | _ => true

def condWritesOk (rows : List Row) : Bool := rows.all (txnOk rows)

/-- every write of the key is one of the transactions above: no plain `Put`/`Delete`, and the functions that
name the snapshot key in a write are the two the model has steps for -/
def noPlainWrites (rows : List Row) : Bool :=
  rows.all fun r => !(r.ev.isEtcd "Put" || r.ev.isEtcd "Delete")

def idxOf (rows : List Row) (p : Row → Bool) : Option Nat :=
  let rec go : List Row → Nat → Option Nat
    | [], _ => none
    | r :: rs, i => if p r then some i else go rs (i + 1)
  go rows 0

def isRevWrite (r : Row) : Bool := r.ev.isWriteTo "rev"

def revWriteOk (r : Row) : Bool :=
  match r.ev with
  | .write "rev" "" "refreshSnapshotLocked#1.0" _ => true
  | _ => false

/-- `persistSnapshotLocked`'s `rev` is the revision `refreshSnapshotLocked` returned in the SAME attempt:
one call site (updateSnapshot, args `ctx, rev`), `rev` assigned only from `refreshSnapshotLocked#1.0`, and
refresh → mutate → persist in this order inside the same loop iteration, each exactly once -/
def persistFromRefresh (store writers : List Row) : Bool :=
  let us := ofFn store "updateSnapshot"
  let calls (f : String) := us.filter fun r => r.ev.isCall f
  (writers.filter fun r => r.ev.isCall "persistSnapshotLocked") ==
    [⟨"updateSnapshot", [], [], .call "persistSnapshotLocked" ["ctx", "rev"] false⟩] &&
  (store.filter fun r => r.ev.isCall "persistSnapshotLocked").all (fun r => r.fn == "updateSnapshot") &&
  !(us.filter isRevWrite).isEmpty && (us.filter isRevWrite).all revWriteOk &&
  (calls "refreshSnapshotLocked").length == 1 && (calls "mutate").length == 1 && (calls "persistSnapshotLocked").length == 1 &&
  (match idxOf us (·.ev.isCall "refreshSnapshotLocked"), idxOf us isRevWrite, idxOf us (·.ev.isCall "mutate"),
         idxOf us (·.ev.isCall "persistSnapshotLocked") with
   | some i, some w, some j, some k => i < w && w < j && j < k
   | _, _, _, _ => false) &&
  (match (calls "refreshSnapshotLocked").head?, (calls "mutate").head?, (calls "persistSnapshotLocked").head? with
   | some a, some b, some c =>
     a.guard.head?.isSome && a.guard.head? == b.guard.head? && b.guard.head? == c.guard.head? &&
     (match c.ev with | .call _ args _ => args == ["ctx", "rev"] | _ => false)
   | _, _, _ => false)

def isInstall (r : Row) : Bool := r.ev.isCall "metadata.Update"

/-- a `return v, e` of `refreshSnapshotLocked`, given the rows before it: an error, or `0` for an absent key,
or the read's mod revision AFTER the read snapshot has been installed in the local copy on this path -/
def refreshRetOk (before : List Row) (r : Row) : Bool :=
  match r.ev with
  | .ret [v, e] =>
    e != "nil" ||
    (v == "0" && r.guard.contains "len(Get#1.0.Kvs) == 0") ||
    (v == "Get#1.0.Kvs[0].ModRevision" && before.any fun i => isInstall i && i.guard.isPrefixOf r.guard)
  | .ret _ => false
  | _ => true

def allWithPrefix (p : List Row → Row → Bool) : List Row → List Row → Bool
  | _, [] => true
  | before, r :: rs => p before r && allWithPrefix p (before ++ [r]) rs

/-- `refreshSnapshotLocked` reads the snapshot key once and every successful return is `refreshRetOk` -/
def refreshReturnsRead (store : List Row) : Bool :=
  let rf := ofFn store "refreshSnapshotLocked"
  (rf.filter isGet).length == 1 && nthGetKey store "refreshSnapshotLocked" 0 == some snapKey &&
  allWithPrefix refreshRetOk [] rf &&
  rf.any fun r => match r.ev with | .ret ["Get#1.0.Kvs[0].ModRevision", "nil"] => true | _ => false

/-! ### etcd meaning of the compares -/

/-- etcd's bookkeeping of one key; absent = all zero.  Global revisions are positive and grow with every write. -/
structure KeySt where
  create : Nat
  modr : Nat
  version : Nat
deriving DecidableEq, Repr

def KeySt.absent : KeySt := ⟨0, 0, 0⟩

/-- a put of the key at global revision `g` -/
def KeySt.put (k : KeySt) (g : Nat) : KeySt :=
  if k.version = 0 then ⟨g, g, 1⟩ else ⟨k.create, g, k.version + 1⟩

/-- puts at the revisions `gs`, in order -/
def KeySt.puts (k : KeySt) (gs : List Nat) : KeySt := gs.foldl KeySt.put k

inductive CmpSem where
  | modRevOfRead
  | versionZero
  | createRevZero
  /-- the seeded form: `CreateRevision(key) = <the read's CreateRevision>` (0 when absent) -/
  | createRevOfRead
deriving DecidableEq, Repr

/-- does the compare hold when the transaction runs at key state `now`, the call having read `read` -/
def formHolds : CmpSem → KeySt → KeySt → Bool
  | .modRevOfRead, read, now => now.modr == read.modr
  | .versionZero, _, now => now.version == 0
  | .createRevZero, _, now => now.create == 0
  | .createRevOfRead, read, now => now.create == read.create

/-- later revisions are larger than the one the read saw, and increase -/
def laterRevs (k : KeySt) : List Nat → Prop
  | [] => True
  | g :: gs => k.modr < g ∧ laterRevs (k.put g) gs

/-! ### diagnosis (evaluated by the check when an obligation fails) -/

def badTxns (rows : List Row) : List Row := rows.filter fun r => !txnOk rows r

def badRefreshRets (store : List Row) : List Row :=
  let rf := ofFn store "refreshSnapshotLocked"
  let rec go (before : List Row) : List Row → List Row
    | [] => []
    | r :: rs => (if refreshRetOk before r then [] else [r]) ++ go (before ++ [r]) rs
  go [] rf

def diagnose (store operator storeCore operatorCore writers : List Row) : List String :=
  showDiff "KafVerif.C21.store_ops_match" storeCore storeCoreExpected ++
  showDiff "KafVerif.C21.operator_ops_match" operatorCore operatorCoreExpected ++
  showDiff "KafVerif.C21.snapshot_writers_match" writers writersExpected ++
  (if condWritesOk store then [] else
    ["KafVerif.C21.store_cond_writes_compare_read: a conditional write of EtcdStore does not compare ModRevision(key) with the mod revision of the same call's read (nor Version/CreateRevision with 0): " ++
      "; ".intercalate ((badTxns store).map Row.show)]) ++
  (if condWritesOk operator then [] else
    ["KafVerif.C21.operator_cond_writes_compare_read: PublishMetadataSnapshot's conditional write does not compare ModRevision(key) with the mod revision of its own Get (nor Version/CreateRevision with 0): " ++
      "; ".intercalate ((badTxns operator).map Row.show)]) ++
  (if noPlainWrites store && noPlainWrites operator then [] else
    ["KafVerif.C21.no_plain_snapshot_writes: an unconditional Put/Delete in the snapshot functions"]) ++
  (if persistFromRefresh store writers then [] else
    ["KafVerif.C21.persist_rev_from_same_attempt: persistSnapshotLocked's rev is no longer exactly the revision refreshSnapshotLocked returned in the same updateSnapshot attempt (refresh → mutate → persist(ctx, rev))"]) ++
  (if refreshReturnsRead store then [] else
    ["KafVerif.C21.refresh_installs_what_it_read: refreshSnapshotLocked returns a revision without having installed the snapshot it read (or no longer reads the key exactly once): " ++
      "; ".intercalate ((badRefreshRets store).map Row.show)])

end KafVerif.SnapshotOps
