import KafVerif.Prelude.Basic
/-!
Model of the proxy's LFS HTTP upload API (`cmd/proxy/lfs_http.go`, `cmd/proxy/lfs_s3.go`):

* single request  `handleHTTPProduce`  = `UploadStream` → optional checksum compare → envelope →
  produce to a broker → reply status;
* multipart session machine `handleHTTPUploadInit` / `handleHTTPUploadPart` /
  `handleHTTPUploadComplete` / `handleHTTPUploadAbort` (+ session expiry), one session at a time;
* a ghost S3 with multipart semantics (the object created by CompleteMultipartUpload is the
  concatenation of the parts LISTED in the request, which must be in ascending order and carry the
  ETag S3 returned for them);
* a broker reply oracle (acknowledged | per-partition error code | reply without our partition |
  undecodable reply | connection closed | connection refused).

Payload bytes are abstract: a `Chunk` is a block of `len` bytes with identity `id` (two chunks are
the same bytes iff equal); hashes are functions of the chunk list and never computed.  The
envelope carries `size` and `shaOf` = the data its SHA-256 was computed over.

`…Old` = behaviour before the proposed "fix:" commits (three defects), kept with witnesses.
-/
namespace KafVerif.LfsHttp

structure Chunk where
  id : Nat
  len : Nat
deriving DecidableEq, Repr

def dlen (d : List Chunk) : Nat := (d.map (·.len)).sum

/-- `minMultipartChunkSize` = the normalised part size of the harness (5 MiB). -/
def minPart : Nat := 5 * 1024 * 1024

inductive Alg where
  | sha256 | md5 | crc32 | none | invalid
deriving DecidableEq, Repr

/-- client-supplied checksum: absent, equal to the digest of the bytes it sent in order, or not -/
inductive Ck where
  | absent | right | wrong
deriving DecidableEq, Repr

inductive Broker where
  | ack                 -- produce response, our partition with error code 0
  | code (n : Int)      -- produce response, our partition with error code n ≠ 0
  | noPartition         -- produce response that does not mention our partition
  | garbage             -- a frame that does not decode as a produce response
  | close               -- connection closed before a reply frame
  | refuse              -- no backend reachable
deriving DecidableEq, Repr

/-- HTTP status of the produce step, after the fix (the reply is decoded and checked). -/
def produceStatus : Broker → Nat
  | .ack => 200
  | .refuse => 503
  | .code n => if n == 0 then 200 else 502
  | _ => 502

/-- before the fix: any reply frame counts as success. -/
def produceStatusOld : Broker → Nat
  | .refuse => 503
  | .close => 502
  | _ => 200

def acked : Broker → Bool
  | .ack => true
  | .code n => n == 0
  | _ => false

structure Envelope where
  size : Nat
  shaOf : List Chunk          -- sha256 field = SHA-256 of exactly these bytes
deriving DecidableEq, Repr

/-! ### single request: `handleHTTPProduce` -/

/-- scripted S3 fault of a single-request upload.  `part k` = the UploadPart call for part `k` fails (the harness
scripts it persistent or transient (`.once`), before or after S3 read the request body — the code as it is makes no
second attempt, so all four behave alike; see `uploadStreamRetry` for the variant where they do not). -/
inductive S3Fault where
  | none | put | create | part (k : Nat) | complete | delete
deriving DecidableEq, Repr

/-- number of S3 parts `UploadStream` cuts an `n`-byte body into (chunk size = `minPart`) -/
def nParts (n : Nat) : Nat := (n + minPart - 1) / minPart

structure ProduceOut where
  status : Nat
  env : Option Envelope       -- body of a 200 reply
  object : Option (List Chunk)   -- ghost S3: object under the envelope's key afterwards
  produced : Bool             -- a produce request with the envelope record reached a broker
deriving DecidableEq, Repr

/-- the part whose UploadPart call is scripted to fail, if the stream has such a part -/
def faultPart (n : Nat) : S3Fault → Option Nat
  | .part k => if 1 ≤ k && k ≤ nParts n then some k else none
  | _ => none

/-- `UploadStream`: `inl status` on error, `inr ()` when the object holds exactly `body`.
Multipart path: for part i = 1, 2, … the running total (`min n (i·minPart)`) is checked against `maxBlob`
BEFORE part i is sent; any UploadPart error aborts the upload (502), there is no second attempt. -/
def uploadStream (maxBlob : Int) (body : List Chunk) (f : S3Fault) : Except Nat Unit :=
  let n := dlen body
  if n == 0 then .error 400                                   -- "empty upload"
  else if n < minPart then
    (if f == .put then .error 502 else .ok ())                -- PutObject path (no maxBlob check there)
  else if f == .create then .error 502
  else match faultPart n f with
    | some k =>
      if maxBlob > 0 && ((min n (k * minPart) : Nat) : Int) > maxBlob then .error 400   -- size check of a part ≤ k fires first
      else .error 502
    | none =>
      if maxBlob > 0 && (n : Int) > maxBlob then .error 400
      else if f == .complete then .error 502
      else .ok ()

def produceWith (ps : Broker → Nat) (maxBlob : Int) (alg : Alg) (ck : Ck) (body : List Chunk) (f : S3Fault)
    (b : Broker) : ProduceOut :=
  if alg == .invalid then ⟨400, none, none, false⟩
  else if ck != .absent && alg == .none then ⟨400, none, none, false⟩
  else match uploadStream maxBlob body f with
    | .error st => ⟨st, none, none, false⟩
    | .ok () =>
      if ck == .wrong && alg != .none then
        ⟨400, none, if f == .delete then some body else none, false⟩     -- DeleteObject (may fail)
      else
        let env : Envelope := ⟨dlen body, body⟩
        let st := ps b
        ⟨st, if st == 200 then some env else none, some body, b != .refuse⟩

def produce := produceWith produceStatus
def produceOld := produceWith produceStatusOld

/-! #### variant: "retry a transient UploadPart failure once" with the SAME request (class of seeded change C32-r2-2)

The request body of the failed attempt is a `bytes.Reader` the S3 client already consumed when the failure came
after the read: the second attempt sends what is left of it — nothing.  S3 stores an empty part, the hashers and the
byte total have seen the whole chunk.  Bodies here are part-aligned (chunk i of the list = part i). -/

/-- transient fault of a streamed upload: part `k` fails once, before or after S3 read the request body -/
structure Transient where
  k : Nat
  afterRead : Bool
deriving DecidableEq, Repr

/-- what S3 holds after a streamed upload whose UploadPart calls are retried once with the same input -/
def storedWithRetry (body : List Chunk) (t : Option Transient) : List Chunk :=
  match t with
  | some ⟨k, true⟩ => body.eraseIdx (k - 1)       -- the retry stored an empty part k
  | _ => body

/-- `handleHTTPProduce` on top of that variant (sha256, no client checksum, no size limit, acknowledging broker):
status, envelope, stored object -/
def produceRetry (body : List Chunk) (t : Option Transient) : Nat × Envelope × List Chunk :=
  (200, ⟨dlen body, body⟩, storedWithRetry body t)

/-! ### multipart session machine -/

structure Sess where
  sizeBytes : Nat
  alg : Alg
  ck : Ck
  parts : List (Nat × Chunk)     -- session.Parts / PartSizes in upload order (part number, content = ETag identity)
  hashed : List Chunk            -- what sha256Hasher / checksumHasher have consumed
  total : Nat                    -- TotalUploaded
deriving DecidableEq, Repr

def Sess.nextPart (s : Sess) : Nat := s.parts.length + 1

structure St where
  maxBlob : Int
  sess : Option Sess                 -- the upload session (none = not found / deleted / expired)
  s3open : Bool                      -- ghost S3: the multipart upload exists
  s3parts : List (Nat × Chunk)       -- ghost S3: parts stored for it (part number ↦ content)
  object : Option (List Chunk)       -- ghost S3: object under the session's key
deriving DecidableEq, Repr

def St.init (maxBlob : Int) : St := ⟨maxBlob, none, false, [], none⟩

inductive Etag where
  | ok          -- the ETag the proxy returned for that part number (bogus if it never did)
  | bad
  | empty
deriving DecidableEq, Repr

inductive Op where
  | init (size : Int) (alg : Alg) (ck : Ck) (createFails : Bool)
  | part (n : Nat) (c : Chunk) (s3Fails : Bool)
  | complete (list : List (Nat × Etag)) (s3Fails : Bool) (b : Broker)
  | abort
  | expire
deriving Repr

structure Out where
  status : Nat
  env : Option Envelope := none
  produced : Bool := false
deriving DecidableEq, Repr

def lookupPart (l : List (Nat × Chunk)) (n : Nat) : Option Chunk := (l.find? (·.1 == n)).map (·.2)

def setPart (l : List (Nat × Chunk)) (n : Nat) (c : Chunk) : List (Nat × Chunk) :=
  (l.filter (·.1 != n)) ++ [(n, c)]

/-- `handleHTTPUploadInit` (topic, content type, key and partition validation precede and are fixed valid). -/
def doInit (st : St) (size : Int) (alg : Alg) (ck : Ck) (createFails : Bool) : St × Out :=
  if size ≤ 0 then (st, ⟨400, none, false⟩)
  else if st.maxBlob > 0 && size > st.maxBlob then (st, ⟨400, none, false⟩)
  else if alg == .invalid then (st, ⟨400, none, false⟩)
  else if ck != .absent && alg == .none then (st, ⟨400, none, false⟩)
  else if createFails then (st, ⟨502, none, false⟩)
  else ({ st with sess := some ⟨size.toNat, alg, ck, [], [], 0⟩, s3open := true, s3parts := [], object := none },
        ⟨200, none, false⟩)

/-- `handleHTTPUploadPart` after the fix (the hashers are fed only after S3 stored the part).
`hashFirst = true` gives the code before the fix. -/
def doPartWith (hashFirst : Bool) (st : St) (n : Nat) (c : Chunk) (s3Fails : Bool) : St × Out :=
  match st.sess with
  | none => (st, ⟨404, none, false⟩)
  | some s =>
    if (lookupPart s.parts n).isSome then (st, ⟨200, none, false⟩)          -- idempotent re-PUT
    else if n != s.nextPart then (st, ⟨409, none, false⟩)
    else if c.len == 0 then (st, ⟨400, none, false⟩)
    else if c.len > minPart then (st, ⟨400, none, false⟩)
    else if s.total + c.len > s.sizeBytes then (st, ⟨400, none, false⟩)
    else if s.total + c.len < s.sizeBytes && c.len < minPart then (st, ⟨400, none, false⟩)
    else if s3Fails || !st.s3open then
      ({ st with sess := some { s with hashed := if hashFirst then s.hashed ++ [c] else s.hashed } }, ⟨502, none, false⟩)
    else
      ({ st with sess := some { s with parts := s.parts ++ [(n, c)], hashed := s.hashed ++ [c], total := s.total + c.len },
                 s3parts := setPart st.s3parts n c }, ⟨200, none, false⟩)

def doPart := doPartWith false
def doPartOld := doPartWith true

/-- the per-part ETag check of `handleHTTPUploadComplete` -/
def etagsOk (s : Sess) (list : List (Nat × Etag)) : Bool :=
  list.all fun p => (lookupPart s.parts p.1).isSome && p.2 == .ok

/-- the check added by the fix: the completion list is exactly parts 1..N in order -/
def listExact (s : Sess) (list : List (Nat × Etag)) : Bool :=
  list.map (·.1) == (List.range s.parts.length).map (· + 1)

def strictlyAscending : List Nat → Bool
  | [] => true
  | [_] => true
  | a :: b :: rest => a < b && strictlyAscending (b :: rest)

/-- ghost S3 `CompleteMultipartUpload`: `none` = S3 rejects the request. -/
def s3Complete (st : St) (nums : List Nat) : Option (List Chunk) :=
  if !st.s3open || nums.isEmpty || !strictlyAscending nums then none
  else if nums.all fun n => (lookupPart st.s3parts n).isSome then
    some (nums.filterMap fun n => lookupPart st.s3parts n)
  else none

def doCompleteWith (exact : Bool) (ps : Broker → Nat) (st : St) (list : List (Nat × Etag)) (s3Fails : Bool)
    (b : Broker) : St × Out :=
  match st.sess with
  | none => (st, ⟨404, none, false⟩)
  | some s =>
    if s.total != s.sizeBytes then (st, ⟨400, none, false⟩)
    else if list.isEmpty then (st, ⟨400, none, false⟩)
    else if !etagsOk s list then (st, ⟨400, none, false⟩)
    else if exact && !listExact s list then (st, ⟨400, none, false⟩)
    else if s3Fails then (st, ⟨502, none, false⟩)
    else match s3Complete st (list.map (·.1)) with
      | none => (st, ⟨502, none, false⟩)
      | some obj =>
        let st1 := { st with object := some obj, s3open := false, s3parts := [] }
        if s.ck == .wrong && s.alg != .none then (st1, ⟨400, none, false⟩)
        else if s.ck == .right && s.alg != .none && s.hashed != s.parts.map (·.2) then (st1, ⟨400, none, false⟩)
        else
          let env : Envelope := ⟨s.total, s.hashed⟩
          let code := ps b
          if code == 200 then ({ st1 with sess := none }, ⟨200, some env, true⟩)
          else (st1, ⟨code, none, b != .refuse⟩)

def doComplete := doCompleteWith true produceStatus

def doAbort (st : St) : St × Out :=
  match st.sess with
  | none => (st, ⟨404, none, false⟩)
  | some _ => ({ st with sess := none, s3open := false, s3parts := [] }, ⟨204, none, false⟩)

/-- the session TTL passes: the next lookup's cleanup deletes the session -/
def doExpire (st : St) : St × Out := ({ st with sess := none }, ⟨0, none, false⟩)

def step (st : St) : Op → St × Out
  | .init size alg ck cf => doInit st size alg ck cf
  | .part n c f => doPart st n c f
  | .complete l f b => doComplete st l f b
  | .abort => doAbort st
  | .expire => doExpire st

/-- the machine before the three fixes -/
def stepOld (st : St) : Op → St × Out
  | .init size alg ck cf => doInit st size alg ck cf
  | .part n c f => doPartOld st n c f
  | .complete l f b => doCompleteWith false produceStatusOld st l f b
  | .abort => doAbort st
  | .expire => doExpire st

/-! ### concurrent part requests on one session

`handleHTTPUploadPart` as three steps per request — (1) take the session lock, run the checks, (2) S3 `UploadPart`,
(3) feed the hashers and record the part, release — interleaved by an arbitrary schedule with the other requests of
the session (which hold the lock for their whole handler: `Ev.op`).
`hold = true`  : the code — the lock taken in (1) is held until the request is answered;
`hold = false` : the split-lock variant (class of seeded change C32-r2-1) — (1) works on a snapshot and releases,
                 (2) runs without the lock, (3) re-takes it only to hash and record.
The session lookup (`lfsGetUploadSession`) is merged with step (1). -/

/-- the checks of `handleHTTPUploadPart` between taking the lock and the S3 call: `some status` = answered here -/
def partCheck (s : Sess) (n : Nat) (c : Chunk) : Option Nat :=
  if (lookupPart s.parts n).isSome then some 200          -- idempotent re-PUT
  else if n != s.nextPart then some 409
  else if c.len == 0 then some 400
  else if c.len > minPart then some 400
  else if s.total + c.len > s.sizeBytes then some 400
  else if s.total + c.len < s.sizeBytes && c.len < minPart then some 400
  else none

/-- an in-flight `PUT …/parts/n`; pc: 0 = not started, 1 = checks passed (S3 call next), 2 = stored by S3
(record next), 3 = answered / no request -/
structure Thr where
  n : Nat
  c : Chunk
  fails : Bool
  pc : Nat

structure CSt where
  base : St
  lock : Option Nat           -- session mutex: the request slot holding it across steps
  thr : Nat → Thr

def CSt.init (maxBlob : Int) : CSt := ⟨St.init maxBlob, none, fun _ => ⟨0, ⟨0, 0⟩, false, 3⟩⟩

inductive Ev where
  | spawn (i n : Nat) (c : Chunk) (fails : Bool)      -- a new PUT arrives in request slot i
  | tick (i : Nat)                                    -- request i is scheduled for its next step
  | op (o : Op)                                       -- a whole handler under the session lock (init/complete/abort/expire/part)

def setThr (cs : CSt) (i : Nat) (t : Thr) : CSt := { cs with thr := fun j => if j = i then t else cs.thr j }

def cstep (hold : Bool) (cs : CSt) : Ev → CSt × Option Out
  | .spawn i n c f =>
    if (cs.thr i).pc == 1 || (cs.thr i).pc == 2 then (cs, none) else (setThr cs i ⟨n, c, f, 0⟩, none)
  | .op o =>
    if cs.lock.isSome then (cs, none)                                    -- blocked on the session mutex
    else let r := step cs.base o; ({ cs with base := r.1 }, some r.2)
  | .tick i =>
    let t := cs.thr i
    if t.pc == 0 then
      if cs.lock.isSome then (cs, none)                                  -- blocked on the session mutex
      else match cs.base.sess with
        | none => (setThr cs i { t with pc := 3 }, some ⟨404, none, false⟩)
        | some s =>
          match partCheck s t.n t.c with
          | some x => (setThr cs i { t with pc := 3 }, some ⟨x, none, false⟩)
          | none => (setThr { cs with lock := if hold then some i else none } i { t with pc := 1 }, none)
    else if t.pc == 1 then
      if t.fails || !cs.base.s3open then
        (setThr { cs with lock := none } i { t with pc := 3 }, some ⟨502, none, false⟩)
      else
        (setThr { cs with base := { cs.base with s3parts := setPart cs.base.s3parts t.n t.c } } i { t with pc := 2 }, none)
    else if t.pc == 2 then
      match cs.base.sess with
      | none => (setThr { cs with lock := none } i { t with pc := 3 }, some ⟨200, none, false⟩)
      | some s =>
        (setThr { cs with lock := none,
                          base := { cs.base with sess := some { s with parts := setPart s.parts t.n t.c,
                                                                        hashed := s.hashed ++ [t.c],
                                                                        total := s.total + t.c.len } } }
           i { t with pc := 3 }, some ⟨200, none, false⟩)
    else (cs, none)

def crun (hold : Bool) (cs : CSt) : List Ev → CSt
  | [] => cs
  | e :: rest => crun hold (cstep hold cs e).1 rest

def run (stp : St → Op → St × Out) (st : St) : List Op → St × List Out
  | [] => (st, [])
  | op :: rest =>
    let (st1, o) := stp st op
    let (st2, os) := run stp st1 rest
    (st2, o :: os)

/-! ### upload ids S3 no longer knows, and requests working on an orphaned session object

S3 forgets a multipart upload id when the upload is completed OR aborted — by the proxy (`doAbort`, `doComplete`) or
behind its back (bucket lifecycle rule `AbortIncompleteMultipartUpload`, an operator): `lifecycleAbort`.  Every call
naming such an id is answered `NoSuchUpload`, an ERROR (`s3Complete` = none and `doPart` = 502 when `s3open = false`);
it is never a success of the call (class of seeded change C32-r3-1: "NoSuchUpload on completion = already completed").

The gap between `lfsGetUploadSession` and `session.mu.Lock()`: a request that looked the session up (`lookup`: it holds
a pointer to the session object) parks on the session mutex while the lock holder (an abort, a completion) deletes the
session from the table; when it gets the lock it runs its whole handler on the orphaned object (`onHeld`).  Nothing
re-checks the table, so only S3's answer for the (now unknown) upload id stands between it and a 200. -/

/-- S3 drops the in-flight multipart upload behind the proxy's back; the proxy's session stays. -/
def doLifecycleAbort (st : St) : St × Out := ({ st with s3open := false, s3parts := [] }, ⟨0, none, false⟩)

/-- run handler `f` for a request holding session pointer `held`: if the session is still in the table the pointer is
that object (`f st`); if it was deleted meanwhile the handler works on the orphan and the table stays without it. -/
def onHeld (held : Option Sess) (st : St) (f : St → St × Out) : St × Out :=
  match st.sess, held with
  | none, some s => let r := f { st with sess := some s }; ({ r.1 with sess := none }, r.2)
  | _, _ => f st

inductive XOp where
  | op (o : Op)                 -- a whole handler (lookup + lock + body), as in `step`
  | lifecycleAbort              -- S3-side abort of the in-flight upload
  | lookup                      -- a request runs `lfsGetUploadSession` and parks on the session mutex
  | heldComplete (list : List (Nat × Etag)) (s3Fails : Bool) (b : Broker)   -- the parked request is a completion and runs now
  | heldAbort                   -- the parked request is an abort and runs now
deriving Repr

structure XSt where
  st : St
  held : Option Sess            -- session object the parked request points to (kept equal to the table's while it is there)
deriving DecidableEq, Repr

def XSt.init (maxBlob : Int) : XSt := ⟨St.init maxBlob, none⟩

def isInit : Op → Bool
  | .init .. => true
  | _ => false

def xstep (x : XSt) : XOp → XSt × Out
  | .op o =>
    let r := step x.st o
    -- a new session (init) is a new object under a new id: the parked request's pointer is outside the model, dropped
    (⟨r.1, if isInit o then none else match r.1.sess with
                                      | some s' => if x.held.isSome then some s' else none
                                      | none => x.held⟩, r.2)
  | .lifecycleAbort => (⟨(doLifecycleAbort x.st).1, x.held⟩, (doLifecycleAbort x.st).2)
  | .lookup => (⟨x.st, x.st.sess⟩, ⟨0, none, false⟩)
  | .heldComplete l f b =>
    let r := onHeld x.held x.st (fun st => doComplete st l f b)
    (⟨r.1, none⟩, r.2)
  | .heldAbort =>
    let r := onHeld x.held x.st doAbort
    (⟨r.1, none⟩, r.2)

def xrun (x : XSt) : List XOp → XSt
  | [] => x
  | o :: rest => xrun (xstep x o).1 rest

/-- the variant of seeded change C32-r3-1: S3's `NoSuchUpload` answer to CompleteMultipartUpload counts as success
(no object is created, the handler goes on to the envelope and the produce). -/
def doCompleteNoSuchUploadOk (st : St) (list : List (Nat × Etag)) (s3Fails : Bool) (b : Broker) : St × Out :=
  match st.sess with
  | none => (st, ⟨404, none, false⟩)
  | some s =>
    if s.total != s.sizeBytes then (st, ⟨400, none, false⟩)
    else if list.isEmpty then (st, ⟨400, none, false⟩)
    else if !etagsOk s list then (st, ⟨400, none, false⟩)
    else if !listExact s list then (st, ⟨400, none, false⟩)
    else if s3Fails then (st, ⟨502, none, false⟩)
    else if !st.s3open then
      (if produceStatus b == 200 then ({ st with sess := none }, ⟨200, some ⟨s.total, s.hashed⟩, true⟩)
       else (st, ⟨produceStatus b, none, b != .refuse⟩))
    else doComplete st list s3Fails b

end KafVerif.LfsHttp
