import KafVerif.Prelude.Basic
/-!
Model for C40: the `metadata.Store` interface as seen by the ops MCP tools of
`internal/mcpserver/tools.go`, and the eight tool handlers.

`Method` enumerates the methods of `type Store interface` in `pkg/metadata/store.go` (the check
regenerates the list from the source and `interface_covered` fails if they drift apart).
`Store` is the abstract state both store implementations hold (topics, next offsets, committed
consumer offsets, consumer groups, topic configs).  Names are abstract ids (`t3`, `g1`, `m2` in the
harness).  The read methods mirror `InMemoryStore` (a Go map read of a missing key yields the zero
value and inserts nothing); the mutating methods are modelled so that the claim "the read-only set
cannot be enlarged" is a theorem (`mutators_change_state`) and not an assumption.
-/
namespace KafVerif.Mcp

inductive Method where
  | metadata | nextOffset | updateOffsets | commitConsumerOffset | fetchConsumerOffset
  | listConsumerOffsets | putConsumerGroup | fetchConsumerGroup | listConsumerGroups
  | deleteConsumerGroup | fetchTopicConfig | updateTopicConfig | createPartitions | createTopic
  | deleteTopic
deriving Repr, DecidableEq

/-- the methods that do not write (`RLock` only in InMemoryStore, `Get` only in EtcdStore) -/
def readOnly : List Method :=
  [.metadata, .nextOffset, .fetchConsumerOffset, .listConsumerOffsets, .fetchConsumerGroup,
   .listConsumerGroups, .fetchTopicConfig]

structure Group where
  state : Nat            -- index into a fixed list of state names
  generation : Nat
  members : List Nat
deriving Repr, DecidableEq

structure Config where
  partitions : Nat
  retentionMs : Int
deriving Repr, DecidableEq

structure Store where
  brokers : Nat
  topics : List (Nat × Nat)                          -- topic ↦ partition count, insertion order
  nextOffsets : List ((Nat × Nat) × Int)             -- (topic, partition) ↦ next offset
  committed : List ((Nat × Nat × Nat) × (Int × Nat)) -- (group, topic, partition) ↦ (offset, metadata id; 0 = "")
  groups : List (Nat × Group)
  configs : List (Nat × Config)
  layouts : List ((Nat × Nat) × (List Nat × List Nat × List Nat))
    -- (topic, partition) ↦ (replicas, isr, offline replicas) IN STORED ORDER (first replica = preferred
    -- leader; duplicates allowed); partitions without an entry have the CreateTopic layout ([0], [0], [])
deriving Repr, DecidableEq

def empty (brokers : Nat) : Store := ⟨brokers, [], [], [], [], [], []⟩

/-- the replica / ISR / offline lists the harness gives partition `p` of an `rtopic … v` topic:
non-ascending, rotated and duplicate-carrying lists -/
def layoutTable : List (List Nat) := [[2, 0, 1], [1, 2, 0], [2, 1, 0], [1, 0], [2, 2, 0], [0, 2, 1, 1]]

def layoutOf (v p : Nat) : List Nat × List Nat × List Nat :=
  (layoutTable.getD ((v + p) % 6) [], layoutTable.getD ((v + 2 * p + 3) % 6) [],
   if v % 2 = 1 then layoutTable.getD ((v + p + 1) % 6) [] else [])


def alookup {κ β : Type} [DecidableEq κ] (m : List (κ × β)) (k : κ) : Option β :=
  match m with
  | [] => none
  | (k', v) :: t => if k' = k then some v else alookup t k

def aerase {κ β : Type} [DecidableEq κ] (m : List (κ × β)) (k : κ) : List (κ × β) :=
  m.filter fun e => !(decide (e.1 = k))

def aset {κ β : Type} [DecidableEq κ] (m : List (κ × β)) (k : κ) (v : β) : List (κ × β) :=
  match m with
  | [] => [(k, v)]
  | (k', v') :: t => if k' = k then (k, v) :: t else (k', v') :: aset t k v

def partitionLayout (s : Store) (t p : Nat) : List Nat × List Nat × List Nat :=
  (alookup s.layouts (t, p)).getD ([0], [0], [])

/-- one call of a Store method with its arguments -/
inductive Call where
  | metadata (names : List Nat)
  | nextOffset (t p : Nat)
  | updateOffsets (t p : Nat) (last : Int)
  | commitConsumerOffset (g t p : Nat) (off : Int) (md : Nat)
  | fetchConsumerOffset (g t p : Nat)
  | listConsumerOffsets
  | putConsumerGroup (g : Nat) (info : Group)
  | fetchConsumerGroup (g : Nat)
  | listConsumerGroups
  | deleteConsumerGroup (g : Nat)
  | fetchTopicConfig (t : Nat)
  | updateTopicConfig (t : Nat) (c : Config)
  | createPartitions (t n : Nat)
  | createTopic (t n : Nat)
  | deleteTopic (t : Nat)
deriving Repr

def Call.method : Call → Method
  | .metadata _ => .metadata | .nextOffset .. => .nextOffset | .updateOffsets .. => .updateOffsets
  | .commitConsumerOffset .. => .commitConsumerOffset | .fetchConsumerOffset .. => .fetchConsumerOffset
  | .listConsumerOffsets => .listConsumerOffsets | .putConsumerGroup .. => .putConsumerGroup
  | .fetchConsumerGroup _ => .fetchConsumerGroup | .listConsumerGroups => .listConsumerGroups
  | .deleteConsumerGroup _ => .deleteConsumerGroup | .fetchTopicConfig _ => .fetchTopicConfig
  | .updateTopicConfig .. => .updateTopicConfig | .createPartitions .. => .createPartitions
  | .createTopic .. => .createTopic | .deleteTopic _ => .deleteTopic

/-- `Metadata(ctx, names)`: all topics, or per requested name the topic / an UNKNOWN_TOPIC (3) stub -/
def metadataTopics (s : Store) (names : List Nat) : List (Nat × Nat × Int) :=
  if names.isEmpty then s.topics.map fun e => (e.1, e.2, 0)
  else names.map fun n => match alookup s.topics n with
    | some parts => (n, parts, 0)
    | none => (n, 0, 3)

/-- `FetchTopicConfig`: unknown topic → error; stored config, else the default derived from the topic -/
def fetchTopicConfig (s : Store) (t : Nat) : Option Config :=
  match alookup s.topics t with
  | none => none
  | some parts => match alookup s.configs t with
    | some c => some c
    | none => some ⟨parts, -1⟩

def fetchConsumerOffset (s : Store) (g t p : Nat) : Int × Nat :=
  (alookup s.committed (g, t, p)).getD (0, 0)

/-- state effect of one call (results of reads are computed by the functions above) -/
def exec (s : Store) : Call → Store
  | .metadata _ => s
  | .nextOffset .. => s
  | .fetchConsumerOffset .. => s
  | .listConsumerOffsets => s
  | .fetchConsumerGroup _ => s
  | .listConsumerGroups => s
  | .fetchTopicConfig _ => s
  | .updateOffsets t p last => { s with nextOffsets := aset s.nextOffsets (t, p) (last + 1) }
  | .commitConsumerOffset g t p off md => { s with committed := aset s.committed (g, t, p) (off, md) }
  | .putConsumerGroup g info => { s with groups := aset s.groups g info }
  | .deleteConsumerGroup g => { s with groups := aerase s.groups g }
  | .updateTopicConfig t c =>
    match alookup s.topics t with
    | none => s
    | some parts => { s with configs := aset s.configs t (if c.partitions = 0 then { c with partitions := parts } else c) }
  | .createPartitions t n =>
    match alookup s.topics t with
    | none => s
    | some parts => if n ≤ parts then s else
        { s with topics := aset s.topics t n,
                 configs := aset s.configs t { ((alookup s.configs t).getD ⟨parts, -1⟩) with partitions := n } }
  | .createTopic t n =>
    if n = 0 ∨ (alookup s.topics t).isSome ∨ s.brokers = 0 then s
    else { s with topics := s.topics ++ [(t, n)], configs := aset s.configs t ⟨n, -1⟩ }
  | .deleteTopic t =>
    match alookup s.topics t with
    | none => s
    | some _ => { s with topics := aerase s.topics t, nextOffsets := s.nextOffsets.filter fun e => !(decide (e.1.1 = t)),
                         layouts := s.layouts.filter fun e => !(decide (e.1.1 = t)) }

def runCalls (s : Store) (cs : List Call) : Store := cs.foldl exec s

/-! ### the tool handlers -/

inductive ToolCall where
  | clusterStatus
  | clusterMetrics
  | listTopics
  | describeTopics (names : List Nat)
  | listGroups
  | describeGroup (g : Option Nat)                 -- none = empty group_id
  | fetchOffsets (g : Option Nat) (topics : List Nat)
  | describeConfigs (topics : List Nat)
deriving Repr

/-- insertion sort on a key (the handlers `sort.Slice` their output by name) -/
def insertBy {α : Type} (key : α → Nat) (x : α) : List α → List α
  | [] => [x]
  | y :: t => if key x ≤ key y then x :: y :: t else y :: insertBy key x t

def sortBy {α : Type} (key : α → Nat) (l : List α) : List α := l.foldr (insertBy key) []

structure PartInfo where
  id : Nat
  replicas : List Nat
  isr : List Nat
  offline : List Nat
deriving Repr, DecidableEq

inductive Result where
  | error
  | metricsOnly
  | topics (brokers : Option Nat) (l : List (Nat × Nat × Int))        -- name, partition count, error code
  | topicDetails (l : List (Nat × Int × List PartInfo))
      -- name, error code, per partition: id, replicas, isr, offline replicas (stored order)
  | groups (l : List (Nat × Nat × Nat))                               -- id, state, member count
  | group (g : Nat) (info : Group)
  | offsets (l : List (Nat × Nat × Int × Nat))                        -- topic, partition, offset, metadata
  | configs (l : List (Nat × Config))
deriving Repr, DecidableEq

/-- The handlers, as sequences of Store calls threaded through `exec` (so that "the state is
unchanged" is a statement about the calls made, not a definition). -/
def runTool (s : Store) : ToolCall → Store × Result
  | .clusterStatus =>
    let s1 := exec s (.metadata [])
    (s1, .topics (some s.brokers) (sortBy (·.1) (metadataTopics s [])))
  | .clusterMetrics => (s, .metricsOnly)
  | .listTopics =>
    let s1 := exec s (.metadata [])
    (s1, .topics none (sortBy (·.1) (metadataTopics s [])))
  | .describeTopics names =>
    let s1 := exec s (.metadata names)
    (s1, .topicDetails (sortBy (·.1) ((metadataTopics s names).map fun e =>
      (e.1, e.2.2, (List.range e.2.1).map fun p =>
        let l := partitionLayout s e.1 p
        (⟨p, l.1, l.2.1, l.2.2⟩ : PartInfo)))))
  | .listGroups =>
    let s1 := exec s .listConsumerGroups
    (s1, .groups (sortBy (·.1) (s.groups.map fun e => (e.1, e.2.state, e.2.members.length))))
  | .describeGroup none => (s, .error)
  | .describeGroup (some g) =>
    let s1 := exec s (.fetchConsumerGroup g)
    match alookup s.groups g with
    | none => (s1, .error)
    | some info => (s1, .group g { info with members := sortBy id info.members })
  | .fetchOffsets none _ => (s, .error)
  | .fetchOffsets (some g) topics =>
    let s1 := exec s (.metadata topics)
    let tps := (metadataTopics s topics).flatMap fun e => (List.range e.2.1).map fun p => (e.1, p)
    let s2 := runCalls s1 (tps.map fun tp => .fetchConsumerOffset g tp.1 tp.2)
    (s2, .offsets (sortBy (fun e => e.1 * 1000 + e.2.1)
      (tps.map fun tp => (tp.1, tp.2, (fetchConsumerOffset s g tp.1 tp.2).1, (fetchConsumerOffset s g tp.1 tp.2).2))))
  | .describeConfigs topics =>
    let s1 := if topics.isEmpty then exec s (.metadata []) else s
    let names := if topics.isEmpty then (metadataTopics s []).map (·.1) else topics
    let s2 := runCalls s1 (names.map fun t => .fetchTopicConfig t)
    if names.all fun t => (fetchTopicConfig s t).isSome then
      (s2, .configs (sortBy (·.1) (names.filterMap fun t => (fetchTopicConfig s t).map fun c => (t, c))))
    else (s2, .error)

/-! ### aliasing: what a read hands out

Lean values are immutable, so "the handler sorted the slice it got from `Metadata`" can only hurt a
model in which returned slices are REFERENCES.  As for C09's cache, slices live in a heap of
buffers; the store owns some buffer ids (its `Replicas` / `ISR` / `OfflineReplicas` backing arrays),
a read returns buffer ids, and a handler may overwrite any buffer it was handed. -/

structure HStore where
  heap : List (List Nat)       -- buffer id ↦ contents now
  owned : List Nat             -- buffer ids referenced from the store's state
deriving Repr, DecidableEq

/-- what the store's state currently holds, in stored order -/
def HStore.view (h : HStore) : List (List Nat) := h.owned.map fun b => h.heap.getD b []

/-- `cloneMetadata`: every owned buffer is copied into a fresh buffer; the copies are returned -/
def readCopy (h : HStore) : HStore × List Nat :=
  ({ h with heap := h.heap ++ h.view }, (List.range h.owned.length).map (· + h.heap.length))

/-- a read that skips the deep clone (what `filterTopics(s.state.Topics, …)` would do): the store's
own buffers are handed out -/
def readAlias (h : HStore) : HStore × List Nat := (h, h.owned)

/-- the handler overwrites a buffer it holds (e.g. `sort.Slice` on the slice it was given) -/
def handlerWrite (h : HStore) (b : Nat) (data : List Nat) : HStore := { h with heap := h.heap.set b data }

/-- what the go/ast pass extracts per registered tool -/
structure ToolFacts where
  name : String
  handler : String
  calls : List Method      -- Store methods reachable from the handler inside internal/mcpserver
  escapes : Nat            -- places where the store value is handed to anything but a Store method call
deriving Repr

end KafVerif.Mcp
