import KafVerif.Prelude.Basic
/-!
Model for C40: the `metadata.Store` interface as seen by the ops MCP tools of
`internal/mcpserver/tools.go`, and the eight tool handlers.

`Method` enumerates the methods of `type Store interface` in `pkg/metadata/store.go` (the check
regenerates the list from the source and `interface_covered` fails if they drift apart).
`Store` is the abstract state both store implementations hold (topics, next offsets, committed
consumer offsets, consumer groups, topic configs).  Names are abstract ids (`t3`, `g1`, `m2` in the
harness).  The read methods mirror `InMemoryStore` (a Go map read of a missing key yields the zero
value and inserts nothing); the mutating methods are modelled so that the claim "the read-only set
cannot be enlarged" is a theorem (`mutators_change_state`) and not an assumption.
-/
namespace KafVerif.Mcp

inductive Method where
  | metadata | nextOffset | updateOffsets | commitConsumerOffset | fetchConsumerOffset
  | listConsumerOffsets | putConsumerGroup | fetchConsumerGroup | listConsumerGroups
  | deleteConsumerGroup | fetchTopicConfig | updateTopicConfig | createPartitions | createTopic
  | deleteTopic
deriving Repr, DecidableEq

/-- the methods that do not write (`RLock` only in InMemoryStore, `Get` only in EtcdStore) -/
def readOnly : List Method :=
  [.metadata, .nextOffset, .fetchConsumerOffset, .listConsumerOffsets, .fetchConsumerGroup,
   .listConsumerGroups, .fetchTopicConfig]

structure Group where
  state : Nat            -- index into a fixed list of state names
  generation : Nat
  members : List Nat
deriving Repr, DecidableEq

structure Config where
  partitions : Nat
  retentionMs : Int
deriving Repr, DecidableEq

structure Store where
  brokers : Nat
  topics : List (Nat × Nat)                          -- topic ↦ partition count, insertion order
  nextOffsets : List ((Nat × Nat) × Int)             -- (topic, partition) ↦ next offset
  committed : List ((Nat × Nat × Nat) × (Int × Nat)) -- (group, topic, partition) ↦ (offset, metadata id; 0 = "")
  groups : List (Nat × Group)
  configs : List (Nat × Config)
  layouts : List ((Nat × Nat) × (List Nat × List Nat × List Nat))
    -- (topic, POSITION in the topic's Partitions array) ↦ (replicas, isr, offline replicas) IN STORED ORDER
    -- (first replica = preferred leader; duplicates allowed); entries without a layout have the CreateTopic
    -- layout ([0], [0], []).  For every topic but a `ptopic` the position equals the partition id.
  partIds : List (Nat × List Nat)
    -- topic ↦ the partition ids of its Partitions array IN STORED ORDER, for topics populated with an
    -- out-of-order / duplicate-carrying array (`ptopic`: e.g. a snapshot listing partitions 2,0,1); topics
    -- without an entry hold ids 0..n-1 ascending (what CreateTopic builds)
deriving Repr, DecidableEq

def empty (brokers : Nat) : Store := ⟨brokers, [], [], [], [], [], [], []⟩

/-- the replica / ISR / offline lists the harness gives partition `p` of an `rtopic … v` topic:
non-ascending, rotated and duplicate-carrying lists -/
def layoutTable : List (List Nat) := [[2, 0, 1], [1, 2, 0], [2, 1, 0], [1, 0], [2, 2, 0], [0, 2, 1, 1]]

def layoutOf (v p : Nat) : List Nat × List Nat × List Nat :=
  (layoutTable.getD ((v + p) % 6) [], layoutTable.getD ((v + 2 * p + 3) % 6) [],
   if v % 2 = 1 then layoutTable.getD ((v + p + 1) % 6) [] else [])


/-- the partition-id orders the harness gives a `ptopic … o …` topic: non-ascending, some with duplicate ids
and with gaps (same table in the Go harness) -/
def partOrderTable : List (List Nat) := [[2, 0, 1], [1, 0], [2, 1, 0], [1, 1, 0], [0, 2, 1, 1], [3, 0, 2, 1], [4, 2]]

def alookup {κ β : Type} [DecidableEq κ] (m : List (κ × β)) (k : κ) : Option β :=
  match m with
  | [] => none
  | (k', v) :: t => if k' = k then some v else alookup t k

def aerase {κ β : Type} [DecidableEq κ] (m : List (κ × β)) (k : κ) : List (κ × β) :=
  m.filter fun e => !(decide (e.1 = k))

def aset {κ β : Type} [DecidableEq κ] (m : List (κ × β)) (k : κ) (v : β) : List (κ × β) :=
  match m with
  | [] => [(k, v)]
  | (k', v') :: t => if k' = k then (k, v) :: t else (k', v') :: aset t k v

def partitionLayout (s : Store) (t p : Nat) : List Nat × List Nat × List Nat :=
  (alookup s.layouts (t, p)).getD ([0], [0], [])

/-- the partition ids of topic `t` (which has `n` entries) in stored order -/
def partIdsOf (s : Store) (t n : Nat) : List Nat := (alookup s.partIds t).getD (List.range n)

/-- one call of a Store method with its arguments -/
inductive Call where
  | metadata (names : List Nat)
  | nextOffset (t p : Nat)
  | updateOffsets (t p : Nat) (last : Int)
  | commitConsumerOffset (g t p : Nat) (off : Int) (md : Nat)
  | fetchConsumerOffset (g t p : Nat)
  | listConsumerOffsets
  | putConsumerGroup (g : Nat) (info : Group)
  | fetchConsumerGroup (g : Nat)
  | listConsumerGroups
  | deleteConsumerGroup (g : Nat)
  | fetchTopicConfig (t : Nat)
  | updateTopicConfig (t : Nat) (c : Config)
  | createPartitions (t n : Nat)
  | createTopic (t n : Nat)
  | deleteTopic (t : Nat)
deriving Repr

def Call.method : Call → Method
  | .metadata _ => .metadata | .nextOffset .. => .nextOffset | .updateOffsets .. => .updateOffsets
  | .commitConsumerOffset .. => .commitConsumerOffset | .fetchConsumerOffset .. => .fetchConsumerOffset
  | .listConsumerOffsets => .listConsumerOffsets | .putConsumerGroup .. => .putConsumerGroup
  | .fetchConsumerGroup _ => .fetchConsumerGroup | .listConsumerGroups => .listConsumerGroups
  | .deleteConsumerGroup _ => .deleteConsumerGroup | .fetchTopicConfig _ => .fetchTopicConfig
  | .updateTopicConfig .. => .updateTopicConfig | .createPartitions .. => .createPartitions
  | .createTopic .. => .createTopic | .deleteTopic _ => .deleteTopic

/-- `Metadata(ctx, names)`: all topics, or per requested name the topic / an UNKNOWN_TOPIC (3) stub -/
def metadataTopics (s : Store) (names : List Nat) : List (Nat × Nat × Int) :=
  if names.isEmpty then s.topics.map fun e => (e.1, e.2, 0)
  else names.map fun n => match alookup s.topics n with
    | some parts => (n, parts, 0)
    | none => (n, 0, 3)

/-- `FetchTopicConfig`: unknown topic → error; stored config, else the default derived from the topic -/
def fetchTopicConfig (s : Store) (t : Nat) : Option Config :=
  match alookup s.topics t with
  | none => none
  | some parts => match alookup s.configs t with
    | some c => some c
    | none => some ⟨parts, -1⟩

def fetchConsumerOffset (s : Store) (g t p : Nat) : Int × Nat :=
  (alookup s.committed (g, t, p)).getD (0, 0)

/-- state effect of one call (results of reads are computed by the functions above) -/
def exec (s : Store) : Call → Store
  | .metadata _ => s
  | .nextOffset .. => s
  | .fetchConsumerOffset .. => s
  | .listConsumerOffsets => s
  | .fetchConsumerGroup _ => s
  | .listConsumerGroups => s
  | .fetchTopicConfig _ => s
  | .updateOffsets t p last => { s with nextOffsets := aset s.nextOffsets (t, p) (last + 1) }
  | .commitConsumerOffset g t p off md => { s with committed := aset s.committed (g, t, p) (off, md) }
  | .putConsumerGroup g info => { s with groups := aset s.groups g info }
  | .deleteConsumerGroup g => { s with groups := aerase s.groups g }
  | .updateTopicConfig t c =>
    match alookup s.topics t with
    | none => s
    | some parts => { s with configs := aset s.configs t (if c.partitions = 0 then { c with partitions := parts } else c) }
  | .createPartitions t n =>
    match alookup s.topics t with
    | none => s
    | some parts => if n ≤ parts then s else
        { s with topics := aset s.topics t n,
                 configs := aset s.configs t { ((alookup s.configs t).getD ⟨parts, -1⟩) with partitions := n },
                 -- appended entries carry ids len..n-1 (`Partition: i` for i from the current LENGTH)
                 partIds := match alookup s.partIds t with
                   | none => s.partIds
                   | some ids => aset s.partIds t (ids ++ (List.range (n - parts)).map (· + parts)) }
  | .createTopic t n =>
    if n = 0 ∨ (alookup s.topics t).isSome ∨ s.brokers = 0 then s
    else { s with topics := s.topics ++ [(t, n)], configs := aset s.configs t ⟨n, -1⟩ }
  | .deleteTopic t =>
    match alookup s.topics t with
    | none => s
    | some _ => { s with topics := aerase s.topics t, nextOffsets := s.nextOffsets.filter fun e => !(decide (e.1.1 = t)),
                         layouts := s.layouts.filter fun e => !(decide (e.1.1 = t)),
                         partIds := aerase s.partIds t }

def runCalls (s : Store) (cs : List Call) : Store := cs.foldl exec s

/-! ### the tool handlers -/

inductive ToolCall where
  | clusterStatus
  | clusterMetrics
  | listTopics
  | describeTopics (names : List Nat)
  | listGroups
  | describeGroup (g : Option Nat)                 -- none = empty group_id
  | fetchOffsets (g : Option Nat) (topics : List Nat)
  | describeConfigs (topics : List Nat)
deriving Repr

/-- insertion sort on a key (the handlers `sort.Slice` their output by name) -/
def insertBy {α : Type} (key : α → Nat) (x : α) : List α → List α
  | [] => [x]
  | y :: t => if key x ≤ key y then x :: y :: t else y :: insertBy key x t

def sortBy {α : Type} (key : α → Nat) (l : List α) : List α := l.foldr (insertBy key) []

structure PartInfo where
  id : Nat
  replicas : List Nat
  isr : List Nat
  offline : List Nat
deriving Repr, DecidableEq

inductive Result where
  | error
  | metricsOnly
  | topics (brokers : Option Nat) (l : List (Nat × Nat × Int))        -- name, partition count, error code
  | topicDetails (l : List (Nat × Int × List PartInfo))
      -- name, error code, per partition: id, replicas, isr, offline replicas (stored order)
  | groups (l : List (Nat × Nat × Nat))                               -- id, state, member count
  | group (g : Nat) (info : Group)
  | offsets (l : List (Nat × Nat × Int × Nat))                        -- topic, partition, offset, metadata
  | configs (l : List (Nat × Config))
deriving Repr, DecidableEq

/-- The handlers, as sequences of Store calls threaded through `exec` (so that "the state is
unchanged" is a statement about the calls made, not a definition). -/
def runTool (s : Store) : ToolCall → Store × Result
  | .clusterStatus =>
    let s1 := exec s (.metadata [])
    (s1, .topics (some s.brokers) (sortBy (·.1) (metadataTopics s [])))
  | .clusterMetrics => (s, .metricsOnly)
  | .listTopics =>
    let s1 := exec s (.metadata [])
    (s1, .topics none (sortBy (·.1) (metadataTopics s [])))
  | .describeTopics names =>
    let s1 := exec s (.metadata names)
    -- canonical output: topics by name, partitions by id (stable: entries with equal ids keep stored order);
    -- the ORDER in which the tool lists partitions is not part of C40, the stored order is (snapshots)
    (s1, .topicDetails (sortBy (·.1) ((metadataTopics s names).map fun e =>
      (e.1, e.2.2, sortBy (·.id) ((partIdsOf s e.1 e.2.1).zipIdx.map fun ip =>
        let l := partitionLayout s e.1 ip.2
        (⟨ip.1, l.1, l.2.1, l.2.2⟩ : PartInfo))))))
  | .listGroups =>
    let s1 := exec s .listConsumerGroups
    (s1, .groups (sortBy (·.1) (s.groups.map fun e => (e.1, e.2.state, e.2.members.length))))
  | .describeGroup none => (s, .error)
  | .describeGroup (some g) =>
    let s1 := exec s (.fetchConsumerGroup g)
    match alookup s.groups g with
    | none => (s1, .error)
    | some info => (s1, .group g { info with members := sortBy id info.members })
  | .fetchOffsets none _ => (s, .error)
  | .fetchOffsets (some g) topics =>
    let s1 := exec s (.metadata topics)
    let tps := (metadataTopics s topics).flatMap fun e => (partIdsOf s e.1 e.2.1).map fun p => (e.1, p)
    let s2 := runCalls s1 (tps.map fun tp => .fetchConsumerOffset g tp.1 tp.2)
    (s2, .offsets (sortBy (fun e => e.1 * 1000 + e.2.1)
      (tps.map fun tp => (tp.1, tp.2, (fetchConsumerOffset s g tp.1 tp.2).1, (fetchConsumerOffset s g tp.1 tp.2).2))))
  | .describeConfigs topics =>
    let s1 := if topics.isEmpty then exec s (.metadata []) else s
    let names := if topics.isEmpty then (metadataTopics s []).map (·.1) else topics
    let s2 := runCalls s1 (names.map fun t => .fetchTopicConfig t)
    if names.all fun t => (fetchTopicConfig s t).isSome then
      (s2, .configs (sortBy (·.1) (names.filterMap fun t => (fetchTopicConfig s t).map fun c => (t, c))))
    else (s2, .error)

/-! ### aliasing: what a read hands out

Lean values are immutable, so "the handler sorted the slice it got from `Metadata`" can only hurt a
model in which returned slices are REFERENCES.  As for C09's cache, slices live in a heap of
buffers.  The heap is typed and NESTED exactly like `ClusterMetadata.Topics`:

  topics array  `[]MetadataTopic`      elements carry a slice header `Partitions` (id of a partitions array)
  partitions array `[]MetadataPartition` elements carry three slice headers `Replicas`/`ISR`/`OfflineReplicas`
  int array     `[]int32`

so EVERY slice reachable from what `Metadata` returns is covered (the topics array, every partitions
array, every replica/ISR/offline array).  The store references one topics array (`root` =
`s.state.Topics`); a read returns the id of a topics array; a handler may overwrite any buffer reachable
from what it was handed, at any level, with anything. -/

structure HPart where
  id : Nat
  leader : Nat
  replicas : Nat     -- ids of int arrays (slice headers)
  isr : Nat
  offline : Nat
deriving Repr, DecidableEq

structure HTopic where
  name : Nat
  err : Nat
  parts : Nat        -- id of a partitions array (slice header)
deriving Repr, DecidableEq

structure Heap where
  ints : List (List Nat)
  parts : List (List HPart)
  topics : List (List HTopic)
deriving Repr, DecidableEq

structure HStore where
  heap : Heap
  root : Nat         -- the topics array the store's state references
deriving Repr, DecidableEq

structure VPart where
  id : Nat
  leader : Nat
  replicas : List Nat
  isr : List Nat
  offline : List Nat
deriving Repr, DecidableEq

structure VTopic where
  name : Nat
  err : Nat
  parts : List VPart
deriving Repr, DecidableEq

def Heap.viewPart (h : Heap) (p : HPart) : VPart :=
  ⟨p.id, p.leader, h.ints.getD p.replicas [], h.ints.getD p.isr [], h.ints.getD p.offline []⟩

def Heap.viewTopic (h : Heap) (t : HTopic) : VTopic :=
  ⟨t.name, t.err, (h.parts.getD t.parts []).map h.viewPart⟩

/-- what the store's state currently holds, fully dereferenced, every list in stored order -/
def HStore.view (s : HStore) : List VTopic := (s.heap.topics.getD s.root []).map s.heap.viewTopic

/-- `clonePartitions` body for one entry: three `cloneInt32Slice` allocations -/
def clonePart (h : Heap) (p : HPart) : Heap × HPart :=
  ({ h with ints := h.ints ++ [h.ints.getD p.replicas [], h.ints.getD p.isr [], h.ints.getD p.offline []] },
   { p with replicas := h.ints.length, isr := h.ints.length + 1, offline := h.ints.length + 2 })

def cloneParts (h : Heap) : List HPart → Heap × List HPart
  | [] => (h, [])
  | p :: ps =>
    let r := clonePart h p
    let rs := cloneParts r.1 ps
    (rs.1, r.2 :: rs.2)

/-- `cloneTopics` body for one entry: a fresh partitions array holding cloned entries -/
def cloneTopic (h : Heap) (t : HTopic) : Heap × HTopic :=
  let r := cloneParts h (h.parts.getD t.parts [])
  ({ r.1 with parts := r.1.parts ++ [r.2] }, { t with parts := r.1.parts.length })

def cloneTopicsL (h : Heap) : List HTopic → Heap × List HTopic
  | [] => (h, [])
  | t :: ts =>
    let r := cloneTopic h t
    let rs := cloneTopicsL r.1 ts
    (rs.1, r.2 :: rs.2)

/-- `cloneMetadata` (+ `filterTopics` on the clone): a fresh topics array of deep-cloned topics; its id is returned -/
def readCopy (s : HStore) : HStore × Nat :=
  let r := cloneTopicsL s.heap (s.heap.topics.getD s.root [])
  ({ s with heap := { r.1 with topics := r.1.topics ++ [r.2] } }, r.1.topics.length)

/-- a read that skips the deep clone and filters the store's own topics (`filterTopics(s.state.Topics, …)`):
a FRESH topics array, but its elements are the store's `MetadataTopic` structs copied BY VALUE — their
partitions arrays (and through them every replica array) stay shared with the store -/
def readShallow (s : HStore) : HStore × Nat :=
  ({ s with heap := { s.heap with topics := s.heap.topics ++ [s.heap.topics.getD s.root []] } }, s.heap.topics.length)

/-- buffer ids, per level -/
structure BufSet where
  ints : List Nat
  parts : List Nat
  topics : List Nat
deriving Repr, DecidableEq

/-- every buffer reachable from the topics array `root` -/
def Heap.reach (h : Heap) (root : Nat) : BufSet :=
  let ts := h.topics.getD root []
  ⟨(ts.flatMap fun t => h.parts.getD t.parts []).flatMap fun p => [p.replicas, p.isr, p.offline],
   ts.map (·.parts), [root]⟩

/-- the handler overwrites a buffer it holds, at any level (e.g. `sort.Slice(topic.Partitions, …)`) -/
inductive Write where
  | ints (b : Nat) (d : List Nat)
  | parts (b : Nat) (d : List HPart)
  | topics (b : Nat) (d : List HTopic)
deriving Repr

def Write.inSet (bs : BufSet) : Write → Prop
  | .ints b _ => b ∈ bs.ints
  | .parts b _ => b ∈ bs.parts
  | .topics b _ => b ∈ bs.topics

instance (bs : BufSet) (w : Write) : Decidable (w.inSet bs) := by
  cases w <;> (simp only [Write.inSet]; infer_instance)

/-- the write's target lies beyond heap `h0` (it was allocated after `h0`) -/
def Write.above (h0 : Heap) : Write → Prop
  | .ints b _ => h0.ints.length ≤ b
  | .parts b _ => h0.parts.length ≤ b
  | .topics b _ => h0.topics.length ≤ b

def handlerWrite (s : HStore) : Write → HStore
  | .ints b d => { s with heap := { s.heap with ints := s.heap.ints.set b d } }
  | .parts b d => { s with heap := { s.heap with parts := s.heap.parts.set b d } }
  | .topics b d => { s with heap := { s.heap with topics := s.heap.topics.set b d } }

/-- what the go/ast pass extracts per registered tool -/
structure ToolFacts where
  name : String
  handler : String
  calls : List Method      -- Store methods reachable from the handler inside internal/mcpserver
  escapes : Nat            -- places where the store value is handed to anything but a Store method call
deriving Repr

/-! ## The etcd side of a read (added after seeded miss C40-r3-2: lazy offset retention inside a lookup)

The Store-call model above says "FetchConsumerOffset is a read" for BOTH stores.  For `EtcdStore` that is a claim about
which etcd client operations the method issues; it is regenerated from pkg/metadata/etcd_store.go (`EtcdFacts`) and
proved against a revisioned key-value model: what a watcher / a dump with revisions can see. -/

/-- etcd client operations the extractor distinguishes (`other` = lease / compact / defragment / `Do`) -/
inductive EtcdOp where
  | get | watch | opGet | put | delete | txn | opPut | opDelete | opTxn | other
deriving Repr, DecidableEq

/-- operations that cannot change the keyspace or its revisions -/
def EtcdOp.readOnly : EtcdOp → Bool
  | .get | .watch | .opGet => true
  | _ => false

/-- per Store method as implemented by `EtcdStore`: etcd operations reachable from it inside pkg/metadata, and the
Store methods it calls on its cached in-memory snapshot (`s.metadata.X`) -/
structure EtcdFacts where
  method : Method
  ops : List EtcdOp
  inner : List Method
deriving Repr

/-- one key of the etcd keyspace as a dump with revisions shows it -/
structure KvEntry where
  key : Nat
  value : Nat          -- the stored bytes, abstracted (equal number = identical bytes)
  modRev : Nat
  createRev : Nat
  version : Nat
deriving Repr, DecidableEq

structure Kv where
  rev : Nat
  entries : List KvEntry
deriving Repr, DecidableEq

def Kv.find (kv : Kv) (k : Nat) : Option KvEntry := kv.entries.find? (·.key == k)

/-- etcd `Put`: the store revision advances; an existing key keeps createRev, gets version+1 and the new modRev -/
def Kv.put (kv : Kv) (k v : Nat) : Kv :=
  let r := kv.rev + 1
  match kv.find k with
  | some e => { rev := r, entries := kv.entries.map fun x =>
      if x.key == k then { e with value := v, modRev := r, version := e.version + 1 } else x }
  | none => { rev := r, entries := kv.entries ++ [{ key := k, value := v, modRev := r, createRev := r, version := 1 }] }

/-- etcd `Delete` of one key: a revision is consumed only when the key existed -/
def Kv.delete (kv : Kv) (k : Nat) : Kv :=
  match kv.find k with
  | some _ => { rev := kv.rev + 1, entries := kv.entries.filter fun x => !(x.key == k) }
  | none => kv

/-- requests of the model; `txnDelIfMod k r` = `Txn().If(ModRevision(k) = r).Then(OpDelete(k))` -/
inductive KvReq where
  | get (k : Nat) | getPrefix | watch
  | put (k v : Nat) | delete (k : Nat) | txnDelIfMod (k r : Nat)
deriving Repr, DecidableEq

def KvReq.op : KvReq → EtcdOp
  | .get _ | .getPrefix => .get
  | .watch => .watch
  | .put _ _ => .put
  | .delete _ => .delete
  | .txnDelIfMod _ _ => .txn

def Kv.exec (kv : Kv) : KvReq → Kv
  | .get _ | .getPrefix | .watch => kv
  | .put k v => kv.put k v
  | .delete k => kv.delete k
  | .txnDelIfMod k r => match kv.find k with
    | some e => if e.modRev = r then kv.delete k else kv
    | none => if r = 0 then kv.delete k else kv

def Kv.run (kv : Kv) (rs : List KvReq) : Kv := rs.foldl Kv.exec kv

/-- what the values-only dump used before C40-r3-2 compared -/
def Kv.plain (kv : Kv) : List (Nat × Nat) := kv.entries.map fun e => (e.key, e.value)

/-- a committed-offset record: offset + committed_at (seconds; `none` = unparsable / absent text) -/
structure OffRec where
  offset : Int
  committedAt : Option Nat
deriving Repr, DecidableEq

/-- `EtcdStore.LookupConsumerOffset` as it is: one `Get`, decode, answer — whatever the age of the record.
`decode` maps stored bytes to a record (`none` = not JSON). Returns the requests issued and the answer. -/
def lookupOffset (decode : Nat → Option OffRec) (kv : Kv) (k : Nat) (_now : Nat) : List KvReq × Option Int :=
  ([.get k], match kv.find k with
    | some e => (decode e.value).map (·.offset)
    | none => none)

/-- the C40-r3-2 variant ("lazy offset retention"): a record older than `retention` is reported absent AND deleted with
a revision-guarded Txn -/
def lookupOffsetLazy (retention : Nat) (decode : Nat → Option OffRec) (kv : Kv) (k : Nat) (now : Nat) :
    List KvReq × Option Int :=
  match kv.find k with
  | some e => match decode e.value with
    | some r => match r.committedAt with
      | some t => if now - t > retention then ([.get k, .txnDelIfMod k e.modRev], none) else ([.get k], some r.offset)
      | none => ([.get k], some r.offset)
    | none => ([.get k], none)
  | none => ([.get k], none)

end KafVerif.Mcp
