import KafVerif.Prelude.Basic
/-!
Model of the single-topic SELECT path of
`addons/processors/sql-processor/internal/server/server.go`
(`filterSegments`, `segmentMatchesOffsets`, `segmentMatchesTimestamps`, the record loop of
`handleSelect` with its early stop at `limit`, `appendTailRow`, the ORDER BY `_ts` sort and cut)
and of the segment statistics computed by
`internal/discovery/discovery.go` (`s3Lister.ListCompleted`: `MinOffset = base`,
`MaxOffset = next base − 1`) and `time_index_builder.go` (`scanSegment`).

A row is the record it was built from (`buildRowValues` is a function of the record and the
segment key).  Topics are `Nat` ids.  `sort.Slice` is not stable; the model sorts stably and
the check compares rows with equal `_ts` as a multiset (stated in the check).
-/
namespace KafVerif.SqlFilter

structure Rec where
  seg : Nat            -- index of the segment the record was decoded from (the `_segment` column)
  partition : Int
  offset : Int
  ts : Int
deriving Repr, DecidableEq

structure SegRef where
  topic : Nat
  partition : Int
  minOffset : Option Int
  maxOffset : Option Int
  minTs : Option Int
  maxTs : Option Int
  recs : List Rec       -- what `Decode` returns for the segment
  lastModified : Option Int   -- `LastModified` of the `.kfs` object (upload time, ms); `none` = zero time.
                              -- No function below reads it: record timestamps are producer-supplied and
                              -- are not bounded by the upload time, so it must not be used to skip a segment.
deriving Repr, DecidableEq

structure Query where
  topic : Nat
  partition : Option Int
  offMin : Option Int
  offMax : Option Int
  tsMin : Option Int     -- `timeMin` (TsMin, possibly raised by LAST)
  tsMax : Option Int
  limit : Nat            -- the resolved limit (> 0 in the code: defaults applied)
  tail : Nat             -- `tailCount` (0 = no TAIL)
  order : Option Bool    -- none = no ORDER BY; some desc
deriving Repr, DecidableEq

/-- `segmentMatchesOffsets` / `segmentMatchesTimestamps` (same shape) -/
def segmentMatches (smin smax qmin qmax : Option Int) : Bool :=
  if qmin.isNone && qmax.isNone then true
  else if smin.isNone && smax.isNone then true
  else
    (match qmin, smax with
      | some mn, some sM => !(decide (sM < mn))
      | _, _ => true) &&
    (match qmax, smin with
      | some mx, some sm => !(decide (sm > mx))
      | _, _ => true)

/-- the `if … { continue }` chain of `filterSegments` -/
def segmentSelected (q : Query) (s : SegRef) : Bool :=
  s.topic == q.topic &&
  (match q.partition with
    | some p => s.partition == p
    | none => true) &&
  segmentMatches s.minOffset s.maxOffset q.offMin q.offMax &&
  segmentMatches s.minTs s.maxTs q.tsMin q.tsMax

def filterSegments (q : Query) (segs : List SegRef) : List SegRef := segs.filter (segmentSelected q)

/-- the four `continue`s of the record loop -/
def recordPasses (q : Query) (r : Rec) : Bool :=
  (match q.tsMin with | some m => !(decide (r.ts < m)) | none => true) &&
  (match q.tsMax with | some m => !(decide (r.ts > m)) | none => true) &&
  (match q.offMin with | some m => !(decide (r.offset < m)) | none => true) &&
  (match q.offMax with | some m => !(decide (r.offset > m)) | none => true)

/-- `appendTailRow` -/
def appendTailRow (rows : List Rec) (row : Rec) (limit : Nat) : List Rec :=
  if limit = 0 then rows
  else if rows.length < limit then rows ++ [row]
  else rows.tail ++ [row]

/-- stable insertion sort by `_ts` (ascending, or descending when `desc`): an element is placed
before the first one that does not have to precede it, so equal keys keep their input order -/
def insertBy (desc : Bool) (r : Rec) : List Rec → List Rec
  | [] => [r]
  | x :: t =>
    if (if desc then decide (x.ts ≤ r.ts) else decide (r.ts ≤ x.ts)) then r :: x :: t
    else x :: insertBy desc r t

def sortByTs (desc : Bool) (rows : List Rec) : List Rec := rows.foldr (insertBy desc) []

/-- loop state of `handleSelect`: rows already sent, ORDER BY buffer, TAIL ring, early return -/
structure Loop where
  sent : List Rec
  rows : List Rec
  tailRows : List Rec
  done : Bool
deriving Repr, DecidableEq

def recordStep (q : Query) (st : Loop) (r : Rec) : Loop :=
  if st.done then st
  else if !recordPasses q r then st
  else if q.order.isSome then { st with rows := st.rows ++ [r] }
  else if q.tail > 0 then { st with tailRows := appendTailRow st.tailRows r q.tail }
  else
    let sent := st.sent ++ [r]
    { st with sent := sent, done := decide (sent.length ≥ q.limit) }

def segmentStep (q : Query) (st : Loop) (s : SegRef) : Loop := s.recs.foldl (recordStep q) st

/-- `handleSelect` for a plain (non-aggregate, single-topic) query: the DataRows in order -/
def select (q : Query) (segs : List SegRef) : List Rec :=
  let st := (filterSegments q segs).foldl (segmentStep q) ⟨[], [], [], false⟩
  if st.done then st.sent
  else match q.order with
    | some desc =>
      let sorted := sortByTs desc st.rows
      st.sent ++ (if q.limit > 0 ∧ sorted.length > q.limit then sorted.take q.limit else sorted)
    | none => if q.tail > 0 then st.sent ++ st.tailRows else st.sent

/-! ### the specification: filter the topic's records directly -/

/-- "its partition, offset and time filters" applied to one record -/
def recordPred (q : Query) (r : Rec) : Bool :=
  (match q.partition with | some p => r.partition == p | none => true) && recordPasses q r

/-- limit / tail / ordering applied to the filtered records -/
def post (q : Query) (rows : List Rec) : List Rec :=
  match q.order with
  | some desc =>
    let sorted := sortByTs desc rows
    if q.limit > 0 ∧ sorted.length > q.limit then sorted.take q.limit else sorted
  | none =>
    if q.tail > 0 then rows.drop (rows.length - q.tail)
    else rows.take q.limit

/-- all records of the topic's completed segments, in listing order, filtered directly -/
def direct (q : Query) (segs : List SegRef) : List Rec :=
  post q (((segs.filter (fun s => s.topic == q.topic)).flatMap (·.recs)).filter (recordPred q))

/-- the statistics of a segment bound its records -/
def StatsSound (s : SegRef) : Prop :=
  ∀ r ∈ s.recs,
    (∀ m, s.minOffset = some m → m ≤ r.offset) ∧ (∀ m, s.maxOffset = some m → r.offset ≤ m) ∧
    (∀ m, s.minTs = some m → m ≤ r.ts) ∧ (∀ m, s.maxTs = some m → r.ts ≤ m)

/-- every record carries its segment's partition -/
def PartitionSound (s : SegRef) : Prop := ∀ r ∈ s.recs, r.partition = s.partition

/-! ### faults: a query either fails or returns the direct result

`handleSelect` has these fallible calls on the plain single-topic path: `lister.ListCompleted`
(→ `return queryResult{}, err`), and per candidate segment `ctx.Err()` and `dec.Decode` (→ `return
queryResult{}, err`).  A fault oracle says, per query, whether the listing fails and for which
listing positions the context is cancelled / `Decode` fails.  A fault only manifests when the
segment is a candidate (not skipped by `filterSegments`) and is reached (the early `return` at
`limit` ends the loop before later segments are touched). -/

/-- what `handleSelect` does after the segment loop (the tail of `select`) -/
def finishRows (q : Query) (st : Loop) : List Rec :=
  if st.done then st.sent
  else match q.order with
    | some desc =>
      let sorted := sortByTs desc st.rows
      st.sent ++ (if q.limit > 0 ∧ sorted.length > q.limit then sorted.take q.limit else sorted)
    | none => if q.tail > 0 then st.sent ++ st.tailRows else st.sent

/-- `filterSegments` keeping each candidate's position in the listing (the fault oracle's index) -/
def candidatesFrom (q : Query) : List SegRef → Nat → List (SegRef × Nat)
  | [], _ => []
  | s :: rest, i =>
    if segmentSelected q s then (s, i) :: candidatesFrom q rest (i + 1) else candidatesFrom q rest (i + 1)

/-- one iteration of `for _, segment := range candidates`; the `Bool` is "returned an error".
After the early return at `limit` (`done`) and after an error nothing else runs. -/
def segmentStepF (q : Query) (fault : Nat → Bool) (acc : Loop × Bool) (s : SegRef × Nat) : Loop × Bool :=
  if acc.2 then acc
  else if acc.1.done then acc
  else if fault s.2 then (acc.1, true)
  else (segmentStep q acc.1 s.1, false)

/-- `handleSelect` under faults: `none` = the query failed (ErrorResponse), `some rows` = it
completed (`SELECT n`) with these DataRows -/
def selectF (q : Query) (segs : List SegRef) (listFault : Bool) (fault : Nat → Bool) : Option (List Rec) :=
  if listFault then none
  else
    let r := (candidatesFrom q segs 0).foldl (segmentStepF q fault) (⟨[], [], [], false⟩, false)
    if r.2 then none else some (finishRows q r.1)

/-! ### the result cache (`handleSelectWithCache`) -/

def lookupKey {κ : Type} [DecidableEq κ] (k : κ) : List (κ × List Rec) → Option (List Rec)
  | [] => none
  | (k', rows) :: rest => if k' = k then some rows else lookupKey k rest

/-- `handleSelectWithCache`: a cacheable query (`cacheKey` ok: both time bounds, no TAIL) is looked up by
its text; on a miss the query runs and its rows are stored only when it succeeded. `qOf` maps the
query text to the parsed query. -/
def cachedSelect {κ : Type} [DecidableEq κ] (segs : List SegRef) (qOf : κ → Query) (cacheable : κ → Bool)
    (c : List (κ × List Rec)) (k : κ) (listFault : Bool) (fault : Nat → Bool) :
    List (κ × List Rec) × Option (List Rec) :=
  if cacheable k then
    match lookupKey k c with
    | some rows => (c, some rows)
    | none =>
      match selectF (qOf k) segs listFault fault with
      | some rows => ((k, rows) :: c, some rows)
      | none => (c, none)
  else (c, selectF (qOf k) segs listFault fault)

/-- one query of a history: its text and the faults that hit it -/
structure FQuery (κ : Type) where
  key : κ
  listFault : Bool
  fault : Nat → Bool

/-- a history of queries over a fixed segment set through the caching handler: the answers -/
def runCached {κ : Type} [DecidableEq κ] (segs : List SegRef) (qOf : κ → Query) (cacheable : κ → Bool) :
    List (FQuery κ) → List (κ × List Rec) → List (Option (List Rec))
  | [], _ => []
  | x :: rest, c =>
    let r := cachedSelect segs qOf cacheable c x.key x.listFault x.fault
    r.2 :: runCached segs qOf cacheable rest r.1

/-! ### discovery: statistics from the listing -/

/-- one partition's listed segments: (base offset, decoded records), sorted by base -/
abbrev Listed := List (Int × List Rec)

/-- `MinOffset = base`, `MaxOffset = next.base − 1` when a next segment of the partition exists
and its base is positive (the loop after the sort in `ListCompleted`) -/
def offsetStats : Listed → List (Option Int × Option Int)
  | [] => []
  | [(b, _)] => [(some b, none)]
  | (b, _) :: (nb, r) :: rest =>
    (some b, if nb > 0 then some (nb - 1) else none) :: offsetStats ((nb, r) :: rest)

/-- one iteration of the min/max loop of `scanSegment` -/
def scanStep (a : Int × Int × Int × Int) (x : Rec) : Int × Int × Int × Int :=
  (if x.ts < a.1 then x.ts else a.1,
   if x.ts > a.2.1 then x.ts else a.2.1,
   if x.offset < a.2.2.1 then x.offset else a.2.2.1,
   if x.offset > a.2.2.2 then x.offset else a.2.2.2)

/-- `scanSegment`: (minTS, maxTS, minOffset, maxOffset), `none` for an empty segment -/
def scanSegment : List Rec → Option (Int × Int × Int × Int)
  | [] => none
  | r :: rest => some (rest.foldl scanStep (r.ts, r.ts, r.offset, r.offset))

/-! ### the whole listing (`s3Lister.ListCompleted` + `timeIndexReader.enrich` over the footers
written by `TimeIndexBuilder.Build`) -/

/-- one `segment-<base>.kfs` of a partition as found in S3; `complete` = `.kfs` and `.index`
both listed and the `.kfs` ends with the footer magic; `recs` = (offset, timestamp) decoded -/
structure Obj where
  topic : Nat
  partition : Int
  base : Int
  complete : Bool
  recs : List (Int × Int)
  lastModified : Option Int
deriving Repr, DecidableEq

/-- the `sort.Slice` order: topic, partition, base offset -/
def objLe (a b : Obj) : Bool :=
  if a.topic != b.topic then decide (a.topic < b.topic)
  else if a.partition != b.partition then decide (a.partition < b.partition)
  else decide (a.base ≤ b.base)

def insertObj (o : Obj) : List Obj → List Obj
  | [] => [o]
  | x :: t => if objLe o x then o :: x :: t else x :: insertObj o t

def sortObjs (l : List Obj) : List Obj := l.foldr insertObj []

def buildRefs (timeIndex : Bool) : List Obj → Nat → List SegRef
  | [], _ => []
  | o :: rest, i =>
    let recs := o.recs.map fun p => (⟨i, o.partition, p.1, p.2⟩ : Rec)
    let footer := if timeIndex then scanSegment recs else none
    let footerMax := footer.map (·.2.2.2)
    let maxOff := match rest with
      | n :: _ =>
        if n.topic = o.topic ∧ n.partition = o.partition then
          (if n.base > 0 then some (n.base - 1) else footerMax)
        else footerMax
      | [] => footerMax
    { topic := o.topic, partition := o.partition, minOffset := some o.base, maxOffset := maxOff,
      minTs := footer.map (·.1), maxTs := footer.map (·.2.1), recs := recs,
      lastModified := o.lastModified } :: buildRefs timeIndex rest (i + 1)

/-- `ListCompleted` -/
def listCompleted (objs : List Obj) (timeIndex : Bool) : List SegRef :=
  buildRefs timeIndex (sortObjs (objs.filter (·.complete))) 0

/-! ### time-index faults: `timeIndexReader.enrich` returns without touching the reference when the
read of the segment's `.kfst` footer fails — the segment is listed without footer statistics -/

/-- `buildRefs` with the time index available per object (`ti o = false`: time index off, no `.kfst`
yet, or its read failed) -/
def buildRefsT (ti : Obj → Bool) : List Obj → Nat → List SegRef
  | [], _ => []
  | o :: rest, i =>
    let recs := o.recs.map fun p => (⟨i, o.partition, p.1, p.2⟩ : Rec)
    let footer := if ti o then scanSegment recs else none
    let footerMax := footer.map (·.2.2.2)
    let maxOff := match rest with
      | n :: _ =>
        if n.topic = o.topic ∧ n.partition = o.partition then
          (if n.base > 0 then some (n.base - 1) else footerMax)
        else footerMax
      | [] => footerMax
    { topic := o.topic, partition := o.partition, minOffset := some o.base, maxOffset := maxOff,
      minTs := footer.map (·.1), maxTs := footer.map (·.2.1), recs := recs,
      lastModified := o.lastModified } :: buildRefsT ti rest (i + 1)

/-- `ListCompleted` where the footer read fails for the objects with `ti o = false` -/
def listCompletedT (objs : List Obj) (ti : Obj → Bool) : List SegRef :=
  buildRefsT ti (sortObjs (objs.filter (·.complete))) 0

end KafVerif.SqlFilter
