import KafVerif.Props.C02
/-!
Returned record sets as heap objects (C03 / C04, seeded change C04-r2-2).

`PartitionLog.Read` hands a `[]byte` to the fetch handler, which keeps it until the whole Fetch response is
encoded; other fetches, appends and flushes on the partition run meanwhile.  The functional model `read` returns
VALUES, which silently assumes that the returned slice is never written to again.  Here that assumption is made
explicit: results live in a heap (`address ↦ bytes`), `Read` returns an address, and the two allocation
disciplines are modelled:

* `fresh`  — every result is a new allocation (`append([]byte(nil), data[start:end+1]...)` in `sliceCachedSegment`,
  `out = append(out, …)` from nil in `recordsFromBatches`, the S3 client's own copy on the range path, `sliceFullSegmentData`'s copy);
* `shared` — results are assembled in one buffer per partition that is reused by the next `Read` (the seeded change).

`outs` records every hand-out `(address, bytes at the time of return)`.
-/
namespace KafVerif.PLog.Handout
open KafVerif KafVerif.RecBatch KafVerif.PLog

inductive Alloc where
  | fresh
  | shared
deriving Repr, DecidableEq

structure HState where
  l : PLog
  heap : List Bytes                 -- address = index
  outs : List (Nat × Bytes)         -- ghost: what was handed out, with the bytes it had then
deriving Repr

/-- one operation; a `read` that answers data puts the bytes into the heap and hands out the address -/
def hstep (a : Alloc) (s : HState) (op : Op) : HState :=
  match op with
  | .read o mb =>
    match (read s.l o mb).2 with
    | .data d =>
      match a with
      | .fresh => { l := step s.l op, heap := s.heap ++ [d], outs := s.outs ++ [(s.heap.length, d)] }
      | .shared =>
        -- address 0 is the partition's reusable buffer
        { l := step s.l op, heap := if s.heap.isEmpty then [d] else s.heap.set 0 d, outs := s.outs ++ [(0, d)] }
    | _ => { s with l := step s.l op }
  | _ => { s with l := step s.l op }

def run (a : Alloc) (s : HState) (ops : List Op) : HState := ops.foldl (hstep a) s

/-- the heap model does not change what the log does -/
theorem run_log (a : Alloc) (s : HState) (ops : List Op) : (run a s ops).l = ops.foldl step s.l := by
  induction ops generalizing s with
  | nil => rfl
  | cons op t ih =>
    simp only [run, List.foldl_cons] at ih ⊢
    rw [ih]
    congr 1
    cases op <;> simp only [hstep]
    split
    · cases a <;> rfl
    · rfl

/-- invariant of the fresh discipline: every hand-out's address is in the heap and still holds the bytes -/
def Stable (s : HState) : Prop := ∀ h ∈ s.outs, h.1 < s.heap.length ∧ s.heap.getD h.1 [] = h.2

theorem stable_step (s : HState) (op : Op) (hs : Stable s) : Stable (hstep .fresh s op) := by
  cases op with
  | read o mb =>
    simp only [hstep]
    split
    · rename_i d _
      intro h hh
      simp only [List.mem_append, List.mem_singleton] at hh
      rcases hh with hh | rfl
      · obtain ⟨h1, h2⟩ := hs h hh
        refine ⟨by simp; omega, ?_⟩
        simp only [List.getD_eq_getElem?_getD] at h2 ⊢
        rw [List.getElem?_append_left h1]
        exact h2
      · refine ⟨by simp, ?_⟩
        simp [List.getD_eq_getElem?_getD]
    · exact hs
  | append _ => exact hs
  | flush => exact hs
  | gate => exact hs
  | release => exact hs
  | restart => exact hs
  | restartAt _ => exact hs
  | dropcache => exact hs

theorem fresh_stable (l : PLog) (ops : List Op) :
    ∀ h ∈ (run .fresh ⟨l, [], []⟩ ops).outs, (run .fresh ⟨l, [], []⟩ ops).heap.getD h.1 [] = h.2 := by
  have h0 : Stable ⟨l, [], []⟩ := by intro h hh; simp at hh
  have : ∀ (s : HState), Stable s → Stable (run .fresh s ops) := by
    induction ops with
    | nil => intro s hs; exact hs
    | cons op t ih => intro s hs; exact ih _ (stable_step s op hs)
  intro h hh
  exact (this _ h0 h hh).2

/-- a 61-byte one-record batch with a declared length and a marker byte -/
def tinyB (marker : UInt8) : Bytes :=
  [0,0,0,0,0,0,0,0, 0,0,0,49, marker] ++ List.replicate 44 0 ++ [0,0,0,1]

set_option maxRecDepth 100000 in
/-- two batches in one segment; fetch at offset 1, then at offset 0: the first hand-out no longer holds the batch at offset 1 -/
theorem shared_unstable :
    ∃ (l : PLog) (ops : List Op), ∃ h ∈ (run .shared ⟨l, [], []⟩ ops).outs,
      (run .shared ⟨l, [], []⟩ ops).heap.getD h.1 [] ≠ h.2 := by
  refine ⟨PLog.new 100 true 0, [.append (tinyB 1), .append (tinyB 2), .flush, .read 1 61, .read 0 61], ?_⟩
  decide

end KafVerif.PLog.Handout
