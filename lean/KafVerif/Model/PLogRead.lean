import KafVerif.Model.RecBatch
/-!
Model of `pkg/storage/log.go` as far as properties C02, C03, C04 need it:

* offset assignment in `AppendBatch` (with the C02 validation), `Flush`/`prepareFlush`/`uploadFlush`
  on the success path (a flush can be *gated*: the drained batches sit in `flushingBatches` while
  the upload is in flight), `BuildSegment` + `IndexBuilder.MaybeAdd`, `RestoreFromS3`;
* the read path: segment lookup with gap snap-forward, flush-window / buffer fallback
  (`recordsFromBatches`), cached path (`sliceCachedSegment` + `skipBatchesBefore`), range-read path
  (`segmentRangeForOffset`, `computeSegmentRange`, `findIndexEntry`), full-download path.

The definitions named `…Old` are the code before the "fix:" commits of C02/C03/C04.

Segment objects are `32 header bytes ++ batch bytes ++ 16 footer bytes`; the model writes zero
bytes for header and footer (CRC and creation time are not modelled — no read may return them).
S3 is the in-memory client (`MemoryS3Client`): whole-object put, read-after-write, clamped ranges.
Upload failures belong to C01/C05 and are not generated here.
-/
namespace KafVerif.PLog
open KafVerif.RecBatch

def footerLen : Int := 16
def headerLen : Nat := 32

/-- one committed segment (`segmentRange` + its index entries + the S3 object) -/
structure Seg where
  base : Int
  last : Int
  size : Int
  entries : List (Int × Int)      -- (offset, position)
  data : Bytes
  batches : List Batch            -- ghost: what the object was built from
deriving Repr

structure PLog where
  interval : Int
  cacheOn : Bool
  next : Int
  hw : Int                        -- what onFlush published to the metadata store (NextOffset)
  segs : List Seg
  buf : List Batch
  fl : List Batch                 -- flushingBatches
  gated : Bool                    -- an upload is in flight
  cached : List (Int × Bytes)     -- segment cache entries of this partition: base ↦ bytes
  s3 : List Seg                   -- objects in S3 under this partition's prefix
  origin : Int                    -- ghost: the offset the partition started at
deriving Repr

def PLog.new (interval : Int) (cacheOn : Bool) (start : Int) : PLog :=
  { interval, cacheOn, next := start, hw := start, segs := [], buf := [], fl := [], gated := false,
    cached := [], s3 := [], origin := start }

/-! ### append -/

inductive AppendOut where
  | ok (base last : Int)
  | rej
deriving Repr, DecidableEq

/-- `AppendBatch` (buffer thresholds never trip in the modelled configuration) -/
def append (l : PLog) (b : Batch) : PLog × AppendOut :=
  if validOk b then
    let base := l.next
    let b' := patch b base
    ({ l with next := base + b.lod + 1, buf := l.buf ++ [b'] }, .ok base (base + b.lod))
  else (l, .rej)

/-- `AppendBatch` before the C02 fix: the header is trusted. -/
def appendOld (l : PLog) (b : Batch) : PLog × AppendOut :=
  let base := l.next
  let b' := patch b base
  ({ l with next := base + b.lod + 1, buf := l.buf ++ [b'] }, .ok base (base + b.lod))

/-! ### BuildSegment / index -/

/-- `IndexBuilder.MaybeAdd` folded over the batches: `pos` = position of the next batch,
`since` = sinceLast, `have_` = an entry exists already. -/
def buildIndex (interval : Int) : List Batch → Int → Int → Bool → List (Int × Int)
  | [], _, _, _ => []
  | b :: t, pos, since, have_ =>
    let add := !have_ || decide (since ≥ interval)
    let since' := wrap32 ((if add then 0 else since) + b.count)
    let rest := buildIndex interval t (pos + b.bytes.length) since' true
    if add then (b.base, wrap32 pos) :: rest else rest

def zeros (n : Nat) : Bytes := List.replicate n 0

def body (bs : List Batch) : Bytes := (bs.map (·.bytes)).flatten

/-- `BuildSegment` (+ `NewIndexBuilder`: a non-positive interval becomes 1) -/
def buildSegment (interval : Int) (bs : List Batch) : Seg :=
  let iv := if interval ≤ 0 then 1 else interval
  let data := zeros headerLen ++ body bs ++ zeros footerLen.toNat
  { base := (bs.head?.map (·.base)).getD 0
    last := (bs.getLast?.map Batch.last).getD 0
    size := data.length
    entries := buildIndex iv bs headerLen 0 false
    data := data
    batches := bs }

/-! ### flush / restart -/

def s3put (s3 : List Seg) (seg : Seg) : List Seg :=
  if s3.any (·.base == seg.base) then s3.map (fun x => if x.base == seg.base then seg else x) else s3 ++ [seg]

def cachePut (c : List (Int × Bytes)) (base : Int) (data : Bytes) : List (Int × Bytes) :=
  (base, data) :: c.filter (·.1 != base)

/-- `prepareFlush`: drain the buffer into `flushingBatches`. -/
def prepare (l : PLog) : PLog := { l with fl := l.buf, buf := [] }

/-- `uploadFlush` success path + `onFlush`. -/
def commit (l : PLog) : PLog :=
  let seg := buildSegment l.interval l.fl
  { l with
    s3 := s3put l.s3 seg
    cached := if l.cacheOn then cachePut l.cached seg.base seg.data else l.cached
    segs := l.segs ++ [seg]
    fl := []
    gated := false
    hw := seg.last + 1 }

/-- `Flush` when no other flush is in flight. An empty buffer publishes `nextOffset` (the
`target == nil` branch of `Flush`). -/
def flush (l : PLog) : PLog :=
  if l.buf.isEmpty then (if l.next - 1 ≥ 0 then { l with hw := l.next } else l)
  else commit (prepare l)

/-- `Flush` whose uploads are blocked inside S3: returns `(state, gated?)`. -/
def gate (l : PLog) : PLog × Bool :=
  if l.buf.isEmpty then (flush l, false) else ({ prepare l with gated := true }, true)

def release (l : PLog) : PLog := commit l

def insertSeg (s : Seg) : List Seg → List Seg
  | [] => [s]
  | x :: t => if s.base < x.base then s :: x :: t else x :: insertSeg s t

def sortSegs (l : List Seg) : List Seg := l.foldr insertSeg []

/-- process restart: `NewPartitionLog(startOffset = start)` + `RestoreFromS3`, and the broker's
`UpdateOffsets(lastOffset)` when the restored log is ahead.  `start` is what the metadata store
holds: the published watermark, or an older value when the broker died between the upload and
`UpdateOffsets`.  Returns the restored `lastOffset` (−1: no segment). -/
def restartAt (l : PLog) (start : Int) : PLog × Int :=
  let segs := sortSegs l.s3
  match segs.getLast? with
  | none => ({ l with next := start, hw := start, segs := [], buf := [], fl := [], gated := false }, -1)
  | some s =>
    let last := s.last
    ({ l with next := if last ≥ start then last + 1 else start
              hw := if last ≥ start then last + 1 else start
              segs := segs, buf := [], fl := [], gated := false }, last)

def restart (l : PLog) : PLog × Int := restartAt l l.hw

/-! ### read path -/

inductive ReadOut where
  | data (b : Bytes)
  | oor
  | err
  | panic
deriving Repr, DecidableEq

/-- `recordsFromBatches` -/
def recordsFrom (bs : List Batch) (o maxBytes : Int) : Bytes :=
  go bs []
where
  go : List Batch → Bytes → Bytes
    | [], out => out
    | b :: t, out =>
      if b.base + b.lod < o then go t out
      else if out.length > 0 ∧ (maxBytes ≤ 0 ∨ (out.length : Int) + b.bytes.length > maxBytes) then out
      else go t (out ++ b.bytes)

def findLoop (es : List (Int × Int)) (o : Int) : Nat → Int → Int → Int × Int
  | 0, _, _ => es.headD (0, 0)
  | fuel + 1, lo, hi =>
    if lo ≤ hi then
      let mid := (lo + hi) / 2
      let em := es.getD mid.toNat (0, 0)
      if em.1 = o then em
      else if em.1 < o then
        if mid + 1 ≤ hi ∧ (es.getD (mid + 1).toNat (0, 0)).1 > o then em
        else findLoop es o fuel (mid + 1) hi
      else findLoop es o fuel lo (mid - 1)
    else es.headD (0, 0)

/-- `findIndexEntry` -/
def findIndexEntry (es : List (Int × Int)) (o : Int) : Int × Int :=
  match es with
  | [] => (0, 0)
  | e0 :: _ =>
    let eh := es.getD (es.length - 1) (0, 0)
    if o ≤ e0.1 then e0
    else if o ≥ eh.1 then eh
    else findLoop es o (es.length + 1) 0 ((es.length : Int) - 1)

/-- `computeSegmentRange` -/
def computeSegmentRange (size : Int) (es : List (Int × Int)) (o maxBytes : Int) : Int × Int :=
  if size ≤ footerLen then (-1, -1) else
  let start := (findIndexEntry es o).2
  let endLimit := size - footerLen
  if endLimit ≤ start then (-1, -1) else
  let end_ := endLimit - 1
  if maxBytes > 0 ∧ start + maxBytes - 1 < end_ then (start, start + maxBytes - 1) else (start, end_)

/-- `skipBatchesBefore` (C04 fix): walk the frames from `start` to the first batch whose last offset
reaches `o`; stay where the framing cannot be followed. -/
def skipBatches (data : Bytes) (limit o : Int) : Nat → Int → Int
  | 0, start => start
  | fuel + 1, start =>
    if start ≥ 0 ∧ start + hdrMin ≤ limit then
      let hdr := field data start.toNat hdrMin
      let frameLen := 12 + hdrLen hdr
      let last := hdrBase hdr + hdrLod hdr
      if last ≥ o ∨ frameLen < hdrMin ∨ start + frameLen + hdrMin > limit then start
      else skipBatches data limit o fuel (start + frameLen)
    else start

/-- `sliceFullSegmentData` -/
def sliceFull (data : Bytes) (maxBytes : Int) : Bytes :=
  let len : Int := data.length
  let start := if (headerLen : Int) > len then len else headerLen
  let end0 := if len > footerLen then len - footerLen else len
  let end_ := if end0 < start then len else end0
  let b := (data.drop start.toNat).take (end_ - start).toNat
  if maxBytes > 0 ∧ (b.length : Int) > maxBytes then b.take maxBytes.toNat else b

def sliceOut (data : Bytes) (start end_ : Int) : ReadOut :=
  match goSlice data start (end_ + 1) with
  | .ok b => .data b
  | _ => .panic

/-- `sliceCachedSegment` (with the C04 fix) -/
def sliceCached (size : Int) (es : List (Int × Int)) (o maxBytes : Int) (data : Bytes) : ReadOut :=
  if es.isEmpty then .data (sliceFull data maxBytes) else
  let (start, end_) := computeSegmentRange size es o maxBytes
  if start < 0 ∨ end_ < start then .oor else
  let limit := if size - footerLen > data.length then (data.length : Int) else size - footerLen
  let adv := skipBatches data limit o data.length start
  let (start, end_) :=
    if adv > start then (adv, if end_ + (adv - start) > limit - 1 then limit - 1 else end_ + (adv - start))
    else (start, end_)
  let end_ := if end_ ≥ data.length then (data.length : Int) - 1 else end_
  sliceOut data start end_

/-- `sliceCachedSegment` before the C04 fix -/
def sliceCachedOld (size : Int) (es : List (Int × Int)) (o maxBytes : Int) (data : Bytes) : ReadOut :=
  if es.isEmpty then .data (sliceFull data maxBytes) else
  let (start, end_) := computeSegmentRange size es o maxBytes
  if start < 0 ∨ end_ < start then .oor else
  let end_ := if end_ ≥ data.length then (data.length : Int) - 1 else end_
  sliceOut data start end_

/-- `segmentRangeForOffset` (with the C04 fix: only an exact index hit may be range-read) -/
def segmentRangeFor (size : Int) (es : List (Int × Int)) (o maxBytes : Int) : Option (Int × Int) :=
  if size ≤ 0 ∨ es.isEmpty then none
  else if (findIndexEntry es o).1 < o then none
  else
    let (start, end_) := computeSegmentRange size es o maxBytes
    if start < 0 ∨ end_ < start then none else some (start, end_)

def segmentRangeForOld (size : Int) (es : List (Int × Int)) (o maxBytes : Int) : Option (Int × Int) :=
  if size ≤ 0 ∨ es.isEmpty then none
  else
    let (start, end_) := computeSegmentRange size es o maxBytes
    if start < 0 ∨ end_ < start then none else some (start, end_)

/-- `MemoryS3Client.DownloadSegment` with a range -/
def s3Range (data : Bytes) (start end_ : Int) : Option Bytes :=
  let start := if start < 0 then 0 else start
  let end_ := if end_ ≥ data.length then (data.length : Int) - 1 else end_
  if start > end_ ∨ start ≥ data.length then none
  else some ((data.drop start.toNat).take (end_ + 1 - start).toNat)

/-- segment lookup loop of `Read`: the segment holding `o`, or the first segment after `o`
(gap snap-forward: the offset becomes that segment's base). -/
def findSeg : List Seg → Int → Option (Seg × Int)
  | [], _ => none
  | s :: t, o =>
    if s.base ≤ o ∧ o ≤ s.last then some (s, o)
    else if s.base > o then some (s, s.base)
    else findSeg t o

def s3get (s3 : List Seg) (base : Int) : Option Bytes := (s3.find? (·.base == base)).map (·.data)

def cacheGet (c : List (Int × Bytes)) (base : Int) : Option Bytes := (c.find? (·.1 == base)).map (·.2)

/-- the `!found` branch of `Read` (with the C03 fix): in-flight flush batches first, then the
write buffer -/
def fallback (fl buf : List Batch) (o maxBytes : Int) : ReadOut :=
  let b := recordsFrom fl o maxBytes
  let b := if b.length > 0 then b else recordsFrom buf o maxBytes
  if b.length > 0 then .data b else .oor

/-- the `!found` branch before the C03 fix: write buffer first -/
def fallbackOld (fl buf : List Batch) (o maxBytes : Int) : ReadOut :=
  let b := recordsFrom buf o maxBytes
  let b := if b.length > 0 then b else recordsFrom fl o maxBytes
  if b.length > 0 then .data b else .oor

/-- `PartitionLog.Read` (with the C03 and C04 fixes) -/
def read (l : PLog) (o maxBytes : Int) : PLog × ReadOut :=
  match findSeg l.segs o with
  | none => (l, fallback l.fl l.buf o maxBytes)
  | some (seg, o) =>
    match (if l.cacheOn then cacheGet l.cached seg.base else none) with
    | some data => (l, sliceCached seg.size seg.entries o maxBytes data)
    | none =>
      match s3get l.s3 seg.base with
      | none => (l, .err)
      | some obj =>
        match segmentRangeFor seg.size seg.entries o maxBytes with
        | some (start, end_) =>
          (l, match s3Range obj start end_ with | some b => .data b | none => .err)
        | none =>
          let l' := if l.cacheOn then { l with cached := cachePut l.cached seg.base obj } else l
          (l', sliceCached seg.size seg.entries o maxBytes obj)

/-- `PartitionLog.Read` before the fixes: buffer before flush window, no advance past the sparse
index entry, range read whenever an index exists. -/
def readOld (l : PLog) (o maxBytes : Int) : PLog × ReadOut :=
  match findSeg l.segs o with
  | none => (l, fallbackOld l.fl l.buf o maxBytes)
  | some (seg, o) =>
    match (if l.cacheOn then cacheGet l.cached seg.base else none) with
    | some data => (l, sliceCachedOld seg.size seg.entries o maxBytes data)
    | none =>
      match s3get l.s3 seg.base with
      | none => (l, .err)
      | some obj =>
        match segmentRangeForOld seg.size seg.entries o maxBytes with
        | some (start, end_) =>
          (l, match s3Range obj start end_ with | some b => .data b | none => .err)
        | none =>
          let l' := if l.cacheOn then { l with cached := cachePut l.cached seg.base obj } else l
          (l', sliceCachedOld seg.size seg.entries o maxBytes obj)

end KafVerif.PLog
