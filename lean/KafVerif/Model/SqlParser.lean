import KafVerif.Prelude.Basic
/-!
Model of `addons/processors/sql-processor/internal/sql/parser.go` (`Parse` and what it calls),
over byte strings.

What is modelled, line by line: the dispatch of `Parse`; `parseShow`, `parseDescribe`,
`parseExplain`; `parseSelect` with `parseSelectColumns` (`splitColumns`, the `Raw` text of every
column), `parseFromClause`, `parseJoin`, `parseJoinCondition` / `parseJoinExpr` /
`resolveJoinSide` (with the `json_value(...)` matcher), `parseFilters` (`strconv.ParseInt`),
`parseGroupBy`, `parseOrderBy`, `parseOrderDesc`, `parseLimitToken`, `parseKeywordValue`,
`hasToken`, `keywordIndex`, `clauseEnd`, `splitIdentifiers`, `parseColumnRef` — and EVERY slice
expression of the file with Go's bounds rule (`sliceFrom`, `sliceTo` return `panic` exactly when
Go panics).

`parseWith L` takes the lowering `L` that `Parse` applies to the whole statement as a
parameter: after the fix (`fixes/C35-*.patch`) it is `asciiLower` (byte-length preserving);
before it was `strings.ToLower`, which changes byte lengths (`goLowerOld` models it on the
runes the witness needs).

Not modelled (the check keeps them out of the correspondence stream and covers them with the
crash / case-variant monitors only): `parseTSFilters` + `parseTimestampLiteral` (`time.Parse`),
the classification of a select column beyond its `Raw` text (`splitAlias`, aggregates), Unicode
white space (U+0085, U+00A0, …) and the two non-ASCII runes Go's `(?i)` folds onto ASCII
letters (`K`, `ſ`).  The local `strings.ToLower` calls (order-by list, identifiers, column
references) are modelled by `asciiLower`: on the modelled domain (no upper-case non-ASCII
letters) they coincide.
-/
namespace KafVerif.SqlParser

/-! ### bytes, classes -/

def lowerB (b : UInt8) : UInt8 := if 65 ≤ b ∧ b ≤ 90 then b + 32 else b

/-- byte-length preserving ASCII lowering (the `lowerASCII` helper of the fix) -/
def asciiLower (s : Bytes) : Bytes := s.map lowerB

/-- `unicode.IsSpace` on ASCII: `\t \n \v \f \r ' '` -/
def isSpaceB (b : UInt8) : Bool := b == 9 || b == 10 || b == 11 || b == 12 || b == 13 || b == 32

/-- RE2 `\s`: `[\t\n\f\r ]` (no `\v`) -/
def isReSpace (b : UInt8) : Bool := b == 9 || b == 10 || b == 12 || b == 13 || b == 32

def isDigitB (b : UInt8) : Bool := 48 ≤ b && b ≤ 57

/-- RE2 `\w` -/
def isWordB (b : UInt8) : Bool :=
  isDigitB b || (65 ≤ b && b ≤ 90) || (97 ≤ b && b ≤ 122) || b == 95

/-- an ASCII literal as bytes (kernel-reducible, unlike `String.toUTF8`) -/
def str (s : String) : Bytes := s.toList.map (fun c => c.toNat.toUInt8)

/-! ### strings.* -/

def trimLeft (s : Bytes) : Bytes := s.dropWhile isSpaceB
def trimRight (s : Bytes) : Bytes := (s.reverse.dropWhile isSpaceB).reverse
/-- `strings.TrimSpace` (ASCII white space) -/
def trimSpace (s : Bytes) : Bytes := trimRight (trimLeft s)

/-- `strings.TrimSuffix(s, ";")` -/
def trimSemi (s : Bytes) : Bytes := if s.getLast? = some 59 then s.dropLast else s

/-- `strings.Fields` (ASCII white space) -/
def fieldsAux : Bytes → Bytes → List Bytes
  | [], cur => if cur.isEmpty then [] else [cur.reverse]
  | c :: t, cur =>
    if isSpaceB c then (if cur.isEmpty then fieldsAux t [] else cur.reverse :: fieldsAux t [])
    else fieldsAux t (c :: cur)

def fields (s : Bytes) : List Bytes := fieldsAux s []

def hasPrefix (s p : Bytes) : Bool := s.take p.length == p

/-- `strings.Split(s, sep)` for a one-byte separator -/
def splitOnAux (sep : UInt8) : Bytes → Bytes → List Bytes
  | [], cur => [cur.reverse]
  | c :: t, cur => if c == sep then cur.reverse :: splitOnAux sep t [] else splitOnAux sep t (c :: cur)

def splitOn (sep : UInt8) (s : Bytes) : List Bytes := splitOnAux sep s []

/-! ### Go slice expressions on strings -/

/-- `s[i:]` -/
def sliceFrom (s : Bytes) (i : Nat) : GoResult Bytes :=
  if i ≤ s.length then .ok (s.drop i) else .panic

/-- `s[:j]` -/
def sliceTo (s : Bytes) (j : Nat) : GoResult Bytes :=
  if j ≤ s.length then .ok (s.take j) else .panic

/-- `s[i:j]` -/
def slice (s : Bytes) (i j : Nat) : GoResult Bytes :=
  if i ≤ j ∧ j ≤ s.length then .ok ((s.drop i).take (j - i)) else .panic

/-! ### regexp helpers -/

/-- does the (lower-case ASCII) keyword match case-insensitively at the head of `t`? -/
def kwAt (kw t : Bytes) : Bool := kw.length ≤ t.length && (t.take kw.length).map lowerB == kw

def isWordOpt : Option UInt8 → Bool
  | some b => isWordB b
  | none => false

/-- `regexp.MustCompile("(?i)\\b" + kw + "\\b").FindStringIndex(s)[0]`: the first position where
the keyword stands between two word boundaries (keywords begin and end with a letter). -/
def kwIndexAux (kw : Bytes) : Bool → Bytes → Nat → Option Nat
  | _, [], _ => none
  | pw, c :: t, i =>
    if !pw && kwAt kw (c :: t) && !isWordOpt ((c :: t)[kw.length]?) then some i
    else kwIndexAux kw (isWordB c) t (i + 1)

/-- `keywordIndex(s, kw)`; `none` is Go's `-1` -/
def keywordIndex (s : Bytes) (kw : String) : Option Nat := kwIndexAux (str kw) false s 0

/-- `clauseEnd(lower, stopKeywords)` -/
def clauseEnd (s : Bytes) (stops : List String) : Nat :=
  stops.foldl (fun e kw => match keywordIndex s kw with
    | some i => if i < e then i else e
    | none => e) s.length

/-- `(?i)\bkw\s+(\S+)`: first position where the keyword follows a boundary and is followed by
white space and a non-space run; returns the run. -/
def kwValueAux (kw : Bytes) : Bool → Bytes → Option Bytes
  | _, [] => none
  | pw, c :: t =>
    let after := (c :: t).drop kw.length
    let v := (after.dropWhile isReSpace).takeWhile (fun b => !isReSpace b)
    if !pw && kwAt kw (c :: t) && (after.head?.map isReSpace).getD false && !v.isEmpty then some v
    else kwValueAux kw (isWordB c) t

/-- `parseKeywordValue(lower, keyword)` -/
def parseKeywordValue (s : Bytes) (kw : String) : Bytes :=
  match kwValueAux (str kw) false s with
  | some v => trimSpace v
  | none => []

/-- `(?i)\blimit\s+(\d+)` -/
def limitAux : Bool → Bytes → Option Bytes
  | _, [] => none
  | pw, c :: t =>
    let after := (c :: t).drop 5
    let v := (after.dropWhile isReSpace).takeWhile isDigitB
    if !pw && kwAt (str "limit") (c :: t) && (after.head?.map isReSpace).getD false && !v.isEmpty then some v
    else limitAux (isWordB c) t

/-- `parseLimitToken(lower)` -/
def parseLimitToken (s : Bytes) : Bytes := (limitAux false s).getD []

/-! ### strconv.ParseInt(s, 10, bits) -/

def digitsVal : Bytes → Nat → Option Nat
  | [], acc => some acc
  | c :: t, acc => if isDigitB c then digitsVal t (acc * 10 + (c.toNat - 48)) else none

def parseIntDec (s : Bytes) (bits : Nat) : Option Int :=
  let (neg, ds) := match s with
    | 45 :: t => (true, t)
    | 43 :: t => (false, t)
    | _ => (false, s)
  if ds.isEmpty then none else
  match digitsVal ds 0 with
  | none => none
  | some n =>
    if neg then (if n ≤ 2 ^ (bits - 1) then some (-(n : Int)) else none)
    else (if n < 2 ^ (bits - 1) then some (n : Int) else none)

/-! ### the parsed query -/

structure JoinExpr where
  kind : Nat        -- 0 = key, 1 = json
  source : Bytes
  side : Nat        -- 0 = left, 1 = right
  path : Bytes
deriving Repr, DecidableEq

structure Sel where
  topic : Bytes
  alias : Bytes
  joinTopic : Bytes
  joinAlias : Bytes
  joinType : Nat    -- 0 = none, 1 = inner, 2 = left
  joinOn : Option (JoinExpr × JoinExpr)
  cols : List Bytes -- SelectColumn.Raw of every column ("*" for the implicit star)
  groupBy : List Bytes
  orderBy : Bytes
  orderDesc : Bool
  limit : Bytes
  partition : Option Int
  offMin : Option Int
  offMax : Option Int
  within : Bytes
  last : Bytes
  tail : Bytes
  scanFull : Bool
deriving Repr, DecidableEq

inductive Q where
  | showTopics
  | showPartitions (topic : Bytes)
  | describe (topic : Bytes)
  | select (s : Sel)
  | explain (s : Sel)
deriving Repr, DecidableEq

/-! ### parser pieces -/

def isKeyword (v : Bytes) : Bool :=
  [str "join", str "left", str "where", str "group", str "order", str "limit", str "last",
   str "tail", str "within", str "scan"].contains v

/-- `parseShow` -/
def parseShow (fs : List Bytes) : GoResult Q :=
  if fs.length ≥ 2 ∧ fs[1]? = some (str "topics") then .ok .showTopics
  else if fs.length ≥ 4 ∧ fs[1]? = some (str "partitions") ∧ fs[2]? = some (str "from") then
    .ok (.showPartitions (fs.getD 3 []))
  else .err

/-- `parseDescribe` -/
def parseDescribe (fs : List Bytes) : GoResult Q :=
  if fs.length < 2 then .err else .ok (.describe (fs.getD 1 []))

/-- `parseFromClause`: the first `from` that has a successor -/
def parseFromClause : List Bytes → Option (Bytes × Bytes)
  | [] => none
  | f :: rest =>
    if f == str "from" then
      match rest with
      | [] => parseFromClause rest
      | topic :: rest2 =>
        let alias := match rest2 with
          | a :: _ => if isKeyword a then [] else a
          | [] => []
        some (topic, alias)
    else parseFromClause rest

/-- `parseJoin`: (joinType, topic, alias) -/
def parseJoin : List Bytes → Nat × Bytes × Bytes
  | [] => (0, [], [])
  | f :: rest =>
    if f == str "join" ∧ !rest.isEmpty then
      match rest with
      | topic :: rest2 =>
        let alias := match rest2 with
          | a :: _ => if isKeyword a then [] else a
          | [] => []
        (1, topic, alias)
      | [] => (0, [], [])
    else if f == str "left" ∧ rest.length ≥ 2 ∧ rest.head? = some (str "join") then
      match rest with
      | _ :: topic :: rest3 =>
        let alias := match rest3 with
          | a :: _ => if isKeyword a then [] else a
          | [] => []
        (2, topic, alias)
      | _ => (0, [], [])
    else parseJoin rest

/-- `splitColumns`: split at commas outside parentheses; a trailing empty piece is dropped -/
def splitColumnsAux : Bytes → Nat → Bytes → List Bytes
  | [], _, cur => if cur.isEmpty then [] else [cur.reverse]
  | c :: t, depth, cur =>
    if c == 40 then splitColumnsAux t (depth + 1) (c :: cur)
    else if c == 41 then splitColumnsAux t (depth - 1) (c :: cur)
    else if c == 44 ∧ depth = 0 then cur.reverse :: splitColumnsAux t 0 []
    else splitColumnsAux t depth (c :: cur)

def splitColumns (s : Bytes) : List Bytes := splitColumnsAux s 0 []

/-- `parseSelectColumns`, up to the `Raw` text of each column -/
def parseSelectColumns (raw lower : Bytes) : GoResult (List Bytes) :=
  match keywordIndex lower "select", keywordIndex lower "from" with
  | some si, some fi =>
    if fi ≤ si then .err else
    match slice raw (si + 6) fi with
    | .ok rc =>
      let rawCols := trimSpace rc
      if rawCols.isEmpty then .ok [str "*"] else
      let cols := ((splitColumns rawCols).map trimSpace).filter (fun p => !p.isEmpty)
      if cols.isEmpty then .ok [str "*"] else .ok cols
    | .err => .err
    | .panic => .panic
  | _, _ => .err

/-- `indexOf(fields, "where")` then the loop of `parseFilters`; `fuel` bounds the `i += 2` jumps -/
def filtersLoop : Nat → List Bytes → Option Int → Option Int → Option Int →
    GoResult (Option Int × Option Int × Option Int)
  | 0, _, p, lo, hi => .ok (p, lo, hi)
  | _, [], p, lo, hi => .ok (p, lo, hi)
  | n + 1, f :: rest, p, lo, hi =>
    if [str "limit", str "last", str "tail", str "within", str "scan"].contains f then .ok (p, lo, hi)
    else if f == str "and" then filtersLoop n rest p lo hi
    else if f == str "_partition" then
      match rest with
      | eq :: v :: rest2 =>
        if eq != str "=" then .err else
        match parseIntDec v 32 with
        | some x => filtersLoop n rest2 (some x) lo hi
        | none => .err
      | _ => .err
    else if f == str "_offset" then
      match rest with
      | op :: v :: rest2 =>
        match parseIntDec v 64 with
        | none => .err
        | some x =>
          if op == str ">=" then filtersLoop n rest2 p (some x) hi
          else if op == str "<=" then filtersLoop n rest2 p lo (some x)
          else .err
      | _ => .err
    else .err

def dropThroughWhere : List Bytes → Option (List Bytes)
  | [] => none
  | f :: rest => if f == str "where" then some rest else dropThroughWhere rest

/-- `parseFilters` -/
def parseFilters (fs : List Bytes) : GoResult (Option Int × Option Int × Option Int) :=
  match dropThroughWhere fs with
  | none => .ok (none, none, none)
  | some rest => filtersLoop rest.length rest none none none

/-- `parseColumnRef` (its argument is already lower-cased by the callers) -/
def parseColumnRef (e : Bytes) : Bytes × Bytes :=
  let e := trimSpace e
  if e.isEmpty then ([], []) else
  match splitOn 46 e with
  | [a, b] => (trimSpace a, trimSpace b)
  | _ => ([], e)

/-- `[a-zA-Z0-9_\.]` -/
def isIdentB (b : UInt8) : Bool := isWordB b || b == 46

/-- the next byte must be `b` -/
def expectByte (b : UInt8) : Bytes → Option Bytes
  | c :: t => if c == b then some t else none
  | [] => none

/-- `\s*` -/
def skipWs (r : Bytes) : Bytes := r.dropWhile isReSpace

/-- `parseJSONFunc(expr, "json_value")`:
`(?i)^json_value\s*\(\s*([a-zA-Z0-9_\.]+)\s*,\s*'([^']+)'\s*\)$` on the trimmed expression
(every step of this pattern is deterministic), then the column of the reference must be
`_value`.  Returns (source, path). -/
def parseJSONValue (expr : Bytes) : Option (Bytes × Bytes) :=
  let e := trimSpace expr
  if !kwAt (str "json_value") e then none else
  match expectByte 40 (skipWs (e.drop 10)) with
  | none => none
  | some r1 =>
    let ident := (skipWs r1).takeWhile isIdentB
    if ident.isEmpty then none else
    match expectByte 44 (skipWs ((skipWs r1).drop ident.length)) with
    | none => none
    | some r2 =>
      match expectByte 39 (skipWs r2) with
      | none => none
      | some r3 =>
        let path := r3.takeWhile (fun b => b != 39)
        if path.isEmpty then none else
        match expectByte 39 (r3.drop path.length) with
        | none => none
        | some r4 =>
          if skipWs r4 == [41] then
            (if (parseColumnRef (asciiLower ident)).2 == str "_value"
             then some ((parseColumnRef (asciiLower ident)).1, path) else none)
          else none

/-- `resolveJoinSide` -/
def resolveJoinSide (source topic alias joinTopic joinAlias : Bytes) : Nat :=
  if source == [] ∨ source == alias ∨ source == topic then 0
  else if source == joinAlias ∨ source == joinTopic then 1
  else 0

/-- `parseJoinExpr` -/
def parseJoinExpr (raw topic alias joinTopic joinAlias : Bytes) : GoResult JoinExpr :=
  match parseJSONValue raw with
  | some (source, path) =>
    .ok ⟨1, source, resolveJoinSide source topic alias joinTopic joinAlias, path⟩
  | none =>
    let (source, column) := parseColumnRef (asciiLower raw)
    if column != str "_key" then .err
    else .ok ⟨0, source, resolveJoinSide source topic alias joinTopic joinAlias, []⟩

def joinStops : List String := ["within", "last", "tail", "limit", "where", "group by", "order by", "scan"]

/-- `parseJoinCondition` -/
def parseJoinCondition (raw lower topic alias joinTopic joinAlias : Bytes) :
    GoResult (Option (JoinExpr × JoinExpr)) :=
  match keywordIndex lower "join" with
  | none => .ok none
  | some joinIdx =>
    match sliceFrom lower joinIdx with
    | .panic => .panic
    | .err => .err
    | .ok tailLower =>
      match keywordIndex tailLower "on" with
      | none => .ok (some (⟨0, [], 0, []⟩, ⟨0, [], 1, []⟩))
      | some onRel =>
        let onIdx := onRel + joinIdx
        match sliceFrom raw (onIdx + 2), sliceFrom lower (onIdx + 2) with
        | .ok rest, .ok restLower =>
          let e := clauseEnd restLower joinStops
          match sliceTo rest e with
          | .ok ex =>
            let expr := trimSpace ex
            match splitOn 61 expr with
            | [l, r] =>
              match parseJoinExpr (trimSpace l) topic alias joinTopic joinAlias with
              | .ok le =>
                match parseJoinExpr (trimSpace r) topic alias joinTopic joinAlias with
                | .ok re => .ok (some (le, re))
                | .err => .err
                | .panic => .panic
              | .err => .err
              | .panic => .panic
            | _ => .err
          | .err => .err
          | .panic => .panic
        | .panic, _ => .panic
        | _, .panic => .panic
        | _, _ => .err

/-- `splitIdentifiers` -/
def splitIdentifiers (s : Bytes) : List Bytes :=
  ((splitOn 44 s).map (fun p => trimSpace (asciiLower p))).filter (fun p => !p.isEmpty)

def groupStops : List String := ["order by", "limit", "last", "tail", "within", "scan"]
def orderStops : List String := ["limit", "last", "tail", "within", "scan", "group by"]

/-- `parseGroupBy` -/
def parseGroupBy (raw lower : Bytes) : GoResult (List Bytes) :=
  match keywordIndex lower "group by" with
  | none => .ok []
  | some gi =>
    match sliceFrom raw (gi + 8), sliceFrom lower (gi + 8) with
    | .ok rest, .ok restLower =>
      match sliceTo rest (clauseEnd restLower groupStops) with
      | .ok l => .ok (splitIdentifiers (trimSpace l))
      | .err => .err
      | .panic => .panic
    | .panic, _ => .panic
    | _, .panic => .panic
    | _, _ => .err

/-- `parseOrderBy` -/
def parseOrderBy (raw lower : Bytes) : GoResult Bytes :=
  match keywordIndex lower "order by" with
  | none => .ok []
  | some oi =>
    match sliceFrom raw (oi + 8), sliceFrom lower (oi + 8) with
    | .ok rest, .ok restLower =>
      match sliceTo rest (clauseEnd restLower orderStops) with
      | .ok l => .ok ((fields (asciiLower (trimSpace l))).headD [])
      | .err => .err
      | .panic => .panic
    | .panic, _ => .panic
    | _, .panic => .panic
    | _, _ => .err

/-- `parseOrderDesc` (lower-cases `rest` itself, so its indices are self-consistent) -/
def parseOrderDesc (raw lower : Bytes) : GoResult Bool :=
  match keywordIndex lower "order by" with
  | none => .ok false
  | some oi =>
    match sliceFrom raw (oi + 8) with
    | .ok rest =>
      let restLower := asciiLower rest
      match sliceTo restLower (clauseEnd restLower orderStops) with
      | .ok l =>
        let fs := fields l
        .ok (fs.length ≥ 2 && fs[1]? == some (str "desc"))
      | .err => .err
      | .panic => .panic
    | .err => .err
    | .panic => .panic

/-- `parseSelect` (without `parseTSFilters`) -/
def parseSelect (raw lower : Bytes) (fs : List Bytes) : GoResult Sel :=
  match parseSelectColumns raw lower with
  | .panic => .panic
  | .err => .err
  | .ok cols =>
    match parseFromClause fs with
    | none => .err
    | some (topic, alias) =>
      let (joinType, joinTopic, joinAlias) := parseJoin fs
      if joinType ≠ 0 ∧ joinTopic.isEmpty then .err else
      let jc : GoResult (Option (JoinExpr × JoinExpr)) :=
        if !joinTopic.isEmpty then parseJoinCondition raw lower topic alias joinTopic joinAlias else .ok none
      match jc with
      | .panic => .panic
      | .err => .err
      | .ok joinOn =>
        match parseFilters fs with
        | .panic => .panic
        | .err => .err
        | .ok (partition, offMin, offMax) =>
          match parseGroupBy raw lower, parseOrderBy raw lower, parseOrderDesc raw lower with
          | .ok g, .ok ob, .ok od =>
            .ok { topic := topic, alias := alias, joinTopic := joinTopic, joinAlias := joinAlias,
                  joinType := joinType, joinOn := joinOn, cols := cols, groupBy := g, orderBy := ob,
                  orderDesc := od, limit := parseLimitToken lower, partition := partition,
                  offMin := offMin, offMax := offMax,
                  within := parseKeywordValue lower "within", last := parseKeywordValue lower "last",
                  tail := parseKeywordValue lower "tail",
                  scanFull := fs.contains (str "scan") && fs.contains (str "full") }
          | .panic, _, _ => .panic
          | _, .panic, _ => .panic
          | _, _, .panic => .panic
          | _, _, _ => .err

/-- `Parse` (and `parseExplain`, which calls it back); `fuel` bounds the nesting of `explain`
(each level strips at least the seven bytes of the keyword). -/
def parseFuel (L : Bytes → Bytes) : Nat → Bytes → GoResult Q
  | 0, _ => .err
  | n + 1, query =>
    let trimmed := trimSpace query
    if trimmed.isEmpty then .err else
    let trimmed := trimSemi trimmed
    let lower := L trimmed
    let fs := fields lower
    match fs with
    | [] => .err
    | f0 :: _ =>
      if f0 == str "show" then parseShow fs
      else if f0 == str "describe" then parseDescribe fs
      else if f0 == str "select" then
        match parseSelect trimmed lower fs with
        | .ok s => .ok (.select s)
        | .err => .err
        | .panic => .panic
      else if f0 == str "explain" then
        -- parseExplain(trimmed)
        let t := trimSpace trimmed
        if !hasPrefix (asciiLower t) (str "explain") then .err else
        match sliceFrom t 7 with
        | .panic => .panic
        | .err => .err
        | .ok innerRaw =>
          let inner := trimSpace innerRaw
          if inner.isEmpty then .err else
          match parseFuel L n inner with
          | .ok (.select s) => .ok (.explain s)
          | .ok _ => .err
          | .err => .err
          | .panic => .panic
      else .err

def parseWith (L : Bytes → Bytes) (query : Bytes) : GoResult Q := parseFuel L (query.length + 1) query

/-- the parser after the fix -/
def parse (query : Bytes) : GoResult Q := parseWith asciiLower query

/-! ### the lowering before the fix -/

/-- `strings.ToLower` on the runes that matter for the witness: ASCII letters, `Ⱥ` (U+023A,
`C8 BA`, lower-case `ⱥ` U+2C65 = `E2 B1 A5`: two bytes become three) and `İ` (U+0130, `C4 B0`,
lower-case `i`: two bytes become one).  Every other byte is kept. -/
def goLowerOld : Bytes → Bytes
  | 0xC8 :: 0xBA :: t => 0xE2 :: 0xB1 :: 0xA5 :: goLowerOld t
  | 0xC4 :: 0xB0 :: t => 0x69 :: goLowerOld t
  | c :: t => lowerB c :: goLowerOld t
  | [] => []

def parseOld (query : Bytes) : GoResult Q := parseWith goLowerOld query

end KafVerif.SqlParser
