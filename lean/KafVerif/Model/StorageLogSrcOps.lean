/-!
Row types of the lock / flush-protocol skeleton that `harness/C01/tools/extract` (go/ast) regenerates from
`pkg/storage/log.go`, `pkg/storage/buffer.go` and `cmd/broker/main.go` on every run of C01, C05 and C06
(`lean/KafVerif/Gen/C01LogOps.lean`).  Same shape as `Model/Group/CoordSrcOps.lean` (abstract lock state +
lock region per row) plus the dominating-condition list of `Model/SrcOps.lean`.

One `Row` = one fact of one function, in source order (`lit` = 0: the function body; k: the k-th function
literal written inside it — the two upload goroutines of `uploadFlush`, the singleflight callback and the
onFlush callback of `getPartitionLog`).

  * `lock` / `unlock` / `deferUnlock mu mode`   `l.mu.Lock()` … ; mode `w` (Lock) or `r` (RLock)
  * `wait cond loop loopCond`       `l.flushCond.Wait()`; `loop = "for"` when the call sits in the body of a `for`
                                    (else `"if"` / `"none"`), `loopCond` = the condition of that header
  * `notify cond method`            `l.flushCond.Broadcast()` / `Signal()`
  * `ext seam method args binds`    call on the S3 client (`seam = "s3"`) or the metadata store (`"store"`)
  * `sync what binds`               `g.Wait()` of the errgroup: both upload goroutines have returned
  * `check form cond`               `if` / `for` / `range` / `switch` header that reads a mutable field
  * `read local value`              a local defined from mutable state (`current := l.nextOffset - 1`) or from such a local
  * `write target value`            store to a field of the receiver
  * `reply target value`            `p.ErrorCode = v` / `p.BaseOffset = v` of the produce response
  * `call recv fn args binds async` call of one of the tracked protocol functions (and builtin `copy`)
  * `ret vals kinds unlocks`        return; `kinds` classifies each value (`copy` = make + copy(..); `alias` = the
                                    receiver's own slice / a sub-slice of it); `unlocks`: a deferred Unlock runs here
  * `jump kind`                     `continue` / `break`

`lk` is the abstract state of the receiver's OWN mutex (`l.mu`, `b.mu`, `h.logMu`) on the paths that reach the
row (`inherit`: a helper that has not touched the mutex yet — whatever its caller holds), `region` the number of
`Lock` calls executed so far on the path: two rows with `lk = held` and the same `region` have no `Unlock`
between them.  `guard` = the conditions that dominate the row (enclosing headers + negations of earlier
`if c { …; return }`).
-/
namespace KafVerif.LogOps

inductive Lk where
  | held | rheld | free | inherit
deriving DecidableEq, Repr

inductive Ev where
  | lock (mu mode : String)
  | unlock (mu mode : String)
  | deferUnlock (mu mode : String)
  | wait (cond loop loopCond : String)
  | notify (cond method : String)
  | ext (seam method : String) (args binds : List String)
  | sync (what : String) (binds : List String)
  | check (form cond : String)
  | read (loc value : String)
  | write (target value : String)
  | reply (target value : String)
  | call (recv fn : String) (args binds : List String) (async : Bool)
  | ret (vals kinds : List String) (unlocks : Bool)
  | jump (kind : String)
deriving DecidableEq, Repr

structure Row where
  fn : String
  fid : Nat          -- position of `fn` in the fixed list of extracted functions (see `Fn` below)
  lit : Nat
  entry : Bool
  lk : Lk
  region : Nat
  guard : List String
  ev : Ev
deriving DecidableEq, Repr

-- function ids (fixed by the extractor's configuration, not by source order)
namespace Fn
def restoreFromS3 : Nat := 1
def appendBatch : Nat := 2
def flush : Nat := 3
def prepareFlush : Nat := 4
def uploadFlush : Nat := 5
def read : Nat := 6
def bufAppend : Nat := 7
def bufDrain : Nat := 8
def bufRequeue : Nat := 9
def handleProduce : Nat := 10
def getPartitionLog : Nat := 11
def buildSegment : Nat := 12      -- pkg/storage/segment.go, plain function
def indexBuildBytes : Nat := 13   -- pkg/storage/index.go, IndexBuilder.BuildBytes
end Fn

/-- first index at which two tables differ (with the two rows found there) -/
def firstDiff : List Row → List Row → Nat → Option (Nat × Option Row × Option Row)
  | [], [], _ => none
  | a :: _, [], i => some (i, some a, none)
  | [], b :: _, i => some (i, none, some b)
  | a :: as, b :: bs, i => if a = b then firstDiff as bs (i + 1) else some (i, some a, some b)

theorem firstDiff_none_iff (xs ys : List Row) (i : Nat) : firstDiff xs ys i = none ↔ xs = ys := by
  induction xs generalizing ys i with
  | nil => cases ys <;> simp [firstDiff]
  | cons a as ih =>
    cases ys with
    | nil => simp [firstDiff]
    | cons b bs =>
      by_cases h : a = b
      · simp [firstDiff, h, ih]
      · simp [firstDiff, h]

def Lk.show : Lk → String
  | .held => "mutex held"
  | .rheld => "mutex read-held"
  | .free => "mutex NOT held"
  | .inherit => "lock of the caller"

private def lst (xs : List String) : String := ", ".intercalate xs

/-- human-readable one-liner for diagnostics -/
def Row.show (r : Row) : String :=
  let ev := match r.ev with
    | .lock mu m => mu ++ (if m == "r" then ".RLock()" else ".Lock()")
    | .unlock mu m => mu ++ (if m == "r" then ".RUnlock()" else ".Unlock()")
    | .deferUnlock mu m => "defer " ++ mu ++ (if m == "r" then ".RUnlock()" else ".Unlock()")
    | .wait c l lc => c ++ ".Wait()  inside `" ++ l ++ " " ++ lc ++ "`"
    | .notify c m => c ++ "." ++ m ++ "()"
    | .ext s m a b => (if b.isEmpty then "" else lst b ++ " := ") ++ s ++ "." ++ m ++ "(" ++ lst a ++ ")"
    | .sync w b => (if b.isEmpty then "" else lst b ++ " := ") ++ w ++ "()"
    | .check f c => f ++ " " ++ c
    | .read l v => l ++ " := " ++ v
    | .write t v => t ++ " = " ++ v
    | .reply t v => t ++ " = " ++ v
    | .call rc f a b as => (if as then "go " else "") ++ (if b.isEmpty then "" else lst b ++ " := ") ++
        (if rc == "" then "" else rc ++ ".") ++ f ++ "(" ++ lst a ++ ")"
    | .ret vals kinds u => "return " ++ lst vals ++ "  (" ++ lst kinds ++ ")" ++ (if u then "  [deferred Unlock]" else "")
    | .jump k => k
  r.fn ++ (if r.lit == 0 then "" else ".func" ++ toString r.lit) ++ ": " ++ ev ++ "   [" ++ r.lk.show ++ ", lock region " ++
    toString r.region ++ "; when " ++ "; ".intercalate r.guard ++ "]"

def showDiff (what : String) (extracted expected : List Row) : List String :=
  match firstDiff extracted expected 0 with
  | none => []
  | some (i, a, b) =>
    [what ++ ": row " ++ toString i ++ " differs",
     "  source now : " ++ (match a with | some r => r.show | none => "(no further row)"),
     "  model needs: " ++ (match b with | some r => r.show | none => "(no further row)")]

end KafVerif.LogOps
