import KafVerif.Model.ProtoHeader
/-!
Tables the broker/proxy advertise (`generateApiVersions`, `generateProxyApiVersions`), what the handler's
dispatch accepts (the `header.APIVersion` guards inside `handle*`, extracted with go/ast), and kmsg's own
per-key facts (max version, first flexible request/response version).  The concrete tables are REGENERATED
from the current source into `KafVerif/Gen/C11Tables.lean` on every run; this file holds the definitions and
the executable checks the obligations are stated with.
-/
namespace KafVerif.ApiTable

/-- one advertised row: (key, min, max); min = max = -1 means "known, not supported" -/
abbrev AdvRow := Int × Int × Int
/-- handler version guard: requests of `key` outside [lo, hi] make the handler return an error -/
abbrev GuardRow := Int × Int × Int
/-- kmsg: (key, max version, first flexible request version, first flexible response version) -/
abbrev KmsgRow := Int × Int × Int × Int

def Advertised (tbl : List AdvRow) (k v : Int) : Prop :=
  ∃ e ∈ tbl, e.1 = k ∧ 0 ≤ e.2.1 ∧ e.2.1 ≤ v ∧ v ≤ e.2.2

def HandlerAccepts (guards : List GuardRow) (k v : Int) : Prop :=
  ∀ g ∈ guards, g.1 = k → g.2.1 ≤ v ∧ v ≤ g.2.2

def KmsgKnows (kmsg : List KmsgRow) (k v : Int) : Prop :=
  ∃ r ∈ kmsg, r.1 = k ∧ v ≤ r.2.1

/-- executable check of one advertised row -/
def rowOk (served : List Int) (guards : List GuardRow) (kmsg : List KmsgRow) (e : AdvRow) : Bool :=
  decide (e.2.1 < 0) ||
    (served.contains e.1 &&
     guards.all (fun g => g.1 != e.1 || (decide (g.2.1 ≤ e.2.1) && decide (e.2.2 ≤ g.2.2))) &&
     kmsg.any (fun r => r.1 == e.1 && decide (e.2.2 ≤ r.2.1)))

def checkAdv (adv : List AdvRow) (served : List Int) (guards : List GuardRow) (kmsg : List KmsgRow) : Bool :=
  adv.all (rowOk served guards kmsg)

/-- executable check: every supported row of `a` lies inside a supported row of `b` with the same key -/
def checkSubset (a b : List AdvRow) : Bool :=
  a.all fun e => decide (e.2.1 < 0) ||
    b.any fun f => f.1 == e.1 && decide (0 ≤ f.2.1) && decide (f.2.1 ≤ e.2.1) && decide (e.2.2 ≤ f.2.2)

/-- first-flexible-version table → the `IsFlexible` predicate -/
def flexOf (tab : List (Int × Int)) (k v : Int) : Bool :=
  match tab.find? (fun e => e.1 == k) with
  | some e => decide (e.2 ≤ v)
  | none => false

def reqFlexTab (kmsg : List KmsgRow) : List (Int × Int) := kmsg.map fun r => (r.1, r.2.2.1)
def respFlexTab (kmsg : List KmsgRow) : List (Int × Int) := kmsg.map fun r => (r.1, r.2.2.2)

/-- the version the ApiVersions arm of `Handle` encodes its reply with (KIP-511 fallback) -/
def apiVersionsReplyVersion (v : Int) : Int := if v > 4 then 0 else v

/-- version a reply to (key, version) is encoded with: the request version, except the ApiVersions fallback -/
def replyVersion (k v : Int) : Int := if k = 18 then apiVersionsReplyVersion v else v

/-- the response header the broker writes in front of the body -/
def replyHeader (respFlex : Int → Int → Bool) (k v corr : Int) : Bytes :=
  ProtoHeader.responseHeader respFlex k (replyVersion k v) corr

/-! ### the reply stream of one connection (`broker.Server.handleConnection`)

Per frame: `ParseRequest`, `Handler.Handle`, then — `(payload, nil)`: write the payload; `(nil, nil)`: write NOTHING; `(nil, err)`: write
`buildErrorResponse(header)` (the empty response of that key at the request's version) and carry on.  A client matches replies to
requests by ORDER, so the stream of frames written must be: one frame per reply-expecting request, in request order, nothing else.
The one request that expects no reply is a Produce with `acks = 0`. -/

/-- what the connection loop sees of a request: key, version, correlation id, and `ProduceRequest.Acks` (only read for key 0) -/
structure Req where
  key : Int
  ver : Int
  corr : Int
  acks : Int
deriving Repr, DecidableEq

/-- `Handler.Handle`'s result, as the connection loop distinguishes it -/
inductive Outcome where
  | payload (body : Bytes)   -- `(EncodeResponse(corr, version, resp), nil)`: `body` = the encoded response after the header
  | nothing                  -- `(nil, nil)`
  | error                    -- `(nil, err)`
deriving Repr, DecidableEq

/-- A request expects a reply unless it is a fire-and-forget Produce (`acks = 0`). -/
def expectsReply (r : Req) : Bool := !(r.key == 0 && r.acks == 0)

/-- The tail of `handleProduce` — the CODE: `if req.Acks == 0 { return nil, nil }`, whatever happened to the partitions (`failed` =
number of rejected partitions); otherwise the encoded ProduceResponse (which carries the per-partition error codes). -/
def produceOutcome (acks : Int) (_failed : Nat) (body : Bytes) : Outcome :=
  if acks = 0 then .nothing else .payload body

/-- NOT the code: rejected partitions of an acks=0 produce reported as a handler error (kept as the witness of what
`C11.reply_stream` excludes). -/
def produceOutcomeErr (acks : Int) (failed : Nat) (body : Bytes) : Outcome :=
  if acks = 0 then (if failed > 0 then .error else .nothing) else .payload body

/-- `Handle` by outcome class: the Produce arm ends in `produceOutcome`; every other arm returns a payload or an error — never
`(nil, nil)` (source fact, regenerated: `Gen.C11.noReplyReturns`). `failed`, `body`, `fails` stand for everything else the handlers compute. -/
def handleOutcomeWith (produce : Int → Nat → Bytes → Outcome) (failed : Req → Nat) (body : Req → Bytes) (fails : Req → Bool) (r : Req) : Outcome :=
  if r.key = 0 then produce r.acks (failed r) (body r)
  else if fails r then .error else .payload (body r)

def handleOutcome := handleOutcomeWith produceOutcome

/-- the frame written for request `r` when a frame is written: reply header (correlation id of `r`, header rule at `r`'s reply
version) followed by the response body / by the empty error response -/
def replyFrame (respFlex : Int → Int → Bool) (errBody : Int → Int → Bytes) (r : Req) : Outcome → Bytes
  | .payload body => replyHeader respFlex r.key r.ver r.corr ++ body
  | _ => ProtoHeader.responseHeader respFlex r.key r.ver r.corr ++ errBody r.key r.ver

/-- frames `handleConnection` writes for ONE request, given `Handle`'s outcome -/
def framesFor (respFlex : Int → Int → Bool) (errBody : Int → Int → Bytes) (r : Req) (o : Outcome) : List Bytes :=
  match o with
  | .payload _ => [replyFrame respFlex errBody r o]
  | .nothing => []
  | .error => [replyFrame respFlex errBody r o]

/-- the frames written on a connection for the request sequence `reqs` -/
def serve (respFlex : Int → Int → Bool) (errBody : Int → Int → Bytes) (handle : Req → Outcome) (reqs : List Req) : List Bytes :=
  reqs.flatMap fun r => framesFor respFlex errBody r (handle r)

/-- correlation id a client reads from a reply frame -/
def frameCorr (f : Bytes) : Int := ProtoHeader.toInt32 (ProtoHeader.u32 (f.take 4))

end KafVerif.ApiTable
