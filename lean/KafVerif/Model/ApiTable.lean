import KafVerif.Model.ProtoHeader
/-!
Tables the broker/proxy advertise (`generateApiVersions`, `generateProxyApiVersions`), what the handler's
dispatch accepts (the `header.APIVersion` guards inside `handle*`, extracted with go/ast), and kmsg's own
per-key facts (max version, first flexible request/response version).  The concrete tables are REGENERATED
from the current source into `KafVerif/Gen/C11Tables.lean` on every run; this file holds the definitions and
the executable checks the obligations are stated with.
-/
namespace KafVerif.ApiTable

/-- one advertised row: (key, min, max); min = max = -1 means "known, not supported" -/
abbrev AdvRow := Int × Int × Int
/-- handler version guard: requests of `key` outside [lo, hi] make the handler return an error -/
abbrev GuardRow := Int × Int × Int
/-- kmsg: (key, max version, first flexible request version, first flexible response version) -/
abbrev KmsgRow := Int × Int × Int × Int

def Advertised (tbl : List AdvRow) (k v : Int) : Prop :=
  ∃ e ∈ tbl, e.1 = k ∧ 0 ≤ e.2.1 ∧ e.2.1 ≤ v ∧ v ≤ e.2.2

def HandlerAccepts (guards : List GuardRow) (k v : Int) : Prop :=
  ∀ g ∈ guards, g.1 = k → g.2.1 ≤ v ∧ v ≤ g.2.2

def KmsgKnows (kmsg : List KmsgRow) (k v : Int) : Prop :=
  ∃ r ∈ kmsg, r.1 = k ∧ v ≤ r.2.1

/-- executable check of one advertised row -/
def rowOk (served : List Int) (guards : List GuardRow) (kmsg : List KmsgRow) (e : AdvRow) : Bool :=
  decide (e.2.1 < 0) ||
    (served.contains e.1 &&
     guards.all (fun g => g.1 != e.1 || (decide (g.2.1 ≤ e.2.1) && decide (e.2.2 ≤ g.2.2))) &&
     kmsg.any (fun r => r.1 == e.1 && decide (e.2.2 ≤ r.2.1)))

def checkAdv (adv : List AdvRow) (served : List Int) (guards : List GuardRow) (kmsg : List KmsgRow) : Bool :=
  adv.all (rowOk served guards kmsg)

/-- executable check: every supported row of `a` lies inside a supported row of `b` with the same key -/
def checkSubset (a b : List AdvRow) : Bool :=
  a.all fun e => decide (e.2.1 < 0) ||
    b.any fun f => f.1 == e.1 && decide (0 ≤ f.2.1) && decide (f.2.1 ≤ e.2.1) && decide (e.2.2 ≤ f.2.2)

/-- first-flexible-version table → the `IsFlexible` predicate -/
def flexOf (tab : List (Int × Int)) (k v : Int) : Bool :=
  match tab.find? (fun e => e.1 == k) with
  | some e => decide (e.2 ≤ v)
  | none => false

def reqFlexTab (kmsg : List KmsgRow) : List (Int × Int) := kmsg.map fun r => (r.1, r.2.2.1)
def respFlexTab (kmsg : List KmsgRow) : List (Int × Int) := kmsg.map fun r => (r.1, r.2.2.2)

/-- the version the ApiVersions arm of `Handle` encodes its reply with (KIP-511 fallback) -/
def apiVersionsReplyVersion (v : Int) : Int := if v > 4 then 0 else v

/-- version a reply to (key, version) is encoded with: the request version, except the ApiVersions fallback -/
def replyVersion (k v : Int) : Int := if k = 18 then apiVersionsReplyVersion v else v

/-- the response header the broker writes in front of the body -/
def replyHeader (respFlex : Int → Int → Bool) (k v corr : Int) : Bytes :=
  ProtoHeader.responseHeader respFlex k (replyVersion k v) corr

end KafVerif.ApiTable
