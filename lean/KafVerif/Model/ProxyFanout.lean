import KafVerif.Prelude.Basic
/-!
Model of the produce / fetch fan-out of `cmd/proxy/main.go`:

* `Route.key`, `Route.invalidate`  — `router.LookupOwner` + `brokerIDToAddr` (the group key is the
  owner's ADDRESS; an unknown owner, an owner without a known address, or — fetch v13 — a topic id
  that cannot be resolved to a name gives the "" group, here `none`); `router.Invalidate`;
* `addToSub`, `addToGroups`, `groupBy` — `groupPartitionsByBroker` / `groupFetchPartitionsByBroker`
  (`groups[addr]`, `topicIndices[addr][topic]`, the `include` filter of a retry);
* `addPart`                         — `findOrAddTopicResponse` / `findOrAddFetchTopicResponse` + append;
* `addErrorAll`                     — `addErrorForAllPartitions` / `addFetchErrorForAllPartitions`;
* `mergeReply`, `processResult`     — the body of `for _, r := range subResults` in
  `forwardProduce` / `forwardFetch` (NOT_LEADER → failedPartitions + Invalidate, other codes →
  merged; transport / decode / connect error → REQUEST_TIMED_OUT for the whole sub-request and no
  retry for produce; for fetch a retry, except on the last attempt);
* `attempts`, `fillIn`, `forward`   — the `for attempt := 0; attempt < maxRetries` loop, the early
  return, the re-grouping, the `break`, and the final NOT_LEADER fill-in.

Topics are abstract keys (`Nat`): the topic name for produce and fetch ≤ v12, `fetchTopicKey`
(name, or "id:<uuid>" when unresolved) for fetch v13.  The backends are a parameter:
`oracle attempt groupKey subRequest : Outcome`.  Go iterates `groups` (a map) in random order; the
model takes the order as a parameter `ord` (any permutation per attempt).  A ghost log records
every sub-request with its outcome.  Core Lean only.
-/
namespace KafVerif.ProxyFanout

def NOT_LEADER : Int := 6
def REQUEST_TIMED_OUT : Int := 7

/-- One partition entry of a backend reply or of the merged reply.  `mark` is the base offset
(produce) / high watermark (fetch); the harness makes it identify the backend reply it came from. -/
structure PartResp where
  part : Nat
  code : Int
  mark : Int
deriving Repr, DecidableEq, Inhabited

/-- Topics in order, each with its partitions in order (a request or a sub-request). -/
abbrev SubReq := List (Nat × List Nat)
/-- Topics in order, each with its partition entries in order (a reply). -/
abbrev Reply := List (Nat × List PartResp)

def tpsOf (r : SubReq) : List (Nat × Nat) := r.flatMap fun e => e.2.map fun p => (e.1, p)
def flat (r : Reply) : List (Nat × PartResp) := r.flatMap fun e => e.2.map fun p => (e.1, p)
def entryTp (x : Nat × PartResp) : Nat × Nat := (x.1, x.2.part)
def replyTps (r : Reply) : List (Nat × Nat) := (flat r).map entryTp

inductive Outcome where
  | connectErr                 -- no backend could be reached: nothing was sent
  | transportErr               -- sent (possibly), but no decodable reply came back
  | reply (r : Reply)          -- a decodable reply
deriving Repr, DecidableEq, Inhabited

/-! ### routing -/

structure Route where
  owners : List ((Nat × Nat) × Nat)   -- router.routes: (topic, partition) ↦ broker id
  known : List Nat                    -- broker ids whose address the proxy knows
  unres : List Nat                    -- fetch topics whose id has no name (never looked up)
deriving Repr, DecidableEq, Inhabited

def Route.key (rt : Route) (t p : Nat) : Option Nat :=
  if rt.unres.contains t then none
  else match rt.owners.lookup (t, p) with
    | some b => if rt.known.contains b then some b else none
    | none => none

def Route.invalidate (rt : Route) (t p : Nat) : Route :=
  if rt.unres.contains t then rt
  else { rt with owners := rt.owners.filter fun e => e.1 != (t, p) }

/-! ### grouping -/

def addToSub : SubReq → Nat → Nat → SubReq
  | [], t, p => [(t, [p])]
  | (t', ps) :: rest, t, p =>
    if t' = t then (t', ps ++ [p]) :: rest else (t', ps) :: addToSub rest t p

def addToGroups : List (Option Nat × SubReq) → Option Nat → Nat → Nat → List (Option Nat × SubReq)
  | [], k, t, p => [(k, [(t, [p])])]
  | (k', s) :: rest, k, t, p =>
    if k' = k then (k', addToSub s t p) :: rest else (k', s) :: addToGroups rest k t p

def included (inc : Option (List (Nat × Nat))) (tp : Nat × Nat) : Bool :=
  match inc with
  | none => true
  | some l => l.contains tp

/-- `groupPartitionsByBroker(ctx, req, include)`. -/
def groupBy (rt : Route) (req : SubReq) (inc : Option (List (Nat × Nat))) : List (Option Nat × SubReq) :=
  (tpsOf req).foldl (fun g tp => if included inc tp then addToGroups g (rt.key tp.1 tp.2) tp.1 tp.2 else g) []

def groupTps (g : List (Option Nat × SubReq)) : List (Nat × Nat) := g.flatMap fun e => tpsOf e.2

/-! ### merging -/

/-- `tr := findOrAddTopicResponse(merged, topic); tr.Partitions = append(tr.Partitions, part)`. -/
def addPart : Reply → Nat → PartResp → Reply
  | [], t, p => [(t, [p])]
  | (t', ps) :: rest, t, p =>
    if t' = t then (t', ps ++ [p]) :: rest else (t', ps) :: addPart rest t p

/-- `BaseOffset: -1` in a synthesized produce entry; a synthesized fetch entry is a plain
struct literal (high watermark 0). -/
def synthMark (fetch : Bool) : Int := if fetch then 0 else -1

def addErrorAll (fetch : Bool) (m : Reply) (s : SubReq) (code : Int) : Reply :=
  (tpsOf s).foldl (fun m tp => addPart m tp.1 { part := tp.2, code := code, mark := synthMark fetch }) m

/-- `failedPartitions[topic][partition] = true` on a duplicate-free list. -/
def insertFailed (f : List (Nat × Nat)) (tp : Nat × Nat) : List (Nat × Nat) :=
  if f.contains tp then f else f ++ [tp]

structure St where
  merged : Reply
  failed : List (Nat × Nat)
  route : Route
deriving Repr, Inhabited

def mergeEntry (st : St) (x : Nat × PartResp) : St :=
  if x.2.code = NOT_LEADER then
    { st with failed := insertFailed st.failed (entryTp x), route := st.route.invalidate x.1 x.2.part }
  else { st with merged := addPart st.merged x.1 x.2 }

def mergeReply (st : St) (r : Reply) : St := (flat r).foldl mergeEntry st

/-- One iteration of `for _, r := range subResults`. -/
def processResult (fetch last : Bool) (st : St) (sub : SubReq) (o : Outcome) : St :=
  match o with
  | .reply r => mergeReply st r
  | _ =>
    if fetch && !last then { st with failed := (tpsOf sub).foldl insertFailed st.failed }
    else { st with merged := addErrorAll fetch st.merged sub REQUEST_TIMED_OUT }

/-- The loop after the retries: `for _, topic := range fullReq.Topics … if failedParts[part.Partition]`. -/
def fillIn (fetch : Bool) (m : Reply) (full : SubReq) (failed : List (Nat × Nat)) : Reply :=
  (tpsOf full).foldl (fun m tp =>
    if failed.contains tp then addPart m tp.1 { part := tp.2, code := NOT_LEADER, mark := synthMark fetch } else m) m

/-! ### the retry loop -/

structure LogEntry where
  attempt : Nat
  key : Option Nat
  sub : SubReq
  out : Outcome
deriving Repr, DecidableEq, Inhabited

def LogEntry.sent (e : LogEntry) : Bool := e.out != .connectErr

structure Result where
  reply : Reply
  route : Route
  log : List LogEntry
deriving Repr, Inhabited

abbrev Oracle := Nat → Option Nat → SubReq → Outcome
abbrev Order := Nat → List (Option Nat × SubReq) → List (Option Nat × SubReq)

def runGroup (oracle : Oracle) (k : Nat) (g : Option Nat × SubReq) : LogEntry :=
  { attempt := k, key := g.1, sub := g.2, out := oracle k g.1 g.2 }

/-- `fanOutProduce` / `fanOutFetch`: one outcome per group, in Go's iteration order. -/
def attemptResults (oracle : Oracle) (ord : Order) (k : Nat) (groups : List (Option Nat × SubReq)) : List LogEntry :=
  (ord k groups).map (runGroup oracle k)

/-- `failedPartitions = nil; for _, r := range subResults { … }`. -/
def attemptState (fetch last : Bool) (results : List LogEntry) (merged : Reply) (route : Route) : St :=
  results.foldl (fun st e => processResult fetch last st e.sub e.out)
    { merged := merged, failed := [], route := route }

/-- `n` = attempts still allowed, `k` = index of the attempt about to run. -/
def attempts (fetch : Bool) (oracle : Oracle) (ord : Order) (full : SubReq) :
    Nat → Nat → List (Option Nat × SubReq) → Reply → Route → List LogEntry → Result
  | 0, _, _, merged, route, log => { reply := merged, route := route, log := log }
  | n + 1, k, groups, merged, route, log =>
    let results := attemptResults oracle ord k groups
    let st := attemptState fetch (n == 0) results merged route
    let log' := log ++ results
    if st.failed.isEmpty then { reply := st.merged, route := st.route, log := log' }
    else
      let groups' := groupBy st.route full (some st.failed)
      if groups'.isEmpty || n == 0 then
        { reply := fillIn fetch st.merged full st.failed, route := st.route, log := log' }
      else attempts fetch oracle ord full n (k + 1) groups' st.merged st.route log'

/-- `forwardProduce` (`fetch = false`) / `forwardFetch` (`fetch = true`) started on
`groupPartitionsByBroker(ctx, req, nil)`, `maxRetries = 3`. -/
def forward (fetch : Bool) (oracle : Oracle) (ord : Order) (rt : Route) (req : SubReq) : Result :=
  attempts fetch oracle ord req 3 0 (groupBy rt req none) [] rt []

/-- `fireAndForgetProduce` (acks=0): the request is grouped once, every group is written to one
backend, no reply is read and nothing is retried.  The ghost log is the list of groups. -/
def fireAndForget (rt : Route) (req : SubReq) : List (Option Nat × SubReq) := groupBy rt req none

end KafVerif.ProxyFanout
