import KafVerif.Prelude.Basic
/-!
Model of the SHARED METADATA SNAPSHOT protocol (C21): several brokers (`EtcdStore`) and the
operator (`PublishMetadataSnapshot`) read-modify-write one etcd key
`/kafscale/metadata/snapshot`.

Mirrored code (after the "fix:" commits):
* `pkg/metadata/etcd_store.go`: `updateSnapshot` = under `persistMu`: `refreshSnapshotLocked`
  (local := etcd, remember mod revision) → mutate the local `InMemoryStore`
  (`CreateTopic` / `CreatePartitions` / `DeleteTopic`) → `persistSnapshotLocked(rev)` = txn
  `If ModRevision(key) = rev Then Put(local)`; on conflict retry (≤ 5 attempts);
  `watchSnapshot` → `refreshSnapshot` (takes `persistMu`, so it never runs inside an update).
* `pkg/operator/snapshot.go`: `PublishMetadataSnapshot` = Get → `mergeSnapshots(next, existing)` →
  txn on mod revision, ≤ 5 attempts (each retry merges the already merged snapshot again);
  `mergeSnapshots`: the resource definition wins per topic name but never shrinks the partition
  list; topics only in etcd are appended.
Granularity: one step = one etcd operation (Get+local mutation under the broker's own lock, or one
txn).  A failed txn and the following Get of the retry are merged into one step (a failed txn has
no effect, so it commutes to the right of every other step).

A snapshot is the ordered list of (topic id, partition count); topic ids are abstract (`Nat`),
the harness maps them to legal names.  Snapshots are assumed to carry distinct names (created
topics are checked against the list, CRD names are unique).

Transient etcd errors are steps too (`getFail`, `beginFail`, `commitFail`): a call whose `Get`,
mutation closure (`DeleteTopic`'s offset cleanup) or txn errors returns that error at once and leaves
the mutation in the local copy; nothing is acknowledged.  The NEXT `updateSnapshot` on that broker
re-reads the key before it mutates (`beginB` starts from `s.etcd`), which is what makes the dirty
copy harmless; `stepFast` is the variant whose refresh has a "revision already loaded" fast path.

`…Old` = the code before the fixes: no refresh, unconditional `Put` of the local copy; merge takes
the resource's partition count.
-/
namespace KafVerif.Snapshot

/-- ordered (topic, partition count) list -/
abbrev Snap := List (Nat × Nat)

def parts (s : Snap) (t : Nat) : Option Nat := (s.find? fun e => e.1 == t).map (·.2)

def has (s : Snap) (t : Nat) : Bool := (parts s t).isSome

def setParts (s : Snap) (t n : Nat) : Snap := s.map fun e => if e.1 == t then (e.1, n) else e

inductive TOp where
  | create (t : Nat) (n : Int)
  | grow (t : Nat) (n : Int)
  | delete (t : Nat)
deriving Repr, DecidableEq

inductive Res where
  | ok | exists_ | invalid | unknown | conflict | pending
  /-- an etcd operation of the call failed (transient etcd error): the caller gets an error, no acknowledgement -/
  | err
deriving Repr, DecidableEq

/-- The mutation closures of `EtcdStore.CreateTopic / CreatePartitions / DeleteTopic` on the local
snapshot (names are legal, replication factor 1, at least one broker registered). -/
def applyL (s : Snap) : TOp → Snap × Res
  | .create t n =>
    if n ≤ 0 then (s, .invalid) else if has s t then (s, .exists_) else (s ++ [(t, n.toNat)], .ok)
  | .grow t n =>
    match parts s t with
    | none => (s, .unknown)
    | some cur => if n ≤ (cur : Int) then (s, .invalid) else (setParts s t n.toNat, .ok)
  | .delete t => if has s t then (s.filter fun e => e.1 != t, .ok) else (s, .unknown)

/-- `mergeSnapshots` after the fix. -/
def merge (next e : Snap) : Snap :=
  (next.map fun x => (x.1, max x.2 ((parts e x.1).getD 0))) ++ e.filter fun x => !has next x.1

/-- `mergeSnapshots` before the fix: the resource's partition list wins. -/
def mergeOld (next e : Snap) : Snap := next ++ e.filter fun x => !has next x.1

def mergeOpt (mg : Snap → Snap → Snap) (next : Snap) : Option Snap → Snap
  | none => next
  | some e => mg next e

structure Broker where
  loc : Snap
  /-- inside `updateSnapshot`, between the mutation and the txn: (revision read, operation, attempt) -/
  pend : Option (Nat × TOp × Nat)

structure State where
  etcd : Option Snap
  /-- mod revision of the snapshot key; 0 = never written -/
  rev : Nat
  brokers : Nat → Broker
  /-- operator between Get and txn: (revision read, payload, attempt) -/
  opPend : Option (Nat × Snap × Nat)
  /-- ghost: acknowledged (topic, partition count) pairs whose topic has not been explicitly
  deleted since the acknowledgement -/
  acked : List (Nat × Nat)
  /-- every value the snapshot key ever held, oldest first: what the watch stream carries; a
  notification is identified by its index here -/
  hist : List Snap

def init (locals : Nat → Snap) : State :=
  { etcd := none, rev := 0, brokers := fun b => { loc := locals b, pend := none }, opPend := none, acked := [], hist := [] }

def upd (f : Nat → Broker) (b : Nat) (x : Broker) : Nat → Broker := fun i => if i = b then x else f i

inductive Step where
  | begin (b : Nat) (op : TOp)
  | commit (b : Nat)
  | watch (b : Nat)
  /-- the watch stream hands broker `b` the (possibly long outdated) notification of the `r`-th
  snapshot write -/
  | deliver (b : Nat) (r : Nat)
  | opGet (crd : Snap)
  | opTxn
  /-- the refresh `Get` of a call's first attempt fails: the call returns the error, nothing changes -/
  | getFail (b : Nat)
  /-- refresh + mutate, but the mutation closure fails AFTER it changed the local copy
  (`DeleteTopic`: `s.metadata.DeleteTopic` done, then the etcd `Delete` of the offset keys errors):
  no write is attempted, the call returns the error, the local copy stays mutated ("dirty") -/
  | beginFail (b : Nat) (op : TOp)
  /-- the pending txn fails with an etcd error (or, after a conflict, the `Get` of the next attempt
  does).  `applied = false`: the request never took effect; `applied = true`: etcd executed the txn
  but the answer was lost.  Either way the call returns the error (no acknowledgement, no retry) and
  the local copy keeps the mutation -/
  | commitFail (b : Nat) (applied : Bool)
deriving Repr

def maxAttempts : Nat := 5

def ackUpd (acked : List (Nat × Nat)) : TOp → List (Nat × Nat)
  | .create t n => (t, n.toNat) :: acked
  | .grow t n => (t, n.toNat) :: acked
  | .delete t => acked.filter fun e => e.1 != t

/-- refresh + mutate (first half of one `updateSnapshot` attempt). -/
def beginB (s : State) (b : Nat) (op : TOp) (att : Nat) : State × Res :=
  let l0 := s.etcd.getD (s.brokers b).loc
  let r := applyL l0 op
  if r.2 = .ok then ({ s with brokers := upd s.brokers b { loc := r.1, pend := some (s.rev, op, att) } }, .pending)
  else ({ s with brokers := upd s.brokers b { loc := l0, pend := none } }, r.2)

/-- refresh + mutate, then the closure fails (see `Step.beginFail`): when the local mutation is
refused (`exists`/`unknown`/`invalid`) no etcd operation is reached and the call answers as usual. -/
def beginFailB (s : State) (b : Nat) (op : TOp) : State × Res :=
  let l0 := s.etcd.getD (s.brokers b).loc
  let r := applyL l0 op
  if r.2 = .ok then ({ s with brokers := upd s.brokers b { loc := r.1, pend := none } }, .err)
  else ({ s with brokers := upd s.brokers b { loc := l0, pend := none } }, r.2)

/-- what a write whose answer was lost does to the ghost: nothing was acknowledged, but an applied
`DeleteTopic` IS an explicit deletion -/
def ackLost (acked : List (Nat × Nat)) : TOp → List (Nat × Nat)
  | .delete t => acked.filter fun e => e.1 != t
  | _ => acked

/-- the txn of a pending update errors (see `Step.commitFail`). -/
def commitFailB (s : State) (b : Nat) (applied : Bool) : State × Res :=
  match (s.brokers b).pend with
  | none => (s, .pending)
  | some (r, op, _) =>
    if applied = true ∧ r = s.rev then
      ({ s with etcd := some (s.brokers b).loc, rev := s.rev + 1,
                brokers := upd s.brokers b { loc := (s.brokers b).loc, pend := none },
                acked := ackLost s.acked op, hist := s.hist ++ [(s.brokers b).loc] }, .err)
    else ({ s with brokers := upd s.brokers b { loc := (s.brokers b).loc, pend := none } }, .err)

/-- the txn (second half); on conflict the next attempt's refresh + mutate follow at once. -/
def commitB (s : State) (b : Nat) : State × Res :=
  match (s.brokers b).pend with
  | none => (s, .pending)
  | some (r, op, att) =>
    if r = s.rev then
      ({ s with etcd := some (s.brokers b).loc, rev := s.rev + 1,
                brokers := upd s.brokers b { loc := (s.brokers b).loc, pend := none },
                acked := ackUpd s.acked op, hist := s.hist ++ [(s.brokers b).loc] }, .ok)
    else if att + 1 < maxAttempts then beginB s b op (att + 1)
    else ({ s with brokers := upd s.brokers b { loc := (s.brokers b).loc, pend := none } }, .conflict)

def step (mg : Snap → Snap → Snap) (s : State) : Step → State × Res
  | .begin b op => if (s.brokers b).pend.isSome then (s, .pending) else beginB s b op 0
  | .commit b => commitB s b
  | .watch b =>
    if (s.brokers b).pend.isSome then (s, .pending)
    else ({ s with brokers := upd s.brokers b { loc := s.etcd.getD (s.brokers b).loc, pend := none } }, .pending)
  | .deliver b _ =>
    -- `watchSnapshot` ignores what the notification carries: it calls `refreshSnapshot`, which takes
    -- `persistMu` (so it waits while `b` is inside `updateSnapshot`; the harness re-delivers then)
    -- and re-reads the key
    if (s.brokers b).pend.isSome then (s, .pending)
    else ({ s with brokers := upd s.brokers b { loc := s.etcd.getD (s.brokers b).loc, pend := none } }, .pending)
  | .opGet crd =>
    if s.opPend.isSome then (s, .pending) else ({ s with opPend := some (s.rev, mergeOpt mg crd s.etcd, 0) }, .pending)
  | .opTxn =>
    match s.opPend with
    | none => (s, .pending)
    | some (r, payload, att) =>
      if r = s.rev then ({ s with etcd := some payload, rev := s.rev + 1, opPend := none, hist := s.hist ++ [payload] }, .ok)
      else if att + 1 < maxAttempts then
        ({ s with opPend := some (s.rev, mergeOpt mg payload s.etcd, att + 1) }, .pending)
      else ({ s with opPend := none }, .conflict)
  | .getFail b => if (s.brokers b).pend.isSome then (s, .pending) else (s, .err)
  | .beginFail b op => if (s.brokers b).pend.isSome then (s, .pending) else beginFailB s b op
  | .commitFail b applied => commitFailB s b applied

def run (mg : Snap → Snap → Snap) (s : State) (steps : List Step) : State :=
  steps.foldl (fun s st => (step mg s st).1) s

/-! ### the code before the fixes -/

/-- `CreateTopic` etc. before the fix: mutate the local copy (no refresh), then `Put` it
unconditionally.  Two steps, so that a watch refresh or another broker can come between. -/
def beginOld (s : State) (b : Nat) (op : TOp) : State × Res :=
  let r := applyL (s.brokers b).loc op
  if r.2 = .ok then ({ s with brokers := upd s.brokers b { loc := r.1, pend := some (s.rev, op, 0) } }, .pending)
  else (s, r.2)

def commitOld (s : State) (b : Nat) : State × Res :=
  match (s.brokers b).pend with
  | none => (s, .pending)
  | some (_, op, _) =>
    ({ s with etcd := some (s.brokers b).loc, rev := s.rev + 1,
              brokers := upd s.brokers b { loc := (s.brokers b).loc, pend := none },
              acked := ackUpd s.acked op, hist := s.hist ++ [(s.brokers b).loc] }, .ok)

/-- Before the fix `CreatePartitions` mutated the local store WITHOUT holding `persistMu`, so the
watch refresh could run between mutation and put (`watchOld` ignores `pend`). -/
def stepOld (mg : Snap → Snap → Snap) (s : State) : Step → State × Res
  | .begin b op => if (s.brokers b).pend.isSome then (s, .pending) else beginOld s b op
  | .commit b => commitOld s b
  | .watch b =>
    ({ s with brokers := upd s.brokers b { loc := s.etcd.getD (s.brokers b).loc, pend := (s.brokers b).pend } }, .pending)
  | st => step mg s st

def runOld (mg : Snap → Snap → Snap) (s : State) (steps : List Step) : State :=
  steps.foldl (fun s st => (stepOld mg s st).1) s

/-! ### a watcher that trusts the notification (seeded variant, NOT the code) -/

/-- `watchSnapshot` rewritten to apply the snapshot carried by the watch event with
`s.metadata.Update` directly — no `persistMu`, no re-read.  A notification may be arbitrarily old
and may arrive while the broker is between `updateSnapshot`'s read and its write-back. -/
def stepSeeded (mg : Snap → Snap → Snap) (s : State) : Step → State × Res
  | .deliver b r =>
    match s.hist[r]? with
    | some old => ({ s with brokers := upd s.brokers b { loc := old, pend := (s.brokers b).pend } }, .pending)
    | none => (s, .pending)
  | st => step mg s st

def runSeeded (mg : Snap → Snap → Snap) (s : State) (steps : List Step) : State :=
  steps.foldl (fun s st => (stepSeeded mg s st).1) s

/-! ### a refresh with a "this revision is already loaded" fast path (seeded variant, NOT the code) -/

/-- the model state plus, per broker, the mod revision whose snapshot was last decoded into the
local copy (`loadedRev`; 0 = none yet) -/
structure FState where
  s : State
  loaded : Nat → Nat

/-- `refreshSnapshotLocked` that skips decoding when etcd still holds the revision it loaded last:
the local copy it leaves (and the new `loadedRev` table).  A local copy that a FAILED call left
mutated is not discarded as long as nobody else writes the key. -/
def refreshFast (f : FState) (b : Nat) : Snap × (Nat → Nat) :=
  match f.s.etcd with
  | none => ((f.s.brokers b).loc, f.loaded)
  | some e =>
    if f.s.rev = f.loaded b then ((f.s.brokers b).loc, f.loaded)
    else (e, fun i => if i = b then f.s.rev else f.loaded i)

def beginFast (f : FState) (b : Nat) (op : TOp) (att : Nat) (failMut : Bool) : FState × Res :=
  let rf := refreshFast f b
  let r := applyL rf.1 op
  if r.2 = .ok then
    if failMut then
      ({ s := { f.s with brokers := upd f.s.brokers b { loc := r.1, pend := none } }, loaded := rf.2 }, .err)
    else
      ({ s := { f.s with brokers := upd f.s.brokers b { loc := r.1, pend := some (f.s.rev, op, att) } }, loaded := rf.2 }, .pending)
  else ({ s := { f.s with brokers := upd f.s.brokers b { loc := rf.1, pend := none } }, loaded := rf.2 }, r.2)

def stepFast (mg : Snap → Snap → Snap) (f : FState) : Step → FState × Res
  | .begin b op => if (f.s.brokers b).pend.isSome then (f, .pending) else beginFast f b op 0 false
  | .beginFail b op => if (f.s.brokers b).pend.isSome then (f, .pending) else beginFast f b op 0 true
  | .commit b =>
    match (f.s.brokers b).pend with
    | none => (f, .pending)
    | some (r, op, att) =>
      if r = f.s.rev then ({ f with s := (commitB f.s b).1 }, .ok)
      else if att + 1 < maxAttempts then beginFast f b op (att + 1) false
      else ({ f with s := (commitB f.s b).1 }, .conflict)
  | .watch b =>
    if (f.s.brokers b).pend.isSome then (f, .pending)
    else ({ s := { f.s with brokers := upd f.s.brokers b { loc := (refreshFast f b).1, pend := none } },
            loaded := (refreshFast f b).2 }, .pending)
  | .deliver b _ =>
    if (f.s.brokers b).pend.isSome then (f, .pending)
    else ({ s := { f.s with brokers := upd f.s.brokers b { loc := (refreshFast f b).1, pend := none } },
            loaded := (refreshFast f b).2 }, .pending)
  | st => ({ f with s := (step mg f.s st).1 }, (step mg f.s st).2)

def runFastF (mg : Snap → Snap → Snap) (s : State) (steps : List Step) : FState :=
  steps.foldl (fun f st => (stepFast mg f st).1) ({ s := s, loaded := fun _ => 0 } : FState)

def runFast (mg : Snap → Snap → Snap) (s : State) (steps : List Step) : State := (runFastF mg s steps).s

/-! ### the property -/

def covered (l : Snap) (t n : Nat) : Prop := ∃ m, parts l t = some m ∧ n ≤ m

def coveredB (l : Snap) (t n : Nat) : Bool := match parts l t with | some m => decide (n ≤ m) | none => false

/-- Every acknowledged, not explicitly deleted (topic, count) is in the etcd snapshot with at
least that many partitions. -/
def Inv (s : State) : Prop := ∀ e ∈ s.acked, ∃ snap, s.etcd = some snap ∧ covered snap e.1 e.2

def invB (s : State) : Bool := s.acked.all fun e => match s.etcd with | some snap => coveredB snap e.1 e.2 | none => false

end KafVerif.Snapshot
