import KafVerif.Model.Acl
import KafVerif.Model.AclGate
/-!
Session model for C24: ONE `handler` (cmd/broker/main.go) serving a sequence of requests from several principals.

`State` carries the fields of `handler` that an `h.allow*` call or the denial bookkeeping behind it touches at HEAD:

* `authorizer`   `h.authorizer` — built once by `acl.NewAuthorizer(cfg)` in `newHandler`, read by
                 `allowTopic`/`allowGroup`/`allowCluster` (`h.authorizer.Allows(principal, action, resource, name)`),
                 never assigned afterwards;
* `authLogLast`  `h.authLogLast map[string]time.Time` — rate limiter of the "authorization denied" log line, keyed by
                 `fmt.Sprintf("%s|%s|%s|%s", action, resource, principal, name)` (an AMBIGUOUS key: principal `alice`
                 + name `orders-x|secret` and principal `alice|orders-x` + name `secret` give the same string);
                 written by `logAuthzDenied`, read only by `logAuthzDenied`;
* `deniedTotal`, `byKey`   `h.authMetrics` — denial counters (`RecordDenied`), read only by the metrics endpoint;
* `now`          `time.Now()` as a virtual clock (seconds) advanced by each request's `dt`.

`step : State → Request → State × Decision` is one `h.allow*` call followed by the denial bookkeeping of the arm
(`recordAuthzDeniedWithPrincipal`).  HEAD keeps NO authorisation decision between requests; `stepMemo` is the
variant that memoises decisions under the joined key (what a "cache the ACL scan" edit does), kept only for the
witness theorem `KafVerif.C24.memoised_decisions_violate`.

`GReq`/`stepG` put the gate of `AclGate` behind the session: the `allowed` bit of every item is the decision `step`
returns for (principal, action, resource, item name) in the CURRENT handler state, the store is threaded through the
session.
-/
namespace KafVerif.AclSession
open KafVerif KafVerif.Acl KafVerif.AclGate

abbrev Decision := Bool

structure State where
  authorizer : Authorizer
  now : Nat
  authLogLast : List (List Char × Nat)
  deniedTotal : Nat
  byKey : List (List Char × Nat)

structure Request where
  req : Acl.Req
  dt : Nat := 0     -- seconds since the previous request

def mapGet (m : List (List Char × Nat)) (k : List Char) : Option Nat := (m.find? (·.1 == k)).map (·.2)
def mapSet (m : List (List Char × Nat)) (k : List Char) (v : Nat) : List (List Char × Nat) :=
  (k, v) :: m.filter (fun e => !(e.1 == k))

/-- `fmt.Sprintf("%s|%s|%s|%s", action, resource, principal, name)` -/
def joinKey (r : Acl.Req) : List Char :=
  r.action ++ ['|'] ++ r.resource ++ ['|'] ++ r.principal ++ ['|'] ++ r.name

/-- `authMetrics.RecordDenied` -/
def recordDenied (st : State) (r : Acl.Req) : State :=
  let key := r.action ++ ['|'] ++ r.resource
  { st with deniedTotal := st.deniedTotal + 1, byKey := mapSet st.byKey key ((mapGet st.byKey key).getD 0 + 1) }

/-- `logAuthzDenied`: at most one log line per key and minute; the map is reset when it has grown past 10000 keys -/
def logAuthzDenied (st : State) (r : Acl.Req) : State :=
  let key := joinKey r
  let m := if st.authLogLast.length > 10000 then [] else st.authLogLast
  match mapGet m key with
  | some last => if st.now - last < 60 then { st with authLogLast := m } else { st with authLogLast := mapSet m key st.now }
  | none => { st with authLogLast := mapSet m key st.now }

/-- one `h.allow*` call and the bookkeeping of a denial.  The decision is `h.authorizer.Allows(...)`. -/
def step (st : State) (r : Request) : State × Decision :=
  let st1 := { st with now := st.now + r.dt }
  let d := allowsWith matchesRule st1.authorizer r.req
  if d then (st1, true) else (logAuthzDenied (recordDenied st1 r.req) r.req, false)

/-- `newHandler`: `authorizer = acl.NewAuthorizer(cfg)`, empty log map, zero counters -/
def init (cfg : Config) : State :=
  { authorizer := newAuthorizer cfg, now := 0, authLogLast := [], deniedTotal := 0, byKey := [] }

/-- handler state after a history of requests -/
def run (st : State) (hist : List Request) : State := hist.foldl (fun s r => (step s r).1) st

/-- the decisions a session gets, in order -/
def decisions : State → List Request → List Decision
  | _, [] => []
  | st, r :: rest => (step st r).2 :: decisions (step st r).1 rest

/-! ### the memoising variant (NOT the code at HEAD) -/

structure StateM where
  base : State
  memo : List (List Char × Bool)     -- decision cache keyed by `joinKey`

def stepMemo (s : StateM) (r : Request) : StateM × Decision :=
  let key := joinKey r.req
  match s.memo.find? (·.1 == key) with
  | some e => (s, e.2)
  | none =>
    let d := allowsWith matchesRule s.base.authorizer r.req
    ({ s with memo := (key, d) :: s.memo }, d)

def runMemo (s : StateM) (hist : List Request) : StateM := hist.foldl (fun s r => (stepMemo s r).1) s

/-! ### the gate behind the session -/

/-- one gated request: the permission its arm asks for, the gate's granularity, the named items
(`id` in the abstract store, name as given to the authorizer), the effect of an allowed item -/
structure GReq where
  principal : List Char
  action : List Char
  resource : List Char
  gran : Gran
  names : List (Nat × List Char)
  eff : Nat → Nat
  dt : Nat := 0

/-- ask the handler about every item, threading the handler state -/
def authItems (p a r : List Char) : State → List (Nat × List Char) → State × List Item
  | st, [] => (st, [])
  | st, x :: rest =>
    let o := step st { req := ⟨p, a, r, x.2⟩ }
    let o2 := authItems p a r o.1 rest
    (o2.1, ⟨x.1, o.2⟩ :: o2.2)

def stepG (s : State × Store) (g : GReq) : (State × Store) × List Out :=
  let a := authItems g.principal g.action g.resource { s.1 with now := s.1.now + g.dt } g.names
  let h := handle g.gran g.eff s.2 a.2
  ((a.1, h.1), h.2)

def runG (s : State × Store) (hist : List GReq) : State × Store := hist.foldl (fun s g => (stepG s g).1) s

end KafVerif.AclSession
