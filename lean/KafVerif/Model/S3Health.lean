import KafVerif.Prelude.Basic
/-!
Model of `pkg/broker/s3_health.go` (`S3HealthMonitor`) and of the S3-health gate in
`handleProduce` / `handleFetch` / `backpressureErrorCode` of cmd/broker/main.go.

Time is an explicit `now : Int` (milliseconds).  Durations are `Int` milliseconds.  The error-rate
thresholds are rationals `num/den` (`den > 0`): Go compares `float64(k)/float64(n) >= threshold`; for
`n ≤ 512` and a threshold that is the correctly rounded double of `p/q`, `q ≤ 10^6`, the float comparison
equals the rational one (`|k/n − p/q| ≥ 1/(512·q)` unless equal; rounding is monotone), so the model
compares `k * den ≥ num * n`.
-/
namespace KafVerif.S3Health

structure Cfg where
  window : Int
  latWarn : Int
  latCrit : Int
  errWarnNum : Nat
  errWarnDen : Nat
  errCritNum : Nat
  errCritDen : Nat
  maxSamples : Int
deriving Repr, DecidableEq

structure Sample where
  ts : Int
  lat : Int
  err : Bool
deriving Repr, DecidableEq

inductive HState where
  | healthy | degraded | unavailable
deriving Repr, DecidableEq

def HState.rank : HState → Nat
  | .healthy => 0
  | .degraded => 1
  | .unavailable => 2

def HState.name : HState → String
  | .healthy => "healthy"
  | .degraded => "degraded"
  | .unavailable => "unavailable"

/-- `NewS3HealthMonitor` defaults (non-positive → default). -/
def normCfg (c : Cfg) : Cfg :=
  { window := if c.window ≤ 0 then 60000 else c.window,
    latWarn := if c.latWarn ≤ 0 then 500 else c.latWarn,
    latCrit := if c.latCrit ≤ 0 then 3000 else c.latCrit,
    errWarnNum := if c.errWarnNum = 0 then 1 else c.errWarnNum,
    errWarnDen := if c.errWarnNum = 0 then 5 else c.errWarnDen,
    errCritNum := if c.errCritNum = 0 then 3 else c.errCritNum,
    errCritDen := if c.errCritNum = 0 then 5 else c.errCritDen,
    maxSamples := if c.maxSamples ≤ 0 then 512 else c.maxSamples }

structure Mon where
  cfg : Cfg
  samples : List Sample
deriving Repr

def new (c : Cfg) : Mon := { cfg := normCfg c, samples := [] }

/-- `truncateLocked(now)`: drop the leading samples with `!ts.After(now - window)`. -/
def truncate (window : Int) (now : Int) (l : List Sample) : List Sample :=
  l.dropWhile fun s => decide (s.ts ≤ now - window)

def total (l : List Sample) : Int := (l.map (·.lat)).sum
def errors (l : List Sample) : Nat := (l.filter (·.err)).length

/-- the decision at the end of `recomputeLocked`, as a function of `(avg, k, n)` -/
def rate (c : Cfg) (avg : Int) (k n : Nat) : HState :=
  if avg ≥ c.latCrit ∨ k * c.errCritDen ≥ c.errCritNum * n then .unavailable
  else if avg ≥ c.latWarn ∨ k * c.errWarnDen ≥ c.errWarnNum * n then .degraded
  else .healthy

/-- Go's `totalLatency / time.Duration(len)` truncates toward zero. -/
def avgOf (l : List Sample) : Int := Int.tdiv (total l) l.length

/-- `recomputeLocked`: empty ⇒ healthy. -/
def recompute (c : Cfg) (l : List Sample) : HState :=
  if l.isEmpty then .healthy else rate c (avgOf l) (errors l) l.length

/-- `RecordOperation` at time `now`. -/
def record (m : Mon) (now lat : Int) (err : Bool) : Mon :=
  let s := m.samples ++ [{ ts := now, lat := lat, err := err }]
  let s := if (s.length : Int) > m.cfg.maxSamples then s.drop (s.length - m.cfg.maxSamples.toNat) else s
  { m with samples := truncate m.cfg.window now s }

/-- `State()` at time `now`: truncate, recompute. -/
def observe (m : Mon) (now : Int) : Mon × HState :=
  let s := truncate m.cfg.window now m.samples
  ({ m with samples := s }, recompute m.cfg s)

/-! ### the gate in the handlers -/

/-- `backpressureErrorCode`. -/
def backpressureCode : HState → Int
  | .degraded => 7        -- REQUEST_TIMED_OUT
  | .unavailable => -1    -- UNKNOWN_SERVER_ERROR
  | .healthy => -1

/-- one produce partition: `(error code, was AppendBatch reached)`; `appendCode` stands for whatever the
healthy path answers. -/
def produceGate (st : HState) (appendCode : Int) : Int × Bool :=
  if st ≠ .healthy then (backpressureCode st, false) else (appendCode, true)

/-- one fetch partition: `(error code, record bytes returned)`. -/
def fetchGate (st : HState) (readCode : Int) (records : Bytes) : Int × Bytes :=
  match st with
  | .degraded | .unavailable => (backpressureCode st, [])
  | .healthy => (readCode, records)

/-! ### a multi-partition produce: the gate is evaluated per partition against the CURRENT rating -/

/-- result for one partition: error code, whether the batch entered the log (`AppendBatch` reached) -/
structure PartOut where
  code : Int
  appended : Bool
  sawState : HState     -- ghost: the rating the gate of THIS partition read
deriving Repr, DecidableEq

/-- `handleProduce`'s loop over partitions.  `rating hist` = what `h.s3Health.State()` returns after the S3 operation
outcomes `hist` (true = failed) recorded so far; `fails` = whether this partition's flush/upload fails (it is recorded by
`recordS3Op` before the next partition is looked at).  The rating is re-read for every partition. -/
def produceLoop (rating : List Bool → HState) : List Bool → List Bool → List PartOut
  | _, [] => []
  | hist, fails :: rest =>
    if rating hist = .healthy then
      { code := if fails then backpressureCode (rating (hist ++ [fails])) else 0, appended := true, sawState := rating hist }
        :: produceLoop rating (hist ++ [fails]) rest
    else
      { code := backpressureCode (rating hist), appended := false, sawState := rating hist } :: produceLoop rating hist rest

/-- a variant that reads the rating ONCE per request (what a "hoisted" `State()` call does) -/
def produceLoopOnce (rating : List Bool → HState) (hist : List Bool) (parts : List Bool) : List PartOut :=
  let st := rating hist
  let rec go : List Bool → List Bool → List PartOut
    | _, [] => []
    | h, fails :: rest =>
      if st = .healthy then
        { code := if fails then backpressureCode (rating (h ++ [fails])) else 0, appended := true, sawState := rating h }
          :: go (h ++ [fails]) rest
      else
        { code := backpressureCode st, appended := false, sawState := rating h } :: go h rest
  go hist parts

/-- Kafka's retriable flag for the two codes the gate uses (REQUEST_TIMED_OUT = 7 retriable,
UNKNOWN_SERVER_ERROR = −1 not retriable — kerr / the Java client's error table). -/
def retriable (code : Int) : Bool := code == 7

end KafVerif.S3Health
