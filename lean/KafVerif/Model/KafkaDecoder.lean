import KafVerif.Model.KafkaSegment
/-!
Model `Decoder`: the segment decoders of the add-on processors
(`addons/processors/{iceberg,sql}-processor/internal/decoder/decoder.go`:
`decodeSegment`, `decodeRecordBatches`, `decodeBatchRecords`; records via
`KafkaRecord.decodeRecord`) and the placeholder decoder of the skeleton processor.

The Go loops index into one slice with a moving `offset`; the model consumes the unread suffix
(`rem = data[offset:]`).  Slice expressions keep their Go panic semantics (`goSlice`).
-/
namespace KafVerif.Kafka

/-- `decodeBatchRecords(batch, …)` -/
def decodeBatchRecords (mk : Alloc) (c : Cfg) (batch : Bytes) : GoResult (List DRec) :=
  if batch.length < 61 then .err
  else do
    let at_ ← goSlice batch 21 23
    if toS16 (beDec at_) % 8 ≠ 0 then .err            -- compressionType(attributes) != 0
    else do
      let bo ← goSlice batch 0 8
      let ft ← goSlice batch 27 35
      let rc ← goSlice batch 57 61
      let recordCount := toS32 (beDec rc)
      if recordCount ≤ 0 then .ok []
      else do
        let recordsData ← goSlice batch 61 batch.length
        if c.guard && countExceeds c recordCount recordsData.length then .err
        else do
          mk recordCount recSize
          decodeRecords mk c (toS64 (beDec bo)) (toS64 (beDec ft)) recordCount.toNat recordsData

/-- `decodeRecordBatches(data, …)`; `fuel` ≥ number of frames (data.length suffices) -/
def decodeBatches (mk : Alloc) (c : Cfg) : Nat → Bytes → GoResult (List DRec)
  | 0, _ => .ok []
  | fuel + 1, rem =>
    if rem.length < 12 then .ok []                     -- loop condition offset+12 <= len(data)
    else do
      let lb ← goSlice rem 8 12
      let batchLen := beDec lb
      if batchLen = 0 then .ok []                      -- batchLen <= 0 → break
      else
        let frameLen := 12 + batchLen
        if frameLen > rem.length then .ok []           -- offset+frameLen > len(data) → break
        else do
          let batch ← goSlice rem 0 frameLen
          let rs ← decodeBatchRecords mk c batch
          let more ← decodeBatches mk c fuel (rem.drop frameLen)
          .ok (rs ++ more)

/-- `decodeSegment(segment, topic, partition)` -/
def decodeSegment (mk : Alloc) (c : Cfg) (seg : Bytes) : GoResult (List DRec) :=
  if seg.length < 32 + 16 then .err
  else do
    let magic ← goSlice seg 0 4
    if magic ≠ segMagic then .err
    else do
      let body ← goSlice seg 32 (seg.length - 16 : Nat)
      decodeBatches mk c (body.length + 1) body

/-- skeleton processor `noopDecoder.Decode`: returns `nil, nil` for every segment -/
def decodeSkeleton (_seg : Bytes) : GoResult (List DRec) := .ok []

end KafVerif.Kafka
