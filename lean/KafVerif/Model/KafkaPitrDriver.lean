import KafVerif.Model.KafkaDriver
/-!
Driver additions of C08: a `restore` op whose time token is `<ns>ns` carries the restore time in
nanoseconds since the epoch (the harness passes `time.Unix(0, ns)`); the model converts it as the code
does (`GoTime.ofNanos`, `GoTime.unixMilli`) and runs `recoverTopicAt`.  Everything else is `kafkaStep`.
Nothing here is part of a theorem.
-/
namespace KafVerif.Kafka

/-- `restore <ns>ns …` ⇒ `restore <restoreTo.UnixMilli()> …`; `doRestore … ms …` runs `recoverTopic … ms`, which is
`recoverTopicAt … (GoTime.ofNanos ns)` by definition -/
def pitrStep (d : DriverCfg) (ws : List String) : String :=
  match ws with
  | "restore" :: r :: rest =>
    if r.endsWith "ns" then
      match (r.dropEnd 2).toString.toInt? with
      | some ns => kafkaStep d ("restore" :: toString (GoTime.ofNanos ns).unixMilli :: rest)
      | none => "bad-op"
    else kafkaStep d ws
  | _ => kafkaStep d ws

end KafVerif.Kafka
