import KafVerif.Model.KafkaBytes
/-!
Shared byte-format model, part 2: Kafka varints (zig-zag + LEB128), the encoder every Kafka
client uses, and the three hand-written Go decoders in the repository:

* `readVarint64`   — iceberg decoder `readVarint` and `pkg/storage/recovery_exact.go readVarint`
                     (uint64 accumulator, `shift > 63` → error);
* `readVarint32Sql`— sql decoder `readVarint` (int32 accumulator, `shift > 28` → error,
                     zig-zag undone with an *arithmetic* shift);
* the sql decoder's `readVarlong` added by fix C07 is `readVarint64` again.

Masks are read arithmetically: `b & 0x7f` = `b % 128`, `b & 0x80 == 0` = `b < 128`,
`x << s` on a w-bit integer = `x * 2^s % 2^w`; `|=` is `|||`.
-/
namespace KafVerif.Kafka

/-- zig-zag: `(v << 1) ^ (v >> 63)` -/
def zig (v : Int) : Nat := if 0 ≤ v then (2 * v).toNat else (-2 * v - 1).toNat

/-- inverse of zig-zag on an unsigned value, as both 64-bit Go decoders compute it
(`decodeZigZag` in the iceberg decoder; the xor form in recovery_exact.go) -/
def unzig (u : Nat) : Int := if u % 2 = 0 then (u / 2 : Nat) else -((u / 2 : Nat) + 1)

theorem unzig_zig (v : Int) : unzig (zig v) = v := by
  unfold unzig zig; split <;> split <;> omega

theorem zig_lt_of_in64 {v : Int} (h : InI64 v) : zig v < 2 ^ 64 := by
  unfold InI64 at h; unfold zig; split <;> omega

theorem zig_lt_of_in32 {v : Int} (h : InI32 v) : zig v < 2 ^ 32 := by
  unfold InI32 at h; unfold zig; split <;> omega

theorem unzig_in64 {u : Nat} (h : u < 2 ^ 64) : InI64 (unzig u) := by
  unfold InI64 unzig; split <;> omega

/-- LEB128, least significant group first; `fuel` groups at most (10 cover 70 bits). -/
def uvarintF : Nat → Nat → Bytes
  | 0, _ => []
  | f + 1, n => if n < 128 then [UInt8.ofNat n] else UInt8.ofNat (n % 128 + 128) :: uvarintF f (n / 128)

def uvarint (n : Nat) : Bytes := uvarintF 10 n

/-- Kafka `varint` / `varlong` of a signed value (same bytes; only the range differs). -/
def varint (v : Int) : Bytes := uvarint (zig v)

/-! ### the Go readers -/

/-- the `for { … }` loop shared by the repository's hand-written varint readers, for an
accumulator of `W` bits and the loop's own bound `shift > lim → error`.
`none` = returned error (EOF or "varint overflow"/"varint too long"). -/
def readUvarintW (W lim : Nat) : Nat → Nat → Bytes → Option (Nat × Bytes)
  | _, _, [] => none
  | shift, value, b :: rest =>
    let value' := value ||| ((b.toNat % 128) * 2 ^ shift % 2 ^ W)
    if b.toNat < 128 then some (value', rest)
    else if shift + 7 > lim then none
    else readUvarintW W lim (shift + 7) value' rest

/-- iceberg `readVarint`, PITR `readVarint`, fixed sql `readVarlong`: uint64, `shift > 63` -/
def readUvarint64 := readUvarintW 64 63

def readVarint64 (r : Bytes) : Option (Int × Bytes) :=
  (readUvarint64 0 0 r).map fun (u, rest) => (unzig u, rest)

/-- sql `readVarint`: int32 accumulator (kept as its 32-bit pattern), `shift > 28` -/
def readUvarint32 := readUvarintW 32 28

/-- sql `zigZagDecode(value int32) = (value >> 1) ^ -(value & 1)` — `>>` is arithmetic -/
def unzig32Sql (s : Int) : Int := if s % 2 = 0 then s / 2 else -(s / 2) - 1

def readVarint32Sql (r : Bytes) : Option (Int × Bytes) :=
  (readUvarint32 0 0 r).map fun (p, rest) => (unzig32Sql (toS32 p), rest)

/-! ### lengths -/

theorem readUvarintW_rest_lt {W lim shift value : Nat} {r : Bytes} {u : Nat} {rest : Bytes}
    (h : readUvarintW W lim shift value r = some (u, rest)) : rest.length < r.length := by
  induction r generalizing shift value with
  | nil => simp [readUvarintW] at h
  | cons b t ih =>
    simp only [readUvarintW] at h
    split at h
    · simp only [Option.some.injEq, Prod.mk.injEq] at h; simp [← h.2]
    · split at h
      · simp at h
      · have := ih h; simp; omega

theorem readVarint64_rest_lt {r : Bytes} {v : Int} {rest : Bytes}
    (h : readVarint64 r = some (v, rest)) : rest.length < r.length := by
  unfold readVarint64 at h
  cases hh : readUvarint64 0 0 r with
  | none => simp [hh] at h
  | some p =>
    obtain ⟨u, rr⟩ := p
    simp only [hh, Option.map_some, Option.some.injEq, Prod.mk.injEq] at h
    have := readUvarintW_rest_lt hh
    rw [← h.2]; exact this

theorem readVarint32Sql_rest_lt {r : Bytes} {v : Int} {rest : Bytes}
    (h : readVarint32Sql r = some (v, rest)) : rest.length < r.length := by
  unfold readVarint32Sql at h
  cases hh : readUvarint32 0 0 r with
  | none => simp [hh] at h
  | some p =>
    obtain ⟨u, rr⟩ := p
    simp only [hh, Option.map_some, Option.some.injEq, Prod.mk.injEq] at h
    have := readUvarintW_rest_lt hh
    rw [← h.2]; exact this

/-! ### round trips -/

theorem or_eq_add_of_lt {a x s : Nat} (h : a < 2 ^ s) : a ||| (x * 2 ^ s) = a + x * 2 ^ s := by
  have := Nat.shiftLeft_add_eq_or_of_lt h x
  rw [Nat.shiftLeft_eq] at this
  rw [Nat.or_comm, ← this, Nat.add_comm]

theorem ofNat_toNat_lt {n : Nat} (h : n < 256) : (UInt8.ofNat n).toNat = n := by
  rw [UInt8.toNat_ofNat']; exact Nat.mod_eq_of_lt (by simpa using h)

theorem two_pow_add7 (s : Nat) : 2 ^ (s + 7) = 128 * 2 ^ s := by
  rw [Nat.pow_add]; have : (2:Nat) ^ 7 = 128 := by decide
  rw [this, Nat.mul_comm]

theorem split_group (n s : Nat) : n * 2 ^ s = n % 128 * 2 ^ s + n / 128 * 2 ^ (s + 7) := by
  rw [two_pow_add7]
  have hdiv : n = 128 * (n / 128) + n % 128 := (Nat.div_add_mod n 128).symm
  calc n * 2 ^ s = (128 * (n / 128) + n % 128) * 2 ^ s := by rw [← hdiv]
    _ = n % 128 * 2 ^ s + n / 128 * (128 * 2 ^ s) := by
      rw [Nat.add_mul, Nat.add_comm, Nat.mul_comm 128 (n / 128), Nat.mul_assoc]

/-- Reading the encoding of `n` (in `fuel+1` groups at most) at bit position `shift` adds
`n * 2^shift` to the accumulator, provided nothing is shifted out of the `W`-bit accumulator
and the loop bound `lim` admits the last group. -/
theorem readUvarintW_uvarintF (W lim : Nat) (fuel : Nat) : ∀ (shift acc n : Nat) (rest : Bytes),
    acc < 2 ^ shift → n * 2 ^ shift < 2 ^ W → n < 128 ^ (fuel + 1) → shift + 7 * fuel ≤ lim →
    readUvarintW W lim shift acc (uvarintF (fuel + 1) n ++ rest) = some (acc + n * 2 ^ shift, rest) := by
  induction fuel with
  | zero =>
    intro shift acc n rest h1 h2 h3 _
    have hn : n < 128 := by simpa using h3
    simp only [uvarintF, hn, if_true, List.cons_append, List.nil_append, readUvarintW]
    rw [ofNat_toNat_lt (by omega), Nat.mod_eq_of_lt hn, Nat.mod_eq_of_lt h2, or_eq_add_of_lt h1]
    simp [hn]
  | succ f ih =>
    intro shift acc n rest h1 h2 h3 h4
    rw [uvarintF]
    by_cases hn : n < 128
    · simp only [hn, if_true, List.cons_append, List.nil_append, readUvarintW]
      rw [ofNat_toNat_lt (by omega), Nat.mod_eq_of_lt hn, Nat.mod_eq_of_lt h2, or_eq_add_of_lt h1]
      simp [hn]
    · simp only [hn, if_false, List.cons_append, readUvarintW]
      have hb : (UInt8.ofNat (n % 128 + 128)).toNat = n % 128 + 128 := ofNat_toNat_lt (by omega)
      have hmod : (n % 128 + 128) % 128 = n % 128 := by omega
      have hle : n % 128 * 2 ^ shift ≤ n * 2 ^ shift := Nat.mul_le_mul_right _ (Nat.mod_le _ _)
      have hlt : n % 128 * 2 ^ shift % 2 ^ W = n % 128 * 2 ^ shift := Nat.mod_eq_of_lt (by omega)
      have hnot : ¬ (n % 128 + 128 < 128) := by omega
      have hs' : ¬ (shift + 7 > lim) := by omega
      rw [hb, hmod, hlt, or_eq_add_of_lt h1]
      simp only [hnot, if_false, hs']
      have hsplit := split_group n shift
      have hacc : acc + n % 128 * 2 ^ shift < 2 ^ (shift + 7) := by
        rw [two_pow_add7]
        have : n % 128 * 2 ^ shift ≤ 127 * 2 ^ shift := Nat.mul_le_mul_right _ (by omega)
        omega
      have hfit : n / 128 * 2 ^ (shift + 7) < 2 ^ W := by omega
      have hfuel : n / 128 < 128 ^ (f + 1) := by
        rw [Nat.pow_succ] at h3
        exact Nat.div_lt_of_lt_mul (by rw [Nat.mul_comm]; exact h3)
      rw [ih (shift + 7) _ (n / 128) rest hacc hfit hfuel (by omega), hsplit, Nat.add_assoc]

theorem readUvarint64_uvarint {n : Nat} (h : n < 2 ^ 64) (rest : Bytes) :
    readUvarint64 0 0 (uvarint n ++ rest) = some (n, rest) := by
  have := readUvarintW_uvarintF 64 63 9 0 0 n rest (by decide) (by simpa using h)
    (by have : (2:Nat) ^ 64 ≤ 128 ^ 10 := by decide
        omega) (by decide)
  simpa [uvarint, readUvarint64] using this

/-- **Varint round trip, 64-bit readers** (iceberg decoder, PITR scanner, fixed sql `readVarlong`):
every int64 survives encode → decode, whatever follows in the stream. -/
theorem readVarint64_varint {v : Int} (h : InI64 v) (rest : Bytes) :
    readVarint64 (varint v ++ rest) = some (v, rest) := by
  unfold readVarint64 varint
  rw [readUvarint64_uvarint (zig_lt_of_in64 h)]
  simp [unzig_zig]

theorem uvarintF_fuel_irrel (f : Nat) : ∀ (g n : Nat), n < 128 ^ (f + 1) → f + 1 ≤ g →
    uvarintF g n = uvarintF (f + 1) n := by
  induction f with
  | zero =>
    intro g n h hg
    have hn : n < 128 := by simpa using h
    cases g with
    | zero => omega
    | succ g => simp [uvarintF, hn]
  | succ f ih =>
    intro g n h hg
    cases g with
    | zero => omega
    | succ g =>
      rw [uvarintF, uvarintF]
      split
      · rfl
      · have hfuel : n / 128 < 128 ^ (f + 1) := by
          rw [Nat.pow_succ] at h
          exact Nat.div_lt_of_lt_mul (by rw [Nat.mul_comm]; exact h)
        rw [ih g (n / 128) hfuel (by omega)]

/-- **Varint round trip, sql 32-bit reader**: exact for values with |v| < 2^30 (zig-zag below
2^31, so bit 31 of the accumulator stays clear); outside that range it is NOT exact — see
`KafVerif.C07.sql_varint32_loses_timestamp`. -/
theorem readVarint32Sql_varint {v : Int} (h : -(2:Int) ^ 30 ≤ v ∧ v < 2 ^ 30) (rest : Bytes) :
    readVarint32Sql (varint v ++ rest) = some (v, rest) := by
  have hz : zig v < 2 ^ 31 := by unfold zig; split <;> omega
  have h5 : uvarint (zig v) = uvarintF 5 (zig v) :=
    uvarintF_fuel_irrel 4 10 (zig v) (by have : (2:Nat) ^ 31 ≤ 128 ^ 5 := by decide
                                         omega) (by decide)
  have := readUvarintW_uvarintF 32 28 4 0 0 (zig v) rest (by decide) (by simp; omega)
    (by have : (2:Nat) ^ 31 ≤ 128 ^ 5 := by decide
        omega) (by decide)
  unfold readVarint32Sql varint readUvarint32
  rw [h5, this]
  simp only [Nat.zero_add, Nat.pow_zero, Nat.mul_one, Option.map_some, Option.some.injEq, Prod.mk.injEq, and_true]
  have hs : toS32 (zig v) = (zig v : Nat) := by unfold toS32; split <;> omega
  rw [hs]
  unfold unzig32Sql zig
  split <;> split <;> omega

end KafVerif.Kafka
