import KafVerif.Model.StorageLogSrcOps
import KafVerif.Model.StorageLog
/-!
C01 / C05 / C06, static tie: the lock / flush-protocol skeleton of `pkg/storage/log.go`, `pkg/storage/buffer.go`
and the produce path of `cmd/broker/main.go` that the model (`Model/StorageLog.lean`) was written against, and the
predicates over such a skeleton that the model's reading of the code rests on.

The model runs one `l.mu` critical section / one external call / one condition-variable wake-up as ONE atomic
step.  That is faithful only while, in the source,

  * every `flushCond.Wait()` sits in a `for l.flushing` loop, in the critical section that then calls
    `prepareFlush` (a woken waiter re-checks the flag: event `wake` = `flushEnter` again)        (`flushWaitIsLoop`);
  * every write of nextOffset / flushing / flushingBatches / segments / indexEntries and every mutation of the
    buffer (`Append`, `Drain`, `Requeue`) happens with `l.mu` held, the buffer's own fields under `b.mu`,
    the registry under `h.logMu`                                                                 (`stateWritesLocked`);
  * the upload-failure path puts the drained batches back (`Requeue(l.flushingBatches)`) in the SAME critical
    section that clears `flushing`, before `flushingBatches` is cleared                  (`failureRequeuesUnderLock`);
  * the value an empty `Flush` publishes is read in the critical section of `prepareFlush`
                                                                                  (`emptyFlushTargetInPrepareRegion`);
  * `Drain` returns a copy, and that copy is what is kept as `flushingBatches`                  (`drainReturnsCopy`);
  * nil reaches the producer only after both PUTs returned nil: upload both objects → `g.Wait` → commit →
    return nil → (Flush) return nil → (handleProduce) error code 0                         (`ackAfterBothUploads`);
  * `onFlush` (→ `UpdateOffsets`) runs after the commit of the segment list                (`onflushAfterCommit`);
  * `AppendBatch` takes the base offset, advances `nextOffset` and appends to the buffer in ONE critical section
    (buffer order = offset order), and the commit of a flushed segment (segment list, `flushing`, `flushingBatches`,
    Broadcast) is ONE critical section                                  (`appendIsOneRegion`, `commitIsOneRegion`);
  * no return leaves with the mutex held                                                          (`lockBalanced`);
  * `prepareFlush` calls `BuildSegment` AFTER `Drain`: every exit of `prepareFlush` behind the `Drain` call either
    drained nothing, or installed the drained batches as `flushingBatches`, or re-queued them — or is the exit taken
    on `BuildSegment`'s own error, which is harmless only while `BuildSegment` cannot fail on batches `AppendBatch`
    accepted: its error returns are exactly "no batches", "empty payload" and the errors of its two writes into a
    `bytes.Buffer`, and `IndexBuilder.BuildBytes` fails only when a write into its `bytes.Buffer` does
    (`C01.build_total_on_accepted`)                          (`buildErrorsKnown`, `prepareExitsInstallOrRequeue`);
  * `getPartitionLog` re-checks the registry INSIDE the singleflight callback before it opens a log, and registers
    (under the write lock) only a log that went through `RestoreFromS3`, unconditionally, with its error returned
    — the ONE volatile `Mem` per incarnation of the model, built by `scan`   (`registryRecheckInFlight`, `restoreBeforeRegister`).

`expected` below is the skeleton of the code the model mirrors, one section per function, each naming the model
definition it stands for.  The command lists after the sections are what the rows of each critical section
COMPILE to (`compile`, checked by `KafVerif.C01.expected_compiles`); `Props/C01Ops.lean` proves that the skeleton
regenerated from the CURRENT source equals `expected`, that the predicates hold on it, and that running the
compiled commands IS the corresponding case of `StorageLog.step`, for every state.
-/
namespace KafVerif.LogOps
open KafVerif.StorageLog

-- BEGIN SECTIONS (written by harness/C01/tools/mkspec.py from the extractor output; review the diff before keeping it)
/-- `RestoreFromS3` ↦ model `scan` (second loop: a segment with its index is registered, an index-less one is skipped iff base >= nextOffset) and the `restore` event's `next := max hw (segEnd l)` — the three writes are ONE critical section -/
def sec_RestoreFromS3 : List Row := [
  ⟨"RestoreFromS3", 1, 0, true, .free, 0, ["err != nil"],
     .ret ["-1", "err"] ["other", "call"] false⟩,
  ⟨"RestoreFromS3", 1, 0, true, .free, 0, ["!(err != nil)"],
     .ext "s3" "ListSegments" ["prefix"] ["objects", "err"]⟩,
  ⟨"RestoreFromS3", 1, 0, true, .free, 0, ["!(err != nil)", "err != nil"],
     .ret ["-1", "err"] ["other", "call"] false⟩,
  ⟨"RestoreFromS3", 1, 0, true, .free, 0, ["!(err != nil)", "!(err != nil)", "range objects", "!strings.HasSuffix(obj.Key, \".kfs\")"],
     .jump "continue"⟩,
  ⟨"RestoreFromS3", 1, 0, true, .free, 0, ["!(err != nil)", "!(err != nil)", "range objects", "!(!strings.HasSuffix(obj.Key, \".kfs\"))", "!ok"],
     .jump "continue"⟩,
  ⟨"RestoreFromS3", 1, 0, true, .free, 0, ["!(err != nil)", "!(err != nil)", "range objects", "!(!strings.HasSuffix(obj.Key, \".kfs\"))", "!(!ok)", "obj.Size < segmentFooterLen"],
     .jump "continue"⟩,
  ⟨"RestoreFromS3", 1, 0, true, .free, 0, ["!(err != nil)", "!(err != nil)", "range objects", "!(!strings.HasSuffix(obj.Key, \".kfs\"))", "!(!ok)", "!(obj.Size < segmentFooterLen)", "err != nil"],
     .ret ["-1", "err"] ["other", "call"] false⟩,
  ⟨"RestoreFromS3", 1, 0, true, .free, 0, ["!(err != nil)", "!(err != nil)", "range objects", "!(!strings.HasSuffix(obj.Key, \".kfs\"))", "!(!ok)", "!(obj.Size < segmentFooterLen)", "!(err != nil)"],
     .ext "s3" "DownloadSegment" ["obj.Key", "rng"] ["footerBytes", "err"]⟩,
  ⟨"RestoreFromS3", 1, 0, true, .free, 0, ["!(err != nil)", "!(err != nil)", "range objects", "!(!strings.HasSuffix(obj.Key, \".kfs\"))", "!(!ok)", "!(obj.Size < segmentFooterLen)", "!(err != nil)", "err != nil"],
     .ret ["-1", "err"] ["other", "call"] false⟩,
  ⟨"RestoreFromS3", 1, 0, true, .free, 0, ["!(err != nil)", "!(err != nil)", "range objects", "!(!strings.HasSuffix(obj.Key, \".kfs\"))", "!(!ok)", "!(obj.Size < segmentFooterLen)", "!(err != nil)", "!(err != nil)", "err != nil"],
     .ret ["-1", "err"] ["other", "call"] false⟩,
  ⟨"RestoreFromS3", 1, 0, true, .free, 0, ["!(err != nil)", "!(err != nil)", "len(found) == 0"],
     .ret ["-1", "nil"] ["other", "const"] false⟩,
  ⟨"RestoreFromS3", 1, 1, true, .free, 0, ["!(err != nil)", "!(err != nil)", "!(len(found) == 0)"],
     .ret ["found[i].baseOffset < found[j].baseOffset"] ["other"] false⟩,
  ⟨"RestoreFromS3", 1, 0, true, .free, 0, ["!(err != nil)", "!(err != nil)", "!(len(found) == 0)", "range found", "err != nil"],
     .ret ["-1", "err"] ["other", "call"] false⟩,
  ⟨"RestoreFromS3", 1, 0, true, .free, 0, ["!(err != nil)", "!(err != nil)", "!(len(found) == 0)", "range found", "!(err != nil)"],
     .ext "s3" "DownloadIndex" ["indexKey"] ["indexBytes", "err"]⟩,
  ⟨"RestoreFromS3", 1, 0, true, .free, 0, ["!(err != nil)", "!(err != nil)", "!(len(found) == 0)", "range found", "!(err != nil)", "err != nil"],
     .check "if" "errors.Is(err, ErrNotFound) && seg.baseOffset >= l.nextOffset"⟩,
  ⟨"RestoreFromS3", 1, 0, true, .free, 0, ["!(err != nil)", "!(err != nil)", "!(len(found) == 0)", "range found", "!(err != nil)", "err != nil", "errors.Is(err, ErrNotFound) && seg.baseOffset >= l.nextOffset"],
     .jump "continue"⟩,
  ⟨"RestoreFromS3", 1, 0, true, .free, 0, ["!(err != nil)", "!(err != nil)", "!(len(found) == 0)", "range found", "!(err != nil)", "err != nil", "!(errors.Is(err, ErrNotFound) && seg.baseOffset >= l.nextOffset)"],
     .ret ["-1", "err"] ["other", "call"] false⟩,
  ⟨"RestoreFromS3", 1, 0, true, .free, 0, ["!(err != nil)", "!(err != nil)", "!(len(found) == 0)", "range found", "!(err != nil)", "!(err != nil)", "err != nil"],
     .check "if" "seg.baseOffset >= l.nextOffset"⟩,
  ⟨"RestoreFromS3", 1, 0, true, .free, 0, ["!(err != nil)", "!(err != nil)", "!(len(found) == 0)", "range found", "!(err != nil)", "!(err != nil)", "err != nil", "seg.baseOffset >= l.nextOffset"],
     .jump "continue"⟩,
  ⟨"RestoreFromS3", 1, 0, true, .free, 0, ["!(err != nil)", "!(err != nil)", "!(len(found) == 0)", "range found", "!(err != nil)", "!(err != nil)", "err != nil", "!(seg.baseOffset >= l.nextOffset)"],
     .ret ["-1", "fmt.Errorf(\"parse index %s: %w\", indexKey, err)"] ["other", "call"] false⟩,
  ⟨"RestoreFromS3", 1, 0, true, .free, 0, ["!(err != nil)", "!(err != nil)", "!(len(found) == 0)", "len(segments) == 0"],
     .ret ["-1", "nil"] ["other", "const"] false⟩,
  ⟨"RestoreFromS3", 1, 0, true, .held, 1, ["!(err != nil)", "!(err != nil)", "!(len(found) == 0)", "!(len(segments) == 0)"],
     .lock "l.mu" "w"⟩,
  ⟨"RestoreFromS3", 1, 0, true, .held, 1, ["!(err != nil)", "!(err != nil)", "!(len(found) == 0)", "!(len(segments) == 0)"],
     .write "l.segments" "segments"⟩,
  ⟨"RestoreFromS3", 1, 0, true, .held, 1, ["!(err != nil)", "!(err != nil)", "!(len(found) == 0)", "!(len(segments) == 0)"],
     .write "l.indexEntries" "indexByBase"⟩,
  ⟨"RestoreFromS3", 1, 0, true, .held, 1, ["!(err != nil)", "!(err != nil)", "!(len(found) == 0)", "!(len(segments) == 0)"],
     .check "if" "last >= l.nextOffset"⟩,
  ⟨"RestoreFromS3", 1, 0, true, .held, 1, ["!(err != nil)", "!(err != nil)", "!(len(found) == 0)", "!(len(segments) == 0)", "last >= l.nextOffset"],
     .write "l.nextOffset" "last + 1"⟩,
  ⟨"RestoreFromS3", 1, 0, true, .held, 1, ["!(err != nil)", "!(err != nil)", "!(len(found) == 0)", "!(len(segments) == 0)"],
     .unlock "l.mu" "w"⟩,
  ⟨"RestoreFromS3", 1, 0, true, .free, 1, ["!(err != nil)", "!(err != nil)", "!(len(found) == 0)", "!(len(segments) == 0)"],
     .ret ["last", "nil"] ["local", "const"] false⟩]

/-- `AppendBatch` ↦ model event `append t n`: the rows under l.mu are ONE step (`appendCmds`); the rows after the Unlock are the `up true` / `pub true` program counters (uploadFlush, then onFlush) -/
def sec_AppendBatch : List Row := [
  ⟨"AppendBatch", 2, 0, true, .free, 0, ["err != nil"],
     .ret ["nil", "err"] ["const", "call"] false⟩,
  ⟨"AppendBatch", 2, 0, true, .held, 1, ["!(err != nil)"],
     .lock "l.mu" "w"⟩,
  ⟨"AppendBatch", 2, 0, true, .held, 1, ["!(err != nil)"],
     .read "baseOffset" "l.nextOffset"⟩,
  ⟨"AppendBatch", 2, 0, true, .held, 1, ["!(err != nil)"],
     .call "" "PatchRecordBatchBaseOffset" ["&batch", "baseOffset"] [] false⟩,
  ⟨"AppendBatch", 2, 0, true, .held, 1, ["!(err != nil)"],
     .write "l.nextOffset" "baseOffset + int64(batch.LastOffsetDelta) + 1"⟩,
  ⟨"AppendBatch", 2, 0, true, .held, 1, ["!(err != nil)"],
     .call "l.buffer" "Append" ["batch"] [] false⟩,
  ⟨"AppendBatch", 2, 0, true, .held, 1, ["!(err != nil)"],
     .read "result" "&AppendResult{ BaseOffset: baseOffset, LastOffset: l.nextOffset - 1, }"⟩,
  ⟨"AppendBatch", 2, 0, true, .held, 1, ["!(err != nil)"],
     .call "l.buffer" "ShouldFlush" ["time.Now()"] [] false⟩,
  ⟨"AppendBatch", 2, 0, true, .held, 1, ["!(err != nil)", "l.buffer.ShouldFlush(time.Now())"],
     .call "l" "prepareFlush" [] ["artifact", "err"] false⟩,
  ⟨"AppendBatch", 2, 0, true, .held, 1, ["!(err != nil)", "l.buffer.ShouldFlush(time.Now())", "err != nil"],
     .unlock "l.mu" "w"⟩,
  ⟨"AppendBatch", 2, 0, true, .free, 1, ["!(err != nil)", "l.buffer.ShouldFlush(time.Now())", "err != nil"],
     .ret ["nil", "err"] ["const", "call"] false⟩,
  ⟨"AppendBatch", 2, 0, true, .held, 1, ["!(err != nil)"],
     .unlock "l.mu" "w"⟩,
  ⟨"AppendBatch", 2, 0, true, .free, 1, ["!(err != nil)", "artifact != nil"],
     .call "l" "uploadFlush" ["artifact"] ["err"] false⟩,
  ⟨"AppendBatch", 2, 0, true, .free, 1, ["!(err != nil)", "artifact != nil", "err != nil"],
     .ret ["nil", "err"] ["const", "call"] false⟩,
  ⟨"AppendBatch", 2, 0, true, .free, 1, ["!(err != nil)", "artifact != nil", "!(err != nil)", "l.onFlush != nil"],
     .call "l" "onFlush" ["artifact"] [] false⟩,
  ⟨"AppendBatch", 2, 0, true, .free, 1, ["!(err != nil)"],
     .ret ["result", "nil"] ["fresh", "const"] false⟩]

/-- `Flush` ↦ model events `flush t` / `wake t` = `flushEnter` (`flushCmds`: wait loop, prepareFlush, empty-flush target, ONE critical section); the rows after the Unlock are the `up false` / `pub false` program counters and `ackNow` (return nil) -/
def sec_Flush : List Row := [
  ⟨"Flush", 3, 0, true, .held, 1, [],
     .lock "l.mu" "w"⟩,
  ⟨"Flush", 3, 0, true, .held, 1, [],
     .check "for" "l.flushing"⟩,
  ⟨"Flush", 3, 0, true, .held, 1, ["for l.flushing", "ctx.Err() != nil"],
     .unlock "l.mu" "w"⟩,
  ⟨"Flush", 3, 0, true, .free, 1, ["for l.flushing", "ctx.Err() != nil"],
     .ret ["ctx.Err()"] ["call"] false⟩,
  ⟨"Flush", 3, 0, true, .held, 1, ["for l.flushing", "!(ctx.Err() != nil)"],
     .wait "l.flushCond" "for" "l.flushing"⟩,
  ⟨"Flush", 3, 0, true, .held, 1, [],
     .call "l" "prepareFlush" [] ["artifact", "err"] false⟩,
  ⟨"Flush", 3, 0, true, .held, 1, [],
     .read "current" "l.nextOffset - 1"⟩,
  ⟨"Flush", 3, 0, true, .held, 1, [],
     .unlock "l.mu" "w"⟩,
  ⟨"Flush", 3, 0, true, .free, 1, ["err != nil"],
     .ret ["err"] ["call"] false⟩,
  ⟨"Flush", 3, 0, true, .free, 1, ["!(err != nil)", "artifact != nil"],
     .call "l" "uploadFlush" ["artifact"] ["err"] false⟩,
  ⟨"Flush", 3, 0, true, .free, 1, ["!(err != nil)", "artifact != nil", "err != nil"],
     .ret ["err"] ["call"] false⟩,
  ⟨"Flush", 3, 0, true, .free, 1, ["!(err != nil)", "l.onFlush != nil", "target == nil", "current >= 0"],
     .read "target" "&SegmentArtifact{LastOffset: current}"⟩,
  ⟨"Flush", 3, 0, true, .free, 1, ["!(err != nil)", "l.onFlush != nil", "target != nil"],
     .call "l" "onFlush" ["target"] [] false⟩,
  ⟨"Flush", 3, 0, true, .free, 1, ["!(err != nil)"],
     .ret ["nil"] ["const"] false⟩]

/-- `prepareFlush` ↦ model `prepareFlush` (`prepareCmds`), runs inside the caller's critical section -/
def sec_prepareFlush : List Row := [
  ⟨"prepareFlush", 4, 0, false, .inherit, 0, [],
     .check "if" "l.flushing"⟩,
  ⟨"prepareFlush", 4, 0, false, .inherit, 0, ["l.flushing"],
     .ret ["nil", "nil"] ["const", "const"] false⟩,
  ⟨"prepareFlush", 4, 0, false, .inherit, 0, ["!(l.flushing)"],
     .call "l.buffer" "Drain" [] ["batches"] false⟩,
  ⟨"prepareFlush", 4, 0, false, .inherit, 0, ["!(l.flushing)", "len(batches) == 0"],
     .ret ["nil", "nil"] ["const", "const"] false⟩,
  ⟨"prepareFlush", 4, 0, false, .inherit, 0, ["!(l.flushing)", "!(len(batches) == 0)"],
     .call "" "BuildSegment" ["l.cfg.Segment", "batches", "time.Now()"] ["artifact", "err"] false⟩,
  ⟨"prepareFlush", 4, 0, false, .inherit, 0, ["!(l.flushing)", "!(len(batches) == 0)", "err != nil"],
     .ret ["nil", "fmt.Errorf(\"build segment: %w\", err)"] ["const", "call"] false⟩,
  ⟨"prepareFlush", 4, 0, false, .inherit, 0, ["!(l.flushing)", "!(len(batches) == 0)", "!(err != nil)"],
     .write "l.flushing" "true"⟩,
  ⟨"prepareFlush", 4, 0, false, .inherit, 0, ["!(l.flushing)", "!(len(batches) == 0)", "!(err != nil)"],
     .write "l.flushingBatches" "batches"⟩,
  ⟨"prepareFlush", 4, 0, false, .inherit, 0, ["!(l.flushing)", "!(len(batches) == 0)", "!(err != nil)"],
     .ret ["artifact", "nil"] ["call", "const"] false⟩]

/-- `uploadFlush` ↦ model events `seg t ok` (func1), `idx t ok` (func2), `finish t` (after g.Wait: `failCmds` = failure reset incl. Requeue, `commitCmds` = commit), each ONE critical section -/
def sec_uploadFlush : List Row := [
  ⟨"uploadFlush", 5, 1, false, .free, 0, ["err != nil"],
     .ret ["err"] ["call"] false⟩,
  ⟨"uploadFlush", 5, 1, false, .free, 0, ["!(err != nil)"],
     .ext "s3" "UploadSegment" ["segmentKey", "artifact.SegmentBytes"] ["err"]⟩,
  ⟨"uploadFlush", 5, 1, false, .free, 0, ["!(err != nil)"],
     .ret ["err"] ["call"] false⟩,
  ⟨"uploadFlush", 5, 2, false, .free, 0, ["err != nil"],
     .ret ["err"] ["call"] false⟩,
  ⟨"uploadFlush", 5, 2, false, .free, 0, ["!(err != nil)"],
     .ext "s3" "UploadIndex" ["indexKey", "artifact.IndexBytes"] ["err"]⟩,
  ⟨"uploadFlush", 5, 2, false, .free, 0, ["!(err != nil)"],
     .ret ["err"] ["call"] false⟩,
  ⟨"uploadFlush", 5, 0, false, .inherit, 0, [],
     .sync "g.Wait" ["err"]⟩,
  ⟨"uploadFlush", 5, 0, false, .held, 1, ["err != nil"],
     .lock "l.mu" "w"⟩,
  ⟨"uploadFlush", 5, 0, false, .held, 1, ["err != nil"],
     .call "l.buffer" "Requeue" ["l.flushingBatches"] [] false⟩,
  ⟨"uploadFlush", 5, 0, false, .held, 1, ["err != nil"],
     .write "l.flushing" "false"⟩,
  ⟨"uploadFlush", 5, 0, false, .held, 1, ["err != nil"],
     .write "l.flushingBatches" "nil"⟩,
  ⟨"uploadFlush", 5, 0, false, .held, 1, ["err != nil"],
     .notify "l.flushCond" "Broadcast"⟩,
  ⟨"uploadFlush", 5, 0, false, .held, 1, ["err != nil"],
     .unlock "l.mu" "w"⟩,
  ⟨"uploadFlush", 5, 0, false, .free, 1, ["err != nil"],
     .ret ["err"] ["call"] false⟩,
  ⟨"uploadFlush", 5, 0, false, .held, 1, ["!(err != nil)"],
     .lock "l.mu" "w"⟩,
  ⟨"uploadFlush", 5, 0, false, .held, 1, ["!(err != nil)"],
     .write "l.segments" "append(l.segments, segmentRange{ baseOffset: artifact.BaseOffset, lastOffset: artifact.LastOffset, size: int64(len(artifact.SegmentBytes)), })"⟩,
  ⟨"uploadFlush", 5, 0, false, .held, 1, ["!(err != nil)", "artifact.RelativeIndex != nil"],
     .write "l.indexEntries[artifact.BaseOffset]" "artifact.RelativeIndex"⟩,
  ⟨"uploadFlush", 5, 0, false, .held, 1, ["!(err != nil)"],
     .write "l.flushing" "false"⟩,
  ⟨"uploadFlush", 5, 0, false, .held, 1, ["!(err != nil)"],
     .write "l.flushingBatches" "nil"⟩,
  ⟨"uploadFlush", 5, 0, false, .held, 1, ["!(err != nil)"],
     .notify "l.flushCond" "Broadcast"⟩,
  ⟨"uploadFlush", 5, 0, false, .held, 1, ["!(err != nil)"],
     .read "lastSegIdx" "len(l.segments) - 1"⟩,
  ⟨"uploadFlush", 5, 0, false, .held, 1, ["!(err != nil)"],
     .unlock "l.mu" "w"⟩,
  ⟨"uploadFlush", 5, 0, false, .free, 1, ["!(err != nil)"],
     .ret ["nil"] ["const"] false⟩]

/-- `Read` ↦ model `Readable` / the harness op `readcheck`: segments, in-flight batches and buffer are consulted under ONE hold of l.mu -/
def sec_Read : List Row := [
  ⟨"Read", 6, 0, true, .held, 1, [],
     .lock "l.mu" "w"⟩,
  ⟨"Read", 6, 0, true, .held, 1, [],
     .check "range" "l.segments"⟩,
  ⟨"Read", 6, 0, true, .held, 1, ["range l.segments", "offset >= s.baseOffset && offset <= s.lastOffset"],
     .read "seg" "s"⟩,
  ⟨"Read", 6, 0, true, .held, 1, ["range l.segments", "offset >= s.baseOffset && offset <= s.lastOffset"],
     .read "segIdx" "i"⟩,
  ⟨"Read", 6, 0, true, .held, 1, ["range l.segments", "offset >= s.baseOffset && offset <= s.lastOffset"],
     .read "entries" "l.indexEntries[s.baseOffset]"⟩,
  ⟨"Read", 6, 0, true, .held, 1, ["range l.segments", "offset >= s.baseOffset && offset <= s.lastOffset"],
     .jump "break"⟩,
  ⟨"Read", 6, 0, true, .held, 1, ["range l.segments", "!(offset >= s.baseOffset && offset <= s.lastOffset)", "s.baseOffset > offset"],
     .read "seg" "s"⟩,
  ⟨"Read", 6, 0, true, .held, 1, ["range l.segments", "!(offset >= s.baseOffset && offset <= s.lastOffset)", "s.baseOffset > offset"],
     .read "segIdx" "i"⟩,
  ⟨"Read", 6, 0, true, .held, 1, ["range l.segments", "!(offset >= s.baseOffset && offset <= s.lastOffset)", "s.baseOffset > offset"],
     .read "offset" "s.baseOffset"⟩,
  ⟨"Read", 6, 0, true, .held, 1, ["range l.segments", "!(offset >= s.baseOffset && offset <= s.lastOffset)", "s.baseOffset > offset"],
     .read "entries" "l.indexEntries[s.baseOffset]"⟩,
  ⟨"Read", 6, 0, true, .held, 1, ["range l.segments", "!(offset >= s.baseOffset && offset <= s.lastOffset)", "s.baseOffset > offset"],
     .jump "break"⟩,
  ⟨"Read", 6, 0, true, .held, 1, ["!found"],
     .call "" "recordsFromBatches" ["l.flushingBatches", "offset", "maxBytes"] ["body"] false⟩,
  ⟨"Read", 6, 0, true, .held, 1, ["!found"],
     .read "fromFlushWindow" "len(body) > 0"⟩,
  ⟨"Read", 6, 0, true, .held, 1, ["!found", "!fromFlushWindow"],
     .call "l.buffer" "RecordsFrom" ["offset", "maxBytes"] ["body"] false⟩,
  ⟨"Read", 6, 0, true, .held, 1, ["!found"],
     .unlock "l.mu" "w"⟩,
  ⟨"Read", 6, 0, true, .held, 1, ["!(!found)"],
     .unlock "l.mu" "w"⟩]

/-- `Append` ↦ model `buffer ++ [b]` of event `append` -/
def sec_Append : List Row := [
  ⟨"Append", 7, 0, true, .held, 1, [],
     .lock "b.mu" "w"⟩,
  ⟨"Append", 7, 0, true, .held, 1, [],
     .deferUnlock "b.mu" "w"⟩,
  ⟨"Append", 7, 0, true, .held, 1, [],
     .write "b.batches" "append(b.batches, batch)"⟩,
  ⟨"Append", 7, 0, true, .held, 1, [],
     .write "b.sizeBytes" "+= len(batch.Bytes)"⟩,
  ⟨"Append", 7, 0, true, .held, 1, [],
     .write "b.messageCount" "+= int(batch.MessageCount)"⟩]

/-- `Drain` ↦ model `buffer := []`, the drained list is a COPY (`inflight` does not alias the buffer) -/
def sec_Drain : List Row := [
  ⟨"Drain", 8, 0, true, .held, 1, [],
     .lock "b.mu" "w"⟩,
  ⟨"Drain", 8, 0, true, .held, 1, [],
     .deferUnlock "b.mu" "w"⟩,
  ⟨"Drain", 8, 0, true, .held, 1, [],
     .read "drained" "make([]RecordBatch, len(b.batches))"⟩,
  ⟨"Drain", 8, 0, true, .held, 1, [],
     .call "" "copy" ["drained", "b.batches"] [] false⟩,
  ⟨"Drain", 8, 0, true, .held, 1, [],
     .write "b.batches" "b.batches[:0]"⟩,
  ⟨"Drain", 8, 0, true, .held, 1, [],
     .write "b.sizeBytes" "0"⟩,
  ⟨"Drain", 8, 0, true, .held, 1, [],
     .write "b.messageCount" "0"⟩,
  ⟨"Drain", 8, 0, true, .held, 1, [],
     .write "b.lastFlush" "time.Now()"⟩,
  ⟨"Drain", 8, 0, true, .held, 1, [],
     .ret ["drained"] ["copy"] true⟩]

/-- `Requeue` ↦ model `buffer := inflight ++ buffer` of event `finish` (failure) -/
def sec_Requeue : List Row := [
  ⟨"Requeue", 9, 0, true, .free, 0, ["len(batches) == 0"],
     .ret [] [] false⟩,
  ⟨"Requeue", 9, 0, true, .held, 1, ["!(len(batches) == 0)"],
     .lock "b.mu" "w"⟩,
  ⟨"Requeue", 9, 0, true, .held, 1, ["!(len(batches) == 0)"],
     .deferUnlock "b.mu" "w"⟩,
  ⟨"Requeue", 9, 0, true, .held, 1, ["!(len(batches) == 0)"],
     .read "merged" "make([]RecordBatch, 0, len(batches)+len(b.batches))"⟩,
  ⟨"Requeue", 9, 0, true, .held, 1, ["!(len(batches) == 0)"],
     .read "merged" "append(merged, batches...)"⟩,
  ⟨"Requeue", 9, 0, true, .held, 1, ["!(len(batches) == 0)"],
     .read "merged" "append(merged, b.batches...)"⟩,
  ⟨"Requeue", 9, 0, true, .held, 1, ["!(len(batches) == 0)"],
     .write "b.batches" "merged"⟩,
  ⟨"Requeue", 9, 0, true, .held, 1, ["!(len(batches) == 0)", "range batches"],
     .write "b.sizeBytes" "+= len(batch.Bytes)"⟩,
  ⟨"Requeue", 9, 0, true, .held, 1, ["!(len(batches) == 0)", "range batches"],
     .write "b.messageCount" "+= int(batch.MessageCount)"⟩]

/-- `handleProduce` ↦ model `ackNow` / `.failed`: error code 0 only after AppendBatch and Flush returned nil -/
def sec_handleProduce : List Row := [
  ⟨"handleProduce", 10, 0, true, .free, 0, [],
     .call "h" "getPartitionLog" ["topic.Topic", "part.Partition"] ["plog", "err"] false⟩,
  ⟨"handleProduce", 10, 0, true, .free, 0, ["err != nil"],
     .reply "p.ErrorCode" "protocol.UNKNOWN_SERVER_ERROR"⟩,
  ⟨"handleProduce", 10, 0, true, .free, 0, ["err != nil"],
     .jump "continue"⟩,
  ⟨"handleProduce", 10, 0, true, .free, 0, ["!(err != nil)", "err != nil"],
     .reply "p.ErrorCode" "protocol.UNKNOWN_SERVER_ERROR"⟩,
  ⟨"handleProduce", 10, 0, true, .free, 0, ["!(err != nil)", "err != nil"],
     .jump "continue"⟩,
  ⟨"handleProduce", 10, 0, true, .free, 0, ["!(err != nil)", "!(err != nil)"],
     .call "plog" "AppendBatch" ["batch"] ["result", "err"] false⟩,
  ⟨"handleProduce", 10, 0, true, .free, 0, ["!(err != nil)", "!(err != nil)", "err != nil"],
     .reply "p.ErrorCode" "h.backpressureErrorCode()"⟩,
  ⟨"handleProduce", 10, 0, true, .free, 0, ["!(err != nil)", "!(err != nil)", "err != nil", "errors.Is(err, storage.ErrInvalidRecordBatch)"],
     .reply "p.ErrorCode" "protocol.CORRUPT_MESSAGE"⟩,
  ⟨"handleProduce", 10, 0, true, .free, 0, ["!(err != nil)", "!(err != nil)", "err != nil"],
     .jump "continue"⟩,
  ⟨"handleProduce", 10, 0, true, .free, 0, ["!(err != nil)", "!(err != nil)", "!(err != nil)", "req.Acks != 0 && h.flushOnAck"],
     .call "plog" "Flush" [] ["err"] false⟩,
  ⟨"handleProduce", 10, 0, true, .free, 0, ["!(err != nil)", "!(err != nil)", "!(err != nil)", "req.Acks != 0 && h.flushOnAck", "err != nil"],
     .reply "p.ErrorCode" "h.backpressureErrorCode()"⟩,
  ⟨"handleProduce", 10, 0, true, .free, 0, ["!(err != nil)", "!(err != nil)", "!(err != nil)", "req.Acks != 0 && h.flushOnAck", "err != nil"],
     .jump "continue"⟩,
  ⟨"handleProduce", 10, 0, true, .free, 0, ["!(err != nil)", "!(err != nil)", "!(err != nil)"],
     .reply "p.ErrorCode" "0"⟩,
  ⟨"handleProduce", 10, 0, true, .free, 0, ["!(err != nil)", "!(err != nil)", "!(err != nil)"],
     .reply "p.BaseOffset" "result.BaseOffset"⟩,
  ⟨"handleProduce", 10, 0, true, .free, 0, ["req.Acks == 0"],
     .ret ["nil", "nil"] ["const", "const"] false⟩,
  ⟨"handleProduce", 10, 0, true, .free, 0, ["!(req.Acks == 0)"],
     .ret ["protocol.EncodeResponse(header.CorrelationID, header.APIVersion, resp)", "nil"] ["call", "const"] false⟩]

/-- `getPartitionLog` ↦ model event `restore` (NextOffset, NewPartitionLog, RestoreFromS3, offset sync, registry write) and, func2, event `pub t ok` (onFlush -> store.UpdateOffsets(artifact.LastOffset)); registry steps: Model/StorageLogRegistry.lean -/
def sec_getPartitionLog : List Row := [
  ⟨"getPartitionLog", 11, 0, true, .rheld, 1, [],
     .lock "h.logMu" "r"⟩,
  ⟨"getPartitionLog", 11, 0, true, .rheld, 1, [],
     .read "partitions, ok" "h.logs[topic]"⟩,
  ⟨"getPartitionLog", 11, 0, true, .rheld, 1, ["ok"],
     .read "plog, ok" "partitions[partition]"⟩,
  ⟨"getPartitionLog", 11, 0, true, .rheld, 1, ["ok", "ok"],
     .unlock "h.logMu" "r"⟩,
  ⟨"getPartitionLog", 11, 0, true, .free, 1, ["ok", "ok"],
     .ret ["plog", "nil"] ["mixed", "const"] false⟩,
  ⟨"getPartitionLog", 11, 0, true, .rheld, 1, [],
     .unlock "h.logMu" "r"⟩,
  ⟨"getPartitionLog", 11, 1, true, .rheld, 2, ["for"],
     .lock "h.logMu" "r"⟩,
  ⟨"getPartitionLog", 11, 1, true, .rheld, 2, ["for"],
     .read "partitions, ok" "h.logs[topic]"⟩,
  ⟨"getPartitionLog", 11, 1, true, .rheld, 2, ["for", "ok"],
     .read "plog, ok" "partitions[partition]"⟩,
  ⟨"getPartitionLog", 11, 1, true, .rheld, 2, ["for", "ok", "ok"],
     .unlock "h.logMu" "r"⟩,
  ⟨"getPartitionLog", 11, 1, true, .free, 2, ["for", "ok", "ok"],
     .ret ["plog", "nil"] ["mixed", "const"] false⟩,
  ⟨"getPartitionLog", 11, 1, true, .rheld, 2, ["for"],
     .unlock "h.logMu" "r"⟩,
  ⟨"getPartitionLog", 11, 1, true, .free, 2, ["for"],
     .ext "store" "NextOffset" ["topic", "partition"] ["nextOffset", "err"]⟩,
  ⟨"getPartitionLog", 11, 1, true, .free, 2, ["for", "err != nil"],
     .ret ["nil", "err"] ["const", "call"] false⟩,
  ⟨"getPartitionLog", 11, 2, true, .free, 2, ["for", "!(err != nil)"],
     .ext "store" "UpdateOffsets" ["topic", "partition", "artifact.LastOffset"] ["err"]⟩,
  ⟨"getPartitionLog", 11, 1, true, .free, 2, ["for", "!(err != nil)"],
     .call "storage" "NewPartitionLog" ["h.s3Namespace", "topic", "partition", "nextOffset", "h.s3", "h.cache", "h.logConfig", "func", "h.recordS3Op", "h.s3sem"] ["plog"] false⟩,
  ⟨"getPartitionLog", 11, 1, true, .free, 2, ["for", "!(err != nil)"],
     .call "plog" "RestoreFromS3" [] ["lastOffset", "err"] false⟩,
  ⟨"getPartitionLog", 11, 1, true, .free, 2, ["for", "!(err != nil)", "err != nil"],
     .ret ["nil", "err"] ["const", "call"] false⟩,
  ⟨"getPartitionLog", 11, 1, true, .free, 2, ["for", "!(err != nil)", "!(err != nil)", "lastOffset >= nextOffset"],
     .ext "store" "UpdateOffsets" ["topic", "partition", "lastOffset"] ["err"]⟩,
  ⟨"getPartitionLog", 11, 1, true, .held, 3, ["for", "!(err != nil)", "!(err != nil)"],
     .lock "h.logMu" "w"⟩,
  ⟨"getPartitionLog", 11, 1, true, .held, 3, ["for", "!(err != nil)", "!(err != nil)"],
     .check "if" "h.logs[topic] == nil"⟩,
  ⟨"getPartitionLog", 11, 1, true, .held, 3, ["for", "!(err != nil)", "!(err != nil)", "h.logs[topic] == nil"],
     .write "h.logs[topic]" "make(map[int32]*storage.PartitionLog)"⟩,
  ⟨"getPartitionLog", 11, 1, true, .held, 3, ["for", "!(err != nil)", "!(err != nil)"],
     .write "h.logs[topic][partition]" "plog"⟩,
  ⟨"getPartitionLog", 11, 1, true, .held, 3, ["for", "!(err != nil)", "!(err != nil)"],
     .unlock "h.logMu" "w"⟩,
  ⟨"getPartitionLog", 11, 1, true, .free, 3, ["for", "!(err != nil)", "!(err != nil)"],
     .ret ["plog", "nil"] ["mixed", "const"] false⟩,
  ⟨"getPartitionLog", 11, 0, true, .free, 1, ["for"],
     .call "h.logInit" "Do" ["key", "func"] ["result", "err", "_"] false⟩,
  ⟨"getPartitionLog", 11, 0, true, .free, 1, ["for", "err != nil", "errors.Is(err, metadata.ErrUnknownTopic) && h.autoCreateTopics && !autoCreated"],
     .call "h" "ensureTopic" ["topic", "partition"] ["err"] false⟩,
  ⟨"getPartitionLog", 11, 0, true, .free, 1, ["for", "err != nil", "errors.Is(err, metadata.ErrUnknownTopic) && h.autoCreateTopics && !autoCreated", "err != nil"],
     .ret ["nil", "err"] ["const", "call"] false⟩,
  ⟨"getPartitionLog", 11, 0, true, .free, 1, ["for", "err != nil", "errors.Is(err, metadata.ErrUnknownTopic) && h.autoCreateTopics && !autoCreated", "!(err != nil)"],
     .jump "continue"⟩,
  ⟨"getPartitionLog", 11, 0, true, .free, 1, ["for", "err != nil", "!(errors.Is(err, metadata.ErrUnknownTopic) && h.autoCreateTopics && !autoCreated)"],
     .ret ["nil", "err"] ["const", "call"] false⟩,
  ⟨"getPartitionLog", 11, 0, true, .free, 1, ["for", "!(err != nil)"],
     .ret ["result.(*storage.PartitionLog)", "nil"] ["other", "const"] false⟩]

/-- `BuildSegment` ↦ model `buildOk false` (the `BuildSegment` call of `prepareFlush`, AFTER `Drain`): its error returns are `len(batches) == 0`, `len(batch.Bytes) == 0` and the errors of two writes into a bytes.Buffer — `buildErrorsKnown`; a new error return (e.g. a validation of `batch.MessageCount`) is `strictBuild` -/
def sec_BuildSegment : List Row := [
  ⟨"BuildSegment", 12, 0, false, .inherit, 0, ["len(batches) == 0"],
     .ret ["nil", "fmt.Errorf(\"no batches to serialize\")"] ["const", "call"] false⟩,
  ⟨"BuildSegment", 12, 0, false, .inherit, 0, ["!(len(batches) == 0)", "range batches", "len(batch.Bytes) == 0"],
     .ret ["nil", "fmt.Errorf(\"batch payload empty\")"] ["const", "call"] false⟩,
  ⟨"BuildSegment", 12, 0, false, .inherit, 0, ["!(len(batches) == 0)", "range batches", "!(len(batch.Bytes) == 0)"],
     .call "index" "MaybeAdd" ["batch.BaseOffset", "int32(position)", "batch.MessageCount"] [] false⟩,
  ⟨"BuildSegment", 12, 0, false, .inherit, 0, ["!(len(batches) == 0)", "range batches", "!(len(batch.Bytes) == 0)"],
     .call "body" "Write" ["batch.Bytes"] ["_", "err"] false⟩,
  ⟨"BuildSegment", 12, 0, false, .inherit, 0, ["!(len(batches) == 0)", "range batches", "!(len(batch.Bytes) == 0)", "err != nil"],
     .ret ["nil", "err"] ["const", "call"] false⟩,
  ⟨"BuildSegment", 12, 0, false, .inherit, 0, ["!(len(batches) == 0)"],
     .call "index" "BuildBytes" [] ["indexBytes", "err"] false⟩,
  ⟨"BuildSegment", 12, 0, false, .inherit, 0, ["!(len(batches) == 0)", "err != nil"],
     .ret ["nil", "err"] ["const", "call"] false⟩,
  ⟨"BuildSegment", 12, 0, false, .inherit, 0, ["!(len(batches) == 0)", "!(err != nil)"],
     .ret ["&SegmentArtifact{ BaseOffset: batches[0].BaseOffset, LastOffset: lastOffset, MessageCount: totalMessages, CreatedAt: created, SegmentBytes: segment.Bytes(), IndexBytes: indexBytes, RelativeIndex: index.Entries(), }", "nil"] ["fresh", "const"] false⟩]

/-- `BuildBytes` ↦ model no error (`buildOk`): every error return of `IndexBuilder.BuildBytes` follows a write into its bytes.Buffer -/
def sec_BuildBytes : List Row := [
  ⟨"BuildBytes", 13, 0, false, .inherit, 0, [],
     .call "buf" "WriteString" ["indexMagic"] ["_", "err"] false⟩,
  ⟨"BuildBytes", 13, 0, false, .inherit, 0, ["err != nil"],
     .ret ["nil", "err"] ["const", "call"] false⟩,
  ⟨"BuildBytes", 13, 0, false, .inherit, 0, ["!(err != nil)"],
     .call "binary" "Write" ["buf", "binary.BigEndian", "uint16(1)"] ["err"] false⟩,
  ⟨"BuildBytes", 13, 0, false, .inherit, 0, ["!(err != nil)", "err != nil"],
     .ret ["nil", "err"] ["const", "call"] false⟩,
  ⟨"BuildBytes", 13, 0, false, .inherit, 0, ["!(err != nil)", "!(err != nil)"],
     .call "binary" "Write" ["buf", "binary.BigEndian", "int32(len(b.entries))"] ["err"] false⟩,
  ⟨"BuildBytes", 13, 0, false, .inherit, 0, ["!(err != nil)", "!(err != nil)", "err != nil"],
     .ret ["nil", "err"] ["const", "call"] false⟩,
  ⟨"BuildBytes", 13, 0, false, .inherit, 0, ["!(err != nil)", "!(err != nil)", "!(err != nil)"],
     .call "binary" "Write" ["buf", "binary.BigEndian", "b.interval"] ["err"] false⟩,
  ⟨"BuildBytes", 13, 0, false, .inherit, 0, ["!(err != nil)", "!(err != nil)", "!(err != nil)", "err != nil"],
     .ret ["nil", "err"] ["const", "call"] false⟩,
  ⟨"BuildBytes", 13, 0, false, .inherit, 0, ["!(err != nil)", "!(err != nil)", "!(err != nil)", "!(err != nil)"],
     .call "binary" "Write" ["buf", "binary.BigEndian", "uint16(0)"] ["err"] false⟩,
  ⟨"BuildBytes", 13, 0, false, .inherit, 0, ["!(err != nil)", "!(err != nil)", "!(err != nil)", "!(err != nil)", "err != nil"],
     .ret ["nil", "err"] ["const", "call"] false⟩,
  ⟨"BuildBytes", 13, 0, false, .inherit, 0, ["!(err != nil)", "!(err != nil)", "!(err != nil)", "!(err != nil)", "!(err != nil)"],
     .check "range" "b.entries"⟩,
  ⟨"BuildBytes", 13, 0, false, .inherit, 0, ["!(err != nil)", "!(err != nil)", "!(err != nil)", "!(err != nil)", "!(err != nil)", "range b.entries"],
     .call "binary" "Write" ["buf", "binary.BigEndian", "entry.Offset"] ["err"] false⟩,
  ⟨"BuildBytes", 13, 0, false, .inherit, 0, ["!(err != nil)", "!(err != nil)", "!(err != nil)", "!(err != nil)", "!(err != nil)", "range b.entries", "err != nil"],
     .ret ["nil", "err"] ["const", "call"] false⟩,
  ⟨"BuildBytes", 13, 0, false, .inherit, 0, ["!(err != nil)", "!(err != nil)", "!(err != nil)", "!(err != nil)", "!(err != nil)", "range b.entries", "!(err != nil)"],
     .call "binary" "Write" ["buf", "binary.BigEndian", "entry.Position"] ["err"] false⟩,
  ⟨"BuildBytes", 13, 0, false, .inherit, 0, ["!(err != nil)", "!(err != nil)", "!(err != nil)", "!(err != nil)", "!(err != nil)", "range b.entries", "!(err != nil)", "err != nil"],
     .ret ["nil", "err"] ["const", "call"] false⟩,
  ⟨"BuildBytes", 13, 0, false, .inherit, 0, ["!(err != nil)", "!(err != nil)", "!(err != nil)", "!(err != nil)", "!(err != nil)"],
     .ret ["buf.Bytes()", "nil"] ["call", "const"] false⟩]

/-- function ↦ its rows, in the order of the extractor's function list -/
def sections : List (String × List Row) := [
  ("RestoreFromS3", sec_RestoreFromS3),
  ("AppendBatch", sec_AppendBatch),
  ("Flush", sec_Flush),
  ("prepareFlush", sec_prepareFlush),
  ("uploadFlush", sec_uploadFlush),
  ("Read", sec_Read),
  ("Append", sec_Append),
  ("Drain", sec_Drain),
  ("Requeue", sec_Requeue),
  ("handleProduce", sec_handleProduce),
  ("getPartitionLog", sec_getPartitionLog),
  ("BuildSegment", sec_BuildSegment),
  ("BuildBytes", sec_BuildBytes)]

/-- the table the model was written against -/
def expected : List Row := sections.flatMap (·.2)
-- END SECTIONS

/-! ### Predicates over a skeleton -/

def ofFn (rows : List Row) (f : Nat) : List Row := rows.filter (·.fid == f)

/-- rows of the function body itself (not of the function literals inside it) -/
def body (rows : List Row) (f : Nat) : List Row := rows.filter fun r => r.fid == f && r.lit == 0

def idxOf (p : Row → Bool) : List Row → Option Nat
  | [] => none
  | r :: rs => if p r then some 0 else (idxOf p rs).map (· + 1)

/-- the first row with `p` comes before the first row with `q` -/
def precedes (rs : List Row) (p q : Row → Bool) : Bool :=
  match idxOf p rs, idxOf q rs with
  | some i, some j => decide (i < j)
  | _, _ => false

def Ev.isWait : Ev → Bool
  | .wait .. => true
  | _ => false

def Ev.isWrite : Ev → Bool
  | .write .. => true
  | _ => false

def Ev.isRead : Ev → Bool
  | .read .. => true
  | _ => false

def Ev.isRet : Ev → Bool
  | .ret .. => true
  | _ => false

def Ev.isSync : Ev → Bool
  | .sync .. => true
  | _ => false

def Ev.isNotify : Ev → Bool
  | .notify .. => true
  | _ => false

def Ev.isLock : Ev → Bool
  | .lock .. => true
  | _ => false

def Ev.retVals (vs : List String) : Ev → Bool
  | .ret vals _ _ => vals == vs
  | _ => false

def Ev.isCallOf (recv fn : String) : Ev → Bool
  | .call rc f _ _ _ => rc == recv && f == fn
  | _ => false

def Ev.isExt (seam method : String) : Ev → Bool
  | .ext s m _ _ => s == seam && m == method
  | _ => false

def Ev.writesTo (t : String) : Ev → Bool
  | .write t' _ => t' == t
  | _ => false

/-- `Append` / `Drain` / `Requeue` on the log's buffer: a mutation of the buffer contents -/
def Ev.isBufferMutation : Ev → Bool
  | .call rc f _ _ _ => rc == "l.buffer" && (f == "Append" || f == "Drain" || f == "Requeue")
  | _ => false

/-- the call rows that enter function `fn` -/
def callersOf (rows : List Row) (fn : String) : List Row :=
  rows.filter fun r => match r.ev with
    | .call _ f _ _ _ => f == fn
    | _ => false

/-- the receiver's mutex is write-held at row `r` on EVERY call chain that reaches it (fuel = call depth;
a helper nobody calls is not "held") -/
def effHeld (rows : List Row) : Nat → Row → Bool
  | 0, _ => false
  | n + 1, r =>
    match r.lk with
    | .held => true
    | .rheld | .free => false
    | .inherit =>
      let cs := callersOf rows r.fn
      !cs.isEmpty && cs.all (effHeld rows n)

def callDepth : Nat := 3

/-- `flushCond.Wait()` only inside `for l.flushing`, with `l.mu` held, in the one critical section of `Flush`
that goes on to `prepareFlush` -/
def flushWaitIsLoop (rows : List Row) : Bool :=
  let ws := rows.filter (·.ev.isWait)
  let fl := body rows Fn.flush
  ws.any (·.fid == Fn.flush) &&
  (ws.all fun r => r.lk == .held && r.region == 1 && r.ev == .wait "l.flushCond" "for" "l.flushing") &&
  (fl.filter (·.ev.isLock)).length == 1 &&
  fl.any (·.ev.isCallOf "l" "prepareFlush") &&
  (fl.all fun r => !(r.ev.isCallOf "l" "prepareFlush") || (r.lk == .held && r.region == 1))

/-- every field write and every buffer mutation with the receiver's mutex write-held -/
def stateWritesLocked (rows : List Row) : Bool :=
  rows.all fun r => !(r.ev.isWrite || r.ev.isBufferMutation) || effHeld rows callDepth r

/-- the rows of `uploadFlush` after `g.Wait()` that are dominated by `err != nil` (`pos = true`) or by its negation -/
def afterWait (rows : List Row) (pos : Bool) : List Row :=
  let ub := body rows Fn.uploadFlush
  match idxOf (·.ev.isSync) ub with
  | none => []
  | some i =>
    let g := ((ub[i]?).map (·.guard)).getD [] ++ [if pos then "err != nil" else "!(err != nil)"]
    (ub.drop (i + 1)).filter fun r => g.isPrefixOf r.guard

def requeueEv : Ev := .call "l.buffer" "Requeue" ["l.flushingBatches"] [] false

def failureRequeuesUnderLock (rows : List Row) : Bool :=
  let fr := afterWait rows true
  match fr.find? (·.ev == requeueEv) with
  | none => false
  | some q =>
    q.lk == .held &&
    fr.any (·.ev == .write "l.flushing" "false") &&
    fr.any (·.ev == .write "l.flushingBatches" "nil") &&
    (fr.all fun r => !(r.ev.isWrite || r.ev.isNotify) || (r.lk == .held && r.region == q.region)) &&
    precedes fr (·.ev == requeueEv) (·.ev == .write "l.flushingBatches" "nil") &&
    fr.any (·.ev.retVals ["err"]) &&
    !(fr.any (·.ev.retVals ["nil"]))

/-- all snapshots of mutable state that `Flush` takes: the empty-flush target, in the critical section of `prepareFlush` -/
def emptyFlushTargetInPrepareRegion (rows : List Row) : Bool :=
  let fl := body rows Fn.flush
  match fl.find? (·.ev.isCallOf "l" "prepareFlush") with
  | none => false
  | some p =>
    let reads := fl.filter (·.ev.isRead)
    p.lk == .held &&
    reads.map (·.ev) == [.read "current" "l.nextOffset - 1", .read "target" "&SegmentArtifact{LastOffset: current}"] &&
    (reads.head?.map fun r => r.lk == .held && r.region == p.region) == some true &&
    fl.any (·.ev == .call "l" "onFlush" ["target"] [] false) &&
    (fl.all fun r => !(r.ev.isCallOf "l" "onFlush") || r.ev == .call "l" "onFlush" ["target"] [] false)

def drainReturnsCopy (rows : List Row) : Bool :=
  let rets := (ofFn rows Fn.bufDrain).filter (·.ev.isRet)
  let pf := body rows Fn.prepareFlush
  !rets.isEmpty &&
  (rets.all fun r => match r.ev with
    | .ret _ kinds _ => kinds == ["copy"]
    | _ => false) &&
  pf.any (·.ev == .call "l.buffer" "Drain" [] ["batches"] false) &&
  pf.any (·.ev == .write "l.flushingBatches" "batches")

/-- an upload goroutine: the PUT's own error is what the goroutine returns last -/
def uploadReturnsErr (rows : List Row) (method : String) : Bool :=
  let up := ofFn rows Fn.uploadFlush
  match up.find? (·.ev.isExt "s3" method) with
  | none => false
  | some u =>
    u.lit != 0 &&
    (match u.ev with
      | .ext _ _ _ b => b == ["err"]
      | _ => false) &&
    (((up.filter (·.lit == u.lit)).getLast?).map (·.ev.retVals ["err"])) == some true

/-- in function `f`: the call of `callee` binds `err`, and the very next row returns that error under `err != nil` -/
def errPropagated (rows : List Row) (f : Nat) (recv callee : String) (retVals : List String) : Bool :=
  let rs := body rows f
  match idxOf (·.ev.isCallOf recv callee) rs with
  | none => false
  | some i =>
    match rs[i]?, rs[i + 1]? with
    | some c, some n =>
      (match c.ev with
        | .call _ _ _ b _ => b.getLast? == some "err"
        | _ => false) &&
      n.guard == c.guard ++ ["err != nil"] && n.ev.retVals retVals
    | _, _ => false

/-- handleProduce: after the call, the error branch ends in `continue` before the success reply is written -/
def errSkipsAck (rows : List Row) (callee : String) : Bool :=
  let hp := body rows Fn.handleProduce
  match idxOf (·.ev.isCallOf "plog" callee) hp, idxOf (·.ev == .reply "p.ErrorCode" "0") hp with
  | some i, some k =>
    decide (i < k) &&
    (match hp[i]? with
      | some c =>
        (match c.ev with
          | .call _ _ _ b _ => b.getLast? == some "err"
          | _ => false) &&
        ((hp.drop (i + 1)).take (k - i - 1)).any fun r => r.ev == .jump "continue" && r.guard == c.guard ++ ["err != nil"]
      | none => false)
  | _, _ => false

def ackAfterBothUploads (rows : List Row) : Bool :=
  let up := ofFn rows Fn.uploadFlush
  let ub := body rows Fn.uploadFlush
  let fl := body rows Fn.flush
  let hp := body rows Fn.handleProduce
  -- uploadFlush: both PUTs are issued before g.Wait(), each goroutine returns the PUT's error, g.Wait()'s error is
  -- returned, and nil is returned only on the path dominated by !(err != nil)
  uploadReturnsErr rows "UploadSegment" && uploadReturnsErr rows "UploadIndex" &&
  precedes up (·.ev.isExt "s3" "UploadSegment") (·.ev.isSync) &&
  precedes up (·.ev.isExt "s3" "UploadIndex") (·.ev.isSync) &&
  ub.any (·.ev == .sync "g.Wait" ["err"]) &&
  (afterWait rows true).any (·.ev.retVals ["err"]) &&
  (ub.all fun r => !(r.ev.retVals ["nil"]) || (afterWait rows false).contains r) &&
  -- Flush: uploadFlush's error is returned; nil only after that call
  errPropagated rows Fn.flush "l" "uploadFlush" ["err"] &&
  fl.any (·.ev == .call "l" "prepareFlush" [] ["artifact", "err"] false) &&
  fl.any (·.ev == .call "l" "uploadFlush" ["artifact"] ["err"] false) &&
  (fl.filter (·.ev.retVals ["nil"])).length == 1 &&
  precedes fl (·.ev.isCallOf "l" "uploadFlush") (·.ev.retVals ["nil"]) &&
  -- handleProduce: error code 0 is written once, after AppendBatch and Flush, whose error branches `continue`
  (hp.filter (·.ev == .reply "p.ErrorCode" "0")).length == 1 &&
  errSkipsAck rows "AppendBatch" && errSkipsAck rows "Flush" &&
  precedes hp (·.ev.isCallOf "plog" "AppendBatch") (·.ev.isCallOf "plog" "Flush") &&
  (match hp.find? (·.ev.isCallOf "plog" "Flush") with
    | some c => c.guard.getLast? == some "req.Acks != 0 && h.flushOnAck"
    | none => false)

def onflushAfterCommit (rows : List Row) : Bool :=
  let ok := afterWait rows false
  let gp := ofFn rows Fn.getPartitionLog
  -- uploadFlush: the segment list is committed under the lock, on the no-error path, before nil is returned
  ok.any (fun r => r.ev.writesTo "l.segments" && r.lk == .held) &&
  precedes ok (·.ev.writesTo "l.segments") (·.ev.retVals ["nil"]) &&
  -- AppendBatch / Flush: onFlush only after uploadFlush returned (and its error was returned)
  errPropagated rows Fn.appendBatch "l" "uploadFlush" ["nil", "err"] &&
  errPropagated rows Fn.flush "l" "uploadFlush" ["err"] &&
  precedes (body rows Fn.appendBatch) (·.ev.isCallOf "l" "uploadFlush") (·.ev.isCallOf "l" "onFlush") &&
  precedes (body rows Fn.flush) (·.ev.isCallOf "l" "uploadFlush") (·.ev.isCallOf "l" "onFlush") &&
  (rows.all fun r => match r.ev with
    | .call _ f _ _ async => !(f == "onFlush" || f == "uploadFlush") || (!async && r.lk == .free)
    | _ => true) &&
  -- the callback handed to NewPartitionLog publishes the artifact's last offset
  gp.any (fun r => r.lit != 0 && r.ev == .ext "store" "UpdateOffsets" ["topic", "partition", "artifact.LastOffset"] ["err"])

/-- AppendBatch: base offset snapshot, nextOffset update, buffer append (and the size-triggered prepareFlush) in ONE
critical section: two appends cannot put their batches into the buffer in an order other than that of their offsets -/
def appendIsOneRegion (rows : List Row) : Bool :=
  let ab := body rows Fn.appendBatch
  let crit := ab.filter fun r =>
    r.ev == .read "baseOffset" "l.nextOffset" || r.ev.writesTo "l.nextOffset" || r.ev.isCallOf "l.buffer" "Append" ||
    r.ev.isCallOf "l.buffer" "ShouldFlush" || r.ev.isCallOf "l" "prepareFlush"
  (ab.filter (·.ev.isLock)).length == 1 &&
  ab.any (·.ev == .read "baseOffset" "l.nextOffset") &&
  ab.any (·.ev == .write "l.nextOffset" "baseOffset + int64(batch.LastOffsetDelta) + 1") &&
  ab.any (·.ev == .call "l.buffer" "Append" ["batch"] [] false) &&
  ab.any (·.ev.isCallOf "l" "prepareFlush") &&
  (crit.all fun r => r.lk == .held && r.region == 1) &&
  precedes ab (·.ev.writesTo "l.nextOffset") (·.ev.isCallOf "l.buffer" "Append") &&
  precedes ab (·.ev.isCallOf "l.buffer" "Append") (·.ev.isCallOf "l" "prepareFlush")

/-- uploadFlush, no-error path: segment list, flushing flag, in-flight batches and the Broadcast in ONE critical section -/
def commitIsOneRegion (rows : List Row) : Bool :=
  let ok := afterWait rows false
  match ok.find? (·.ev.writesTo "l.segments") with
  | none => false
  | some c =>
    c.lk == .held &&
    (ok.filter (·.ev.isLock)).length == 1 &&
    ok.any (·.ev == .write "l.flushing" "false") &&
    ok.any (·.ev == .write "l.flushingBatches" "nil") &&
    ok.any (·.ev == .notify "l.flushCond" "Broadcast") &&
    (ok.all fun r => !(r.ev.isWrite || r.ev.isNotify) || (r.lk == .held && r.region == c.region))

/-- no return leaves with the mutex held; every Unlock releases what is held -/
def lockBalanced (rows : List Row) : Bool :=
  rows.all fun r =>
    match r.ev with
    | .ret _ _ u => (r.lk == .free && !u) || ((r.lk == .held || r.lk == .rheld) && u) || (r.lk == .inherit && !r.entry && !u)
    | .unlock _ m => (m == "w" && r.lk == .held) || (m == "r" && r.lk == .rheld)
    | _ => true

/-- the singleflight callback of getPartitionLog (function literal 1) -/
def initCallback (rows : List Row) : List Row := (ofFn rows Fn.getPartitionLog).filter (·.lit == 1)

/-- the callback looks the partition up again, under the read lock, and returns the registered log, BEFORE it asks the store
for the next offset (singleflight only shares calls that are still in flight) -/
def registryRecheckInFlight (rows : List Row) : Bool :=
  let cb := initCallback rows
  (body rows Fn.getPartitionLog).any (·.ev == .call "h.logInit" "Do" ["key", "func"] ["result", "err", "_"] false) &&
  precedes cb (·.ev == .lock "h.logMu" "r") (·.ev.isExt "store" "NextOffset") &&
  precedes cb (fun r => r.ev == .read "plog, ok" "partitions[partition]" && r.lk == .rheld) (·.ev.isExt "store" "NextOffset") &&
  precedes cb (·.ev.retVals ["plog", "nil"]) (·.ev.isExt "store" "NextOffset")

/-- NextOffset → NewPartitionLog(nextOffset) → RestoreFromS3 (dominated by nothing but the success of NextOffset; its error is
returned) → offset sync → registry write under the write lock -/
def restoreBeforeRegister (rows : List Row) : Bool :=
  let cb := initCallback rows
  match idxOf (·.ev.isExt "store" "NextOffset") cb, idxOf (·.ev.isCallOf "plog" "RestoreFromS3") cb with
  | some i, some j =>
    match cb[i]?, cb[j]?, cb[j + 1]? with
    | some nx, some rs, some er =>
      decide (i < j) &&
      nx.ev == .ext "store" "NextOffset" ["topic", "partition"] ["nextOffset", "err"] &&
      rs.ev == .call "plog" "RestoreFromS3" [] ["lastOffset", "err"] false &&
      rs.guard == nx.guard ++ ["!(err != nil)"] &&
      er.guard == rs.guard ++ ["err != nil"] && er.ev.retVals ["nil", "err"] &&
      precedes cb (·.ev.isCallOf "storage" "NewPartitionLog") (·.ev.isCallOf "plog" "RestoreFromS3") &&
      precedes cb (·.ev.isCallOf "plog" "RestoreFromS3") (·.ev.writesTo "h.logs[topic][partition]") &&
      cb.any (fun r => r.ev == .write "h.logs[topic][partition]" "plog" && r.lk == .held &&
        r.guard == rs.guard ++ ["!(err != nil)"]) &&
      cb.any (fun r => r.ev.isExt "store" "UpdateOffsets" && r.guard == rs.guard ++ ["!(err != nil)", "lastOffset >= nextOffset"])
    | _, _, _ => false
  | _, _ => false

/-- a return whose last value is not the constant `nil`: an error return of a `(.., error)` function -/
def Ev.isErrRet : Ev → Bool
  | .ret vals _ _ => vals.getLast? != some "nil"
  | _ => false

/-- in `rs`: EVERY error return follows, as the very next row, a call of one of `calls` (receiver, function) that binds `err`
as its last result, under exactly that call's guard + `err != nil` — or its innermost condition is one of `conds` -/
def errRetsFrom (rs : List Row) (conds : List String) (calls : List (String × String)) : Bool :=
  let rec go (prev : Option Row) : List Row → Bool
    | [] => true
    | r :: rest =>
      (!r.ev.isErrRet ||
        (match r.guard.getLast? with
          | some g => conds.contains g
          | none => false) ||
        (match prev with
          | some c =>
            (match c.ev with
              | .call rc f _ b _ => calls.contains (rc, f) && b.getLast? == some "err"
              | _ => false) &&
            r.guard == c.guard ++ ["err != nil"] && r.ev.retVals ["nil", "err"]
          | none => false)) &&
      go (some r) rest
  go none rs

/-- `BuildSegment` returns an error only for an empty batch list, for a batch with an empty payload, and when one of its two
writes into a `bytes.Buffer` (`body.Write`, `index.BuildBytes`) does; `IndexBuilder.BuildBytes` only when a write into its
`bytes.Buffer` does.  This is the model's `buildOk false` (`strictBuild = false`): a batch `AppendBatch` accepted (≥ 8 payload
bytes) is never rejected, whatever record count its header declares. -/
def buildErrorsKnown (rows : List Row) : Bool :=
  let bs := body rows Fn.buildSegment
  let ib := body rows Fn.indexBuildBytes
  ((bs.filter (·.ev.isErrRet)).map (·.guard.getLast?)) ==
    [some "len(batches) == 0", some "len(batch.Bytes) == 0", some "err != nil", some "err != nil"] &&
  errRetsFrom bs ["len(batches) == 0", "len(batch.Bytes) == 0"] [("body", "Write"), ("index", "BuildBytes")] &&
  !(ib.filter (·.ev.isErrRet)).isEmpty &&
  errRetsFrom ib [] [("buf", "WriteString"), ("binary", "Write")] &&
  (ib.all fun r => match r.ev with
    | .call "binary" "Write" args _ _ => args.head? == some "buf"
    | _ => true)

def buildCallEv : Ev := .call "" "BuildSegment" ["l.cfg.Segment", "batches", "time.Now()"] ["artifact", "err"] false
def requeueDrainedEv : Ev := .call "l.buffer" "Requeue" ["batches"] [] false

/-- one `ret` row of `prepareFlush` behind the `Drain` call, given the rows between the two (`seen`, in order) -/
def prepareExitOk (rows : List Row) (seen : List Row) (r : Row) : Bool :=
  r.guard.contains "len(batches) == 0" ||
  seen.any (fun w => w.ev == .write "l.flushingBatches" "batches" && w.guard.isPrefixOf r.guard) ||
  seen.any (fun w => w.ev == requeueDrainedEv && w.guard.isPrefixOf r.guard) ||
  ((match seen.getLast? with
      | some c => c.ev == buildCallEv && r.guard == c.guard ++ ["err != nil"]
      | none => false) &&
    buildErrorsKnown rows)

def prepareExitsFrom (rows : List Row) : List Row → List Row → Bool
  | _, [] => true
  | seen, r :: rest => (!r.ev.isRet || prepareExitOk rows seen r) && prepareExitsFrom rows (seen ++ [r]) rest

/-- every exit of `prepareFlush` after `Drain` drained nothing, installed `flushingBatches`, re-queued — or is the
`BuildSegment`-error exit while `BuildSegment`'s error returns are the known ones (unreachable for accepted batches) -/
def prepareExitsInstallOrRequeue (rows : List Row) : Bool :=
  let pf := body rows Fn.prepareFlush
  match idxOf (·.ev == .call "l.buffer" "Drain" [] ["batches"] false) pf with
  | none => false
  | some i =>
    let after := pf.drop (i + 1)
    after.any (·.ev == buildCallEv) &&
    precedes pf (·.ev.isCallOf "l.buffer" "Drain") (·.ev == buildCallEv) &&
    prepareExitsFrom rows [] after

/-- the `BuildSegment`-error exit of `prepareFlush` re-queues the drained batches (before it returns the error) -/
def buildErrorExitRequeues (rows : List Row) : Bool :=
  let pf := body rows Fn.prepareFlush
  match idxOf (·.ev == buildCallEv) pf with
  | none => false
  | some i =>
    match pf[i]? with
    | none => false
    | some c =>
      let g := c.guard ++ ["err != nil"]
      let ex := (pf.drop (i + 1)).filter fun r => g.isPrefixOf r.guard
      ex.any (·.ev.isRet) && precedes ex (·.ev == requeueDrainedEv) (·.ev.isRet)

/-- which variant of `StorageLog` the source is (`monotone` is a fact about `metadata.Store.UpdateOffsets`, tied by C05's own
harnesses; the others are read off the skeleton: `strictBuild = false` iff `BuildSegment`'s error returns are the known ones) -/
def variantOf (rows : List Row) : Variant :=
  { requeue := failureRequeuesUnderLock rows, atomicTarget := emptyFlushTargetInPrepareRegion rows, monotone := true,
    strictBuild := !buildErrorsKnown rows, requeueBuild := buildErrorExitRequeues rows }

/-! ### Which model step a row stands for -/

inductive Step where
  | append      -- event `append t n`: critical section of AppendBatch (+ WriteBuffer.Append)
  | flushEnter  -- events `flush t` / `wake t`: critical section of Flush
  | prepare     -- `prepareFlush` (+ WriteBuffer.Drain), inside `append` / `flushEnter`
  | seg         -- event `seg t ok`
  | idx         -- event `idx t ok`
  | finish      -- event `finish t` (+ WriteBuffer.Requeue)
  | pub         -- event `pub t ok`: onFlush → UpdateOffsets, then return
  | ack         -- `ackNow` / `.failed`: the produce reply
  | restore     -- event `restore`: getPartitionLog, RestoreFromS3
  | readPath    -- `Readable`: PartitionLog.Read under l.mu
deriving DecidableEq, Repr

def Step.all : List Step := [.append, .flushEnter, .prepare, .seg, .idx, .finish, .pub, .ack, .restore, .readPath]

def stepOf (r : Row) : Option Step :=
  if r.fid == Fn.appendBatch then some (if r.lk == .held || r.region == 0 then .append else .pub)
  else if r.fid == Fn.flush then some (if r.lk == .held then .flushEnter else .pub)
  else if r.fid == Fn.prepareFlush || r.fid == Fn.bufDrain || r.fid == Fn.buildSegment || r.fid == Fn.indexBuildBytes then some .prepare
  else if r.fid == Fn.uploadFlush then some (if r.lit == 1 then .seg else if r.lit == 2 then .idx else .finish)
  else if r.fid == Fn.bufAppend then some .append
  else if r.fid == Fn.bufRequeue then some .finish
  else if r.fid == Fn.handleProduce then some .ack
  else if r.fid == Fn.getPartitionLog then some (if r.lit == 2 then .pub else .restore)
  else if r.fid == Fn.restoreFromS3 then some .restore
  else if r.fid == Fn.read then some .readPath
  else none

/-- the rows a step of the model stands for -/
def stepRows (rows : List Row) (st : Step) : List Row := rows.filter fun r => stepOf r == some st

/-- the step an event of the transition system executes (`crash` and the fault oracle `buildFault` are the environment; `readNext` exists only in the
pre-fix variant, whose second critical section the source no longer has: `emptyFlushTargetInPrepareRegion`) -/
def evStep : StorageLog.Ev → Option Step
  | .append .. => some .append
  | .flush _ | .wake _ => some .flushEnter
  | .seg .. => some .seg
  | .idx .. => some .idx
  | .finish _ => some .finish
  | .pub .. => some .pub
  | .restore => some .restore
  | .readNext _ | .crash | .buildFault _ => none

/-! ### What the rows of a critical section DO: compilation to commands over `StorageLog.Mem` -/

inductive Cond where
  | flushing (pos : Bool)       -- `l.flushing` / `for l.flushing` / `!(l.flushing)`: the flag as it was when first checked
  | drainedEmpty (pos : Bool)   -- `len(batches) == 0`
  | shouldFlush                 -- `l.buffer.ShouldFlush(time.Now())`
  | err (pos : Bool)            -- `err != nil`: outcome of the last fallible call (`Mach.err`)
  | cancelled (pos : Bool)      -- `ctx.Err() != nil` (not modelled: never cancelled)
deriving DecidableEq, Repr

inductive Act where
  | snapNext           -- baseOffset := l.nextOffset
  | bumpNext           -- l.nextOffset = baseOffset + int64(batch.LastOffsetDelta) + 1
  | bufAppend          -- l.buffer.Append(batch)
  | prepare            -- artifact, err := l.prepareFlush()
  | drain              -- batches := l.buffer.Drain()
  | build              -- artifact, err := BuildSegment(l.cfg.Segment, batches, time.Now())
  | setFlushing (b : Bool)
  | keepInflight       -- l.flushingBatches = batches
  | clearInflight      -- l.flushingBatches = nil
  | requeue            -- l.buffer.Requeue(l.flushingBatches)
  | commit             -- l.segments = append(l.segments, segmentRange{artifact.BaseOffset, artifact.LastOffset, ..})
  | snapTarget         -- current := l.nextOffset - 1
  | waitCond           -- l.flushCond.Wait()
  | retNone            -- return nil, nil
  | retArt             -- return artifact, nil
  | retErr             -- return .., err
deriving DecidableEq, Repr

structure Cmd where
  conds : List Cond
  act : Act
deriving DecidableEq, Repr

def compileGuard (g : String) : Option (List Cond) :=
  if g == "l.flushing" || g == "for l.flushing" then some [.flushing true]
  else if g == "!(l.flushing)" then some [.flushing false]
  else if g == "len(batches) == 0" then some [.drainedEmpty true]
  else if g == "!(len(batches) == 0)" then some [.drainedEmpty false]
  else if g == "err != nil" then some [.err true]
  else if g == "!(err != nil)" then some [.err false]
  else if g == "ctx.Err() != nil" then some [.cancelled true]
  else if g == "!(ctx.Err() != nil)" then some [.cancelled false]
  else if g == "l.buffer.ShouldFlush(time.Now())" then some [.shouldFlush]
  else if g == "artifact.RelativeIndex != nil" then some []
  else none

def compileGuards : List String → Option (List Cond)
  | [] => some []
  | g :: gs =>
    match compileGuard g, compileGuards gs with
    | some a, some b => some (a ++ b)
    | _, _ => none

def commitValue : String :=
  "append(l.segments, segmentRange{ baseOffset: artifact.BaseOffset, lastOffset: artifact.LastOffset, size: int64(len(artifact.SegmentBytes)), })"

/-- `none`: a row the model has no reading for (compilation fails); `some none`: a row without an effect on `Mem` -/
def compileEv : Ev → Option (Option Act)
  | .lock .. | .unlock .. | .deferUnlock .. | .notify .. | .jump _ | .sync .. => some none
  | .check f c => if (f == "for" || f == "if") && c == "l.flushing" then some none else none
  | .read l v =>
    if l == "baseOffset" && v == "l.nextOffset" then some (some .snapNext)
    else if l == "current" && v == "l.nextOffset - 1" then some (some .snapTarget)
    else if l == "result" || l == "lastSegIdx" then some none
    else none
  | .write t v =>
    if t == "l.nextOffset" && v == "baseOffset + int64(batch.LastOffsetDelta) + 1" then some (some .bumpNext)
    else if t == "l.flushing" && v == "true" then some (some (.setFlushing true))
    else if t == "l.flushing" && v == "false" then some (some (.setFlushing false))
    else if t == "l.flushingBatches" && v == "batches" then some (some .keepInflight)
    else if t == "l.flushingBatches" && v == "nil" then some (some .clearInflight)
    else if t == "l.segments" && v == commitValue then some (some .commit)
    else if t == "l.indexEntries[artifact.BaseOffset]" then some none
    else none
  | .call rc f args binds async =>
    if async then none
    else if rc == "l.buffer" && f == "Append" && args == ["batch"] then some (some .bufAppend)
    else if rc == "l.buffer" && f == "ShouldFlush" then some none
    else if rc == "l" && f == "prepareFlush" && binds == ["artifact", "err"] then some (some .prepare)
    else if rc == "l.buffer" && f == "Drain" && binds == ["batches"] then some (some .drain)
    else if rc == "l.buffer" && f == "Requeue" && args == ["l.flushingBatches"] then some (some .requeue)
    else if rc == "" && f == "BuildSegment" && args == ["l.cfg.Segment", "batches", "time.Now()"] && binds == ["artifact", "err"] then some (some .build)
    else if rc == "" && f == "PatchRecordBatchBaseOffset" && args == ["&batch", "baseOffset"] then some none
    else none
  | .wait c l lc => if c == "l.flushCond" && l == "for" && lc == "l.flushing" then some (some .waitCond) else none
  | .ret vals _ _ =>
    if vals == ["nil", "nil"] then some (some .retNone)
    else if vals == ["artifact", "nil"] then some (some .retArt)
    else some (some .retErr)
  | .ext .. | .reply .. => none

def compile : List Row → Option (List Cmd)
  | [] => some []
  | r :: rs =>
    match compileEv r.ev, compileGuards r.guard, compile rs with
    | some (some a), some g, some cs => some (⟨g, a⟩ :: cs)
    | some none, _, some cs => some cs
    | _, _, _ => none

/-- the machine the commands run on: the log's memory plus the goroutine's locals -/
structure Mach where
  cfg : Cfg
  m : Mem
  v : Variant := fixed                   -- which `BuildSegment` rule / error exit (`strictBuild`, `requeueBuild`)
  fault : Bool := false                  -- the fault oracle of `BuildSegment` (bites in `requeueBuild` shapes only)
  id : Nat := 0                          -- ghost id of the batch being appended
  n : Nat := 0                           -- lastOffsetDelta + 1 of the batch being appended
  mc : Int := 0                          -- record count its header declares
  len : Nat := 0                         -- len(batch.Bytes)
  base : Nat := 0                        -- local baseOffset
  drained : List Batch := []             -- local batches
  art : Option (List Batch) := none      -- local artifact (the batch list it was built from)
  target : Option Nat := none            -- current + 1, once read
  seen : Option Bool := none             -- l.flushing as it was when first checked
  err : Bool := false                    -- outcome of the last fallible call
  waiting : Bool := false
  halted : Bool := false

def condHolds (k : Mach) : Cond → Bool
  | .flushing pos => (k.seen.getD k.m.flushing) == pos
  | .drainedEmpty pos => k.drained.isEmpty == pos
  | .shouldFlush => shouldFlush k.cfg k.m.buffer
  | .err pos => k.err == pos
  | .cancelled pos => !pos

def touch (k : Mach) : Cond → Mach
  | .flushing _ => { k with seen := some (k.seen.getD k.m.flushing) }
  | _ => k

def doAct (k : Mach) : Act → Mach
  | .snapNext => { k with base := k.m.next }
  | .bumpNext => { k with m := { k.m with next := k.base + k.n } }
  | .bufAppend => { k with m := { k.m with buffer := k.m.buffer ++ [⟨k.id, k.base, k.n, k.mc, k.len⟩] } }
  | .prepare =>
    let r := prepareFlush k.v k.fault k.m
    { k with m := r.1, art := (match r.2 with | .art a => some a | _ => none), err := r.2 == .err }
  | .drain => { k with drained := k.m.buffer, m := { k.m with buffer := [] } }
  | .build => { k with err := buildFails k.v k.fault k.drained }
  | .setFlushing b => { k with m := { k.m with flushing := b } }
  | .keepInflight => { k with m := { k.m with inflight := k.drained } }
  | .clearInflight => { k with m := { k.m with inflight := [] } }
  | .requeue => { k with m := { k.m with buffer := k.m.inflight ++ k.m.buffer } }
  | .commit => { k with m := { k.m with segments := k.m.segments ++ [(baseOf (k.art.getD []), endOf (k.art.getD []))] } }
  | .snapTarget => { k with target := some k.m.next }
  | .waitCond => { k with waiting := true, halted := true }
  | .retNone => { k with art := none, halted := true }
  | .retArt => { k with art := some k.drained, halted := true }
  | .retErr => { k with art := none, err := true, halted := true }

def stepCmd (k : Mach) (c : Cmd) : Mach :=
  if k.halted then k
  else
    let k' := c.conds.foldl touch k
    if c.conds.all (condHolds k') then doAct k' c.act else k'

def execCmds (cs : List Cmd) (k : Mach) : Mach := cs.foldl stepCmd k

/-! #### the critical sections of `expected` and what they compile to -/

def heldRows (rows : List Row) (f : Nat) : List Row := (body rows f).filter (·.lk == .held)

def prepareRows : List Row := ofFn expected Fn.prepareFlush
def appendRows : List Row := heldRows expected Fn.appendBatch
def flushRows : List Row := heldRows expected Fn.flush
def failRows : List Row := (afterWait expected true).filter (·.lk == .held)
def commitRows : List Row := (afterWait expected false).filter (·.lk == .held)

def prepareCmds : List Cmd := [
  ⟨[.flushing true], .retNone⟩,
  ⟨[.flushing false], .drain⟩,
  ⟨[.flushing false, .drainedEmpty true], .retNone⟩,
  ⟨[.flushing false, .drainedEmpty false], .build⟩,
  ⟨[.flushing false, .drainedEmpty false, .err true], .retErr⟩,
  ⟨[.flushing false, .drainedEmpty false, .err false], .setFlushing true⟩,
  ⟨[.flushing false, .drainedEmpty false, .err false], .keepInflight⟩,
  ⟨[.flushing false, .drainedEmpty false, .err false], .retArt⟩]

def appendCmds : List Cmd := [
  ⟨[.err false], .snapNext⟩,
  ⟨[.err false], .bumpNext⟩,
  ⟨[.err false], .bufAppend⟩,
  ⟨[.err false, .shouldFlush], .prepare⟩]

def flushCmds : List Cmd := [
  ⟨[.flushing true, .cancelled false], .waitCond⟩,
  ⟨[], .prepare⟩,
  ⟨[], .snapTarget⟩]

def failCmds : List Cmd := [
  ⟨[.err true], .requeue⟩,
  ⟨[.err true], .setFlushing false⟩,
  ⟨[.err true], .clearInflight⟩]

def commitCmds : List Cmd := [
  ⟨[.err false], .commit⟩,
  ⟨[.err false], .setFlushing false⟩,
  ⟨[.err false], .clearInflight⟩]

/-! ### Diagnostics (printed by the checks when the build of `Props/C01Ops.lean` fails) -/

def showRows (rs : List Row) : String := "; ".intercalate (rs.map Row.show)

def diagnose (rows : List Row) : List String :=
  showDiff "KafVerif.C01.log_ops_match" rows expected ++
  (if flushWaitIsLoop rows then [] else
    ["KafVerif.C01.flush_wait_is_loop: a flushCond.Wait() is not inside `for l.flushing` under l.mu (a woken waiter would not re-check the flag), or Flush no longer is ONE critical section up to prepareFlush: " ++
      showRows ((rows.filter fun r => r.ev.isWait && !(r.lk == .held && r.region == 1 && r.ev == .wait "l.flushCond" "for" "l.flushing")) ++
        ((body rows Fn.flush).filter fun r => (r.ev.isLock && r.region != 1) || (r.ev.isCallOf "l" "prepareFlush" && !(r.lk == .held && r.region == 1))))]) ++
  (if stateWritesLocked rows then [] else
    ["KafVerif.C01.state_writes_under_lock: log / buffer / registry state is written without the mutex: " ++
      showRows (rows.filter fun r => (r.ev.isWrite || r.ev.isBufferMutation) && !effHeld rows callDepth r)]) ++
  (if failureRequeuesUnderLock rows then [] else
    ["KafVerif.C01.failure_path_requeues_under_lock: the upload-failure path does not put l.flushingBatches back into the buffer in the critical section that clears l.flushing (before l.flushingBatches is cleared); its rows now: " ++
      showRows (afterWait rows true)]) ++
  (if emptyFlushTargetInPrepareRegion rows then [] else
    ["KafVerif.C01.empty_flush_target_in_prepare_region: the offset an empty Flush publishes is not `l.nextOffset - 1` read in the critical section of prepareFlush; Flush reads / publishes: " ++
      showRows ((body rows Fn.flush).filter fun r => r.ev.isRead || r.ev.isCallOf "l" "onFlush" || r.ev.isCallOf "l" "prepareFlush")]) ++
  (if drainReturnsCopy rows then [] else
    ["KafVerif.C01.drain_returns_copy: WriteBuffer.Drain hands out the buffer's own backing array (or prepareFlush keeps something else as flushingBatches): " ++
      showRows (((ofFn rows Fn.bufDrain).filter (·.ev.isRet)) ++
        ((body rows Fn.prepareFlush).filter fun r => r.ev.isCallOf "l.buffer" "Drain" || r.ev.writesTo "l.flushingBatches"))]) ++
  (if ackAfterBothUploads rows then [] else
    ["KafVerif.C01.ack_after_both_uploads: nil / error code 0 can reach the producer without both PUTs having returned nil (upload -> g.Wait -> error check -> return, in uploadFlush, Flush or handleProduce): " ++
      showRows (((ofFn rows Fn.uploadFlush).filter fun r => r.ev.isExt "s3" "UploadSegment" || r.ev.isExt "s3" "UploadIndex" || r.ev.isSync || r.ev.isRet) ++
        ((body rows Fn.flush).filter fun r => r.ev.isCallOf "l" "uploadFlush" || r.ev.isRet) ++
        ((body rows Fn.handleProduce).filter fun r => r.ev.isCallOf "plog" "AppendBatch" || r.ev.isCallOf "plog" "Flush" || r.ev == .jump "continue" || r.ev == .reply "p.ErrorCode" "0"))]) ++
  (if onflushAfterCommit rows then [] else
    ["KafVerif.C01.onflush_after_commit: onFlush (-> UpdateOffsets) can run before the segment list is committed / before uploadFlush returned nil: " ++
      showRows (((afterWait rows false).filter fun r => r.ev.writesTo "l.segments" || r.ev.isRet) ++
        (rows.filter fun r => r.ev.isCallOf "l" "onFlush" || r.ev.isCallOf "l" "uploadFlush" || r.ev.isExt "store" "UpdateOffsets"))]) ++
  (if appendIsOneRegion rows then [] else
    ["KafVerif.C01.append_is_one_critical_section: AppendBatch no longer takes the base offset, advances l.nextOffset and appends to the buffer (then ShouldFlush / prepareFlush) in ONE hold of l.mu: " ++
      showRows ((body rows Fn.appendBatch).filter fun r => r.ev.isLock || r.ev.isRead || r.ev.isWrite || r.ev.isCallOf "l.buffer" "Append" || r.ev.isCallOf "l" "prepareFlush" || (match r.ev with | .unlock .. => true | _ => false))]) ++
  (if commitIsOneRegion rows then [] else
    ["KafVerif.C01.commit_is_one_critical_section: the commit of a flushed segment (l.segments, l.flushing = false, l.flushingBatches = nil, Broadcast) is no longer ONE hold of l.mu: " ++
      showRows ((afterWait rows false).filter fun r => r.ev.isLock || r.ev.isWrite || r.ev.isNotify || (match r.ev with | .unlock .. => true | _ => false))]) ++
  (if registryRecheckInFlight rows then [] else
    ["KafVerif.C01.registry_recheck_in_flight: the singleflight callback of getPartitionLog no longer looks the partition up (under h.logMu.RLock) before it opens a new log: a late caller builds a second PartitionLog for the partition; callback rows up to NextOffset: " ++
      showRows ((initCallback rows).take (((idxOf (·.ev.isExt "store" "NextOffset") (initCallback rows)).getD 0) + 1))]) ++
  (if restoreBeforeRegister rows then [] else
    ["KafVerif.C01.restore_before_register: getPartitionLog no longer registers exactly the log that was opened at store.NextOffset and restored by RestoreFromS3 (unconditionally, error returned) under the write lock: " ++
      showRows ((initCallback rows).filter fun r => r.ev.isExt "store" "NextOffset" || r.ev.isCallOf "plog" "RestoreFromS3" || r.ev.isCallOf "storage" "NewPartitionLog" || r.ev.isWrite || r.ev.isExt "store" "UpdateOffsets")]) ++
  (if buildErrorsKnown rows then [] else
    ["KafVerif.C01.build_errors_known: BuildSegment (called by prepareFlush AFTER Drain) / IndexBuilder.BuildBytes has an error return other than `no batches`, `empty payload` and the errors of its writes into a bytes.Buffer: it can now fail on batches AppendBatch accepted; error returns now: " ++
      showRows (((body rows Fn.buildSegment) ++ (body rows Fn.indexBuildBytes)).filter (·.ev.isErrRet))]) ++
  (if prepareExitsInstallOrRequeue rows then [] else
    ["KafVerif.C01.prepare_exits_install_or_requeue: an exit of prepareFlush behind the Drain call neither installs the drained batches as l.flushingBatches nor re-queues them (and is not the error exit of a BuildSegment that cannot fail on accepted batches): the batches of OTHER producers drained with it are dropped, their Flush finds an empty buffer and acknowledges; prepareFlush now: " ++
      showRows (body rows Fn.prepareFlush)]) ++
  (if lockBalanced rows then [] else
    ["KafVerif.C01.lock_balanced: a return leaves with the mutex held, or an Unlock does not match what is held: " ++
      showRows (rows.filter fun r => match r.ev with
        | .ret _ _ u => !((r.lk == .free && !u) || ((r.lk == .held || r.lk == .rheld) && u) || (r.lk == .inherit && !r.entry && !u))
        | .unlock _ m => !((m == "w" && r.lk == .held) || (m == "r" && r.lk == .rheld))
        | _ => false)])

end KafVerif.LogOps
