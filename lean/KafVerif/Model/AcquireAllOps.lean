import KafVerif.Model.SrcOps
/-!
C19, static tie on the control skeleton of `PartitionLeaseManager.AcquireAll` (`pkg/metadata/partition_lease.go`), regenerated
by go/ast on every run (`harness/C18/tools/extract`, table `acquireall`, `lean/KafVerif/Gen/C18LeaseOps.lean`, def
`acquireAllRows`; row format `Model/SrcOps.lean`).  In this table every local that is returned (`results`) is tracked, so each
store into a result slot is a `write` row, and `<local>.Add/Done/Wait` are `call` rows.

`acquirePartitionLeases` reads "no error in the result slot" as "lease held".  A result slot starts at its zero value
(`Err == nil`), so the gate (`Model/ProduceGate.lean`: `acquireAll`, `ofRes none = .other`) is only sound when every slot of a
partition that was not already owned is WRITTEN from the return value of an `Acquire` call before ANY return:
no return may leave the collection early (e.g. on `ctx.Done()`), and the fan-out must be joined before the final return.
Only string equality and prefix tests are used (cheap in the kernel).
-/
namespace KafVerif.AcquireAllOps
open KafVerif.SrcOps

def fnName : String := "AcquireAll"

/-- the table the model was written against (HEAD) -/
def expected : List Row := [
  ⟨"AcquireAll", [], [],
     .write "results" "" "make([]AcquireResult, len(partitions))" false⟩,
  ⟨"AcquireAll", ["for i, p := range partitions"], [],
     .write "results[i].Partition" "" "p" false⟩,
  ⟨"AcquireAll", ["for i, p := range partitions", "!m.lm.Owns(partitionResourceID(p.Topic, p.Partition))"], [],
     .write "needAcquire" "" "append(needAcquire, i)" false⟩,
  ⟨"AcquireAll", ["len(needAcquire) == 0"], ["needAcquire"],
     .ret ["results"]⟩,
  ⟨"AcquireAll", ["len(needAcquire) != 0", "for _, idx := range needAcquire"], ["needAcquire"],
     .call "wg.Add" ["1"] false⟩,
  ⟨"AcquireAll", ["len(needAcquire) != 0", "for _, idx := range needAcquire", "in func literal", "deferred"], ["needAcquire"],
     .call "wg.Done" [] false⟩,
  ⟨"AcquireAll", ["len(needAcquire) != 0", "for _, idx := range needAcquire", "in func literal"], ["needAcquire"],
     .call "Acquire" ["ctx", "partitions[idx].Topic", "partitions[idx].Partition"] false⟩,
  ⟨"AcquireAll", ["len(needAcquire) != 0", "for _, idx := range needAcquire", "in func literal"], ["needAcquire"],
     .write "results[idx].Err" "" "Acquire#1.0" false⟩,
  ⟨"AcquireAll", ["len(needAcquire) != 0"], ["needAcquire"],
     .call "wg.Wait" [] false⟩,
  ⟨"AcquireAll", ["len(needAcquire) != 0"], ["needAcquire"],
     .ret ["results"]⟩]

/-! ### tolerant reading of the table (names of the locals may change the exact table, not these) -/

def isRet (r : Row) : Bool :=
  match r.ev with
  | .ret _ => true
  | _ => false

/-- a guard that makes the row conditional on a race or a loop iteration: `select …`, `for …` -/
def racyGuard (g : String) : Bool := hasPrefix "select" g || hasPrefix "for" g

/-- the row is a join of the fan-out (`wg.Wait()`, `g.Wait()`) -/
def isJoin (r : Row) : Bool :=
  match r.ev with
  | .call f _ _ => hasInfix ".Wait" f
  | _ => false

/-- the row is the early return for "nothing to acquire": guarded by exactly one condition, `len(<need>) == 0` -/
def isNothingToDo (r : Row) : Bool :=
  match r.guard with
  | [g] => hasPrefix "len(" g && hasInfix ") == 0" g
  | _ => false

/-- every guard of `a` also dominates `b` -/
def guardsWithin (a b : Row) : Bool := a.guard.all fun g => b.guard.contains g

/-- returns that are neither "nothing to acquire" nor preceded by a join that dominates them, or that sit inside a
`select`/loop (a return that can leave the collection of the outcomes early) -/
def earlyReturns : List Row → List Row → List Row
  | _, [] => []
  | before, r :: rest =>
    let bad := isRet r && !isNothingToDo r &&
      (r.guard.any racyGuard || !(before.any fun j => isJoin j && guardsWithin j r))
    (if bad then [r] else []) ++ earlyReturns (before ++ [r]) rest

/-- a store into the error slot of a result -/
def isErrSlotWrite (r : Row) : Bool :=
  match r.ev with
  | .write target _ _ _ => hasInfix "]." target && hasInfix "Err" target
  | _ => false

/-- … whose value is the return value of an `Acquire` call of the same function -/
def fromAcquire (r : Row) : Bool :=
  match r.ev with
  | .write _ _ value _ => hasPrefix "Acquire#" value
  | _ => false

/-- error-slot stores that do not store an `Acquire` result directly, or that are conditional on a race -/
def indirectSlotWrites (rows : List Row) : List Row :=
  rows.filter fun r => isErrSlotWrite r && (!fromAcquire r || r.guard.any (hasPrefix "select"))

/-- the partitions that get an Acquire are exactly the ones NOT already owned: the only condition on joining the
to-acquire list is the negated `Owns` test -/
def needListGuarded (rows : List Row) : Bool :=
  rows.any fun r =>
    match r.ev with
    | .write _ _ value _ => hasPrefix "append(" value && r.guard.any (hasPrefix "!m.lm.Owns(") &&
        (r.guard.filter fun g => !(hasPrefix "for" g) && !(hasPrefix "!m.lm.Owns(" g)).isEmpty
    | _ => false

/-- **no result slot is left at its zero value**: every return of `AcquireAll` is either "nothing to acquire" or comes after
the join of the fan-out and outside any `select`/loop; there is a store of an `Acquire` return value into the error slot;
and no error-slot store is indirect (through a channel message) or conditional on a race. -/
def noZeroValueResult (rows : List Row) : Bool :=
  (earlyReturns [] rows).isEmpty && (indirectSlotWrites rows).isEmpty &&
  (rows.any fun r => isErrSlotWrite r && fromAcquire r) && (rows.any isRet) && needListGuarded rows

def showRow (r : Row) : String := r.show

/-- diagnostics printed by checks/C19.py when the obligations of `Props/C19Ops.lean` no longer build -/
def diagnose (rows : List Row) : List String :=
  (if noZeroValueResult rows then [] else
    ["KafVerif.C19.acquireAll_no_zero_value_result: AcquireAll can return a result slot that was never written from an Acquire call " ++
     "(Err == nil reads as 'lease held'): " ++
     "; ".intercalate (((earlyReturns [] rows).map fun r => "early return — " ++ r.show) ++
                       ((indirectSlotWrites rows).map fun r => "indirect/conditional slot store — " ++ r.show) ++
                       (if rows.any fun r => isErrSlotWrite r && fromAcquire r then [] else ["no store of an Acquire result into a result slot"]) ++
                       (if needListGuarded rows then [] else ["the to-acquire list is not 'every partition that is not owned'"]))]) ++
  showDiff "KafVerif.C19.acquireall_ops_match" rows expected

end KafVerif.AcquireAllOps
