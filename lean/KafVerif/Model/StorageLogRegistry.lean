import KafVerif.Prelude.Basic
/-!
Model of `handler.getPartitionLog` (`cmd/broker/main.go`): the per-broker registry
`h.logs[topic][partition]` and how concurrent first requests for a partition open it.

    fast path:  RLock; look up h.logs; hit → use it                       (`enter`)
    for {       logInit.Do(key, fn)   -- singleflight: join a call in flight, else run fn   (`doCall`)
      fn:       re-check h.logs under RLock; hit → return it               (`recheck`)
                store.NextOffset  → ErrUnknownTopic ends the call          (`next`)
                NewPartitionLog; RestoreFromS3; offset sync                (leader `.restoring id`)
                Lock; h.logs[topic][partition] = plog                      (`publish`)
      on ErrUnknownTopic (auto-create): ensureTopic → store.CreateTopic; continue  (`mk`)
    }           -- NOTE: `continue` goes back to Do, not to the fast path

One step = one lock region / one store or S3 call / one singleflight decision.  Everyone who
waited on a call gets the call's result.  `Variant.recheck = false` is the code without the
re-check inside `fn`.  The StorageLog model (C01/C05/C06) has ONE `Mem` per broker incarnation;
`one_log_per_partition` (Props/C06) is what justifies that.
-/
namespace KafVerif.StorageLogRegistry

inductive Stage where
  | recheck
  | next
  | restoring (id : Nat)
deriving Repr, DecidableEq

inductive RPc where
  | idle
  | missed                 -- about to call logInit.Do (fast path missed, or back from ensureTopic)
  | leader (st : Stage)    -- runs the singleflight callback
  | waiter                 -- joined a call in flight
  | create                 -- got ErrUnknownTopic; about to call store.CreateTopic
  | got (id : Nat)         -- holds PartitionLog `id` and goes on to AppendBatch / Flush / Read
  | failed
deriving Repr, DecidableEq

structure Variant where
  recheck : Bool
deriving Repr, DecidableEq

def code : Variant := ⟨true⟩
def noRecheck : Variant := ⟨false⟩

structure State where
  topic : Bool             -- the topic exists in the metadata store
  reg : Option Nat         -- h.logs[topic][partition]
  created : Nat            -- PartitionLog objects constructed so far (fresh ids)
  pubs : Nat               -- ghost: how many times the registry entry was written
  flight : Option Nat      -- singleflight: the goroutine running the callback for this key
  pcs : Nat → RPc

def init (topic : Bool) : State :=
  { topic := topic, reg := none, created := 0, pubs := 0, flight := none, pcs := fun _ => .idle }

def setPc (s : State) (t : Nat) (pc : RPc) : State :=
  { s with pcs := fun j => if j = t then pc else s.pcs j }

/-- the call of leader `t` returns: the leader and everyone who joined get the same result -/
def finish (s : State) (t : Nat) (res : RPc) : State :=
  { s with flight := none, pcs := fun j => if j = t then res else if s.pcs j = .waiter then res else s.pcs j }

inductive Ev where
  | enter (t : Nat)
  | doCall (t : Nat)
  | recheck (t : Nat)
  | next (t : Nat) (ok : Bool)
  | publish (t : Nat) (ok : Bool)   -- ok = false: RestoreFromS3 failed, the log is dropped
  | mk (t : Nat) (ok : Bool)
deriving Repr, DecidableEq

def step (v : Variant) (s : State) : Ev → Option State
  | .enter t =>
    match s.pcs t with
    | .idle => some (setPc s t (match s.reg with | some id => .got id | none => .missed))
    | _ => none
  | .doCall t =>
    match s.pcs t with
    | .missed =>
      match s.flight with
      | some _ => some (setPc s t .waiter)
      | none => some { setPc s t (.leader (if v.recheck then .recheck else .next)) with flight := some t }
    | _ => none
  | .recheck t =>
    match s.pcs t with
    | .leader .recheck =>
      match s.reg with
      | some id => some (finish s t (.got id))
      | none => some (setPc s t (.leader .next))
    | _ => none
  | .next t ok =>
    match s.pcs t with
    | .leader .next =>
      if ok then
        if s.topic then some { setPc s t (.leader (.restoring s.created)) with created := s.created + 1 }
        else some (finish s t .create)
      else some (finish s t .failed)
    | _ => none
  | .publish t ok =>
    match s.pcs t with
    | .leader (.restoring id) =>
      if ok then some { finish s t (.got id) with reg := some id, pubs := s.pubs + 1 }
      else some (finish s t .failed)
    | _ => none
  | .mk t ok =>
    match s.pcs t with
    | .create => if ok then some { setPc s t .missed with topic := true } else some (setPc s t .failed)
    | _ => none

def run (v : Variant) (s : State) : List Ev → Option State
  | [] => some s
  | e :: es => match step v s e with
    | some s' => run v s' es
    | none => none

inductive Reachable (v : Variant) (topic : Bool) : State → Prop where
  | init : Reachable v topic (init topic)
  | step {s s' : State} (e : Ev) : Reachable v topic s → step v s e = some s' → Reachable v topic s'

end KafVerif.StorageLogRegistry
