import KafVerif.Model.GoStrK
/-!
Model of `pkg/operator/snapshot.go`: `BuildClusterMetadata`, `buildReplicaIDs`.

Counts are `Int` as read from the CRD (`*int32` = `Option Int`); loops `for i := 0; i < n; i++`
are `loopFrom i k` (k iterations left).  `make([]T, n)` with negative n is a Go panic.
-/
namespace KafVerif.OpSnapshot
open KafVerif.GoStr

structure ClusterSpec where
  name : List Char
  namespace_ : List Char
  replicas : Option Int
  advertisedHost : List Char
  advertisedPort : Option Int
deriving Repr, DecidableEq

structure TopicSpec where
  name : List Char
  partitions : Int
deriving Repr, DecidableEq

structure Broker where
  nodeId : Int
  host : List Char
  port : Int
deriving Repr, DecidableEq

structure Partition where
  id : Int
  leader : Int
  replicas : List Int
  isr : List Int
deriving Repr, DecidableEq

structure Topic where
  name : List Char
  partitions : List Partition
deriving Repr, DecidableEq

structure Metadata where
  brokers : List Broker
  controllerId : Int
  topics : List Topic
deriving Repr, DecidableEq

def natStr (n : Nat) : List Char := (Nat.repr n).toList

def s_brokerSfx : List Char := ['-', 'b', 'r', 'o', 'k', 'e', 'r']
def s_broker : List Char := s_brokerSfx ++ ['-']
def s_headless : List Char := s_brokerSfx ++ ['-', 'h', 'e', 'a', 'd', 'l', 'e', 's', 's']
def s_svc : List Char := ".svc.cluster.local".toList

/-- `replicas := 1; if Replicas != nil && *Replicas > 0 { replicas = *Replicas }` -/
def effReplicas (c : ClusterSpec) : Nat :=
  match c.replicas with
  | some r => if r > 0 then r.toNat else 1
  | none => 1

def effPort (c : ClusterSpec) : Int :=
  match c.advertisedPort with
  | some p => if p > 0 then p else 9092
  | none => 9092

/-- `fmt.Sprintf("%s-broker-%d.%s.%s.svc.cluster.local", name, i, headlessSvc, namespace)` -/
def podHost (c : ClusterSpec) (i : Nat) : List Char :=
  c.name ++ s_broker ++ natStr i ++ ['.'] ++ (c.name ++ s_headless) ++ ['.'] ++ c.namespace_ ++ s_svc

def brokerHost (c : ClusterSpec) (i : Nat) : List Char :=
  let host := trimSpace c.advertisedHost
  if effReplicas c > 1 ∨ host = [] then podHost c i else host

/-- the broker loop: `k` iterations left, current index `i` -/
def brokersFrom (c : ClusterSpec) (i : Nat) : Nat → List Broker
  | 0 => []
  | k + 1 => { nodeId := i, host := brokerHost c i, port := effPort c } :: brokersFrom c (i + 1) k

/-- `buildReplicaIDs` -/
def replicaIDsFrom (i : Nat) : Nat → List Int
  | 0 => []
  | k + 1 => (i : Int) :: replicaIDsFrom (i + 1) k

def replicaIDs (n : Nat) : List Int := replicaIDsFrom 0 n

/-- the partition loop of one topic -/
def partitionsFrom (ids : List Int) (i : Nat) : Nat → List Partition
  | 0 => []
  | k + 1 =>
    let leader := if ids.length > 0 then ids.getD (i % ids.length) 0 else ids.getD 0 0
    { id := i, leader := leader, replicas := ids, isr := ids } :: partitionsFrom ids (i + 1) k

/-- `BuildClusterMetadata`; `panic` = `make` with a negative partition count. -/
def build (c : ClusterSpec) (topics : List TopicSpec) : GoResult Metadata :=
  let r := effReplicas c
  let ids := replicaIDs r
  if topics.any (fun t => t.partitions < 0) then .panic
  else .ok {
    brokers := brokersFrom c 0 r
    controllerId := 0
    topics := topics.map fun t => { name := t.name, partitions := partitionsFrom ids 0 t.partitions.toNat } }

/-! ### what `cluster_controller.go` deploys (names only) -/

/-- `reconcileBrokerDeployment`: StatefulSet name `<name>-broker` -/
def stsName (c : ClusterSpec) : List Char := c.name ++ s_brokerSfx
/-- `brokerHeadlessServiceName`: `<name>-broker-headless` (the StatefulSet's `serviceName`) -/
def headlessName (c : ClusterSpec) : List Char := c.name ++ s_headless
/-- `reconcileBrokerDeployment`: `replicas := 3; if Replicas != nil { replicas = *Replicas }` -/
def stsReplicas (c : ClusterSpec) : Int := match c.replicas with | some r => r | none => 3

/-- Kubernetes' stable network identity of pod `i` of StatefulSet `sts` governed by headless Service `svc` -/
def k8sPodDNS (sts : List Char) (i : Nat) (svc ns : List Char) : List Char :=
  sts ++ ['-'] ++ natStr i ++ ['.'] ++ svc ++ ['.'] ++ ns ++ s_svc

end KafVerif.OpSnapshot
