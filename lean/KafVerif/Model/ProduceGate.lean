import KafVerif.Model.Lease
/-!
Model of the lease / health gating of `handleProduce` (cmd/broker/main.go) per partition:

  acquirePartitionLeases (AcquireAll: Owns? else Acquire)             -- before the loop, for ALL partitions
  per topic:      ACL (allowTopic)                    -> TOPIC_AUTHORIZATION_FAILED (29)
  per partition:  etcdAvailable()                     -> REQUEST_TIMED_OUT (7)
                  lease error NotOwner / ShuttingDown -> NOT_LEADER_OR_FOLLOWER (6)
                  any other lease error               -> REQUEST_TIMED_OUT (7)
                  s3Health.State() != healthy         -> backpressureErrorCode (7 degraded, -1 otherwise)
                  getPartitionLog error               -> UNKNOWN_SERVER_ERROR (-1)
                  NewRecordBatchFromBytes error       -> UNKNOWN_SERVER_ERROR (-1)
                  AppendBatch error                   -> backpressureErrorCode
                  acks != 0 && flushOnAck: Flush err  -> backpressureErrorCode
                  otherwise                           -> 0

and of the interleaved system "lease protocol ∥ handler" that the full C19 statement is about:
the handler's lease step and its append are two separate steps with arbitrary lease-protocol steps
in between (nothing re-checks ownership after `acquirePartitionLeases`).
-/
namespace KafVerif.ProduceGate

open KafVerif.Lease

/-- outcome of `AcquireAll` for one partition (`nil` also when leasing is off) -/
inductive LeaseRes where
  | nil | notOwner | shuttingDown | other
deriving DecidableEq, Repr

inductive S3 where
  | healthy | degraded | unavailable
deriving DecidableEq, Repr

structure PartIn where
  aclOk : Bool
  etcdUp : Bool
  lease : LeaseRes
  s3 : S3
  logOk : Bool
  batchOk : Bool
  appendOk : Bool
  flushOk : Bool
  acks0 : Bool
  flushOnAck : Bool
deriving DecidableEq, Repr

structure PartOut where
  code : Int
  appended : Bool      -- AppendBatch accepted the batch
  flushed : Bool       -- a segment upload for this partition was attempted and succeeded
deriving DecidableEq, Repr

def backpressure : S3 → Int
  | .degraded => 7
  | _ => -1

def producePart (i : PartIn) : PartOut :=
  if !i.aclOk then ⟨29, false, false⟩
  else if !i.etcdUp then ⟨7, false, false⟩
  else match i.lease with
    | .notOwner => ⟨6, false, false⟩
    | .shuttingDown => ⟨6, false, false⟩
    | .other => ⟨7, false, false⟩
    | .nil =>
      if i.s3 ≠ .healthy then ⟨backpressure i.s3, false, false⟩
      else if !i.logOk then ⟨-1, false, false⟩
      else if !i.batchOk then ⟨-1, false, false⟩
      else if !i.appendOk then ⟨backpressure i.s3, false, false⟩
      else if !i.acks0 && i.flushOnAck then
        if i.flushOk then ⟨0, true, true⟩ else ⟨backpressure i.s3, true, false⟩
      else ⟨0, true, false⟩

def ofRes : Option Res → LeaseRes
  | some .ok => .nil
  | some .notOwner => .notOwner
  | some .shuttingDown => .shuttingDown
  | some .err => .other
  | none => .other

/-! ### `acquirePartitionLeases` / `PartitionLeaseManager.AcquireAll` over the lease model

`AcquireAll` returns one result per requested partition: partitions already in the ownership set are
skipped (result nil, no etcd round trip), EVERY other one gets an `Acquire` call whose error is its
result.  `acquirePartitionLeases` turns the non-nil results into a map; a partition without an entry
counts as "lease fine" (`leaseOf` defaults to nil) — which is only sound because every requested
partition did get an attempt (`acquireAll_covers_every_partition`, `acquireAll_nil_owned`).
The acquires run concurrently in the code; they touch different resources, so the sequential fold
yields the same results (request partitions are assumed pairwise distinct).

CANCELLATION.  `AcquireAll` takes the caller's `ctx`.  `cancel p = some k` means: ctx is done after `k` further steps of
the Acquire of partition `p`.  A cancelled Acquire stops where it is (what it already wrote to etcd stays, `Op.abort`) and its
result is an ERROR — never nil: `AcquireAll` joins every Acquire it started before it returns, so a slot is always written from
the return value of its Acquire call (static tie: `KafVerif.C19.acquireAll_no_zero_value_result` on the regenerated skeleton
of `AcquireAll`).  A variant that stops collecting on `ctx.Done()` and returns the slots still at their zero value would make
`cancelAcquire … 0` answer `some .ok`, which `acquireAll_nil_owned` refutes. -/

def isTxnPC : PC → Bool
  | .txn _ => true
  | .re _ => true
  | _ => false

/-- drive the in-flight acquire `(b, r)` to completion; `fail`: its lease transactions error out -/
def finishAcquire (b r : Nat) (fail : Bool) : Nat → Lease.State → Lease.State × Option Res
  | 0, l => (l, none)
  | fuel + 1, l =>
    match l.acq b r with
    | none => (l, none)
    | some pc =>
      if fail && isTxnPC pc then ((Lease.step .byRev l (.abort b r)).1, some .err)
      else
        match Lease.step .byRev l (.step b r) with
        | (l', some x) => (l', some x)
        | (l', none) => finishAcquire b r fail fuel l'

/-- one `Acquire(r)` call of broker `b`, run to completion -/
def runAcquire (l : Lease.State) (b r : Nat) (fail : Bool) : Lease.State × Option Res :=
  match Lease.step .byRev l (.acquire b r) with
  | (l1, some x) => (l1, some x)
  | (l1, none) => finishAcquire b r fail 12 l1

/-- the in-flight acquire `(b, r)` when ctx is done after `k` further steps: it finishes if it gets there first, otherwise it
is abandoned where it stands and the call returns the context error -/
def cancelAcquire (b r : Nat) : Nat → Lease.State → Lease.State × Option Res
  | 0, l => ((Lease.step .byRev l (.abort b r)).1, some .err)
  | k + 1, l =>
    match l.acq b r with
    | none => (l, none)
    | some _ =>
      match Lease.step .byRev l (.step b r) with
      | (l', some x) => (l', some x)
      | (l', none) => cancelAcquire b r k l'

/-- one `Acquire(ctx, r)` call of broker `b` whose ctx is done after `k` steps -/
def runAcquireCancel (l : Lease.State) (b r k : Nat) : Lease.State × Option Res :=
  match Lease.step .byRev l (.acquire b r) with
  | (l1, some x) => (l1, some x)
  | (l1, none) => cancelAcquire b r k l1

/-- the Acquire of partition `r` inside `AcquireAll`, with or without cancellation -/
def acquireOne (l : Lease.State) (b r : Nat) (fail : Bool) : Option Nat → Lease.State × Option Res
  | none => runAcquire l b r fail
  | some k => runAcquireCancel l b r k

/-- `AcquireAll` as a map over the request's partitions (`cancel p`: see above) -/
def acquireAll (b : Nat) (fail : Bool) (cancel : Nat → Option Nat) :
    Lease.State → List Nat → Lease.State × List (Nat × LeaseRes)
  | l, [] => (l, [])
  | l, p :: ps =>
    if owns l b p then
      let r := acquireAll b fail cancel l ps
      (r.1, (p, .nil) :: r.2)
    else
      let a := acquireOne l b p fail (cancel p)
      let r := acquireAll b fail cancel a.1 ps
      (r.1, (p, ofRes a.2) :: r.2)

/-- no cancellation (ctx outlives the call) -/
def noCancel : Nat → Option Nat := fun _ => none

/-- `leaseErrors[partition]`: no entry = no error -/
def leaseOf (results : List (Nat × LeaseRes)) (p : Nat) : LeaseRes :=
  match results.find? (fun x => x.1 == p) with
  | some x => x.2
  | none => .nil

/-- the lease/health gating of one produce request: leases for ALL partitions first, then the
per-partition decision list (`env p` = everything but the lease result) -/
def produceRequest (b : Nat) (fail : Bool) (cancel : Nat → Option Nat) (env : Nat → PartIn) (l : Lease.State)
    (parts : List Nat) : Lease.State × List (Nat × PartOut) :=
  let a := acquireAll b fail cancel l parts
  (a.1, parts.map fun p => (p, producePart { env p with lease := leaseOf a.2 p }))

/-! ### interleaved system: lease protocol steps ∥ one handler per broker -/

/-- a recorded append: broker, partition, and whether the broker held the lease at that moment
(locally, and in etcd) -/
structure Append where
  broker : Nat
  res : Nat
  heldLocal : Bool
  heldEtcd : Bool
deriving DecidableEq, Repr

structure Sys where
  l : Lease.State
  passed : Nat → Nat → Bool      -- handler of broker b is past the lease step for partition r
  appends : List Append

inductive SOp where
  | lease (op : Lease.Op)        -- any step of the lease protocol (any broker)
  | gate (b r : Nat)             -- handler: lease result for r is nil (AcquireAll found/made r owned)
  | append (b r : Nat)           -- handler: AppendBatch + Flush + ack for r
deriving Repr

def etcdOwner (s : Lease.State) (r : Nat) : Option Nat := (s.kv r).map (·.owner)

def sstep (y : Sys) : SOp → Sys
  | .lease op => { y with l := (Lease.step .byRev y.l op).1 }
  | .gate b r => if owns y.l b r then { y with passed := fun x z => if x = b ∧ z = r then true else y.passed x z } else y
  | .append b r =>
    if y.passed b r then
      { y with passed := fun x z => if x = b ∧ z = r then false else y.passed x z,
               appends := ⟨b, r, owns y.l b r, etcdOwner y.l r == some b⟩ :: y.appends }
    else y

def sinit : Sys := { l := Lease.init, passed := fun _ _ => false, appends := [] }

def srun (ops : List SOp) : Sys := ops.foldl sstep sinit

end KafVerif.ProduceGate
