import KafVerif.Model.KafkaVarint
/-!
Shared byte-format model, part 3: the Kafka v2 *record* (what a producer writes inside a record
batch) and the record decoders of the add-on processors.

* `encRec`       — the wire format (length varint, attributes, varlong timestamp delta, varint
                   offset delta, nullable key / value, headers), as every Kafka client writes it.
* `decodeRecord` — `decodeRecord` + `readNullableBytes` + the header loop of
                   `addons/processors/{iceberg,sql}-processor/internal/decoder/decoder.go`,
                   parameterised by the variant (`Cfg`): which varint reader is used for the
                   timestamp delta and for every other field, and whether the length / count
                   guards added by fix C34 are present (`guard := false` is the pre-fix code).

Go `make` goes through an allocator parameter `mk : Int → Nat → GoResult Unit`
(`goMakeLim lim` = real Go: panics on a negative size or on more than `lim` bytes;
`mkOk` = an allocator that never fails).  `bytes.Reader` is the list of unread bytes.
-/
namespace KafVerif.Kafka

structure Hdr where
  key : Bytes
  val : Option Bytes
deriving DecidableEq, Repr

/-- a record as produced (deltas relative to the batch) -/
structure Rec where
  attrs : Nat := 0
  tsDelta : Int
  offDelta : Int
  key : Option Bytes
  val : Option Bytes
  hdrs : List Hdr
deriving DecidableEq, Repr

/-- a record as decoded (absolute offset / timestamp) -/
structure DRec where
  offset : Int
  ts : Int
  key : Option Bytes
  val : Option Bytes
  hdrs : List Hdr
deriving DecidableEq, Repr

/-! ### encoder (wire format) -/

def encOptBytes : Option Bytes → Bytes
  | none => varint (-1)
  | some b => varint b.length ++ b

def encHdr (h : Hdr) : Bytes := varint h.key.length ++ h.key ++ encOptBytes h.val

def encHdrs : List Hdr → Bytes
  | [] => []
  | h :: t => encHdr h ++ encHdrs t

def recBody (r : Rec) : Bytes :=
  UInt8.ofNat r.attrs :: (varint r.tsDelta ++ (varint r.offDelta ++ (encOptBytes r.key ++
    (encOptBytes r.val ++ (varint r.hdrs.length ++ encHdrs r.hdrs)))))

def encRec (r : Rec) : Bytes := varint (recBody r).length ++ recBody r

def encRecs : List Rec → Bytes
  | [] => []
  | r :: t => encRec r ++ encRecs t

/-! ### allocator -/

abbrev Alloc := Int → Nat → GoResult Unit

/-- Go `make([]T, n)` / `make([]T, 0, n)` with `sizeof(T) = elem` on a runtime that cannot
satisfy more than `lim` bytes (stands for: panics "len out of range" / dies "out of memory"). -/
def goMakeLim (lim : Nat) : Alloc := fun n elem =>
  if n < 0 then .panic else if n.toNat * elem > lim then .panic else .ok ()

def mkOk : Alloc := fun _ _ => .ok ()

/-- `sizeof(Header)` = string (16) + slice (24); `sizeof(Record)` = string, int32 (padded), 2×int64, 3 slices -/
def hdrSize : Nat := 40
def recSize : Nat := 112

/-! ### decoder variants -/

structure Cfg where
  /-- reader used for record length, offset delta, key/value/header lengths, header count -/
  rdInt : Bytes → Option (Int × Bytes)
  /-- reader used for the timestamp delta -/
  rdTs : Bytes → Option (Int × Bytes)
  /-- the bounds checks of fix C34 are present -/
  guard : Bool
  /-- arithmetic of the record-count check: 0 = as coded, in the 64-bit `int` after widening;
  k > 0 = the variant `recordCount*k > int32(len(recordsData))` computed in int32 (the product wraps) -/
  cnt32 : Nat

/-- iceberg decoder (with fix C34) -/
def cfgIceberg : Cfg := ⟨readVarint64, readVarint64, true, 0⟩
/-- sql decoder (with fixes C07 and C34) -/
def cfgSql : Cfg := ⟨readVarint32Sql, readVarint64, true, 0⟩
/-- pre-fix variants, kept to recognise a regression -/
def cfgIcebergOld : Cfg := ⟨readVarint64, readVarint64, false, 0⟩
def cfgSqlOld : Cfg := ⟨readVarint32Sql, readVarint32Sql, false, 0⟩
/-- sql decoder with only the C34 guards (timestamp still read as a 32-bit varint) -/
def cfgSqlTs32 : Cfg := ⟨readVarint32Sql, readVarint32Sql, true, 0⟩

/-- sql decoder whose record-count check is computed in int32 with multiplier 7
(`recordCount*7 > int32(len(recordsData))`) — a regression kept to be recognised -/
def cfgSqlCntMul7 : Cfg := ⟨readVarint32Sql, readVarint64, true, 7⟩

/-- the record-count sanity check of `decodeBatchRecords`, with Go integer widths.
As coded (`cnt32 = 0`): `int(recordCount) > len(recordsData)` — the int32 header field is widened to the
64-bit `int` (exact, `wrap64` is the identity on int32 values) and compared with `len`, a non-negative `int`;
nothing can wrap.  Variant (`cnt32 = k`): `recordCount*k > int32(len(recordsData))` in int32 — the product wraps. -/
def countExceeds (c : Cfg) (recordCount : Int) (len : Nat) : Bool :=
  if c.cnt32 = 0 then decide (wrap64 recordCount > (len : Int))
  else decide (wrap32 (recordCount * c.cnt32) > wrap32 len)

theorem countExceeds_std {c : Cfg} (h0 : c.cnt32 = 0) {rc : Int} (hi : InI32 rc) (len : Nat) :
    countExceeds c rc len = decide (rc > (len : Int)) := by
  unfold countExceeds
  have h64 : InI64 rc := by unfold InI32 at hi; unfold InI64; omega
  simp [h0, wrap64_of_in h64]

/-- `io.ReadFull(reader, buf)` with `len(buf) = n` -/
def readN (n : Nat) (r : Bytes) : Option (Bytes × Bytes) :=
  if n ≤ r.length then some (r.take n, r.drop n) else none

/-- `readNullableBytes` -/
def readNullable (mk : Alloc) (c : Cfg) (len : Int) (r : Bytes) : GoResult (Option Bytes × Bytes) :=
  if len < 0 then .ok (none, r)
  else if len = 0 then .ok (some [], r)
  else if c.guard && len > r.length then .err
  else do
    mk len 1
    let p ← ofOpt (readN len.toNat r)
    .ok (some p.1, p.2)

/-- one iteration of the header loop -/
def readHeader (mk : Alloc) (c : Cfg) (r : Bytes) : GoResult (Hdr × Bytes) := do
  let k ← ofOpt (c.rdInt r)
  let kb ← readNullable mk c k.1 k.2
  let v ← ofOpt (c.rdInt kb.2)
  let vb ← readNullable mk c v.1 v.2
  .ok (⟨kb.1.getD [], vb.1⟩, vb.2)

/-- `for i := 0; i < headerCount; i++ { … }` -/
def readHeaders (mk : Alloc) (c : Cfg) : Nat → Bytes → GoResult (List Hdr)
  | 0, _ => .ok []
  | n + 1, r => do
    let h ← readHeader mk c r
    let t ← readHeaders mk c n h.2
    .ok (h.1 :: t)

/-- the part of `decodeRecord` that works on `recordData` -/
def decodeRecordBody (mk : Alloc) (c : Cfg) (base firstTs : Int) (data : Bytes) : GoResult DRec :=
  match data with
  | [] => .err                                  -- buf.ReadByte() (attributes) at EOF
  | _ :: b1 => do
    let ts ← ofOpt (c.rdTs b1)
    let od ← ofOpt (c.rdInt ts.2)
    let kl ← ofOpt (c.rdInt od.2)
    let key ← readNullable mk c kl.1 kl.2
    let vl ← ofOpt (c.rdInt key.2)
    let val ← readNullable mk c vl.1 vl.2
    let hc ← ofOpt (c.rdInt val.2)
    if c.guard && (hc.1 < 0 || hc.1 > hc.2.length) then .err
    else do
      mk hc.1 hdrSize
      let hs ← readHeaders mk c hc.1.toNat hc.2
      .ok ⟨wrap64 (base + od.1), wrap64 (firstTs + ts.1), key.1, val.1, hs⟩

/-- `decodeRecord(reader, baseOffset, baseTimestamp, …)`: returns the record and the reader's
unread bytes -/
def decodeRecord (mk : Alloc) (c : Cfg) (base firstTs : Int) (r : Bytes) : GoResult (DRec × Bytes) := do
  let len ← ofOpt (c.rdInt r)
  if len.1 < 0 then .err
  else if c.guard && len.1 > len.2.length then .err
  else do
    mk len.1 1
    let p ← ofOpt (readN len.1.toNat len.2)
    let rec_ ← decodeRecordBody mk c base firstTs p.1
    .ok (rec_, p.2)

/-- `for i := int32(0); i < recordCount; i++ { decodeRecord … }` -/
def decodeRecords (mk : Alloc) (c : Cfg) (base firstTs : Int) : Nat → Bytes → GoResult (List DRec)
  | 0, _ => .ok []
  | n + 1, r => do
    let d ← decodeRecord mk c base firstTs r
    let t ← decodeRecords mk c base firstTs n d.2
    .ok (d.1 :: t)

end KafVerif.Kafka
