import KafVerif.Prelude.Basic
/-!
Model of the flush protocol of `pkg/storage/log.go` (`PartitionLog.AppendBatch`, `Flush`,
`prepareFlush`, `uploadFlush`, `RestoreFromS3`), of `WriteBuffer` (`buffer.go`), of the ack logic
of `handleProduce` and of `getPartitionLog` (`cmd/broker/main.go`), and of
`metadata.Store.UpdateOffsets` — as one transition system shared by C01, C05 and C06.

Granularity (DESIGN 3): one step = one `l.mu` critical section, one external call (S3 upload,
`store.UpdateOffsets`), or one condition-variable wake-up.  Everything a goroutine does between
two such points is atomic because it touches only goroutine-local data.

* offsets are `Nat` (the log starts at 0; int64 overflow is out of scope);
* a batch is `(id, base, n)`: `n = lastOffsetDelta + 1 ≥ 1` offsets starting at `base`; `id` is a
  ghost payload identity (the harness writes it into the record value);
* a segment range is `(base, end)` with `end = lastOffset + 1` (avoids `Nat` subtraction);
  `UpdateOffsets(last)` stores `last + 1`, which is what `hw` holds (`next_offset` key);
* S3 is two maps key ↦ object; the key of a segment/index object is the base offset of the
  artifact.  An object is the batch list of the artifact it was built from.  `kb` is a ghost bound
  above every key ever written; `ListSegments` + `sort.Slice` is the ascending scan `0 … kb-1`.
* `Variant` selects the code before/after the proposed "fix:" commits
  (`requeue`: C01-requeue-failed-flush, `atomicTarget`: C05-empty-flush-target,
  `monotone`: C05-monotone-update-offsets).  `fixed` is the main model, `old` the pre-fix one.
* `BuildSegment` (called by `prepareFlush` AFTER `Drain`) is a step that may fail: `buildOk` are its
  error returns as they are in the source (`strictBuild = false`: empty batch list, empty payload) or
  with the extra validation "record count < 0" of a hardening change (`strictBuild = true`);
  `requeueBuild` says what the error exit of `prepareFlush` does with the drained batches (the
  source: nothing — they are dropped; `true`: `Requeue`, like the upload-failure path).  In
  `requeueBuild` shapes a fault oracle (`State.fault`, toggled by the environment event
  `buildFault`) can make ANY `BuildSegment` call fail.  A batch carries the two header facts these
  rules look at: `mc` = the record count the client declared (bytes 57..61, int32, never validated
  by `AppendBatch`) and `len` = the payload length (`AppendBatch` accepts only `len ≥ 8`:
  `PatchRecordBatchBaseOffset` writes bytes 0..8; the produce path only `len ≥ 61`).
-/
namespace KafVerif.StorageLog

structure Batch where
  id : Nat
  base : Nat
  n : Nat
  mc : Int      -- header record count as declared by the client (`RecordBatch.MessageCount`)
  len : Nat     -- `len(batch.Bytes)`
deriving DecidableEq, Repr, Inhabited

/-- one past the last offset of the batch (`BaseOffset + LastOffsetDelta + 1`) -/
def Batch.endOff (b : Batch) : Nat := b.base + b.n

/-- `artifact.LastOffset + 1`: end of the last batch (0 for the empty list, never built). -/
def endOf : List Batch → Nat
  | [] => 0
  | [b] => b.endOff
  | _ :: b :: bs => endOf (b :: bs)

/-- `artifact.BaseOffset = batches[0].BaseOffset` -/
def baseOf : List Batch → Nat
  | [] => 0
  | b :: _ => b.base

/-- Thresholds of `WriteBuffer.ShouldFlush` that the harness uses (MaxBytes and FlushInterval are
set to 0 = off there; 0 = off here too). -/
structure Cfg where
  maxBatches : Nat
  maxMessages : Nat
deriving Repr, DecidableEq

/-- `WriteBuffer.ShouldFlush` (sizeBytes == 0 ⇔ no batches: every batch has ≥ 8 bytes).
`messageCount` is the running sum of the DECLARED record counts (`int(batch.MessageCount)`, reset by
`Drain`, re-added by `Requeue`) = the sum over the buffered batches; it can be negative. -/
def shouldFlush (c : Cfg) (buf : List Batch) : Bool :=
  !buf.isEmpty &&
    ((decide (0 < c.maxBatches) && decide (c.maxBatches ≤ buf.length)) ||
     (decide (0 < c.maxMessages) && decide ((c.maxMessages : Int) ≤ (buf.map (·.mc)).sum)))

/-- Volatile state of one `PartitionLog`. -/
structure Mem where
  next : Nat                      -- nextOffset
  buffer : List Batch             -- buffer.batches
  flushing : Bool
  inflight : List Batch           -- flushingBatches
  segments : List (Nat × Nat)     -- (baseOffset, lastOffset+1), in commit order
deriving Repr, DecidableEq

structure Variant where
  requeue : Bool        -- failed upload puts the drained batches back at the front of the buffer
  atomicTarget : Bool   -- empty Flush reads nextOffset in the critical section of prepareFlush
  monotone : Bool       -- UpdateOffsets never lowers next_offset
  strictBuild : Bool    -- BuildSegment also rejects a batch whose header declares a negative record count
  requeueBuild : Bool   -- prepareFlush's BuildSegment-error exit re-queues the drained batches
deriving Repr, DecidableEq

/-- the code as it is (with the three "fix:" commits): `BuildSegment` has its two input checks, the
error exit of `prepareFlush` drops what was drained -/
def fixed : Variant := ⟨true, true, true, false, false⟩
def old : Variant := ⟨false, false, false, false, false⟩

/-- `BuildSegment` returns no error: `len(batches) != 0`, no `len(batch.Bytes) == 0`
(`bytes.Buffer.Write` and `binary.Write` into a `bytes.Buffer` do not fail); `strict` adds the
check `batch.MessageCount < 0` of the hardening change. -/
def buildOk (strict : Bool) (bs : List Batch) : Bool :=
  !bs.isEmpty && bs.all (fun b => decide (0 < b.len)) && (!strict || bs.all (fun b => decide (0 ≤ b.mc)))

/-- does this call of `BuildSegment` fail?  By its own rule, or — only in shapes whose error exit
re-queues — because the fault oracle says so. -/
def buildFails (v : Variant) (fault : Bool) (bs : List Batch) : Bool :=
  !buildOk v.strictBuild bs || (v.requeueBuild && fault)

/-- result of `prepareFlush`: `(nil, nil)`, `(artifact, nil)`, `(nil, err)` -/
inductive Prep where
  | none
  | art (a : List Batch)
  | err
deriving Repr, DecidableEq

/-- `prepareFlush` (caller holds `l.mu`): `Drain` first, THEN `BuildSegment`; when that fails the
drained batches are in no field any more unless the error exit re-queues them. -/
def prepareFlush (v : Variant) (fault : Bool) (m : Mem) : Mem × Prep :=
  if m.flushing then (m, .none)
  else match m.buffer with
    | [] => (m, .none)
    | b :: bs =>
      if buildFails v fault (b :: bs) then
        ({ m with buffer := if v.requeueBuild then b :: bs else [] }, .err)
      else ({ m with buffer := [], flushing := true, inflight := b :: bs }, .art (b :: bs))

/-- Where a produce goroutine is.  `inA = true`: inside `AppendBatch`; `false`: inside `Flush`. -/
inductive Pc where
  | idle
  | appended (b : Batch)                       -- AppendBatch returned nil; Flush not entered yet
  | up (inA : Bool) (b : Batch) (art : List Batch) (seg idx : Option Bool)
                                               -- in uploadFlush; outcome of each upload once it returned
  | pub (inA : Bool) (b : Batch) (h : Nat)     -- about to call onFlush → UpdateOffsets(h-1)
  | emptyF (b : Batch)                         -- pre-fix only: Flush drained nothing, lock released
  | waitF (b : Batch)                          -- in `for l.flushing { l.flushCond.Wait() }`
  | acked (b : Batch)                          -- produce response: error code 0
  | failed (b : Batch)                         -- produce response: error code ≠ 0
deriving Repr, DecidableEq

structure State where
  cfg : Cfg
  mem : Option Mem                       -- none: broker down (crashed, not yet re-opened)
  segs : Nat → Option (List Batch)       -- S3 `segment-<base>.kfs`
  idxs : Nat → Option (List Batch)       -- S3 `segment-<base>.index` (artifact it was built from)
  kb : Nat                               -- ghost: every key ever written is < kb
  hw : Nat                               -- metadata store next_offset
  pcs : Nat → Pc
  acked : List Batch                     -- ghost: every batch ever acknowledged (survives crashes)
  nextId : Nat                           -- ghost: fresh batch ids
  fault : Bool                           -- fault oracle: `BuildSegment` fails while set (requeueBuild shapes only)

def init (cfg : Cfg) : State :=
  { cfg := cfg, mem := none, segs := fun _ => none, idxs := fun _ => none, kb := 0, hw := 0,
    pcs := fun _ => .idle, acked := [], nextId := 0, fault := false }

def setPc (s : State) (t : Nat) (pc : Pc) : State :=
  { s with pcs := fun t' => if t' = t then pc else s.pcs t' }

def put (f : Nat → Option (List Batch)) (k : Nat) (o : List Batch) : Nat → Option (List Batch) :=
  fun k' => if k' = k then some o else f k'

/-- `Flush` returned nil ⇒ `handleProduce` answers error code 0. -/
def ackNow (s : State) (t : Nat) (b : Batch) : State :=
  { setPc s t (.acked b) with acked := b :: s.acked }

/-- The empty-flush target of `Flush`: `current := l.nextOffset - 1; if current >= 0 { onFlush }`. -/
def emptyTarget (s : State) (m : Mem) (t : Nat) (b : Batch) : State :=
  if 1 ≤ m.next then setPc s t (.pub false b m.next) else ackNow s t b

/-- First critical section of `Flush` (also what a woken waiter re-executes). -/
def flushEnter (v : Variant) (s : State) (m : Mem) (t : Nat) (b : Batch) : State :=
  if m.flushing then setPc s t (.waitF b)
  else match prepareFlush v s.fault m with
    | (m', .art art) => { setPc s t (.up false b art none none) with mem := some m' }
    | (_, .none) => if v.atomicTarget then emptyTarget s m t b else setPc s t (.emptyF b)
    | (m', .err) => { setPc s t (.failed b) with mem := some m' }    -- `Flush` returns the build error

/-- `UpdateOffsets(h - 1)` on the store. -/
def storePut (v : Variant) (hw h : Nat) : Nat := if v.monotone then max hw h else h

def segEnd (l : List (Nat × Nat)) : Nat :=
  match l.getLast? with
  | some p => p.2
  | none => 0

/-- `RestoreFromS3`, second loop, over the ascending keys `0 … n-1`: a segment with its index is
registered; a segment without index is skipped when `base ≥ nextOffset` (= the store's value the
log was opened with) and makes the restore fail otherwise. -/
def scan (segs idxs : Nat → Option (List Batch)) (hw : Nat) : Nat → Option (List (Nat × Nat))
  | 0 => some []
  | n + 1 =>
    match scan segs idxs hw n with
    | none => none
    | some acc =>
      match segs n with
      | none => some acc
      | some o =>
        match idxs n with
        | some _ => some (acc ++ [(n, endOf o)])
        | none => if hw ≤ n then some acc else none

inductive Ev where
  | append (t n : Nat) (mc : Int) (len : Nat)
                              -- critical section of AppendBatch (n = lastOffsetDelta + 1 ≥ 1, declared
                              -- record count mc, payload length len ≥ 8)
  | flush (t : Nat)           -- Flush: first critical section
  | wake (t : Nat)            -- a waiter re-checks `l.flushing`
  | readNext (t : Nat)        -- pre-fix only: second critical section of an empty Flush
  | seg (t : Nat) (ok : Bool) -- UploadSegment returns
  | idx (t : Nat) (ok : Bool) -- UploadIndex returns
  | finish (t : Nat)          -- g.Wait() returned: commit / failure-reset critical section
  | pub (t : Nat) (ok : Bool) -- onFlush → store.UpdateOffsets returns (error is only logged)
  | crash
  | restore                   -- getPartitionLog: NextOffset, RestoreFromS3, offset sync
  | buildFault (on : Bool)    -- environment: the fault oracle of `BuildSegment` is switched on / off
deriving Repr, DecidableEq

/-- a produce of a well-formed batch: record count = lastOffsetDelta + 1, 61 header bytes + records -/
@[reducible] def Ev.wf (t n : Nat) : Ev := .append t n n (61 + 11 * n)

def step (v : Variant) (s : State) : Ev → Option State
  | .append t n mc len =>
    match s.mem, s.pcs t with
    | some m, .idle =>
      if 1 ≤ n ∧ 8 ≤ len then
        let b : Batch := { id := s.nextId, base := m.next, n := n, mc := mc, len := len }
        let m1 : Mem := { m with next := m.next + n, buffer := m.buffer ++ [b] }
        let s1 : State := { s with nextId := s.nextId + 1 }
        if shouldFlush s.cfg m1.buffer then
          match prepareFlush v s.fault m1 with
          | (m2, .art art) => some { setPc s1 t (.up true b art none none) with mem := some m2 }
          | (m2, .none) => some { setPc s1 t (.appended b) with mem := some m2 }
          | (m2, .err) => some { setPc s1 t (.failed b) with mem := some m2 }   -- AppendBatch returns (nil, err)
        else some { setPc s1 t (.appended b) with mem := some m1 }
      else none
    | _, _ => none
  | .flush t =>
    match s.mem, s.pcs t with
    | some m, .appended b => some (flushEnter v s m t b)
    | _, _ => none
  | .wake t =>
    match s.mem, s.pcs t with
    | some m, .waitF b => some (flushEnter v s m t b)
    | _, _ => none
  | .readNext t =>
    match s.mem, s.pcs t with
    | some m, .emptyF b => some (emptyTarget s m t b)
    | _, _ => none
  | .seg t ok =>
    match s.pcs t with
    | .up inA b art none i =>
      let s1 := setPc s t (.up inA b art (some ok) i)
      some (if ok then { s1 with segs := put s.segs (baseOf art) art, kb := max s.kb (baseOf art + 1) } else s1)
    | _ => none
  | .idx t ok =>
    match s.pcs t with
    | .up inA b art sg none =>
      let s1 := setPc s t (.up inA b art sg (some ok))
      some (if ok then { s1 with idxs := put s.idxs (baseOf art) art, kb := max s.kb (baseOf art + 1) } else s1)
    | _ => none
  | .finish t =>
    match s.mem, s.pcs t with
    | some m, .up inA b art (some so) (some io) =>
      if so && io then
        let m' : Mem := { m with segments := m.segments ++ [(baseOf art, endOf art)], flushing := false, inflight := [] }
        some { setPc s t (.pub inA b (endOf art)) with mem := some m' }
      else
        let m' : Mem := { m with buffer := if v.requeue then m.inflight ++ m.buffer else m.buffer,
                                 flushing := false, inflight := [] }
        some { setPc s t (.failed b) with mem := some m' }
    | _, _ => none
  | .pub t ok =>
    match s.pcs t with
    | .pub inA b h =>
      let s1 : State := if ok then { s with hw := storePut v s.hw h } else s
      some (if inA then setPc s1 t (.appended b) else ackNow s1 t b)
    | _ => none
  | .crash =>
    match s.mem with
    | some _ => some { s with mem := none, pcs := fun _ => .idle }
    | none => none
  | .restore =>
    match s.mem with
    | some _ => none
    | none =>
      match scan s.segs s.idxs s.hw s.kb with
      | none => some s
      | some l =>
        let e := segEnd l
        if s.hw < e then
          some { s with mem := some { next := e, buffer := [], flushing := false, inflight := [], segments := l },
                        hw := storePut v s.hw e }
        else
          some { s with mem := some { next := s.hw, buffer := [], flushing := false, inflight := [], segments := l } }
  | .buildFault on => some { s with fault := on }

def run (v : Variant) (s : State) : List Ev → Option State
  | [] => some s
  | e :: es => match step v s e with
    | some s' => run v s' es
    | none => none

inductive Reachable (v : Variant) (cfg : Cfg) : State → Prop where
  | init : Reachable v cfg (init cfg)
  | step {s s' : State} (e : Ev) : Reachable v cfg s → step v s e = some s' → Reachable v cfg s'

/-! ### the property predicates (also used by the driver's monitor output) -/

/-- C01: the batch is in an S3 segment object whose index object is present. -/
def Durable (s : State) (b : Batch) : Prop :=
  ∃ k o, s.segs k = some o ∧ b ∈ o ∧ (s.idxs k).isSome = true

def durableB (s : State) (b : Batch) : Bool :=
  (List.range s.kb).any fun k =>
    match s.segs k with
    | some o => o.contains b && (s.idxs k).isSome
    | none => false

/-- C05: offset `o` is covered by an S3 segment object whose index object is present. -/
def DurableOff (s : State) (o : Nat) : Prop :=
  ∃ k obj b, s.segs k = some obj ∧ (s.idxs k).isSome = true ∧ b ∈ obj ∧ b.base ≤ o ∧ o < b.endOff

def durableOffB (s : State) (o : Nat) : Bool :=
  (List.range s.kb).any fun k =>
    match s.segs k with
    | some obj => (s.idxs k).isSome && obj.any fun b => decide (b.base ≤ o) && decide (o < b.endOff)
    | none => false

/-- C06: the open log has a registered segment that covers the batch's base offset and whose S3
object holds the batch (so `Read(base)` finds it). -/
def Readable (s : State) (m : Mem) (b : Batch) : Prop :=
  ∃ p ∈ m.segments, p.1 ≤ b.base ∧ b.base < p.2 ∧
    ∃ o, s.segs p.1 = some o ∧ b ∈ o ∧ (s.idxs p.1).isSome = true

def readableB (s : State) (m : Mem) (b : Batch) : Bool :=
  m.segments.any fun p =>
    decide (p.1 ≤ b.base) && decide (b.base < p.2) &&
      (match s.segs p.1 with
       | some o => o.contains b && (s.idxs p.1).isSome
       | none => false)

end KafVerif.StorageLog
