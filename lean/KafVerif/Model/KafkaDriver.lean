import KafVerif.Model.KafkaRecovery
import KafVerif.Prelude.Driver
/-!
Line-protocol driver shared by `Driver/C07.lean`, `Driver/C08.lean`, `Driver/C34.lean`
(same canonical lines as the Go harnesses under `harness/C07`, `harness/C08`).
Nothing here is part of a theorem.
-/
namespace KafVerif.Kafka

def tokOpt : Option Bytes → String
  | none => "N"
  | some b => toHex b

def parseOptBytes (s : String) : Option (Option Bytes) :=
  if s = "N" then some none else (fromHex s).map some

def hdrStr (h : Hdr) : String := toHex h.key ++ "=" ++ tokOpt h.val

def drecStr (r : DRec) : String :=
  s!"{r.offset}:{r.ts}:{tokOpt r.key}:{tokOpt r.val}:" ++
    (if r.hdrs.isEmpty then "-" else joinWith "," (r.hdrs.map hdrStr))

def entriesStr (es : List (Int × Int)) : String :=
  if es.isEmpty then "-" else joinWith "," (es.map fun e => s!"{e.1}:{e.2}")

def resStr {α} (r : GoResult α) (f : α → String) : String :=
  match r with
  | .ok a => f a
  | .err => "err"
  | .panic => "panic"

def recsLine (rs : List DRec) : String :=
  (s!"ok {rs.length} " ++ joinWith " " (rs.map drecStr)).trimAscii.toString

/-! token parsers for `build` -/

abbrev P (α : Type) := List String → Option (α × List String)

def pInt : P Int
  | [] => none
  | s :: t => s.toInt?.map (·, t)

def pLit (l : String) : P Unit
  | [] => none
  | s :: t => if s = l then some ((), t) else none

def pOptBytes : P (Option Bytes)
  | [] => none
  | s :: t => (parseOptBytes s).map (·, t)

def pHdrs : Nat → P (List Hdr)
  | 0, ts => some ([], ts)
  | n + 1, ts => do
    let (k, ts) ← pOptBytes ts
    let (v, ts) ← pOptBytes ts
    let (rest, ts) ← pHdrs n ts
    some (⟨k.getD [], v⟩ :: rest, ts)

def pRec : P Rec := fun ts => do
  let (_, ts) ← pLit "R" ts
  let (attrs, ts) ← pInt ts
  let (tsd, ts) ← pInt ts
  let (od, ts) ← pInt ts
  let (k, ts) ← pOptBytes ts
  let (v, ts) ← pOptBytes ts
  let (nh, ts) ← pInt ts
  let (hs, ts) ← pHdrs nh.toNat ts
  some (⟨(attrs % 256).toNat, tsd, od, k, v, hs⟩, ts)

def pMany {α} (p : P α) : Nat → P (List α)
  | 0, ts => some ([], ts)
  | n + 1, ts => do
    let (x, ts) ← p ts
    let (xs, ts) ← pMany p n ts
    some (x :: xs, ts)

def pBatch : P Batch := fun ts => do
  let (_, ts) ← pLit "B" ts
  let (base, ts) ← pInt ts
  let (first, ts) ← pInt ts
  let (mx, ts) ← pInt ts
  let (lod, ts) ← pInt ts
  let (n, ts) ← pInt ts
  let (rs, ts) ← pMany pRec n.toNat ts
  some ({ base := base, lastOffsetDelta := lod, firstTs := first, maxTs := mx, recs := rs }, ts)

def sbatchStr (b : SBatch) : String := s!"{b.base}:{b.lastOffsetDelta}:{b.msgCount}:{toHex b.bytes}"

def batchesStr (bs : List SBatch) : String :=
  if bs.isEmpty then "-" else joinWith "," (bs.map sbatchStr)

/-- harness-side scan of all records with the PITR `scanRecord` (mirror of VerifScanSegment) -/
def scanRecs (mk : Alloc) (base first : Int) : Nat → Bytes → GoResult (List (Int × Int))
  | 0, _ => .ok []
  | n + 1, r => do
    let s ← scanRecord mk r
    let t ← scanRecs mk base first n s.2
    .ok ((wrap64 (base + s.1.2), wrap64 (first + s.1.1)) :: t)

def scanFrames (mk : Alloc) : Nat → Bytes → GoResult (List (Int × Int))
  | 0, _ => .ok []
  | fuel + 1, rem =>
    if rem.length < 12 then .ok []
    else
      let batchLen := beDec (sl rem 8 12)
      if batchLen = 0 then .ok []
      else
        let frameLen := 12 + batchLen
        if frameLen > rem.length then .err
        else
          let batch := rem.take frameLen
          if batch.length < 61 then .err
          else if toS16 (beDec (sl batch 21 23)) % 8 ≠ 0 then .err
          else do
            let rs ← scanRecs mk (toS64 (beDec (sl batch 0 8))) (toS64 (beDec (sl batch 27 35)))
                      (toS32 (beDec (sl batch 57 61))).toNat (batch.drop 61)
            let more ← scanFrames mk fuel (rem.drop frameLen)
            .ok (rs ++ more)

def scanSegment (mk : Alloc) (seg : Bytes) : GoResult (List (Int × Int)) :=
  if seg.length < 48 then .err
  else if sl seg 0 4 ≠ segMagic then .err
  else
    let body := sl seg 32 (seg.length - 16)
    scanFrames mk (body.length + 1) body

/-- contiguity test the Go harness uses before it runs the PartitionLog path -/
def contiguous : List Batch → Bool
  | [] => true
  | [b] => decide (b.lastOffsetDelta ≥ 0)
  | a :: b :: t => decide (a.lastOffsetDelta ≥ 0) && decide (b.base = a.base + a.lastOffsetDelta + 1) && contiguous (b :: t)

structure DriverCfg where
  variant : String
  crc : Bytes → Nat
  alloc : Alloc

def cfgOf (v : String) : Option Cfg :=
  if v = "iceberg" then some cfgIceberg
  else if v = "sql" then some cfgSql
  else if v = "iceberg_old" then some cfgIcebergOld
  else if v = "sql_old" then some cfgSqlOld
  else if v = "sql_ts32" then some cfgSqlTs32
  else if v = "sql_cntmul7" then some cfgSqlCntMul7
  else none

def doBuild (d : DriverCfg) (ts : List String) : String :=
  match (do
    let (iv, ts) ← pInt ts
    let (created, ts) ← pInt ts
    let (nb, ts) ← pInt ts
    let (bs, _) ← pMany pBatch nb.toNat ts
    some (iv, created, bs)) with
  | none => "bad-op"
  | some (iv, created, bs) =>
    let raws := bs.map (encBatch d.crc)
    match raws.mapM newRecordBatch with
    | none => "err"
    | some sbs =>
      match buildSegment d.crc (wrap32 iv) sbs created with
      | none => "err"
      | some a =>
        let log := if contiguous bs then "same" else "skip"
        s!"built base={a.base} last={a.last} count={a.count} entries={entriesStr a.entries} log={log} seg={toHex a.seg} idx={toHex a.idx}"

/-! `restore` op of C08 -/

def pObjs : Nat → List String → Option (Objs × Objs)
  | 0, _ => some ([], [])
  | fuel + 1, ts =>
    match ts with
    | [] => some ([], [])
    | "OBJ" :: t :: p :: b :: sh :: ih :: rest =>
      match t.toNat?, p.toInt?, b.toInt?, parseOptBytes sh, parseOptBytes ih, pObjs fuel rest with
      | some t, some p, some b, some sb, some ib, some (ss, is) =>
        let k : Key := ⟨t, p, b⟩
        some ((match sb with | some x => (k, x) :: ss | none => ss), (match ib with | some x => (k, x) :: is | none => is))
      | _, _, _, _, _, _ => none
    | _ => none

def intList (s : String) : Option (List Int) :=
  if s = "*" || s = "-" then some [] else (s.splitOn ",").mapM (·.toInt?)

def targetStr (s : S3) : String :=
  let keys := ((s.segs ++ s.idxs).filter (fun e => e.1.topic = 1)).map (fun e => (e.1.part, e.1.base))
  let keys := sortBy (fun (a b : Int × Int) => decide (a.1 < b.1) || (decide (a.1 = b.1) && decide (a.2 < b.2))) keys.eraseDups
  if keys.isEmpty then "-" else
  joinWith ";" (keys.map fun k =>
    s!"{k.1}/{k.2}/{tokOpt (oget s.segs ⟨1, k.1, k.2⟩)}/{tokOpt (oget s.idxs ⟨1, k.1, k.2⟩)}")

def sameObjs (a b : Objs) : Bool :=
  let fa := a.filter (fun e => e.1.topic ≠ 1)
  let fb := b.filter (fun e => e.1.topic ≠ 1)
  fa.length == fb.length && fa.all (fun e => oget fb e.1 == some e.2)

def doRestore (d : DriverCfg) (ts : List String) : String :=
  match ts with
  | r :: ps :: fs :: rest =>
    match r.toInt?, intList ps, intList fs, pObjs (rest.length + 1) rest with
    | some r, some ps, some fs, some (segs, idxs) =>
      let s0 : S3 := ⟨segs, idxs, 0, fs.map Int.toNat⟩
      let o := recoverTopic d.crc d.alloc r ps s0
      let head := match o.res with
        | .ok sums => "res=ok parts=" ++ (if sums.isEmpty then "-" else joinWith "," (sums.map fun (x : Summary) => s!"{x.part}:{x.copied}:{x.last}"))
        | .err => "res=err parts=-"
        | .panic => "res=panic parts=-"
      let same := sameObjs s0.segs o.s3.segs && sameObjs s0.idxs o.s3.idxs
      s!"{head} delfail={if o.delFailed then 1 else 0} target={targetStr o.s3} srcsame={if same then 1 else 0}"
    | _, _, _, _ => "bad-op"
  | _ => "bad-op"

def kafkaStep1 (d : DriverCfg) (ws : List String) : String :=
  match ws with
  | "build" :: ts => doBuild d ts
  | "restore" :: ts => doRestore d ts
  | ["pidx", hx] =>
    match fromHex hx with
    | none => "bad-op"
    | some b => resStr (parseIndexRoot d.alloc b) fun r => s!"ok {r.1} {entriesStr r.2}"
  | ["footer", hx] =>
    match fromHex hx with
    | none => "bad-op"
    | some b => match parseSegmentFooter b with
      | none => "err"
      | some l => s!"ok {l}"
  | ["scanrecs", hx] =>
    match fromHex hx with
    | none => "bad-op"
    | some b => resStr (scanSegment d.alloc b) fun rs =>
        (s!"ok {rs.length} " ++ joinWith " " (rs.map fun r => s!"{r.1}:{r.2}")).trimAscii.toString
  | ["collect", cut, hx] =>
    match cut.toInt?, fromHex hx with
    | some c, some b => resStr (collectRecoverable d.crc d.alloc b c) fun bs => s!"ok {bs.length} {batchesStr bs}"
    | _, _ => "bad-op"
  | ["plan", rs, cr, shx, ihx] =>
    match rs.toInt?, cr.toInt?, fromHex shx, fromHex ihx with
    | some r, some c, some s, some i =>
      resStr (buildRestorePlan d.crc d.alloc s i r c) fun p =>
        if p.keep then s!"ok keep=true base={p.base} last={p.last} seg={toHex p.seg} idx={toHex p.idx}"
        else "ok keep=false"
    | _, _, _, _ => "bad-op"
  | ["dec", hx] =>
    match fromHex hx with
    | none => "bad-op"
    | some b =>
      if d.variant = "skeleton" then resStr (decodeSkeleton b) recsLine
      else match cfgOf d.variant with
        | none => "bad-variant"
        | some c => resStr (decodeSegment d.alloc c b) recsLine
  | ["didx", hx] =>
    match fromHex hx with
    | none => "bad-op"
    | some b =>
      let r := if d.variant = "iceberg" then parseIndexIceberg d.alloc true b
               else if d.variant = "iceberg_old" then parseIndexIceberg d.alloc false b
               else if d.variant = "sql" then parseIndexSql d.alloc true b
               else parseIndexSql d.alloc false b
      resStr r fun es => s!"ok {entriesStr es}"
  | _ => "bad-op"

/-- a line may start with `@variant` to pick the decoder variant for that line only -/
def kafkaStep (d : DriverCfg) (ws : List String) : String :=
  match ws with
  | w :: rest => if w.startsWith "@" then kafkaStep1 { d with variant := (w.drop 1).toString } rest else kafkaStep1 d ws
  | [] => "bad-op"

end KafVerif.Kafka
