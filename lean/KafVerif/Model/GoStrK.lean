import KafVerif.Prelude.Hex
/-!
Go `strings` helpers used by the group-K models (Acl, SqlAcl, Bucket, Idoc).  Core Lean only.

Strings are `List Char` (a Go string that is valid UTF-8 is exactly a list of runes; the
harnesses only generate valid UTF-8 for the correspondence stream).

* `isSpace`    = `unicode.IsSpace` (complete table: Latin-1 part and the `White_Space` property)
* `trimSpace`  = `strings.TrimSpace`
* `equalFold`  = `strings.EqualFold` restricted to ASCII case folding (other runes compare
                 exactly; the generators keep action/resource/policy strings in that domain —
                 runes with a non-ASCII simple fold, e.g. U+212A KELVIN SIGN, are outside it)
-/
namespace KafVerif.GoStr

/-- `unicode.IsSpace`. -/
def isSpace (c : Char) : Bool :=
  let n := c.toNat
  n == 0x20 || (0x09 ≤ n && n ≤ 0x0d) || n == 0x85 || n == 0xA0 || n == 0x1680 ||
  (0x2000 ≤ n && n ≤ 0x200a) || n == 0x2028 || n == 0x2029 || n == 0x202f || n == 0x205f || n == 0x3000

def trimLeft (s : List Char) : List Char := s.dropWhile isSpace
def trimRight (s : List Char) : List Char := (s.reverse.dropWhile isSpace).reverse
/-- `strings.TrimSpace`. -/
def trimSpace (s : List Char) : List Char := trimRight (trimLeft s)

/-- ASCII lower-casing of one rune. -/
def lowerAscii (c : Char) : Char :=
  if 65 ≤ c.toNat ∧ c.toNat ≤ 90 then Char.ofNat (c.toNat + 32) else c

/-- `strings.EqualFold` on the ASCII-folding domain. -/
def equalFold (a b : List Char) : Bool := a.map lowerAscii == b.map lowerAscii

/-- `strings.HasPrefix`. -/
def hasPrefix (s p : List Char) : Bool := p.isPrefixOf s
/-- `strings.HasSuffix`. -/
def hasSuffix (s p : List Char) : Bool := p.reverse.isPrefixOf s.reverse

theorem trimSpace_idem_nil : trimSpace [] = [] := rfl

end KafVerif.GoStr

/-! Line-protocol helpers (driver side only, nothing is proved about them). -/
namespace KafVerif.GoStr

/-- hex of UTF-8 bytes ("-" = empty) → runes; `none` on bad hex or invalid UTF-8 -/
def runesOfHex (h : String) : Option (List Char) :=
  match KafVerif.fromHex h with
  | none => none
  | some bs => (String.fromUTF8? (ByteArray.mk bs.toArray)).map String.toList

def hexOfRunes (s : List Char) : String :=
  KafVerif.toHex (String.ofList s).toUTF8.toList

end KafVerif.GoStr
