import KafVerif.Prelude.Basic
/-!
Model of the LFS envelope marker check in the three client libraries and of the proxy's
envelope encoder.

* `pkg/lfs/envelope.go`            `IsLfsEnvelope`, `EncodeEnvelope` (field order of `Envelope`)
* `lfs-client-sdk/python/lfs_sdk/envelope.py`   `is_lfs_envelope`
* `lfs-client-sdk/js/src/envelope.ts`           `isLfsEnvelope`

Text decoders are modelled only as far as the marker test can see them.  The marker
`"kfs_lfs"` is pure ASCII, so the only thing that matters about a decoded string is which
ASCII characters are adjacent.  A decoded string is therefore a list of tokens
`some b` (the ASCII character b) / `none` (some non-ASCII character).

* JS `new TextDecoder().decode` (non-fatal UTF-8): never deletes input — every maximal run of
  non-ASCII bytes yields at least one non-ASCII character (a real one or U+FFFD); the model
  emits one `none` per non-ASCII byte (any positive number gives the same marker test).
  A BOM cannot be stripped because the first byte was already tested to be `{`.
* Python `bytes.decode("utf-8", errors="ignore")` (the code BEFORE the fix): well-formed
  multi-byte sequences give one `none`, ill-formed bytes are DELETED.  Modelled exactly
  (Unicode table 3-7), see `pyDecodeIgnore`.

`…Old` = behaviour before the proposed "fix:" commits, kept with witness theorems.
-/
namespace KafVerif.LfsEnvelope

/-- `"kfs_lfs"` including the quotes (9 bytes). -/
def marker : Bytes := [0x22, 0x6b, 0x66, 0x73, 0x5f, 0x6c, 0x66, 0x73, 0x22]

/-- `bytes.Contains` / Python `in` / JS `includes`: needle occurs as a contiguous block. -/
def containsB {α : Type} [BEq α] (needle : List α) : List α → Bool
  | [] => needle.isPrefixOf []
  | b :: rest => needle.isPrefixOf (b :: rest) || containsB needle rest

/-- Go `IsLfsEnvelope`. -/
def isEnvGo (value : Bytes) : Bool :=
  if value.length < 15 then false
  else if value.head? != some 0x7b then false
  else
    let max := if value.length < 50 then value.length else 50
    containsB marker (value.take max)

/-- Python `is_lfs_envelope` after the fix: `b'"kfs_lfs"' in value[:50]` on the bytes. -/
def isEnvPy (value : Bytes) : Bool :=
  if value.isEmpty || value.length < 15 then false
  else if value.take 1 != [0x7b] then false
  else containsB marker (value.take 50)

/-! ### decoders as token streams -/

def isCont (b : UInt8) : Bool := 0x80 ≤ b && b ≤ 0xBF

/-- number of continuation bytes of the well-formed UTF-8 sequence starting with lead byte `b`
followed by `rest` (Unicode 15 table 3-7), or `none` when ill-formed / truncated. -/
def contCount (b : UInt8) (rest : Bytes) : Option Nat :=
  let in2 (lo hi : UInt8) (x : UInt8) : Bool := lo ≤ x && x ≤ hi
  match rest with
  | [] => none
  | c1 :: r1 =>
    if 0xC2 ≤ b && b ≤ 0xDF then (if isCont c1 then some 1 else none)
    else
      let ok3 : Bool :=
        (b == 0xE0 && in2 0xA0 0xBF c1) || (0xE1 ≤ b && b ≤ 0xEC && isCont c1) ||
        (b == 0xED && in2 0x80 0x9F c1) || (0xEE ≤ b && b ≤ 0xEF && isCont c1)
      let ok4 : Bool :=
        (b == 0xF0 && in2 0x90 0xBF c1) || (0xF1 ≤ b && b ≤ 0xF3 && isCont c1) ||
        (b == 0xF4 && in2 0x80 0x8F c1)
      match r1 with
      | [] => none
      | c2 :: r2 =>
        if ok3 then (if isCont c2 then some 2 else none)
        else if ok4 then
          match r2 with
          | [] => none
          | c3 :: _ => if isCont c2 && isCont c3 then some 3 else none
        else none

/-- Python `decode("utf-8", errors="ignore")` as a token stream (`skip` = continuation bytes
of an already validated sequence still to consume). -/
def pyDecodeAux : Nat → Bytes → List (Option UInt8)
  | _, [] => []
  | skip + 1, _ :: rest => pyDecodeAux skip rest
  | 0, b :: rest =>
    if b < 0x80 then some b :: pyDecodeAux 0 rest
    else match contCount b rest with
      | some n => none :: pyDecodeAux n rest
      | none => pyDecodeAux 0 rest          -- the ill-formed byte is deleted

def pyDecodeIgnore (bs : Bytes) : List (Option UInt8) := pyDecodeAux 0 bs

/-- JS `TextDecoder` (replacement mode): nothing is deleted. -/
def tok (b : UInt8) : Option UInt8 := if b < 0x80 then some b else none
def jsDecode (bs : Bytes) : List (Option UInt8) := bs.map tok

def markerS : List (Option UInt8) := marker.map some

/-- Python `is_lfs_envelope` BEFORE the fix. -/
def isEnvPyOld (value : Bytes) : Bool :=
  if value.isEmpty || value.length < 15 then false
  else if value.take 1 != [0x7b] then false
  else containsB markerS (pyDecodeIgnore (value.take 50))

/-- JS `isLfsEnvelope` after the fix (`value.length < 15`). -/
def isEnvJs (value : Bytes) : Bool :=
  if value.isEmpty || value.length < 15 then false
  else if value.head? != some 123 then false
  else containsB markerS (jsDecode (value.take (min 50 value.length)))

/-- JS `isLfsEnvelope` BEFORE the fix (`value.length === 0`). -/
def isEnvJsOld (value : Bytes) : Bool :=
  if value.isEmpty || value.length == 0 then false
  else if value.head? != some 123 then false
  else containsB markerS (jsDecode (value.take (min 50 value.length)))

/-! ### `EncodeEnvelope` = guard + `json.Marshal` of the struct (field order, omitempty) -/

structure Envelope where
  version : Int
  bucket : Bytes
  key : Bytes
  size : Int
  sha256 : Bytes
  checksum : Bytes
  checksumAlg : Bytes
  contentType : Bytes
  originalHeaders : List (Bytes × Bytes)     -- a Go map: distinct keys, any order
  createdAt : Bytes
  proxyId : Bytes
deriving Repr, DecidableEq

def ascii (s : String) : Bytes := s.toList.map fun c => UInt8.ofNat c.toNat

def hexNib (n : Nat) : UInt8 := if n < 10 then UInt8.ofNat (48 + n) else UInt8.ofNat (87 + n)

/-- `\u00XX` -/
def u00 (b : UInt8) : Bytes := ascii "\\u00" ++ [hexNib (b.toNat / 16), hexNib (b.toNat % 16)]

/-- Go `encoding/json` string body with HTML escaping on (the default of `json.Marshal`). -/
def jsonBody : Nat → Bool → Bytes → Bytes
  | _, _, [] => []
  | skip + 1, emit, b :: rest => (if emit then [b] else []) ++ jsonBody skip emit rest
  | 0, _, b :: rest =>
    if b < 0x80 then
      (if b == 0x22 then ascii "\\\""
       else if b == 0x5c then ascii "\\\\"
       else if b == 0x08 then ascii "\\b"
       else if b == 0x0c then ascii "\\f"
       else if b == 0x0a then ascii "\\n"
       else if b == 0x0d then ascii "\\r"
       else if b == 0x09 then ascii "\\t"
       else if b < 0x20 || b == 0x3c || b == 0x3e || b == 0x26 then u00 b
       else [b]) ++ jsonBody 0 true rest
    else match contCount b rest with
      | none => ascii "\\ufffd" ++ jsonBody 0 true rest
      | some n =>
        if b == 0xE2 && rest.take 2 == [0x80, 0xA8] then ascii "\\u2028" ++ jsonBody 2 false rest
        else if b == 0xE2 && rest.take 2 == [0x80, 0xA9] then ascii "\\u2029" ++ jsonBody 2 false rest
        else b :: jsonBody n true rest

def jsonStr (s : Bytes) : Bytes := [0x22] ++ jsonBody 0 true s ++ [0x22]

def intBytes (n : Int) : Bytes := ascii (toString n)

/-- bytewise lexicographic `<` (Go sorts map keys as strings). -/
def bytesLt : Bytes → Bytes → Bool
  | [], [] => false
  | [], _ :: _ => true
  | _ :: _, [] => false
  | a :: as, b :: bs => a < b || (a == b && bytesLt as bs)

def insertKV (p : Bytes × Bytes) : List (Bytes × Bytes) → List (Bytes × Bytes)
  | [] => [p]
  | q :: rest => if bytesLt q.1 p.1 then q :: insertKV p rest else p :: q :: rest

def sortKV (l : List (Bytes × Bytes)) : List (Bytes × Bytes) := l.foldr insertKV []

def joinComma : List Bytes → Bytes
  | [] => []
  | [x] => x
  | x :: y :: rest => x ++ [0x2c] ++ joinComma (y :: rest)

def jsonMap (m : List (Bytes × Bytes)) : Bytes :=
  [0x7b] ++ joinComma ((sortKV m).map fun p => jsonStr p.1 ++ [0x3a] ++ jsonStr p.2) ++ [0x7d]

/-- `,"name":<str>` unless the value is empty (`omitempty`). -/
def optField (name : String) (v : Bytes) : Bytes :=
  if v.isEmpty then [] else ascii (",\"" ++ name ++ "\":") ++ jsonStr v

/-- the part of the document after `{"kfs_lfs":<version>` -/
def encodeTail (str : Bytes → Bytes) (e : Envelope) : Bytes :=
  ascii ",\"bucket\":" ++ str e.bucket ++ ascii ",\"key\":" ++ str e.key ++
  ascii ",\"size\":" ++ intBytes e.size ++ ascii ",\"sha256\":" ++ str e.sha256 ++
  optField "checksum" e.checksum ++ optField "checksum_alg" e.checksumAlg ++
  optField "content_type" e.contentType ++
  (if e.originalHeaders.isEmpty then [] else ascii ",\"original_headers\":" ++ jsonMap e.originalHeaders) ++
  optField "created_at" e.createdAt ++ optField "proxy_id" e.proxyId ++ [0x7d]

/-- `json.Marshal(env)` with the string encoder as a parameter (the theorems hold for every
string encoder; the driver instantiates `jsonStr`). -/
def marshalWith (str : Bytes → Bytes) (e : Envelope) : Bytes :=
  [0x7b] ++ marker ++ [0x3a] ++ intBytes e.version ++ encodeTail str e

/-- `EncodeEnvelope`: `none` = the "invalid envelope" error. -/
def encodeWith (str : Bytes → Bytes) (e : Envelope) : Option Bytes :=
  if e.bucket.isEmpty || e.key.isEmpty || e.sha256.isEmpty || e.version == 0 then none
  else some (marshalWith str e)

def encode (e : Envelope) : Option Bytes := encodeWith jsonStr e

end KafVerif.LfsEnvelope
