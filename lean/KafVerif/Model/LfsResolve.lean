import KafVerif.Model.LfsEnvelope
/-!
Model of the LFS read side:

* `pkg/lfs/checksum.go`   `NormalizeChecksumAlg`, `EnvelopeChecksum` (fallback rules), `ComputeChecksum`
* `pkg/lfs/resolver.go`   `Resolver.Resolve`
* `pkg/lfs/consumer.go`   `Consumer.Unwrap`
* `cmd/proxy/lfs_http.go` integrity validation of `handleHTTPDownload` + `streamDownloadWithVerify`

Hash functions are a parameter `H : Alg → Bytes → Bytes` (lower-case hex digest as bytes); every
theorem holds for every `H`.  JSON decoding of the envelope is a parameter: the model starts from
the decoded fields (`Env`) or from a raw value that is not / not decodable as an envelope.
Strings are byte lists; `strings.TrimSpace` / `strings.ToLower` are modelled on ASCII (the
correspondence generators stay in ASCII for the algorithm name and the digest).

`…Old` = behaviour before the proposed "fix:" commit.
-/
namespace KafVerif.LfsResolve
open KafVerif.LfsEnvelope (isEnvGo ascii)

inductive Alg where
  | sha256 | md5 | crc32 | none
deriving DecidableEq, Repr

def Alg.name : Alg → String
  | .sha256 => "sha256" | .md5 => "md5" | .crc32 => "crc32" | .none => "none"

def isSpace (b : UInt8) : Bool := b == 0x20 || (0x09 ≤ b && b ≤ 0x0d)

def trimSpace (s : Bytes) : Bytes := ((s.dropWhile isSpace).reverse.dropWhile isSpace).reverse

def lowerByte (b : UInt8) : UInt8 := if 0x41 ≤ b && b ≤ 0x5a then b + 32 else b
def toLower (s : Bytes) : Bytes := s.map lowerByte

/-- `NormalizeChecksumAlg`: `none` = "unsupported checksum algorithm". -/
def normalizeAlg (raw : Bytes) : Option Alg :=
  let val := toLower (trimSpace raw)
  if val.isEmpty then some .sha256
  else if val == ascii "sha256" then some .sha256
  else if val == ascii "md5" then some .md5
  else if val == ascii "crc32" then some .crc32
  else if val == ascii "none" then some .none
  else Option.none

/-- the decoded envelope fields the read side looks at -/
structure Env where
  version : Int
  bucket : Bytes
  key : Bytes
  sha256 : Bytes
  checksum : Bytes
  checksumAlg : Bytes
deriving Repr, DecidableEq

/-- the field validation at the end of `DecodeEnvelope` -/
def decodeValid (e : Env) : Bool :=
  !(e.version == 0 || e.bucket.isEmpty || e.key.isEmpty || e.sha256.isEmpty)

/-- `EnvelopeChecksum`: `none` = error; `some (alg, expected, ok)`. -/
def envelopeChecksum (e : Env) : Option (Alg × Bytes × Bool) :=
  match normalizeAlg e.checksumAlg with
  | Option.none => Option.none
  | some .none => some (.none, [], false)
  | some .sha256 =>
    if !e.checksum.isEmpty then some (.sha256, e.checksum, true)
    else if !e.sha256.isEmpty then some (.sha256, e.sha256, true)
    else some (.sha256, [], false)
  | some alg =>          -- md5, crc32
    if !e.checksum.isEmpty then some (alg, e.checksum, true)
    else if !e.sha256.isEmpty then some (.sha256, e.sha256, true)
    else some (alg, [], false)

/-- `ComputeChecksum` (`none` → ""). -/
def computeChecksum (H : Alg → Bytes → Bytes) (alg : Alg) (data : Bytes) : Bytes :=
  match alg with
  | .none => []
  | a => H a data

/-- a record value as the readers see it -/
inductive Value where
  | raw (v : Bytes)          -- arbitrary bytes; if they pass the marker check they do not decode
  | env (e : Env)            -- JSON of an envelope with these fields (starts with `{"kfs_lfs":`)
deriving Repr

inductive Out where
  | passthrough (v : Bytes)
  | err
  | ok (blob : Bytes) (alg : Alg) (expected : Bytes)
deriving Repr, DecidableEq

structure Cfg where
  maxSize : Int
  validate : Bool

/-- `Resolver.Resolve`.  `s3 = none` is the nil reader; `fetch key = none` is a fetch error. -/
def resolve (H : Alg → Bytes → Bytes) (cfg : Cfg) (s3 : Option (Bytes → Option Bytes)) : Value → Out
  | .raw v => if !isEnvGo v then .passthrough v else .err      -- DecodeEnvelope fails
  | .env e =>
    if !decodeValid e then .err else
    match s3 with
    | Option.none => .err
    | some fetch =>
      match fetch e.key with
      | Option.none => .err
      | some payload =>
        if cfg.maxSize > 0 && (payload.length : Int) > cfg.maxSize then .err else
        match envelopeChecksum e with
        | Option.none => .err
        | some (alg, expected, ok) =>
          if cfg.validate && ok then
            if computeChecksum H alg payload != expected then .err
            else .ok payload alg expected
          else .ok payload alg expected

/-- `Consumer.Unwrap` (no size limit exists there). -/
def unwrap (H : Alg → Bytes → Bytes) (validate : Bool) (fetch : Bytes → Option Bytes) : Value → Out
  | .raw v => if !isEnvGo v then .passthrough v else .err
  | .env e =>
    if !decodeValid e then .err else
    match fetch e.key with
    | Option.none => .err
    | some blob =>
      if validate then
        match envelopeChecksum e with
        | Option.none => .err
        | some (alg, expected, ok) =>
          if ok then
            if computeChecksum H alg blob != expected then .err else .ok blob alg expected
          else .ok blob alg expected
      else .ok blob .none []

/-! ### proxy download endpoint -/

def isHexDigit (b : UInt8) : Bool :=
  (0x30 ≤ b && b ≤ 0x39) || (0x61 ≤ b && b ≤ 0x66) || (0x41 ≤ b && b ≤ 0x46)

inductive Mode where
  | stream | presign | invalid
deriving DecidableEq, Repr

/-- `strings.ToLower(strings.TrimSpace(req.Mode))`, "" = stream -/
def parseMode (raw : Bytes) : Mode :=
  let m := toLower (trimSpace raw)
  if m.isEmpty || m == ascii "stream" then .stream
  else if m == ascii "presign" then .presign
  else .invalid

structure Integrity where
  sha256 : Bytes
  checksumAlg : Bytes
  size : Int
deriving Repr

/-- what S3 returns for GetObject: error, or a body that yields `bytes` and then EOF / a read error -/
inductive Obj where
  | missing
  | body (bytes : Bytes) (readErr : Bool)
deriving Repr

inductive Resp where
  | status (code : Nat)                         -- an error status with a JSON error body (no object bytes)
  | presigned (sha : Bytes) (size : Int)        -- 200, presign mode: echoes the caller's integrity
  | bytes (body : Bytes)                        -- 200, stream mode: these bytes are sent
deriving Repr, DecidableEq

def maxInt64 : Int := 9223372036854775807

/-- `streamDownloadWithVerify` after the fix (`written != expectedSize`). -/
def streamVerify (sha : Bytes → Bytes) (expectedSHA : Bytes) (expectedSize : Int) : Obj → Resp
  | .missing => .status 502
  | .body bytes readErr =>
    let limit := (expectedSize + 1).toNat          -- io.LimitReader(obj.Body, expectedSize+1)
    let read := bytes.take limit
    -- the limit reader reports EOF once `limit` bytes were delivered; a shorter body ends with
    -- the body's own EOF or read error
    if read.length < limit && readErr then .status 502 else
    let written : Int := read.length
    if written > expectedSize then .status 502
    else if written != expectedSize then .status 502
    else if sha read != expectedSHA then .status 502
    else .bytes read

/-- the same before the fix: only `written > expectedSize` is refused. -/
def streamVerifyOld (sha : Bytes → Bytes) (expectedSHA : Bytes) (expectedSize : Int) : Obj → Resp
  | .missing => .status 502
  | .body bytes readErr =>
    let limit := (expectedSize + 1).toNat
    let read := bytes.take limit
    if read.length < limit && readErr then .status 502 else
    let written : Int := read.length
    if written > expectedSize then .status 502
    else if sha read != expectedSHA then .status 502
    else .bytes read

/-- the integrity checks of `handleHTTPDownload`, in code order; `none` = a 400 response;
`some (expectedSHA, expectedSize)` otherwise. -/
def checkIntegrity (mode : Mode) (maxBlob : Int) (ig : Integrity) : Option (Bytes × Int) :=
  if (trimSpace ig.sha256).isEmpty then none else
  let expectedSHA := toLower (trimSpace ig.sha256)
  if expectedSHA.length != 64 then none
  else if !expectedSHA.all isHexDigit then none
  else
    let alg := toLower (trimSpace ig.checksumAlg)
    if !(alg.isEmpty || alg == ascii "sha256") then none
    else if ig.size < 0 then none
    else if mode == .stream && ig.size ≤ 0 then none
    else if mode == .stream && maxBlob > 0 && ig.size > maxBlob then none
    else if mode == .stream && ig.size == maxInt64 then none
    else some (expectedSHA, ig.size)

/-- `handleHTTPDownload` from the mode check on (method, API key, S3 health, JSON, bucket and key
validation precede it and never send object bytes). -/
def downloadWith (sv : Bytes → Int → Obj → Resp) (presignEnabled : Bool) (maxBlob : Int) (modeRaw : Bytes)
    (integ : Option Integrity) (obj : Obj) : Resp :=
  let mode := parseMode modeRaw
  if mode == .invalid then .status 400
  else if mode == .presign && !presignEnabled then .status 400
  else match integ with
    | Option.none => .status 400
    | some ig =>
      match checkIntegrity mode maxBlob ig with
      | Option.none => .status 400
      | some (expectedSHA, expectedSize) =>
        if mode == .presign then .presigned expectedSHA expectedSize
        else sv expectedSHA expectedSize obj

def download (sha : Bytes → Bytes) := downloadWith (streamVerify sha)
def downloadOld (sha : Bytes → Bytes) := downloadWith (streamVerifyOld sha)

end KafVerif.LfsResolve
