import KafVerif.Model.GoStrK
/-!
Model of `pkg/idoc/explode.go` (`ExplodeXML`): the stack machine over the token stream of
`encoding/xml` (`StartElement` / `CharData` / `EndElement`; every other token kind is skipped by
the `switch`).  Tokenisation is a parameter: the harness serialises token lists to XML text and
feeds the real function; the theorems are about the machine on the token stream of a tree.

`step`     = the loop body AFTER the proposed fixes (independent `if`s for the four routes).
`stepOld`  = as found (`switch`: the first matching route only).
`Header` is set by the first `StartElement` (`result.Header.Root == ""`; `Name.Local` is never
empty in `encoding/xml`, so "Root is empty" = "no start element seen yet" = `header = none`).
Go maps (`Attributes`, `Fields`) are association lists with replace-on-insert; canonical output
sorts them, `nil` and empty are not distinguished.
-/
namespace KafVerif.Idoc
open KafVerif.GoStr

abbrev Str := List Char
abbrev SMap := List (Str × Str)

def mapSet (m : SMap) (k v : Str) : SMap := (m.filter fun e => e.1 != k) ++ [(k, v)]
def mapGet (m : SMap) (k : Str) : Option Str := (m.find? fun e => e.1 == k).map (·.2)

inductive Tok where
  | start (name : Str) (attrs : List (Str × Str))
  | text (s : Str)
  | stop
deriving Repr, DecidableEq

structure Cfg where
  items : List Str
  partners : List Str
  statuses : List Str
  dates : List Str
deriving Repr, DecidableEq

/-- `sliceToSet(values)[name]`: some entry, trimmed, non-empty, equals `name` -/
def inSet (values : List Str) (name : Str) : Bool :=
  values.any fun v => let t := trimSpace v; t != [] && t == name

def isRouted (cfg : Cfg) (name : Str) : Bool :=
  inSet cfg.items name || inSet cfg.partners name || inSet cfg.statuses name || inSet cfg.dates name

structure Frame where
  name : Str
  path : Str
  attrs : SMap
  value : Str
  fields : Option SMap
deriving Repr, DecidableEq

structure Seg where
  name : Str
  path : Str
  attrs : SMap
  value : Str
  fields : Option SMap
deriving Repr, DecidableEq

structure Res where
  header : Option (Str × SMap)
  segments : List Seg
  items : List Seg
  partners : List Seg
  statuses : List Seg
  dates : List Seg
deriving Repr, DecidableEq

def Res.empty : Res := { header := none, segments := [], items := [], partners := [], statuses := [], dates := [] }

/-- `attrsToMap` (last attribute with the same local name wins) -/
def attrsToMap (attrs : List (Str × Str)) : SMap := attrs.foldl (fun m a => mapSet m a.1 a.2) []

def joinSlash : List Str → Str
  | [] => []
  | [a] => a
  | a :: rest => a ++ '/' :: joinSlash rest

/-- names on the stack, root first (the stack list has its TOP at the head) -/
def names (stk : List Frame) : List Str := (stk.map (·.name)).reverse

/-- `buildPath(stack, name)` -/
def mkPath (anc : List Str) (name : Str) : Str := joinSlash (anc ++ [name])

def setHeader (r : Res) (name : Str) (attrs : SMap) : Res :=
  match r.header with
  | none => { r with header := some (name, attrs) }
  | some _ => r

/-- `CharData`: append to the top frame's value -/
def pushText (stk : List Frame) (s : Str) : List Frame :=
  match stk with
  | [] => []
  | f :: rest => { f with value := f.value ++ s } :: rest

/-- the `parent.Fields[frame.Name] = val` part of `EndElement` -/
def pushFieldKV (stk : List Frame) (k v : Str) : List Frame :=
  if v = [] then stk
  else match stk with
    | [] => []
    | p :: rest => match p.fields with
      | some m => { p with fields := some (mapSet m k v) } :: rest
      | none => p :: rest

def segOfFrame (f : Frame) : Seg :=
  { name := f.name, path := f.path, attrs := f.attrs, value := trimSpace f.value, fields := f.fields }

/-- append one finished segment to `Segments` and to every routed list configured for its name (FIXED) -/
def addSeg (cfg : Cfg) (r : Res) (s : Seg) : Res :=
  { r with
    segments := r.segments ++ [s]
    items := if inSet cfg.items s.name then r.items ++ [s] else r.items
    partners := if inSet cfg.partners s.name then r.partners ++ [s] else r.partners
    statuses := if inSet cfg.statuses s.name then r.statuses ++ [s] else r.statuses
    dates := if inSet cfg.dates s.name then r.dates ++ [s] else r.dates }

/-- as found: `switch` — only the first matching route -/
def addSegOld (cfg : Cfg) (r : Res) (s : Seg) : Res :=
  let r := { r with segments := r.segments ++ [s] }
  if inSet cfg.items s.name then { r with items := r.items ++ [s] }
  else if inSet cfg.partners s.name then { r with partners := r.partners ++ [s] }
  else if inSet cfg.statuses s.name then { r with statuses := r.statuses ++ [s] }
  else if inSet cfg.dates s.name then { r with dates := r.dates ++ [s] }
  else r

def stepWith (add : Cfg → Res → Seg → Res) (cfg : Cfg) (st : List Frame × Res) : Tok → List Frame × Res
  | .start name attrs =>
    let frame : Frame := { name := name, path := mkPath (names st.1) name, attrs := attrsToMap attrs, value := [],
                           fields := if isRouted cfg name then some [] else none }
    (frame :: st.1, setHeader st.2 name frame.attrs)
  | .text s => (pushText st.1 s, st.2)
  | .stop =>
    match st.1 with
    | [] => st
    | frame :: rest =>
      let seg := segOfFrame frame
      (pushFieldKV rest frame.name seg.value, add cfg st.2 seg)

def step := stepWith addSeg
def stepOld := stepWith addSegOld

def runFrom (cfg : Cfg) (st : List Frame × Res) (toks : List Tok) : List Frame × Res := toks.foldl (step cfg) st

/-- `ExplodeXML` on a token stream (fixed code) -/
def explode (cfg : Cfg) (toks : List Tok) : Res := (runFrom cfg ([], Res.empty) toks).2
def explodeOld (cfg : Cfg) (toks : List Tok) : Res := (toks.foldl (stepOld cfg) ([], Res.empty)).2

/-! ### XML trees and their token streams -/

inductive Node where
  | elem (name : Str) (attrs : List (Str × Str)) (children : List Node)
  | text (s : Str)
deriving Repr

mutual
def toks : Node → List Tok
  | .elem n a cs => Tok.start n a :: (toksL cs ++ [Tok.stop])
  | .text s => [Tok.text s]
def toksL : List Node → List Tok
  | [] => []
  | c :: cs => toks c ++ toksL cs
end

/-- concatenated text of the DIRECT text children -/
def directText : List Node → Str
  | [] => []
  | .text s :: cs => s ++ directText cs
  | .elem _ _ _ :: cs => directText cs

/-- the (name, trimmed text) a child contributes to its parent's Fields, if its text is non-empty -/
def childField : Node → Option (Str × Str)
  | .elem n _ cs => let v := trimSpace (directText cs); if v = [] then none else some (n, v)
  | .text _ => none

/-- Fields of an element: direct children with non-empty trimmed text, later duplicates replace earlier ones -/
def fieldsOf (cs : List Node) (m : SMap) : SMap :=
  cs.foldl (fun m c => match childField c with | some kv => mapSet m kv.1 kv.2 | none => m) m

/-- the segment the property prescribes for element `n a cs` whose ancestors (root first) are `anc` -/
def specSeg (cfg : Cfg) (anc : List Str) (n : Str) (a : List (Str × Str)) (cs : List Node) : Seg :=
  { name := n, path := mkPath anc n, attrs := attrsToMap a, value := trimSpace (directText cs),
    fields := if isRouted cfg n then some (fieldsOf cs []) else none }

mutual
/-- segments of a subtree in CLOSING order (post-order), one per element -/
def postorder (cfg : Cfg) (anc : List Str) : Node → List Seg
  | .elem n a cs => postorderL cfg (anc ++ [n]) cs ++ [specSeg cfg anc n a cs]
  | .text _ => []
def postorderL (cfg : Cfg) (anc : List Str) : List Node → List Seg
  | [] => []
  | c :: cs => postorder cfg anc c ++ postorderL cfg anc cs
end

mutual
def countElems : Node → Nat
  | .elem _ _ cs => countElemsL cs + 1
  | .text _ => 0
def countElemsL : List Node → Nat
  | [] => 0
  | c :: cs => countElems c + countElemsL cs
end

/-! ### call sequences: one process, many `ExplodeXML` calls

A long-running caller (the IDoc processor) explodes many payloads in one process and may rebuild
its routing configuration in reused buffers.  What carries over from one call to the next on the
implementation side is exactly the package-level variables of `pkg/idoc`; the current `explode.go`
declares none (regenerated fact `KafVerif.C45.no_package_level_state`), every map / slice / stack
of `ExplodeXML` is allocated inside the call.  So the process state is `Unit` and a call is a pure
function of the configuration VALUE and the document it is given. -/

/-- the package-level state of `pkg/idoc` between two calls: nothing -/
abbrev PkgState := Unit

/-- a call: the configuration value and the token stream of the document handed to THIS call -/
abbrev Call := Cfg × List Tok

/-- one `ExplodeXML` call in a process whose package state is `st` -/
def callStep (st : PkgState) (c : Call) : PkgState × Res := (st, explode c.1 c.2)

/-- a sequence of calls in one process, threading an arbitrary per-process state through `f` -/
def runCallsWith {σ : Type} (f : σ → Call → σ × Res) : σ → List Call → List Res
  | _, [] => []
  | st, c :: cs => (f st c).2 :: runCallsWith f (f st c).1 cs

/-- the results of a sequence of calls made by one process (current code) -/
def runCalls (calls : List Call) : List Res := runCallsWith callStep () calls

/-! A memoising variant (NOT the current code; it is what a "cache the lookup sets of the last
configuration" change does).  The sets are a function of the configuration they were built from, so
the remembered state is the pair (key compared against the next call's configuration, configuration
the remembered sets were built from).  `memoStep` keeps a private copy of the key (compare by
value); `aliasStep` stores the caller's slices themselves, so a caller that rewrites its
configuration in place (`inPlace = true`, same buffers and lengths) rewrites the key as well. -/

structure Memo where
  key : Cfg
  built : Cfg
deriving Repr, DecidableEq

def memoStep (st : Option Memo) (c : Call) : Option Memo × Res :=
  match st with
  | some m => if m.key = c.1 then (st, explode m.built c.2) else (some ⟨c.1, c.1⟩, explode c.1 c.2)
  | none => (some ⟨c.1, c.1⟩, explode c.1 c.2)

def sameShape (a b : Cfg) : Bool :=
  a.items.length == b.items.length && a.partners.length == b.partners.length &&
  a.statuses.length == b.statuses.length && a.dates.length == b.dates.length

/-- the remembered key aliases the caller's buffers: an in-place rewrite (same shape) is seen through it -/
def aliasStep (st : Option Memo) (ci : Call × Bool) : Option Memo × Res :=
  let st' := match st with
    | some m => if ci.2 && sameShape m.key ci.1.1 then some { m with key := ci.1.1 } else some m
    | none => none
  memoStep st' ci.1

def runAliased : Option Memo → List (Call × Bool) → List Res
  | _, [] => []
  | st, c :: cs => (aliasStep st c).2 :: runAliased (aliasStep st c).1 cs

/-! ### regenerated fact: package-level variables of `pkg/idoc` (see `Gen/C45Vars.lean`) -/

/-- one package-level `var` of pkg/idoc (non-test files): declaration line and the number of sites inside function
bodies (`init` excluded) that write it, take its address, call a method on it (struct / sync kinds) or let a map /
slice / pointer escape into another variable or a call -/
structure VarRow where
  line : Nat
  mutations : Nat
deriving Repr, DecidableEq

def varsOk (vs : List VarRow) : Bool := vs.all fun v => v.mutations == 0

theorem varsOk_iff (vs : List VarRow) : varsOk vs = true ↔ ∀ v ∈ vs, v.mutations = 0 := by
  simp [varsOk, List.all_eq_true]

/-- a read-only table passes, a memo that is locked and rewritten by `buildSegmentSets` does not -/
example : varsOk [⟨30, 0⟩] = true ∧ varsOk [⟨30, 0⟩, ⟨218, 6⟩] = false := by decide

end KafVerif.Idoc
