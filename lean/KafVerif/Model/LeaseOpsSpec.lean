import KafVerif.Model.Lease
import KafVerif.Model.SrcOps
/-!
What `Model/Lease.lean` ASSUMES about the source of `LeaseManager`, written down as a table:
for every step of the model, the etcd operation (transaction with its compares, Then/Else ops,
session grant/close) or the mutex-protected update of `owned`/`session` it stands for, together
with the conditions that dominate it.  `checks/C18.py` regenerates the same table from the
current `pkg/metadata/lease_manager.go` (`Gen/C18LeaseOps.lean`, go/ast) on every run and
`Props/C18Ops.lean` demands that the two are EQUAL — an edit that drops a compare, turns a
transaction into a plain Put/Delete or drops the session guard is caught even if no schedule
of the dynamic tie happens to hit it.

The table is not free text either: the transactions and guards are given a meaning over the
model's state (`compile`, `execK`, `guardK`), and `Props/C18Ops.lean` proves that the model's
steps `txn`, `re`, `ins`, `del` ARE that meaning (`*_denotes`).  So neither side can be edited
alone.

Notation of the rows: see `Model/SrcOps.lean`.  `m.owned[resourceID].0/.1` = value / comma-ok of
the map read at the top of the function (in `Release`: read under the lock BEFORE the local
delete); `old(m.session)` = the local copy taken under the lock.
-/
namespace KafVerif.LeaseOps
open KafVerif.SrcOps KafVerif.Lease

/-- the steps of `Model/Lease.lean` -/
inductive Step where
  | acquireEntry   -- `Op.acquire`: closed? already owned? else join/start the flight
  | recheck        -- doAcquire's re-check under RLock (same outcome as `Op.acquire` finding it owned)
  | session        -- doAcquire obtains the session: pcs `g1`, `grant`, `g3`
  | g1             -- getOrCreateSession lock 1
  | grant          -- concurrency.NewSession = etcd Grant
  | g3             -- getOrCreateSession lock 2
  | txn            -- create-if-absent transaction
  | errR           -- etcd error of a transaction (lease gone)
  | mine           -- Else-branch owner == me → reacquire
  | notMine        -- ErrNotOwner
  | ins            -- guarded insert into `owned`
  | re             -- reacquire transaction (value compare)
  | release        -- `Op.release`: locked local delete, remembers the revision
  | del            -- `Op.del`: the pending etcd delete
  | releaseAll     -- `Op.releaseAll`
  | revoke         -- `Op.revoke`: session.Close
  | sessionLost    -- `Op.sessionLost`: monitorSession
  | observe        -- CurrentOwner (read by the harness; no model step changes state)
deriving DecidableEq, Repr

def Step.all : List Step :=
  [.acquireEntry, .recheck, .session, .g1, .grant, .g3, .txn, .errR, .mine, .notMine, .ins, .re,
   .release, .del, .releaseAll, .revoke, .sessionLost, .observe]

def stepOfPC : PC → Step
  | .g1 => .g1 | .grant => .grant | .g3 _ => .g3 | .txn _ => .txn | .ins _ _ => .ins
  | .mine _ => .mine | .notMine => .notMine | .errR => .errR | .re _ => .re

/-- the model steps an `Op` can take (`step`/`abort`/`drop*`/`expire`/`crash` are the scheduler's
and the environment's moves: they stand for no statement of the manager) -/
def stepsOfOp : Op → List Step
  | .acquire _ _ => [.acquireEntry, .recheck, .session]
  | .step _ _ => [.g1, .grant, .g3, .txn, .errR, .mine, .notMine, .ins, .re]
  | .release _ _ => [.release]
  | .del _ => [.del]
  | .releaseAll _ => [.releaseAll]
  | .revoke _ => [.revoke]
  | .sessionLost _ => [.sessionLost]
  | _ => []

-- guards shared by several rows
def gA : List String := ["!m.closed.Load()", "!m.owned[resourceID].1"]
def gD : List String := ["!m.owned[resourceID].1", "getOrCreateSession#1.1 == nil"]
def gElse : List String := gD ++ ["Txn#1.1 == nil", "!Txn#1.0.Succeeded"]
def gMine : List String := gElse ++
  ["len(Txn#1.0.Responses) > 0",
   "Txn#1.0.Responses[0].GetResponseRange() != nil && len(Txn#1.0.Responses[0].GetResponseRange().Kvs) > 0",
   "string(Txn#1.0.Responses[0].GetResponseRange().Kvs[0].Value) == m.brokerID"]
def gThen : List String := gD ++ ["Txn#1.1 == nil", "Txn#1.0.Succeeded"]
def gG3 : List String := ["NewSession#1.1 == nil", "!m.closed.Load()"]

/-- `doAcquire`: `Txn(ctx).If(CreateRevision(key) = 0).Then(OpPut(key, brokerID, WithLease(session))).Else(OpGet(key))` -/
def acquireTxn : Ev :=
  .txn [⟨"CreateRevision", "m.leaseKey(resourceID)", "=", "0"⟩]
       [⟨"OpPut", ["m.leaseKey(resourceID)", "m.brokerID", "WithLease(getOrCreateSession#1.0.Lease())"]⟩]
       [⟨"OpGet", ["m.leaseKey(resourceID)"]⟩]

/-- `reacquire`: `Txn(ctx).If(Value(key) = brokerID).Then(OpPut(key, brokerID, WithLease(session)))` -/
def reacquireTxn : Ev :=
  .txn [⟨"Value", "leaseKey", "=", "m.brokerID"⟩]
       [⟨"OpPut", ["leaseKey", "m.brokerID", "WithLease(session.Lease())"]⟩] []

/-- `Release`: `Txn(ctx).If(ModRevision(key) = rev remembered in owned).Then(OpDelete(key))` -/
def releaseTxn : Ev :=
  .txn [⟨"ModRevision", "m.leaseKey(resourceID)", "=", "m.owned[resourceID].0"⟩]
       [⟨"OpDelete", ["m.leaseKey(resourceID)"]⟩] []

/-- the session-identity guards of the two inserts -/
def insGuardAcquire : String := "m.session == getOrCreateSession#1.0"
def insGuardReacquire : String := "m.session == session"

/-- The table, one section per model step, in source order. -/
def sections : List (Step × List Row) := [
  -- ── Acquire ──────────────────────────────────────────────────────────────────────────────
  (.acquireEntry, [
    ⟨"Acquire", ["m.closed.Load()"], [], .ret ["ErrShuttingDown"]⟩,
    ⟨"Acquire", ["!m.closed.Load()", "m.owned[resourceID].1"], [], .ret ["nil"]⟩,
    ⟨"Acquire", gA ++ ["in func literal"], [], .call "doAcquire" ["ctx", "resourceID"] false⟩,
    ⟨"Acquire", gA ++ ["in func literal"], [], .ret ["nil", "doAcquire#1"]⟩,
    ⟨"Acquire", gA, [], .ret ["m.acquireFlight.Do(resourceID, func{...}).1"]⟩]),
  -- ── doAcquire ────────────────────────────────────────────────────────────────────────────
  (.recheck, [
    ⟨"doAcquire", ["m.owned[resourceID].1"], [], .ret ["nil"]⟩]),
  (.session, [
    ⟨"doAcquire", ["!m.owned[resourceID].1"], [], .call "getOrCreateSession" ["ctx"] false⟩,
    ⟨"doAcquire", ["!m.owned[resourceID].1", "getOrCreateSession#1.1 != nil"], [], .ret ["error(..)"]⟩]),
  (.txn, [
    ⟨"doAcquire", gD, [], acquireTxn⟩]),
  (.errR, [
    ⟨"doAcquire", gD ++ ["Txn#1.1 != nil"], [], .ret ["error(..)"]⟩]),
  (.mine, [
    ⟨"doAcquire", gMine, [], .call "reacquire" ["ctx", "resourceID", "m.leaseKey(resourceID)", "getOrCreateSession#1.0"] false⟩,
    ⟨"doAcquire", gMine, [], .ret ["reacquire#1"]⟩]),
  (.notMine, [
    ⟨"doAcquire", gElse, [], .ret ["ErrNotOwner"]⟩]),
  (.ins, [
    ⟨"doAcquire", gThen ++ ["m.session != getOrCreateSession#1.0"], [], .ret ["error(..)"]⟩,
    ⟨"doAcquire", gThen ++ [insGuardAcquire], [], .write "m.owned" "resourceID" "Txn#1.0.Header.Revision" true⟩,
    ⟨"doAcquire", gThen ++ [insGuardAcquire], [], .ret ["nil"]⟩]),
  -- ── reacquire ────────────────────────────────────────────────────────────────────────────
  (.re, [
    ⟨"reacquire", [], [], reacquireTxn⟩]),
  (.errR, [
    ⟨"reacquire", ["Txn#1.1 != nil"], [], .ret ["error(..)"]⟩]),
  (.notMine, [
    ⟨"reacquire", ["Txn#1.1 == nil", "!Txn#1.0.Succeeded"], [], .ret ["ErrNotOwner"]⟩]),
  (.ins, [
    ⟨"reacquire", ["Txn#1.1 == nil", "Txn#1.0.Succeeded", "m.session != session"], [], .ret ["error(..)"]⟩,
    ⟨"reacquire", ["Txn#1.1 == nil", "Txn#1.0.Succeeded", insGuardReacquire], [], .write "m.owned" "resourceID" "Txn#1.0.Header.Revision" true⟩,
    ⟨"reacquire", ["Txn#1.1 == nil", "Txn#1.0.Succeeded", insGuardReacquire], [], .ret ["nil"]⟩]),
  -- ── getOrCreateSession ───────────────────────────────────────────────────────────────────
  -- lock 1.  (A session found Done here is dropped together with `owned`: the model's
  -- `sessionLost` is atomic with Done() closing, so `g1` never sees a dead session.)
  (.g1, [
    ⟨"getOrCreateSession", ["m.session != nil", "select <-m.session.Done()"], [], .write "m.session" "" "nil" true⟩,
    ⟨"getOrCreateSession", ["m.session != nil", "select <-m.session.Done()"], [], .write "m.owned" "" "make(map[string]int64)" true⟩,
    ⟨"getOrCreateSession", ["m.session != nil", "select-default"], [], .ret ["old(m.session)", "nil"]⟩]),
  (.grant, [
    ⟨"getOrCreateSession", [], [], .session "NewSession" "" ["m.client", "WithTTL(m.ttl)"]⟩,
    ⟨"getOrCreateSession", ["NewSession#1.1 != nil"], [], .ret ["nil", "error(..)"]⟩]),
  -- lock 2: closed → revoke the private lease; session raced → revoke ours, use theirs; else publish
  (.g3, [
    ⟨"getOrCreateSession", ["NewSession#1.1 == nil", "m.closed.Load()"], [], .session "Close" "NewSession#1.0" []⟩,
    ⟨"getOrCreateSession", ["NewSession#1.1 == nil", "m.closed.Load()"], [], .ret ["nil", "ErrShuttingDown"]⟩,
    ⟨"getOrCreateSession", gG3 ++ ["m.session != nil", "select-default"], [], .session "Close" "NewSession#1.0" []⟩,
    ⟨"getOrCreateSession", gG3 ++ ["m.session != nil", "select-default"], [], .ret ["old(m.session)", "nil"]⟩,
    ⟨"getOrCreateSession", gG3, [], .write "m.session" "" "NewSession#1.0" true⟩,
    ⟨"getOrCreateSession", gG3, [], .call "monitorSession" ["NewSession#1.0"] true⟩,
    ⟨"getOrCreateSession", gG3, [], .ret ["NewSession#1.0", "nil"]⟩]),
  -- ── monitorSession ───────────────────────────────────────────────────────────────────────
  (.sessionLost, [
    ⟨"monitorSession", ["m.session == session"], [], .write "m.session" "" "nil" true⟩,
    ⟨"monitorSession", ["m.session == session"], [], .write "m.owned" "" "make(map[string]int64)" true⟩]),
  -- ── Release ──────────────────────────────────────────────────────────────────────────────
  (.release, [
    ⟨"Release", ["m.owned[resourceID].1"], [], .write "delete m.owned" "resourceID" "" true⟩]),
  (.del, [
    ⟨"Release", ["m.owned[resourceID].1"], [], releaseTxn⟩]),
  -- ── ReleaseAll ───────────────────────────────────────────────────────────────────────────
  (.releaseAll, [
    ⟨"ReleaseAll", [], [], .write "m.closed" "" "true" false⟩,
    ⟨"ReleaseAll", [], [], .write "m.owned" "" "make(map[string]int64)" true⟩,
    ⟨"ReleaseAll", [], [], .write "m.session" "" "nil" true⟩]),
  (.revoke, [
    ⟨"ReleaseAll", ["old(m.session) != nil"], [], .session "Close" "old(m.session)" []⟩]),
  -- ── CurrentOwner ─────────────────────────────────────────────────────────────────────────
  (.observe, [
    ⟨"CurrentOwner", [], [], .etcd "Get" ["m.leaseKey(resourceID)"]⟩,
    ⟨"CurrentOwner", ["Get#1.1 != nil"], [], .ret ["\"\"", "Get#1.1"]⟩,
    ⟨"CurrentOwner", ["Get#1.1 == nil", "len(Get#1.0.Kvs) == 0"], [], .ret ["\"\"", "nil"]⟩,
    ⟨"CurrentOwner", ["Get#1.1 == nil", "len(Get#1.0.Kvs) != 0"], [], .ret ["string(Get#1.0.Kvs[0].Value)", "nil"]⟩])]

def expected : List Row := sections.flatMap (·.2)

/-! ### Meaning of the rows over the model's state -/

/-- compares the model knows -/
inductive CmpK where
  | absent       -- CreateRevision(key) = 0
  | valueIsMe    -- Value(key) = m.brokerID
  | modRevIsMine -- ModRevision(key) = the revision remembered in `owned`
deriving DecidableEq, Repr

inductive Act where
  | put          -- OpPut(key, m.brokerID, WithLease(<the session the call carries>))
  | del          -- OpDelete(key)
  | get          -- OpGet(key)
deriving DecidableEq, Repr

structure TxnK where
  ifs : List CmpK
  thn : List Act
  els : List Act
deriving DecidableEq, Repr

/-- spellings of "the lease key of the resource" and of "the session this call carries" -/
def isKey (k : String) : Bool := k == "m.leaseKey(resourceID)" || k == "leaseKey"
def isSessLease (a : String) : Bool :=
  a == "WithLease(getOrCreateSession#1.0.Lease())" || a == "WithLease(session.Lease())"

def compileCmp (c : Cmp) : Option CmpK :=
  if !(isKey c.key) || c.rel != "=" then none
  else if c.target == "CreateRevision" && c.val == "0" then some .absent
  else if c.target == "Value" && c.val == "m.brokerID" then some .valueIsMe
  else if c.target == "ModRevision" && c.val == "m.owned[resourceID].0" then some .modRevIsMine
  else none

def compileOp (o : KOp) : Option Act :=
  match o.args with
  | [k, v, l] => if o.kind == "OpPut" && isKey k && v == "m.brokerID" && isSessLease l then some .put else none
  | [k] => if !(isKey k) then none
           else if o.kind == "OpDelete" then some .del
           else if o.kind == "OpGet" then some .get
           else none
  | _ => none

def allSome {α : Type} : List (Option α) → Option (List α)
  | [] => some []
  | none :: _ => none
  | some a :: r => (allSome r).map (a :: ·)

def compile : Ev → Option TxnK
  | .txn ifs thn els =>
    match allSome (ifs.map compileCmp), allSome (thn.map compileOp), allSome (els.map compileOp) with
    | some i, some t, some e => some ⟨i, t, e⟩
    | _, _, _ => none
  | _ => none

/-- what the symbols of a row denote while broker `b` works on one resource -/
structure Ctx where
  b : Nat        -- m.brokerID
  l : Nat        -- the session (etcd lease) the call carries
  v : Nat        -- m.owned[resourceID].0

def cmpHolds (c : Ctx) (kv : Option KV) : CmpK → Bool
  | .absent => kv.isNone
  | .valueIsMe => match kv with | some k => k.owner == c.b | none => false
  | .modRevIsMine => match kv with | some k => k.modRev == c.v | none => false

inductive TxnRes where
  | failed                      -- etcd refuses: put with a lease that is gone
  | thenDone (rev : Nat)        -- Succeeded; header revision
  | elseDone (got : Option KV)  -- not Succeeded; what the Else-Get saw (none: no Get / no key)
deriving DecidableEq, Repr

/-- one Then-op on key `r` -/
def doAct (c : Ctx) (s : State) (r : Nat) : Act → Option State
  | .put => if s.live c.l then some { setKV s r (some ⟨c.b, c.l, s.rev + 1⟩) with rev := s.rev + 1 } else none
  | .del => match s.kv r with
            | some _ => some { setKV s r none with rev := s.rev + 1 }
            | none => some s
  | .get => some s

/-- etcd's transaction semantics on the (single) key the compiled transaction talks about -/
def execK (c : Ctx) (s : State) (r : Nat) (t : TxnK) : State × TxnRes :=
  if t.ifs.all (cmpHolds c (s.kv r)) then
    match t.thn with
    | [a] => match doAct c s r a with
             | some s' => (s', .thenDone s'.rev)
             | none => (s, .failed)
    | _ => (s, .thenDone s.rev)
  else
    match t.els with
    | [.get] => (s, .elseDone (s.kv r))
    | _ => (s, .elseDone none)

/-- doAcquire's handling of the create-if-absent response -/
def acquireResp (s : State) (b r l : Nat) : State × TxnRes → State × Option Res
  | (s', .thenDone v) => (setAcq s' b r (some (.ins l v)), none)
  | (_, .failed) => (setAcq s b r (some .errR), none)
  | (_, .elseDone (some k)) =>
    if k.owner = b then (setAcq s b r (some (.mine l)), none) else (setAcq s b r (some .notMine), none)
  | (_, .elseDone none) => (setAcq s b r (some .notMine), none)

/-- reacquire's handling of its response -/
def reacquireResp (s : State) (b r l : Nat) : State × TxnRes → State × Option Res
  | (s', .thenDone v) => (setAcq s' b r (some (.ins l v)), none)
  | (_, .failed) => (setAcq s b r (some .errR), none)
  | (_, .elseDone _) => (setAcq s b r (some .notMine), none)

/-- the session-identity guard of an insert: `m.session == <the session the call carries>` -/
def guardK (g : String) : Bool := g == insGuardAcquire || g == insGuardReacquire

def guardHolds (m : Mgr) (l : Nat) : Bool := m.session == some l

/-! ### Tolerant views of a table (they name WHAT is wrong when the tables differ) -/

def txnsOf (rows : List Row) (fn : String) : List (Option TxnK) :=
  ((ofFn rows fn).filter (·.ev.isTxn)).map (compile ·.ev)

/-- plain (unconditional) writes to etcd anywhere in the manager -/
def plainWrites (rows : List Row) : List Row :=
  rows.filter fun r => r.ev.isEtcd "Put" || r.ev.isEtcd "Delete" || r.ev.isEtcd "Do"

/-- `m.owned[k] = v` -/
def isOwnedInsert : Ev → Bool
  | .write t i _ _ => t == "m.owned" && i != ""
  | _ => false

/-- every insert into `owned` happens under the write lock, after a succeeded transaction, and only
while `m.session` still IS the session the key was attached to -/
def insertsGuarded (rows : List Row) : Bool :=
  (rows.filter (isOwnedInsert ·.ev)).all fun r =>
    r.locked && r.guard.any guardK && r.guard.contains "Txn#1.0.Succeeded"

/-- which `Variant` of the model the extracted `Release` is -/
def variantOf (rows : List Row) : Option Variant :=
  let rel := ofFn rows "Release"
  if rel.any (·.ev.isEtcd "Delete") then some .uncond
  else match txnsOf rows "Release" with
    | [some ⟨[.valueIsMe], [.del], []⟩] => some .byValue
    | [some ⟨[.modRevIsMine], [.del], []⟩] => some .byRev
    | _ => none

/-- every write of `owned`/`session` is inside a `mu.Lock()` region (the model's atomic steps) -/
def writesLocked (rows : List Row) : Bool :=
  rows.all fun r =>
    match r.ev with
    | .write t _ _ l => l || !(t == "m.owned" || t == "delete m.owned" || t == "m.session")
    | _ => true

/-- diagnostics printed by the check when `lease_ops_match` no longer holds -/
def diagnose (rows : List Row) : List String :=
  showDiff "KafVerif.C18.lease_ops_match" rows expected ++
  (if txnsOf rows "doAcquire" == [some ⟨[.absent], [.put], [.get]⟩] then [] else
    ["KafVerif.C18.acquire_txn_shape: doAcquire no longer issues exactly Txn.If(CreateRevision(key)=0).Then(OpPut(key, brokerID, WithLease(session))).Else(OpGet(key))"]) ++
  (if txnsOf rows "reacquire" == [some ⟨[.valueIsMe], [.put], []⟩] then [] else
    ["KafVerif.C18.reacquire_txn_shape: reacquire no longer issues exactly Txn.If(Value(key)=brokerID).Then(OpPut(key, brokerID, WithLease(session)))"]) ++
  (match variantOf rows with
    | some .byRev => []
    | some .byValue => ["KafVerif.C18.release_variant_byRev: Release deletes under a Value(key)=brokerID guard = model variant byValue, for which KafVerif.C18.byValue_violates proves two owners reachable"]
    | some .uncond => ["KafVerif.C18.release_variant_byRev: Release deletes unconditionally = model variant uncond, for which KafVerif.C18.uncond_violates proves two owners reachable"]
    | none => ["KafVerif.C18.release_variant_byRev: Release's etcd delete is none of the modelled variants (expected Txn.If(ModRevision(key)=remembered revision).Then(OpDelete(key)))"]) ++
  (if (plainWrites rows).isEmpty then [] else
    ["KafVerif.C18.no_plain_writes: unconditional etcd write outside a transaction: " ++ "; ".intercalate ((plainWrites rows).map Row.show)]) ++
  (if insertsGuarded rows then [] else
    ["KafVerif.C18.inserts_session_guarded: an insert into `owned` is not (locked ∧ after Txn.Succeeded ∧ guarded by m.session == the session the key was attached to): " ++
      "; ".intercalate ((rows.filter fun r => isOwnedInsert r.ev && !(r.locked && r.guard.any guardK && r.guard.contains "Txn#1.0.Succeeded")).map Row.show)]) ++
  (if writesLocked rows then [] else ["KafVerif.C18.writes_locked: a write of owned/session happens outside mu.Lock()"])

end KafVerif.LeaseOps
