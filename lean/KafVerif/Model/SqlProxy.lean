import KafVerif.Model.SqlParser
/-!
Model of the SQL proxy's authorisation path
(`addons/processors/sql-processor/internal/proxy/proxy.go` `handleConn` (the `*pgproto3.Query`
case), `authorizeQuery`, `queryTopics`, `trimQuery`; `acl.go`; `cache.go`) together with the
*upstream's* view of a query text (`internal/server/server.go` `handleQuery`: catalog branch
first, then SET/RESET, then `Parse` and execution).

`P : Bytes → Option (List Bytes × Bool)` stands for `queryTopics(Parse(text))` (`none` = parse
error); proxy and upstream call the same `kafsql.Parse`, so it is ONE parameter of the model.
`lowerU` stands for `strings.ToLower` (the driver uses `lowerGo`).  Proxy side (`px…`, `authorize`,
`proxyView`) and upstream side (`up…`, `upstreamView`) are modelled SEPARATELY, each from its own
source file; `KafVerif.C37.views_agree` proves that they agree as coded, and the `…G` variants
carry the two places where they could drift apart (the upstream's entry normalisation, the
lowering of the proxy's catalog test) as parameters for the witness theorems.  `path.Match` is ported loop by loop (`pathMatch`: chunks, `*`, `?`, `[`-classes with ranges, negation and
escapes, `ErrBadPattern`).

Definitions without suffix are the code after `fixes/C37-*.patch`; `…Old` is the code before.
-/
namespace KafVerif.SqlProxy
open KafVerif.SqlParser

/-! ### acl.go -/

structure Acl where
  allow : List Bytes
  deny : List Bytes
deriving Repr, DecidableEq

def isCont (b : UInt8) : Bool := 0x80 ≤ b && b ≤ 0xBF

/-- the width of `utf8.DecodeRuneInString` at the head of a non-empty string (1 for ASCII and for
every ill-formed or truncated sequence — Go's `RuneError` has width 1) -/
def runeLen : Bytes → Nat
  | [] => 0
  | b0 :: rest =>
    if b0 < 0x80 then 1
    else if 0xC2 ≤ b0 && b0 ≤ 0xDF then
      match rest with
      | b1 :: _ => if isCont b1 then 2 else 1
      | _ => 1
    else if 0xE0 ≤ b0 && b0 ≤ 0xEF then
      match rest with
      | b1 :: b2 :: _ =>
        let lo : UInt8 := if b0 == 0xE0 then 0xA0 else 0x80
        let hi : UInt8 := if b0 == 0xED then 0x9F else 0xBF
        if lo ≤ b1 && b1 ≤ hi && isCont b2 then 3 else 1
      | _ => 1
    else if 0xF0 ≤ b0 && b0 ≤ 0xF4 then
      match rest with
      | b1 :: b2 :: b3 :: _ =>
        let lo : UInt8 := if b0 == 0xF0 then 0x90 else 0x80
        let hi : UInt8 := if b0 == 0xF4 then 0x8F else 0xBF
        if lo ≤ b1 && b1 ≤ hi && isCont b2 && isCont b3 then 4 else 1
      | _ => 1
    else 1

/-- `path.Match` for literal bytes, `*` (any run of bytes without '/') and `?` (one RUNE other than
'/': `path.Match` decodes UTF-8 there, so `orders?` matches `orders😀`) -/
def globF : Nat → Bytes → Bytes → Bool
  | 0, _, _ => false
  | _ + 1, [], n => n.isEmpty
  | f + 1, 42 :: p, n =>
    globF f p n || (match n with
      | c :: t => c != 47 && globF f (42 :: p) t
      | [] => false)
  | f + 1, 63 :: p, c :: t => c != 47 && globF f p ((c :: t).drop (runeLen (c :: t)))
  | f + 1, c :: p, d :: t => c == d && globF f p t
  | _ + 1, _ :: _, [] => false

/-- the earlier model of `path.Match` (literals, `*`, `?` only, full backtracking); kept for
`KafVerif.C37.globSimple_*` comparisons -/
def globSimple (pattern name : Bytes) : Bool := globF (pattern.length + name.length + 1) pattern name

/-! ### `path.Match` (Go 1.2x `path/match.go`), ported loop by loop

`Option` = `ErrBadPattern` (`none`).  Bytes as in Go strings; runes are decoded where Go decodes
them (`[`-classes on both sides, `?` on the name side). -/

/-- `utf8.DecodeRuneInString`: (rune, width); ill-formed or truncated → (U+FFFD, 1); empty → (U+FFFD, 0) -/
def decodeRune (s : Bytes) : Nat × Nat :=
  match s, runeLen s with
  | b0 :: _, 1 => (if b0 < 0x80 then b0.toNat else 0xFFFD, 1)
  | b0 :: b1 :: _, 2 => ((b0.toNat % 32) * 64 + b1.toNat % 64, 2)
  | b0 :: b1 :: b2 :: _, 3 => ((b0.toNat % 16) * 4096 + (b1.toNat % 64) * 64 + b2.toNat % 64, 3)
  | b0 :: b1 :: b2 :: b3 :: _, 4 =>
    ((b0.toNat % 8) * 262144 + (b1.toNat % 64) * 4096 + (b2.toNat % 64) * 64 + b3.toNat % 64, 4)
  | _, n => (0xFFFD, n)

/-- the leading `*`s of `scanChunk` -/
def dropStars : Bytes → Bool × Bytes
  | 42 :: p => (true, (dropStars p).2)
  | p => (false, p)

/-- the `Scan:` loop of `scanChunk`: length of the chunk (up to the first `*` outside a class) -/
def scanLen : Bool → Bytes → Nat
  | _, [] => 0
  | _, [92] => 1
  | inr, 92 :: _ :: r => 2 + scanLen inr r
  | _, 91 :: r => 1 + scanLen true r
  | _, 93 :: r => 1 + scanLen false r
  | inr, 42 :: r => if inr then 1 + scanLen inr r else 0
  | inr, _ :: r => 1 + scanLen inr r

/-- `getEsc` -/
def getEsc (chunk : Bytes) : Option (Nat × Bytes) :=
  match chunk with
  | [] => none
  | c :: rest =>
    if c == 45 || c == 93 then none
    else
      let ch := if c == 92 then rest else chunk
      if ch.isEmpty then none
      else
        let (r, n) := decodeRune ch
        let nchunk := ch.drop n
        if (r == 0xFFFD && n == 1) || nchunk.isEmpty then none else some (r, nchunk)

/-- the `for` loop over the ranges of one character class; result: (matched, chunk after `]`) -/
def classLoop : Nat → Bytes → Nat → Nat → Bool → Option (Bool × Bytes)
  | 0, _, _, _, _ => none
  | f + 1, chunk, r, nrange, m =>
    match chunk, decide (nrange > 0) with
    | 93 :: rest, true => some (m, rest)
    | _, _ =>
      match getEsc chunk with
      | none => none
      | some (lo, c1) =>
        match c1 with
        | 45 :: c2 =>
          match getEsc c2 with
          | none => none
          | some (hi, c3) => classLoop f c3 r (nrange + 1) (m || (decide (lo ≤ r) && decide (r ≤ hi)))
        | _ => classLoop f c1 r (nrange + 1) (m || lo == r)

/-- `matchChunk`: `none` = ErrBadPattern, `some none` = no match, `some (some rest)` = matched -/
def matchChunkF : Nat → Bytes → Bytes → Bool → Option (Option Bytes)
  | 0, _, _, _ => none
  | _ + 1, [], s, failed => some (if failed then none else some s)
  | f + 1, c :: ch, s, failed0 =>
    let failed := failed0 || s.isEmpty
    if c == 91 then
      let r := if failed then 0 else (decodeRune s).1
      let s' := if failed then s else s.drop (decodeRune s).2
      let neg := ch.head? == some 94
      let ch1 := if neg then ch.drop 1 else ch
      match classLoop (ch1.length + 1) ch1 r 0 false with
      | none => none
      | some (m, ch2) => matchChunkF f ch2 s' (failed || m == neg)
    else if c == 63 then
      match s, failed with
      | d :: _, false => matchChunkF f ch (s.drop (runeLen s)) (d == 47)
      | _, _ => matchChunkF f ch s true
    else
      let lit (c : UInt8) (ch : Bytes) : Option (Option Bytes) :=
        match s, failed with
        | d :: t, false => matchChunkF f ch t (c != d)
        | _, _ => matchChunkF f ch s true
      if c == 92 then
        match ch with
        | [] => none
        | c2 :: ch' => lit c2 ch'
      else lit c ch

def matchChunk (chunk s : Bytes) : Option (Option Bytes) := matchChunkF (chunk.length + 1) chunk s false

/-- the `if star { for i := 0; … }` loop: `name` is `name[i:]` -/
def starLoop (chunk : Bytes) (lastChunk : Bool) : Bytes → Option (Option Bytes)
  | [] => some none
  | c :: tl =>
    if c == 47 then some none
    else match matchChunk chunk tl with
      | none => none
      | some (some t) => if lastChunk && !t.isEmpty then starLoop chunk lastChunk tl else some (some t)
      | some none => starLoop chunk lastChunk tl

/-- the trailing syntax check of the remaining pattern -/
def restValid : Nat → Bytes → Bool
  | 0, _ => true
  | _ + 1, [] => true
  | f + 1, pattern =>
    let p1 := (dropStars pattern).2
    let i := scanLen false p1
    (matchChunk (p1.take i) []).isSome && restValid f (p1.drop i)

/-- `path.Match(pattern, name)`: `none` = ErrBadPattern -/
def pathMatchF : Nat → Bytes → Bytes → Option Bool
  | 0, _, _ => none
  | _ + 1, [], name => some name.isEmpty
  | f + 1, pattern, name =>
    let (star, p1) := dropStars pattern
    let i := scanLen false p1
    let chunk := p1.take i
    let rest := p1.drop i
    if star && chunk.isEmpty then some (!name.contains 47)
    else
      let fallthru (_ : Unit) : Option Bool := if restValid (rest.length + 1) rest then some false else none
      let tryStar (_ : Unit) : Option Bool :=
        if star then
          match starLoop chunk rest.isEmpty name with
          | none => none
          | some (some t) => pathMatchF f rest t
          | some none => fallthru ()
        else fallthru ()
      match matchChunk chunk name with
      | none => none
      | some (some t) => if t.isEmpty || !rest.isEmpty then pathMatchF f rest t else tryStar ()
      | some none => tryStar ()

def pathMatch (pattern name : Bytes) : Option Bool := pathMatchF (pattern.length + 1) pattern name

/-- `matched, err := path.Match(pattern, name); err == nil && matched` -/
def globMatch (pattern name : Bytes) : Bool := pathMatch pattern name == some true

/-- `matchPatterns` -/
def matchPatterns (patterns : List Bytes) (topic : Bytes) : Bool :=
  patterns.any fun pattern =>
    let p := trimSpace pattern
    !p.isEmpty && (p == [42] || globMatch p topic || p == topic)

/-- `ACL.Allows`: deny wins, an empty allow list allows -/
def allows (a : Acl) (topic : Bytes) : Bool :=
  if matchPatterns a.deny topic then false
  else if a.allow.isEmpty then true
  else matchPatterns a.allow topic

/-- `ACL.AllowShowTopics` -/
def allowShowTopics (a : Acl) : Bool :=
  if !a.deny.isEmpty then false
  else if a.allow.isEmpty then true
  else matchPatterns a.allow [42]

/-! ### `strings.ToLower` as far as ASCII patterns can see it -/

/-- `strings.ToLower`, modelled up to the non-ASCII bytes of its result: ASCII capitals are
lowered, and the only two non-ASCII runes whose `unicode.ToLower` image is an ASCII byte are
rewritten — `İ` (U+0130, `C4 B0`) ↦ `i` and `K` (U+212A KELVIN SIGN, `E2 84 AA`) ↦ `k`.  Every
other byte is kept (real `ToLower` rewrites other non-ASCII runes into other non-ASCII runes and
ill-formed bytes into U+FFFD: all bytes ≥ 0x80, invisible to `Contains`/`HasPrefix` with an ASCII
pattern).  `C4` and `E2` are lead bytes, never continuation bytes, so the UTF-8 decoder always
starts a rune there: the byte-level rewrite is exact. -/
def lowerGo : Bytes → Bytes
  | 0xC4 :: 0xB0 :: t => 0x69 :: lowerGo t
  | 0xE2 :: 0x84 :: 0xAA :: t => 0x6B :: lowerGo t
  | c :: t => lowerB c :: lowerGo t
  | [] => []

/-- the case folding of a Go `regexp` `(?i)` literal (`unicode.SimpleFold` orbits), brought to the
same shape: `K` ↦ `k` and `ſ` (U+017F, `C5 BF`) ↦ `s` are in the orbits of `k`/`s`; `İ` is in no
orbit and is kept.  Only used by the witness `regexp_fold_views_differ`. -/
def lowerRegexpFold : Bytes → Bytes
  | 0xC5 :: 0xBF :: t => 0x73 :: lowerRegexpFold t
  | 0xE2 :: 0x84 :: 0xAA :: t => 0x6B :: lowerRegexpFold t
  | c :: t => lowerB c :: lowerRegexpFold t
  | [] => []

/-- `strings.Contains` -/
def containsSub : Bytes → Bytes → Bool
  | [], pat => pat.isEmpty
  | c :: t, pat => hasPrefix (c :: t) pat || containsSub t pat

structure Env where
  P : Bytes → Option (List Bytes × Bool)
  lowerU : Bytes → Bytes

/-! ### what the UPSTREAM does with a text (server.go `handleConnection` → `handleQuery`) -/

/-- what `handleQuery` does to the text on entry before it hands it to `handleCatalogQuery`,
`handleSetCommand` and `kafsql.Parse`: nothing (`msg.String` is passed through). -/
def upEntry (q : Bytes) : Bytes := q

/-- `handleCatalogQuery` answers (from the list of ALL topics); `low` is its `strings.ToLower` -/
def upCatalog (low : Bytes → Bytes) (q : Bytes) : Bool :=
  let trimmed := trimSpace q
  if trimmed.isEmpty then false else
  let lower := low (trimSemi trimmed)
  containsSub lower (str "pg_catalog") || containsSub lower (str "information_schema")

/-- `handleSetCommand` answers -/
def upSet (low : Bytes → Bytes) (q : Bytes) : Bool :=
  let trimmed := trimSpace q
  if trimmed.isEmpty then false else
  let lower := low trimmed
  hasPrefix lower (str "set ") || hasPrefix lower (str "reset ")

/-- `handleQuery` with its entry normalisation as a parameter: the topics the upstream reads for
the text it RECEIVED, and whether it lists all topics (catalog first, then SET/RESET, then
`Parse` + execution) -/
def upstreamViewG (entry : Bytes → Bytes) (e : Env) (received : Bytes) : List Bytes × Bool :=
  let q := entry received
  if upCatalog e.lowerU q then ([], true)
  else if upSet e.lowerU q then ([], false)
  else match e.P q with
    | none => ([], false)
    | some r => r

/-- the upstream as coded -/
def upstreamView (e : Env) (q : Bytes) : List Bytes × Bool := upstreamViewG upEntry e q

def upstreamTopics (e : Env) (q : Bytes) : List Bytes := (upstreamView e q).1

/-- "reads only topics the ACL allows" (listing all topics needs the show-topics permission) -/
def Safe (a : Acl) (v : List Bytes × Bool) : Prop :=
  (∀ t ∈ v.1, allows a t = true) ∧ (v.2 = true → allowShowTopics a = true)

/-! ### proxy.go after the fix -/

/-- the catalog test of `authorizeQuery` (`strings.ToLower(strings.TrimSuffix(trimmed, ";"))` +
two `strings.Contains`); `low` is the lowering it uses -/
def pxCatalog (low : Bytes → Bytes) (q : Bytes) : Bool :=
  let trimmed := trimSpace q
  if trimmed.isEmpty then false else
  let lower := low (trimSemi trimmed)
  containsSub lower (str "pg_catalog") || containsSub lower (str "information_schema")

/-- the SET/RESET test of `authorizeQuery` -/
def pxSet (low : Bytes → Bytes) (q : Bytes) : Bool :=
  let trimmed := trimSpace q
  if trimmed.isEmpty then false else
  let lower := low trimmed
  hasPrefix lower (str "set ") || hasPrefix lower (str "reset ")

/-- `authorizeQuery(acl, query)` on the text that is forwarded; `lowCat` is the lowering of its
catalog test (as coded: `strings.ToLower`, i.e. `e.lowerU`) -/
def authorizeG (lowCat : Bytes → Bytes) (e : Env) (a : Acl) (q : Bytes) : Bool :=
  if a.allow.isEmpty && a.deny.isEmpty then true
  else if pxCatalog lowCat q then allowShowTopics a
  else if pxSet e.lowerU q then true
  else match e.P q with
    | none => false
    | some (topics, showTopics) =>
      if showTopics && !allowShowTopics a then false
      else topics.all (allows a)

def authorize (e : Env) (a : Acl) (q : Bytes) : Bool := authorizeG e.lowerU e a q

/-- the proxy's view of a text: what `authorizeQuery` takes the statement to touch
(`none` = "proxy cannot authorize query") -/
def proxyViewG (lowCat : Bytes → Bytes) (e : Env) (q : Bytes) : Option (List Bytes × Bool) :=
  if pxCatalog lowCat q then some ([], true)
  else if pxSet e.lowerU q then some ([], false)
  else e.P q

def proxyView (e : Env) (q : Bytes) : Option (List Bytes × Bool) := proxyViewG e.lowerU e q

def proxyTopics (e : Env) (q : Bytes) : List Bytes := ((proxyView e q).getD ([], false)).1

/-- cache.go: entries oldest first; `enabled = false` is the nil cache (`ttl <= 0 || max <= 0`) -/
structure Cache where
  enabled : Bool
  max : Nat
  entries : List (Bytes × Bool)
deriving Repr, DecidableEq

/-- `get`; `expired` is the outcome of `time.Since(entry.created) > ttl` (any timing) -/
def cacheGet (c : Cache) (key : Bytes) (expired : Bool) : Cache × Option Bool :=
  if !c.enabled then (c, none) else
  match c.entries.find? (fun en => en.1 == key) with
  | none => (c, none)
  | some en =>
    if expired then ({ c with entries := c.entries.filter (fun x => !(x.1 == key)) }, none)
    else (c, some en.2)

def evict (max : Nat) : Nat → List (Bytes × Bool) → List (Bytes × Bool)
  | 0, l => l
  | n + 1, l => if l.length > max then evict max n l.tail else l

/-- `set` -/
def cacheSet (c : Cache) (key : Bytes) (d : Bool) : Cache :=
  if !c.enabled then c else
  let es := c.entries.filter (fun x => !(x.1 == key)) ++ [(key, d)]
  { c with entries := evict c.max es.length es }

/-- the `*pgproto3.Query` case of `handleConn`: `some t` = text `t` is sent upstream, `none` =
an error is returned to the client -/
def handle (e : Env) (a : Acl) (c : Cache) (q : Bytes) (expired : Bool) : Cache × Option Bytes :=
  match cacheGet c q expired with          -- key := m.String
  | (c1, some d) => (c1, if d then some q else none)
  | (c1, none) =>
    let d := authorize e a q
    (cacheSet c1 q d, if d then some q else none)

/-! ### proxy.go before the fix -/

/-- `trimQuery`: 512 bytes + "..." -/
def trimQuery (q : Bytes) : Bytes :=
  let t := trimSpace q
  if t.length > 512 then t.take 512 ++ str "..." else t

/-- `cacheKey`: lower-case, white space collapsed -/
def cacheKey (e : Env) (q : Bytes) : Bytes :=
  e.lowerU ((fields q).foldl (fun acc f => if acc.isEmpty then f else acc ++ [32] ++ f) [])

/-- pre-fix `authorizeQuery` (called with the TRIMMED text) -/
def authorizeOld (e : Env) (a : Acl) (query : Bytes) : Bool :=
  let trimmed := trimSpace (trimSemi query)
  if trimmed.isEmpty then true else
  let lower := e.lowerU trimmed
  if hasPrefix lower (str "set ") || hasPrefix lower (str "reset ") then true
  else if a.allow.isEmpty && a.deny.isEmpty then true
  else match e.P trimmed with
    | none => false
    | some (topics, showTopics) =>
      if showTopics && !allowShowTopics a then false
      else topics.all (allows a)

def handleOld (e : Env) (a : Acl) (c : Cache) (q : Bytes) (expired : Bool) : Cache × Option Bytes :=
  let trimmed := trimQuery q
  let key := cacheKey e trimmed
  match cacheGet c key expired with
  | (c1, some d) => (c1, if d then some q else none)
  | (c1, none) =>
    let d := authorizeOld e a trimmed
    (cacheSet c1 key d, if d then some q else none)

/-! ### the concrete environment used by the driver -/

/-- `queryTopics` over the parser model -/
def queryTopics : GoResult Q → Option (List Bytes × Bool)
  | .ok .showTopics => some ([], true)
  | .ok (.showPartitions t) => some ([t], false)
  | .ok (.describe t) => some ([t], false)
  | .ok (.select s) => some (if s.joinTopic.isEmpty then [s.topic] else [s.topic, s.joinTopic], false)
  | .ok (.explain s) => some (if s.joinTopic.isEmpty then [s.topic] else [s.topic, s.joinTopic], false)
  | .err => none
  | .panic => none

def modelEnv : Env := { P := fun q => queryTopics (parse q), lowerU := asciiLower }

/-- the environment of the driver: the parser model and `strings.ToLower` (as far as ASCII
patterns see it) -/
def goEnv : Env := { P := fun q => queryTopics (parse q), lowerU := lowerGo }

end KafVerif.SqlProxy
