import KafVerif.Model.SqlParser
/-!
Model of the SQL proxy's authorisation path
(`addons/processors/sql-processor/internal/proxy/proxy.go` `handleConn` (the `*pgproto3.Query`
case), `authorizeQuery`, `queryTopics`, `trimQuery`; `acl.go`; `cache.go`) together with the
*upstream's* view of a query text (`internal/server/server.go` `handleQuery`: catalog branch
first, then SET/RESET, then `Parse` and execution).

`P : Bytes → Option (List Bytes × Bool)` stands for `queryTopics(Parse(text))` (`none` = parse
error); proxy and upstream call the same `kafsql.Parse`, so it is ONE parameter of the model.
`lowerU` stands for `strings.ToLower`.  `path.Match` is modelled for patterns made of literal
bytes, `*` and `?` (`globMatch`); `[`-classes and escapes are outside the modelled domain.

Definitions without suffix are the code after `fixes/C37-*.patch`; `…Old` is the code before.
-/
namespace KafVerif.SqlProxy
open KafVerif.SqlParser

/-! ### acl.go -/

structure Acl where
  allow : List Bytes
  deny : List Bytes
deriving Repr, DecidableEq

/-- `path.Match` for literal bytes, `*` (any run without '/') and `?` (one byte other than '/') -/
def globF : Nat → Bytes → Bytes → Bool
  | 0, _, _ => false
  | _ + 1, [], n => n.isEmpty
  | f + 1, 42 :: p, n =>
    globF f p n || (match n with
      | c :: t => c != 47 && globF f (42 :: p) t
      | [] => false)
  | f + 1, 63 :: p, c :: t => c != 47 && globF f p t
  | f + 1, c :: p, d :: t => c == d && globF f p t
  | _ + 1, _ :: _, [] => false

def globMatch (pattern name : Bytes) : Bool := globF (pattern.length + name.length + 1) pattern name

/-- `matchPatterns` -/
def matchPatterns (patterns : List Bytes) (topic : Bytes) : Bool :=
  patterns.any fun pattern =>
    let p := trimSpace pattern
    !p.isEmpty && (p == [42] || globMatch p topic || p == topic)

/-- `ACL.Allows`: deny wins, an empty allow list allows -/
def allows (a : Acl) (topic : Bytes) : Bool :=
  if matchPatterns a.deny topic then false
  else if a.allow.isEmpty then true
  else matchPatterns a.allow topic

/-- `ACL.AllowShowTopics` -/
def allowShowTopics (a : Acl) : Bool :=
  if !a.deny.isEmpty then false
  else if a.allow.isEmpty then true
  else matchPatterns a.allow [42]

/-! ### what the upstream does with a text (server.handleQuery) -/

/-- `strings.Contains` -/
def containsSub : Bytes → Bytes → Bool
  | [], pat => pat.isEmpty
  | c :: t, pat => hasPrefix (c :: t) pat || containsSub t pat

structure Env where
  P : Bytes → Option (List Bytes × Bool)
  lowerU : Bytes → Bytes

/-- `handleCatalogQuery` answers (from the list of ALL topics) -/
def isCatalog (e : Env) (q : Bytes) : Bool :=
  let trimmed := trimSpace q
  if trimmed.isEmpty then false else
  let lower := e.lowerU (trimSemi trimmed)
  containsSub lower (str "pg_catalog") || containsSub lower (str "information_schema")

/-- `handleSetCommand` answers -/
def isSet (e : Env) (q : Bytes) : Bool :=
  let trimmed := trimSpace q
  if trimmed.isEmpty then false else
  let lower := e.lowerU trimmed
  hasPrefix lower (str "set ") || hasPrefix lower (str "reset ")

/-- the topics the upstream reads for exactly this text, and whether it lists all topics -/
def upstreamView (e : Env) (q : Bytes) : List Bytes × Bool :=
  if isCatalog e q then ([], true)
  else if isSet e q then ([], false)
  else match e.P q with
    | none => ([], false)
    | some r => r

/-- "reads only topics the ACL allows" (listing all topics needs the show-topics permission) -/
def Safe (a : Acl) (v : List Bytes × Bool) : Prop :=
  (∀ t ∈ v.1, allows a t = true) ∧ (v.2 = true → allowShowTopics a = true)

/-! ### proxy.go after the fix -/

/-- `authorizeQuery(acl, query)` on the text that is forwarded -/
def authorize (e : Env) (a : Acl) (q : Bytes) : Bool :=
  if a.allow.isEmpty && a.deny.isEmpty then true
  else if isCatalog e q then allowShowTopics a
  else if isSet e q then true
  else match e.P q with
    | none => false
    | some (topics, showTopics) =>
      if showTopics && !allowShowTopics a then false
      else topics.all (allows a)

/-- cache.go: entries oldest first; `enabled = false` is the nil cache (`ttl <= 0 || max <= 0`) -/
structure Cache where
  enabled : Bool
  max : Nat
  entries : List (Bytes × Bool)
deriving Repr, DecidableEq

/-- `get`; `expired` is the outcome of `time.Since(entry.created) > ttl` (any timing) -/
def cacheGet (c : Cache) (key : Bytes) (expired : Bool) : Cache × Option Bool :=
  if !c.enabled then (c, none) else
  match c.entries.find? (fun en => en.1 == key) with
  | none => (c, none)
  | some en =>
    if expired then ({ c with entries := c.entries.filter (fun x => !(x.1 == key)) }, none)
    else (c, some en.2)

def evict (max : Nat) : Nat → List (Bytes × Bool) → List (Bytes × Bool)
  | 0, l => l
  | n + 1, l => if l.length > max then evict max n l.tail else l

/-- `set` -/
def cacheSet (c : Cache) (key : Bytes) (d : Bool) : Cache :=
  if !c.enabled then c else
  let es := c.entries.filter (fun x => !(x.1 == key)) ++ [(key, d)]
  { c with entries := evict c.max es.length es }

/-- the `*pgproto3.Query` case of `handleConn`: `some t` = text `t` is sent upstream, `none` =
an error is returned to the client -/
def handle (e : Env) (a : Acl) (c : Cache) (q : Bytes) (expired : Bool) : Cache × Option Bytes :=
  match cacheGet c q expired with          -- key := m.String
  | (c1, some d) => (c1, if d then some q else none)
  | (c1, none) =>
    let d := authorize e a q
    (cacheSet c1 q d, if d then some q else none)

/-! ### proxy.go before the fix -/

/-- `trimQuery`: 512 bytes + "..." -/
def trimQuery (q : Bytes) : Bytes :=
  let t := trimSpace q
  if t.length > 512 then t.take 512 ++ str "..." else t

/-- `cacheKey`: lower-case, white space collapsed -/
def cacheKey (e : Env) (q : Bytes) : Bytes :=
  e.lowerU ((fields q).foldl (fun acc f => if acc.isEmpty then f else acc ++ [32] ++ f) [])

/-- pre-fix `authorizeQuery` (called with the TRIMMED text) -/
def authorizeOld (e : Env) (a : Acl) (query : Bytes) : Bool :=
  let trimmed := trimSpace (trimSemi query)
  if trimmed.isEmpty then true else
  let lower := e.lowerU trimmed
  if hasPrefix lower (str "set ") || hasPrefix lower (str "reset ") then true
  else if a.allow.isEmpty && a.deny.isEmpty then true
  else match e.P trimmed with
    | none => false
    | some (topics, showTopics) =>
      if showTopics && !allowShowTopics a then false
      else topics.all (allows a)

def handleOld (e : Env) (a : Acl) (c : Cache) (q : Bytes) (expired : Bool) : Cache × Option Bytes :=
  let trimmed := trimQuery q
  let key := cacheKey e trimmed
  match cacheGet c key expired with
  | (c1, some d) => (c1, if d then some q else none)
  | (c1, none) =>
    let d := authorizeOld e a trimmed
    (cacheSet c1 key d, if d then some q else none)

/-! ### the concrete environment used by the driver -/

/-- `queryTopics` over the parser model -/
def queryTopics : GoResult Q → Option (List Bytes × Bool)
  | .ok .showTopics => some ([], true)
  | .ok (.showPartitions t) => some ([t], false)
  | .ok (.describe t) => some ([t], false)
  | .ok (.select s) => some (if s.joinTopic.isEmpty then [s.topic] else [s.topic, s.joinTopic], false)
  | .ok (.explain s) => some (if s.joinTopic.isEmpty then [s.topic] else [s.topic, s.joinTopic], false)
  | .err => none
  | .panic => none

def modelEnv : Env := { P := fun q => queryTopics (parse q), lowerU := asciiLower }

end KafVerif.SqlProxy
