import KafVerif.Model.ProxyProto
/-!
Connection lifecycles through `ReadProxyProtocol` (pkg/broker/proxyproto.go), several connections at a time.

As coded at HEAD every call `ReadProxyProtocol(conn)` allocates its own `bufio.NewReader(conn)` and wraps it in its own
`connWithReader{Conn, reader}`; the package has no mutable package-level state and `connWithReader` does not override
`Close` (the embedded `net.Conn.Close` runs, any number of times).  So the state of a set of connections is one record PER
connection: what the header parse returned, the bytes the wrapped connection has not delivered yet, and how often it was
closed.  Events: `accept id stream` (= `ReadProxyProtocol` on a connection that will deliver `stream` before EOF),
`read id n` (= `io.ReadFull(wrapped, n bytes)`), `close id` (= `wrapped.Close()`, may be repeated).

Outside the modelled domain (`Out.bad`; the generator of checks/C26.py never issues them): accepting an id twice, reading or
closing an unknown id, reading after a close (Go would still hand out what happens to sit in the bufio buffer, which depends
on how the peer's writes were chunked).
-/
namespace KafVerif.ProxyProto

/-- what the wrapped connection delivers after `ReadProxyProtocol` returned (header accepted: the remainder; rejected: `errRest`) -/
def remainderOf (s : Bytes) : Bytes :=
  match parse s with
  | .ok (_, rest) => rest
  | _ => errRest s

/-- the `(*ProxyInfo, error)` part of what `ReadProxyProtocol` returns -/
def headerOf (s : Bytes) : GoResult (Option Info) :=
  match parse s with
  | .ok (i, _) => .ok i
  | .err => .err
  | .panic => .panic

structure Conn where
  header : GoResult (Option Info)
  pending : Bytes
  closes : Nat

inductive Ev where
  | accept (id : Nat) (stream : Bytes)
  | read (id : Nat) (n : Nat)
  | close (id : Nat)
deriving DecidableEq

def Ev.conn : Ev → Nat
  | .accept i _ => i
  | .read i _ => i
  | .close i => i

inductive Out where
  | accepted (r : GoResult (Option Info))
  | data (b : Bytes)
  | closed
  | bad

/-- all connections the process has seen, by id -/
abbrev Conns := Nat → Option Conn

def noConns : Conns := fun _ => none

def setConn (st : Conns) (i : Nat) (c : Conn) : Conns := fun j => if j = i then some c else st j

def step (st : Conns) : Ev → Conns × Out
  | .accept i s =>
    match st i with
    | some _ => (st, .bad)
    | none => (setConn st i { header := headerOf s, pending := remainderOf s, closes := 0 }, .accepted (headerOf s))
  | .read i n =>
    match st i with
    | some c =>
      if c.closes = 0 then (setConn st i { c with pending := c.pending.drop n }, .data (c.pending.take n))
      else (st, .bad)
    | none => (st, .bad)
  | .close i =>
    match st i with
    | some c => (setConn st i { c with closes := c.closes + 1 }, .closed)
    | none => (st, .bad)

/-- the outputs of a session, each tagged with the connection it belongs to -/
def run (st : Conns) : List Ev → List (Nat × Out)
  | [] => []
  | e :: es => (e.conn, (step st e).2) :: run (step st e).1 es

/-- everything connection `i` delivered to its reader during a session, in order -/
def delivered (i : Nat) : List (Nat × Out) → Bytes
  | [] => []
  | (j, .data b) :: rest => if j = i then b ++ delivered i rest else delivered i rest
  | _ :: rest => delivered i rest

/-- what `ReadProxyProtocol` reported for connection `i` (first accept) -/
def reported (i : Nat) : List (Nat × Out) → Option (GoResult (Option Info))
  | [] => none
  | (j, .accepted r) :: rest => if j = i then some r else reported i rest
  | _ :: rest => reported i rest

end KafVerif.ProxyProto
