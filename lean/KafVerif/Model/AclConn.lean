import KafVerif.Model.AclSession
/-!
Connection model for C24: WHICH PRINCIPAL a request is authorised as (cmd/broker/main.go `buildConnContextFunc`,
`principalFromContext`; pkg/broker/server.go `Server.handleConnection`; pkg/broker/conn_context.go).

A broker is configured once (`ConnCfg`: `KAFSCALE_PRINCIPAL_SOURCE`, `KAFSCALE_PROXY_PROTOCOL`).  Every accepted TCP
connection has IMMUTABLE attributes (`ConnAttrs`: the socket's remote address and what `broker.ReadProxyProtocol`
found in front of the first frame).  `Server.handleConnection` calls the `ConnContextFunc` ONCE per connection
(`buildConn`) and attaches the returned `*broker.ConnContext` to the context every request of that connection is
handled with; `handler.Handle` derives the principal of EACH request with `principalFromContext(ctx, header)`.

* `hostFromAddr`, `splitHostPortHost`  `hostFromAddr` / the host part of `net.SplitHostPort` (error → `none`)
* `buildConn`                          the closure `buildConnContextFunc` returns, incl. the `return nil` case (no
                                       ConnContext at all: `client_id` source without PROXY protocol) and a refused connection
* `principalFromContext`               as in main.go
* `connStep`                           one request on a connection: at HEAD the `ConnContext` is only READ
* `connStepSticky`                     NOT the code at HEAD: the derived principal is written back into an empty
                                       `ConnContext.Principal` ("resolve the identity once per connection"), kept only for
                                       the witness theorem `KafVerif.C24.sticky_principal_violates`
* `principalSpec`                      the property's reading: the principal as a function of (broker configuration,
                                       the connection's immutable attributes, THIS request's client id)
* `stepC`/`runC`, `stepCG`/`runCG`     ONE handler (`AclSession.State`, store) serving requests that arrive on several
                                       connections, the principal of each request taken from its connection + client id
-/
namespace KafVerif.AclConn
open KafVerif KafVerif.GoStr KafVerif.Acl KafVerif.AclGate KafVerif.AclSession

def clientIdStr : List Char := "client_id".toList
def remoteAddrStr : List Char := "remote_addr".toList
def proxyAddrStr : List Char := "proxy_addr".toList

/-- last index of `c` in `s` (`bytealg.LastIndexByteString`), `none` = -1 -/
def lastIdx (c : Char) : List Char → Option Nat
  | [] => none
  | x :: rest =>
    match lastIdx c rest with
    | some i => some (i + 1)
    | none => if x == c then some 0 else none

/-- first index of `c` in `s` -/
def firstIdx (c : Char) : List Char → Option Nat
  | [] => none
  | x :: rest => if x == c then some 0 else (firstIdx c rest).map (· + 1)

/-- host part of `net.SplitHostPort(hostport)`; `none` = it returned an error -/
def splitHostPortHost (hp : List Char) : Option (List Char) :=
  match lastIdx ':' hp with
  | none => none                                            -- missing port
  | some i =>
    if hp.head? == some '[' then
      match firstIdx ']' hp with
      | none => none                                        -- missing ']'
      | some e =>
        if e + 1 == hp.length then none                     -- missing port
        else if e + 1 == i then
          if (hp.drop 1).contains '[' then none             -- unexpected '['
          else if (hp.drop (e + 1)).contains ']' then none  -- unexpected ']'
          else some ((hp.take e).drop 1)
        else none                                           -- too many colons / missing port
    else
      let host := hp.take i
      if host.contains ':' then none                        -- too many colons
      else if hp.contains '[' then none
      else if hp.contains ']' then none
      else some host

/-- `hostFromAddr` -/
def hostFromAddr (addr : List Char) : List Char :=
  if addr = [] then []
  else match splitHostPortHost addr with
    | some h => h
    | none => addr

/-- broker configuration read ONCE by `buildConnContextFunc` -/
structure ConnCfg where
  source : List Char          -- KAFSCALE_PRINCIPAL_SOURCE as set (untrimmed; unset = empty)
  proxyProtocol : Bool        -- parseEnvBool("KAFSCALE_PROXY_PROTOCOL", false)
deriving Repr, DecidableEq

/-- what `broker.ReadProxyProtocol` finds in front of the first frame of a connection -/
inductive ProxyHdr where
  | absent                          -- (nil, nil): no PROXY header (or a v2 header of an unknown family)
  | malformed                       -- parse error
  | isLocal                         -- `PROXY UNKNOWN` / v2 LOCAL command: `ProxyInfo{Local: true}`
  | addr (src : List Char)          -- `ProxyInfo{SourceAddr: src}` (`net.JoinHostPort(srcIP, srcPort)`)
deriving Repr, DecidableEq

/-- immutable attributes of one TCP connection -/
structure ConnAttrs where
  remoteAddr : List Char      -- conn.RemoteAddr().String()
  proxy : ProxyHdr
deriving Repr, DecidableEq

/-- `broker.ConnContext` -/
structure ConnContext where
  principal : List Char := []
  remoteAddr : List Char := []
  proxyAddr : List Char := []
deriving Repr, DecidableEq

/-- what `Server.handleConnection` ends up with for a connection -/
inductive ConnResult where
  | refused                         -- ConnContextFunc returned an error: the connection is closed, no request is served
  | noContext                       -- no ConnContextFunc (it is nil) : requests are handled with a plain context
  | ctx (info : ConnContext)        -- `ContextWithConnInfo(ctx, info)`
deriving Repr, DecidableEq

/-- `source` after `TrimSpace` + the `client_id` default -/
def sourceOf (cc : ConnCfg) : List Char :=
  let s := trimSpace cc.source
  if s = [] then clientIdStr else s

/-- `buildConnContextFunc(logger)` applied to a connection (`nil` func = `.noContext`) -/
def buildConn (cc : ConnCfg) (a : ConnAttrs) : ConnResult :=
  let source := sourceOf cc
  let proxyProtocol := cc.proxyProtocol || equalFold source proxyAddrStr
  if equalFold source clientIdStr && !proxyProtocol then .noContext
  else
    -- the PROXY block: `none` = error return; else (info so far, proxyInfo.SourceAddr if proxyInfo != nil)
    let r : Option (ConnContext × Option (List Char)) :=
      if proxyProtocol then
        match a.proxy with
        | .absent => none
        | .malformed => none
        | .isLocal => some ({}, some [])
        | .addr src => some (if src ≠ [] then { proxyAddr := src, remoteAddr := src } else {}, some src)
      else some ({}, none)
    match r with
    | none => .refused
    | some (info, pinfo) =>
      let info := if info.remoteAddr = [] then { info with remoteAddr := a.remoteAddr } else info
      let lower := source.map lowerAscii
      if lower = remoteAddrStr then .ctx { info with principal := hostFromAddr info.remoteAddr }
      else if lower = proxyAddrStr then
        match pinfo with
        | some src =>
          if src ≠ [] then .ctx { info with principal := hostFromAddr src }
          else .ctx { info with principal := hostFromAddr info.remoteAddr }
        | none => .ctx { info with principal := hostFromAddr info.remoteAddr }
      else .ctx info

/-- the principal the request's own header stands for -/
def clientIdPrincipal (cid : Option (List Char)) : List Char :=
  match cid with
  | none => anonymousStr
  | some c => if trimSpace c = [] then anonymousStr else c

/-- `principalFromContext(ctx, header)`; `info = none` = no ConnContext in the context -/
def principalFromContext (info : Option ConnContext) (cid : Option (List Char)) : List Char :=
  match info with
  | some i => if trimSpace i.principal ≠ [] then trimSpace i.principal else clientIdPrincipal cid
  | none => clientIdPrincipal cid

def infoOf : ConnResult → Option ConnContext
  | .ctx i => some i
  | _ => none

/-- one request on a connection at HEAD: the ConnContext is read, never written -/
def connStep (c : ConnResult) (cid : Option (List Char)) : ConnResult × List Char :=
  (c, principalFromContext (infoOf c) cid)

/-- NOT HEAD: the principal derived from the request is stored in the connection's ConnContext when that was empty -/
def connStepSticky (c : ConnResult) (cid : Option (List Char)) : ConnResult × List Char :=
  match c with
  | .ctx i =>
    if trimSpace i.principal ≠ [] then (c, trimSpace i.principal)
    else (.ctx { i with principal := clientIdPrincipal cid }, clientIdPrincipal cid)
  | _ => (c, clientIdPrincipal cid)

def connRunWith (cs : ConnResult → Option (List Char) → ConnResult × List Char) (c : ConnResult)
    (hist : List (Option (List Char))) : ConnResult :=
  hist.foldl (fun c cid => (cs c cid).1) c

/-! ### the property's reading -/

/-- does the broker read a PROXY header at all -/
def proxyOn (cc : ConnCfg) : Bool := cc.proxyProtocol || (sourceOf cc).map lowerAscii == proxyAddrStr

/-- the address the peer is known by: the PROXY header's (non-empty) source address when PROXY protocol is on,
else the socket's remote address -/
def peerAddr (cc : ConnCfg) (a : ConnAttrs) : List Char :=
  match a.proxy with
  | .addr src => if proxyOn cc && src ≠ [] then src else a.remoteAddr
  | _ => a.remoteAddr

/-- is the connection served at all -/
def accepted (cc : ConnCfg) (a : ConnAttrs) : Bool :=
  !proxyOn cc || (a.proxy != .absent && a.proxy != .malformed)

/-- THE PRINCIPAL OF A REQUEST: a function of the broker configuration, the connection's immutable attributes and
the request's own client id.  Address-based sources use the peer's host unless it is blank. -/
def principalSpec (cc : ConnCfg) (a : ConnAttrs) (cid : Option (List Char)) : List Char :=
  let src := (sourceOf cc).map lowerAscii
  if src = remoteAddrStr ∨ src = proxyAddrStr then
    let p := trimSpace (hostFromAddr (peerAddr cc a))
    if p = [] then clientIdPrincipal cid else p
  else clientIdPrincipal cid

/-! ### one handler, several connections -/

/-- one `h.allow*` call of a request that arrived on connection `conn` with client id `clientId` -/
structure CReq where
  conn : Nat
  clientId : Option (List Char)
  action : List Char
  resource : List Char
  name : List Char
  dt : Nat := 0

def stepCWith (cs : ConnResult → Option (List Char) → ConnResult × List Char)
    (s : State × List ConnResult) (r : CReq) : (State × List ConnResult) × Option Decision :=
  match s.2[r.conn]? with
  | none => (s, none)
  | some .refused => (s, none)
  | some c =>
    let cp := cs c r.clientId
    let o := step s.1 { req := ⟨cp.2, r.action, r.resource, r.name⟩, dt := r.dt }
    ((o.1, s.2.set r.conn cp.1), some o.2)

def stepC := stepCWith connStep
def runCWith (cs : ConnResult → Option (List Char) → ConnResult × List Char)
    (s : State × List ConnResult) (hist : List CReq) : State × List ConnResult :=
  hist.foldl (fun s r => (stepCWith cs s r).1) s
def runC := runCWith connStep

/-- a gated request (AclSession.GReq, its `principal` field is ignored) arriving on a connection -/
structure CGReq where
  conn : Nat
  clientId : Option (List Char)
  g : GReq

def stepCG (s : (State × Store) × List ConnResult) (r : CGReq) : ((State × Store) × List ConnResult) × List Out :=
  match s.2[r.conn]? with
  | none => (s, [])
  | some .refused => (s, [])
  | some c =>
    let cp := connStep c r.clientId
    let o := stepG s.1 { r.g with principal := cp.2 }
    ((o.1, s.2.set r.conn cp.1), o.2)

def runCG (s : (State × Store) × List ConnResult) (hist : List CGReq) : (State × Store) × List ConnResult :=
  hist.foldl (fun s r => (stepCG s r).1) s

end KafVerif.AclConn
