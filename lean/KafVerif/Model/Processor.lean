import KafVerif.Prelude.Basic
/-!
Model of the polling loop of the three processors
(`addons/processors/{iceberg-processor,sql-processor,skeleton}/internal/processor/processor.go`,
`Run`, the body of `case <-ticker.C:`), of `filterRecords`, and of the two checkpoint stores
(`noopStore` of `internal/checkpoint/checkpoint.go`; an offset store that persists commits and
answers `-1` for a partition that was never committed, which is what `etcdStore.LoadOffset` /
`CommitOffset` do).

One polling cycle:

```
segments, err := ListCompleted()            -- err: skip the cycle
if !hasLease { for seg in segments { ClaimLease(seg.tp) ; err: continue ; ok: break } }
if !hasLease { continue }
for seg in segments {
   if seg.tp != lease.tp { continue }
   state, err := LoadOffset(tp)             -- err: STOP (fix; was `continue`)
   decoded, err := Decode(seg)              -- err: STOP (fix; was `continue`)
   records := filterRecords(decoded, state.Offset)     -- keeps Offset > state.Offset
   records, err = resolveLfsRecords(records)           -- iceberg only; a record whose blob cannot
                                                       -- be fetched: err, STOP (fix; was: record dropped)
   if len(records) == 0 { continue }
   err := sink.Write(records)               -- err: STOP (fix; was `continue`)
   err := CommitOffset(last(records).Offset)-- err: continue (records are in the sink)
}
```

A topic/partition is a `Nat` id; a segment is its id plus the offsets of its decoded records in
file order.  The failure oracle names, per listed segment and per cycle, which step fails.
`…Old` definitions are the code before the proposed "fix:" patches
(`fixes/C33-*.patch`); the witnesses that they lose records are in `Props/C33.lean`.
-/
namespace KafVerif.Processor

/-- Which step fails while a segment is processed (at most one per segment and cycle). -/
inductive Fault where
  | none
  | load                    -- `LoadOffset` returns an error
  | decode                  -- `Decode` returns an error
  | lfs (bad : List Nat)    -- fetching the blob of the records at these offsets fails (iceberg)
  | sink                    -- `sink.Write` returns an error
  | commit                  -- `CommitOffset` returns an error
deriving Repr, DecidableEq

inductive StoreKind where
  | mem      -- persists commits; never-committed partition reads -1 (etcdStore)
  | noop     -- `noopStore`: commits are discarded, `LoadOffset` answers a constant
deriving Repr, DecidableEq

structure Seg where
  tp : Nat
  offs : List Nat
deriving Repr, DecidableEq

structure St where
  cp : Nat → Int            -- the store: committed offset per topic/partition (-1 = none)
  sink : List (Nat × Nat)   -- every (topic/partition, offset) handed to a successful `sink.Write`
  lease : Option Nat        -- `hasLease` / `activeLease`

def init : St := { cp := fun _ => -1, sink := [], lease := none }

/-- `noopStore.LoadOffset` after the fix (`Offset: -1`). -/
def noopLoad : Int := -1
/-- `noopStore.LoadOffset` before the fix (`Offset: 0`). -/
def noopLoadOld : Int := 0

def loadWith (noopL : Int) (k : StoreKind) (s : St) (tp : Nat) : Int :=
  match k with
  | .mem => s.cp tp
  | .noop => noopL

def load (k : StoreKind) (s : St) (tp : Nat) : Int := loadWith noopLoad k s tp

def commit (k : StoreKind) (s : St) (tp : Nat) (v : Int) : St :=
  match k with
  | .mem => { s with cp := fun t => if t = tp then v else s.cp t }
  | .noop => s

/-- `filterRecords`: keeps the records with `Offset > committed`. -/
def keep (cp : Int) (offs : List Nat) : List Nat := offs.filter (fun o => cp < (o : Int))

/-- Does `resolveLfsRecords` hit a blob it cannot fetch among the records it is given? -/
def lfsFails (f : Fault) (recs : List Nat) : Bool :=
  match f with
  | .lfs bad => recs.any (fun o => bad.contains o)
  | _ => false

def tagged (tp : Nat) (recs : List Nat) : List (Nat × Nat) := recs.map (fun o => (tp, o))

/-- The loop body for one listed segment.  The `Bool` says whether the `for` loop goes on to the
next segment (`true`: fell through or `continue`) or is left (`false`: `break`). -/
def segBody (k : StoreKind) (tp : Nat) (seg : Seg) (f : Fault) (s : St) : St × Bool :=
  if seg.tp ≠ tp then (s, true)
  else if f = .load then (s, false)
  else if f = .decode then (s, false)
  else
    let recs := keep (load k s tp) seg.offs
    if lfsFails f recs then (s, false)
    else if recs = [] then (s, true)
    else if f = .sink then (s, false)
    else
      let s1 : St := { s with sink := s.sink ++ tagged tp recs }
      if f = .commit then (s1, true)
      else (commit k s1 tp ((recs.getLast?.getD 0 : Nat) : Int), true)

/-- `for _, seg := range segments { … }` for the leased topic/partition. -/
def process (k : StoreKind) (tp : Nat) : List Seg → List Fault → St → St
  | [], _, s => s
  | seg :: rest, fs, s =>
    let r := segBody k tp seg (fs.headD .none) s
    if r.2 then process k tp rest fs.tail r.1 else r.1

/-- The claim loop: the first listed segment whose `ClaimLease` succeeds gives the lease. -/
def claim : List Seg → List Bool → Option Nat
  | [], _ => none
  | seg :: rest, fs => if fs.headD false then claim rest fs.tail else some seg.tp

structure Oracle where
  listFail : Bool
  claimFail : List Bool
  faults : List Fault
deriving Repr

/-- One tick of the polling loop. -/
def cycle (k : StoreKind) (segs : List Seg) (o : Oracle) (s : St) : St :=
  if o.listFail then s
  else
    let s1 : St := match s.lease with
      | some _ => s
      | none => { s with lease := claim segs o.claimFail }
    match s1.lease with
    | none => s1
    | some tp => process k tp segs o.faults s1

inductive Op where
  | cycle (o : Oracle)
  | leaseLost            -- a renewal failed: the lease is released, `hasLease = false`
deriving Repr

def step (k : StoreKind) (segs : List Seg) (s : St) : Op → St
  | .cycle o => cycle k segs o s
  | .leaseLost => { s with lease := none }

/-! ### The code before the fixes -/

/-- records left after the pre-fix `resolveLfsRecords`: unfetchable ones are silently dropped -/
def lfsDropOld (f : Fault) (recs : List Nat) : List Nat :=
  match f with
  | .lfs bad => recs.filter (fun o => !bad.contains o)
  | _ => recs

/-- pre-fix loop body: every failure is a `continue`; `noopL` is what `noopStore.LoadOffset` says. -/
def segBodyOld (noopL : Int) (k : StoreKind) (tp : Nat) (seg : Seg) (f : Fault) (s : St) : St :=
  if seg.tp ≠ tp then s
  else if f = .load then s
  else if f = .decode then s
  else
    let recs := lfsDropOld f (keep (loadWith noopL k s tp) seg.offs)
    if recs = [] then s
    else if f = .sink then s
    else
      let s1 : St := { s with sink := s.sink ++ tagged tp recs }
      if f = .commit then s1
      else commit k s1 tp ((recs.getLast?.getD 0 : Nat) : Int)

def processOld (noopL : Int) (k : StoreKind) (tp : Nat) : List Seg → List Fault → St → St
  | [], _, s => s
  | seg :: rest, fs, s => processOld noopL k tp rest fs.tail (segBodyOld noopL k tp seg (fs.headD .none) s)

def cycleOld (noopL : Int) (k : StoreKind) (segs : List Seg) (o : Oracle) (s : St) : St :=
  if o.listFail then s
  else
    let s1 : St := match s.lease with
      | some _ => s
      | none => { s with lease := claim segs o.claimFail }
    match s1.lease with
    | none => s1
    | some tp => processOld noopL k tp segs o.faults s1

/-! ### Specification vocabulary -/

/-- offsets of the listed segments of one topic/partition, in listing order -/
def offsOf (tp : Nat) : List Seg → List Nat
  | [] => []
  | seg :: rest => if seg.tp = tp then seg.offs ++ offsOf tp rest else offsOf tp rest

/-- "the checkpoint never moves past a record that has not been written", for one partition
and a given set of offsets. -/
def CoveredTP (k : StoreKind) (tp : Nat) (all : List Nat) (s : St) : Prop :=
  ∀ o ∈ all, (o : Int) ≤ load k s tp → (tp, o) ∈ s.sink

/-- … for every record of every completed segment. -/
def Covered (k : StoreKind) (segs : List Seg) (s : St) : Prop :=
  ∀ tp, CoveredTP k tp (offsOf tp segs) s

/-- Listing order = offset order within each partition (discovery sorts by topic, partition,
base offset; offsets inside and across a partition's segments increase). -/
def SortedTP (segs : List Seg) : Prop :=
  ∀ tp, (offsOf tp segs).Pairwise (· < ·)

/-- executable version of `Covered` for the monitor (checks the partitions that occur) -/
def coveredB (k : StoreKind) (segs : List Seg) (s : St) : Bool :=
  segs.all fun seg => seg.offs.all fun o =>
    !(decide ((o : Int) ≤ load k s seg.tp)) || s.sink.contains (seg.tp, o)

/-! ### A statistics fast path (not in the code today)

The sql lister attaches `MinOffset`/`MaxOffset` to a `SegmentRef` (`discovery.go`: `MaxOffset` =
base offset of the partition's next segment − 1, only when a next segment is listed; the time index
may fill both in from the segment footer).  `Run` does not read them at HEAD.  A loop that uses
`MaxOffset` to avoid downloading a fully delivered segment — `if rule(seg.MaxOffset, state.Offset)
{ continue }` between `LoadOffset` and `Decode` — is modelled here with the comparison as a
parameter; `Props/C33.lean` proves that the strict rule refines the plain loop and that the
off-by-one rule loses the one-record segment that holds exactly the next record to deliver. -/

/-- a listed segment together with the `MaxOffset` statistic the lister attached to its
`SegmentRef` (`none`: absent — the s3Lister fills it in only when a later segment of the
partition is listed) -/
structure SSeg where
  seg : Seg
  maxOff : Option Nat
deriving Repr

/-- "the segment ends below the next offset to deliver": `MaxOffset < checkpoint + 1` -/
def skipLt (m : Option Nat) (cp : Int) : Bool :=
  match m with
  | some m => decide ((m : Int) < cp + 1)
  | none => false

/-- the off-by-one variant `MaxOffset <= checkpoint + 1` -/
def skipLe (m : Option Nat) (cp : Int) : Bool :=
  match m with
  | some m => decide ((m : Int) ≤ cp + 1)
  | none => false

/-- loop body with a statistics fast path between `LoadOffset` and `Decode`:
`if rule(seg.MaxOffset, state.Offset) { continue }` -/
def segBodySkip (rule : Option Nat → Int → Bool) (k : StoreKind) (tp : Nat) (ss : SSeg) (f : Fault) (s : St) :
    St × Bool :=
  if ss.seg.tp ≠ tp then (s, true)
  else if f = .load then (s, false)
  else if rule ss.maxOff (load k s tp) then (s, true)
  else segBody k tp ss.seg f s

def processSkip (rule : Option Nat → Int → Bool) (k : StoreKind) (tp : Nat) : List SSeg → List Fault → St → St
  | [], _, s => s
  | ss :: rest, fs, s =>
    let r := segBodySkip rule k tp ss (fs.headD .none) s
    if r.2 then processSkip rule k tp rest fs.tail r.1 else r.1

def cycleSkip (rule : Option Nat → Int → Bool) (k : StoreKind) (sss : List SSeg) (o : Oracle) (s : St) : St :=
  if o.listFail then s
  else
    let s1 : St := match s.lease with
      | some _ => s
      | none => { s with lease := claim (sss.map (·.seg)) o.claimFail }
    match s1.lease with
    | none => s1
    | some tp => processSkip rule k tp sss o.faults s1

def stepSkip (rule : Option Nat → Int → Bool) (k : StoreKind) (sss : List SSeg) (s : St) : Op → St
  | .cycle o => cycleSkip rule k sss o s
  | .leaseLost => { s with lease := none }

/-- the statistic is an upper bound of the segment's offsets (true for both ways the lister
computes it: next segment's base offset − 1, or the last record of the segment itself) -/
def StatsOK (sss : List SSeg) : Prop :=
  ∀ ss ∈ sss, ∀ m, ss.maxOff = some m → ∀ o ∈ ss.seg.offs, o ≤ m

/-! ### The lister (`internal/discovery`: `s3Lister.ListCompleted`, sql `manifestLister`)

The bucket holds, per segment, a `.kfs`/`.index` pair whose key names topic, partition and base
offset.  `ListCompleted` lists the keys (`ListObjectsV2`), probes every pair for the footer magic (a
ranged `GetObject` of the last four bytes) and returns the completed ones sorted by (topic,
partition, base offset).  A failing `ListObjectsV2` fails the listing; after
`fixes/C36-footer-probe-error.patch` (sql) and `fixes/C33-iceberg-footer-probe-error.patch` (iceberg)
so does a failing footer probe.  `…Old` is the code before: a segment whose probe FAILED was
dropped like one that is not completed, and the listing succeeded without it. -/

/-- a `.kfs`/`.index` pair in the bucket: the segment it decodes to, the base offset in its key,
and whether the `.kfs` object ends with the footer magic -/
structure Obj where
  seg : Seg
  base : Nat
  complete : Bool
deriving Repr, DecidableEq

/-- the order of `sort.Slice` in `ListCompleted`: (topic/partition, base offset) -/
def objLe (a b : Obj) : Bool :=
  decide (a.seg.tp < b.seg.tp) || (decide (a.seg.tp = b.seg.tp) && decide (a.base ≤ b.base))

def insertObj (a : Obj) : List Obj → List Obj
  | [] => [a]
  | b :: t => if objLe a b then a :: b :: t else b :: insertObj a t

def sortObjs (l : List Obj) : List Obj := l.foldr insertObj []

/-- which requests of one `ListCompleted` call fail -/
structure ListOracle where
  listErr : Bool            -- `ListObjectsV2`
  probeErr : List Bool      -- per pair of the bucket: the ranged `GetObject` of the footer probe
  manifestErr : Bool := false  -- sql `manifestLister`: the `GetObject` of `manifest.json`
deriving Repr

/-- does the footer probe of some pair fail? -/
def anyProbeErr : List Obj → List Bool → Bool
  | [], _ => false
  | _ :: t, pe => pe.headD false || anyProbeErr t pe.tail

/-- the pairs the pre-fix loop keeps: completed and probed without an error -/
def survivors : List Obj → List Bool → List Obj
  | [], _ => []
  | a :: t, pe =>
    if a.complete && !(pe.headD false) then a :: survivors t pe.tail else survivors t pe.tail

/-- every completed segment of the bucket, in listing order -/
def fullListing (objs : List Obj) : List Seg := (sortObjs (objs.filter (·.complete))).map (·.seg)

/-- `s3Lister.ListCompleted` (fixed): an error (`none`: the polling cycle is skipped) or the
complete sorted listing -/
def listCompleted (objs : List Obj) (lo : ListOracle) : Option (List Seg) :=
  if lo.listErr then none
  else if anyProbeErr objs lo.probeErr then none
  else some (fullListing objs)

/-- `s3Lister.ListCompleted` before the fix: `if err != nil || !ok { continue }` -/
def listCompletedOld (objs : List Obj) (lo : ListOracle) : Option (List Seg) :=
  if lo.listErr then none
  else some ((sortObjs (survivors objs lo.probeErr)).map (·.seg))

/-- sql `manifestLister.ListCompleted` (TTL 0) after `fixes/C33-sql-manifest-listing-order.patch`:
the entries of `manifest.json` sorted like the S3 listing; when the manifest cannot be read or is
empty, the fallback `s3Lister` -/
def listManifest (manifest objs : List Obj) (lo : ListOracle) : Option (List Seg) :=
  if lo.manifestErr || manifest.isEmpty then listCompleted objs lo
  else some ((sortObjs manifest).map (·.seg))

/-- … before the fix: the entries in the order of the file -/
def listManifestOld (manifest objs : List Obj) (lo : ListOracle) : Option (List Seg) :=
  if lo.manifestErr || manifest.isEmpty then listCompleted objs lo
  else some (manifest.map (·.seg))

/-- one tick with a lister `ls` in front of the loop: `segments, err := ListCompleted(); if err != nil { continue }` -/
def cycleWith (ls : Option (List Seg)) (k : StoreKind) (o : Oracle) (s : St) : St :=
  match ls with
  | none => s
  | some l => cycle k l o s

def cycleL (k : StoreKind) (objs : List Obj) (lo : ListOracle) (o : Oracle) (s : St) : St :=
  cycleWith (listCompleted objs lo) k o s

def cycleLOld (k : StoreKind) (objs : List Obj) (lo : ListOracle) (o : Oracle) (s : St) : St :=
  cycleWith (listCompletedOld objs lo) k o s

inductive LOp where
  | cycle (lo : ListOracle) (o : Oracle)
  | leaseLost
deriving Repr

def stepL (k : StoreKind) (objs : List Obj) (s : St) : LOp → St
  | .cycle lo o => cycleL k objs lo o s
  | .leaseLost => { s with lease := none }

/-- What the broker guarantees about the completed segments of a bucket: keys are unique, the
records of a segment are in offset order, and a segment with a smaller base offset holds smaller
offsets than one of the same partition with a larger base offset. -/
structure WFObjs (c : List Obj) : Prop where
  keys : c.Pairwise (fun a b => ¬ (a.seg.tp = b.seg.tp ∧ a.base = b.base))
  inner : ∀ a ∈ c, a.seg.offs.Pairwise (· < ·)
  across : ∀ a ∈ c, ∀ b ∈ c, a.seg.tp = b.seg.tp → a.base < b.base →
    ∀ x ∈ a.seg.offs, ∀ y ∈ b.seg.offs, x < y

def BucketWF (objs : List Obj) : Prop := WFObjs (objs.filter (·.complete))

/-- a history in which the bucket changes between ticks -/
inductive LGOp where
  | cycle (objs : List Obj) (lo : ListOracle) (o : Oracle)
  | leaseLost

/-- runs the history; the first component is the complete listing of the latest bucket (ghost:
what the specification speaks about, also when that tick's `ListCompleted` failed) -/
def lgrun (k : StoreKind) : List Seg → St → List LGOp → List Seg × St
  | cur, s, [] => (cur, s)
  | _, s, .cycle objs lo o :: rest => lgrun k (fullListing objs) (cycleL k objs lo o s) rest
  | cur, s, .leaseLost :: rest => lgrun k cur { s with lease := none } rest

end KafVerif.Processor
