import KafVerif.Prelude.Basic
/-!
Model of `pkg/broker/proxyproto.go`: `ReadProxyProtocol` / `parseProxyHeader` / `parseProxyV1` /
`parseProxyV2` / `parseProxyV2Inet(6)` / `readProxyV1Line` / `atoiOrZero`, plus the buffered
remainder that `connWithReader` hands to the Kafka frame reader.

Input `s` = the bytes the connection delivers before EOF.  `parse s = ok (info?, rest)`:
`rest` is what a reader of the wrapped connection gets.  `bufio.Reader.Peek(n)` on a stream shorter
than `n` yields io.EOF (buffer size 4096 ≥ 12); `io.ReadFull` on a short stream yields an error.

Restrictions (named in notes/C26.md): `bytes.Fields` / `bytes.ToUpper` are modelled for ASCII
(whitespace = \t \n \v \f \r and space); IP addresses of v2 headers are the raw 4/16 bytes (Go's textual
`net.IP.String()` is canonicalised back by the harness); `net.JoinHostPort` brackets hosts containing a colon.
-/
namespace KafVerif.ProxyProto

structure Info where
  isLocal : Bool
  srcIP : Bytes
  dstIP : Bytes
  srcPort : Int
  dstPort : Int
  srcAddr : Bytes   -- v1 only (`net.JoinHostPort(srcIP, srcPortToken)`); [] for v2
  dstAddr : Bytes
deriving Repr, DecidableEq

def localInfo : Info := { isLocal := true, srcIP := [], dstIP := [], srcPort := 0, dstPort := 0, srcAddr := [], dstAddr := [] }

def proxyWord : Bytes := [0x50, 0x52, 0x4f, 0x58, 0x59]                                  -- "PROXY"
def v2Sig : Bytes := [0x0d, 0x0a, 0x0d, 0x0a, 0x00, 0x0d, 0x0a, 0x51, 0x55, 0x49, 0x54, 0x0a]
def v2Sig5 : Bytes := [0x0d, 0x0a, 0x0d, 0x0a, 0x00]
def unknownWord : Bytes := [0x55, 0x4e, 0x4b, 0x4e, 0x4f, 0x57, 0x4e]                      -- "UNKNOWN"

def isSpace (b : UInt8) : Bool := b == 9 || b == 10 || b == 11 || b == 12 || b == 13 || b == 32

/-- `bytes.Fields` (ASCII). -/
def fieldsAux : Bytes → Bytes → List Bytes
  | [], cur => if cur.isEmpty then [] else [cur]
  | b :: rest, cur =>
    if isSpace b then (if cur.isEmpty then fieldsAux rest [] else cur :: fieldsAux rest [])
    else fieldsAux rest (cur ++ [b])
def fields (l : Bytes) : List Bytes := fieldsAux l []

def upperByte (b : UInt8) : UInt8 := if 97 ≤ b.toNat ∧ b.toNat ≤ 122 then UInt8.ofNat (b.toNat - 32) else b
def toUpper (l : Bytes) : Bytes := l.map upperByte

/-- Go `int` arithmetic wraps at 64 bits. -/
def wrap64 (x : Int) : Int := let m := x % (2 ^ 64 : Int); if m < 2 ^ 63 then m else m - 2 ^ 64

/-- `atoiOrZero`: any non-digit → 0; `out = out*10 + digit` in Go `int`. -/
def atoiAux : Bytes → Int → Int
  | [], out => out
  | ch :: rest, out => if ch.toNat < 48 ∨ ch.toNat > 57 then 0 else atoiAux rest (wrap64 (out * 10 + ((ch.toNat : Int) - 48)))
def atoiOrZero (v : Bytes) : Int := atoiAux v 0

/-- `readProxyV1Line(br, 256)`: `(line incl. '\n', rest)`; EOF before '\n' or 256 bytes without one → error. -/
def readLineAux : Nat → Bytes → Bytes → GoResult (Bytes × Bytes)
  | 0, _, _ => .err
  | _ + 1, [], _ => .err
  | n + 1, b :: rest, acc => if b == 10 then .ok (acc ++ [b], rest) else readLineAux n rest (acc ++ [b])
def readLine (s : Bytes) : GoResult (Bytes × Bytes) := readLineAux 256 s []

/-- `net.JoinHostPort`. -/
def joinHostPort (host port : Bytes) : Bytes :=
  if host.any (fun b => b == 0x3a) then [0x5b] ++ host ++ [0x5d, 0x3a] ++ port else host ++ [0x3a] ++ port

def parseV1 (s : Bytes) : GoResult (Option Info × Bytes) :=
  (readLine s).bind fun (line, rest) =>
    let parts := fields line
    if parts.length ≥ 2 ∧ toUpper (parts.getD 1 []) = unknownWord then .ok (some localInfo, rest)
    else if parts.length < 6 then .err
    else
      let srcIP := parts.getD 2 []
      let dstIP := parts.getD 3 []
      let srcPort := parts.getD 4 []
      let dstPort := parts.getD 5 []
      .ok (some { isLocal := false, srcIP := srcIP, dstIP := dstIP,
                  srcPort := atoiOrZero srcPort, dstPort := atoiOrZero dstPort,
                  srcAddr := joinHostPort srcIP srcPort, dstAddr := joinHostPort dstIP dstPort }, rest)

def be16 (b : Bytes) : Int := match b with
  | [a, c] => (a.toNat * 256 + c.toNat : Nat)
  | _ => 0

/-- `parseProxyV2Inet`: the slice expressions are guarded by `len(payload) < 12`. -/
def parseV2Inet (payload : Bytes) : GoResult Info :=
  if payload.length < 12 then .err
  else
    (goSlice payload 0 4).bind fun src => (goSlice payload 4 8).bind fun dst =>
    (goSlice payload 8 10).bind fun sp => (goSlice payload 10 12).bind fun dp =>
      .ok { isLocal := false, srcIP := src, dstIP := dst, srcPort := be16 sp, dstPort := be16 dp, srcAddr := [], dstAddr := [] }

def parseV2Inet6 (payload : Bytes) : GoResult Info :=
  if payload.length < 36 then .err
  else
    (goSlice payload 0 16).bind fun src => (goSlice payload 16 32).bind fun dst =>
    (goSlice payload 32 34).bind fun sp => (goSlice payload 34 36).bind fun dp =>
      .ok { isLocal := false, srcIP := src, dstIP := dst, srcPort := be16 sp, dstPort := be16 dp, srcAddr := [], dstAddr := [] }

/-- `famOf` extracts the address family from header byte 13: high nibble after the fix
(`header[13] >> 4`), low nibble before (`header[13] & 0x0f`, which is the TRANSPORT protocol). -/
def parseV2With (famOf : Nat → Nat) (s : Bytes) : GoResult (Option Info × Bytes) :=
  if s.length < 16 then .err                                     -- io.ReadFull(header)
  else
    let header := s.take 16
    if header.take 12 ≠ v2Sig then .err
    else
      let cmd := (header.getD 12 0).toNat % 16
      let length := (be16 ((header.drop 14).take 2)).toNat
      let after := s.drop 16
      if after.length < length then .err                           -- io.ReadFull(payload)
      else
        let payload := after.take length
        let rest := after.drop length
        if cmd = 0 then .ok (some localInfo, rest)
        else
          let family := famOf (header.getD 13 0).toNat
          if family = 1 then (parseV2Inet payload).bind fun i => .ok (some i, rest)
          else if family = 2 then (parseV2Inet6 payload).bind fun i => .ok (some i, rest)
          else .ok (none, rest)

def parseV2 := parseV2With (· / 16)
def parseV2Old := parseV2With (· % 16)

/-- `ReadProxyProtocol`: info (if any) and the bytes the wrapped connection still delivers. -/
def parseWith (pv2 : Bytes → GoResult (Option Info × Bytes)) (s : Bytes) : GoResult (Option Info × Bytes) :=
  if s.length < 5 then .ok (none, s)                              -- Peek(5) = io.EOF → (nil, nil)
  else if s.take 5 = proxyWord then parseV1 s
  else if s.take 5 = v2Sig5 then
    if s.length < 12 then .err                                     -- Peek(12) error is returned
    else if s.take 12 = v2Sig then pv2 s
    else .ok (none, s)
  else .ok (none, s)

def parse := parseWith parseV2

/-- What a reader of the wrapped connection still gets when `ReadProxyProtocol` returned an ERROR (cmd/broker then drops the
connection; modelled so that the rejection theorems can state how much of the stream the parser consumed):
`Peek` consumes nothing; `readProxyV1Line` stops after 256 bytes (or at EOF); a malformed v1 line is consumed up to its LF;
a failing `io.ReadFull` has drained the stream; a v2 header with a too-short address block is consumed with its payload. -/
def errRest (s : Bytes) : Bytes :=
  if s.length < 5 then s
  else if s.take 5 = proxyWord then
    match readLine s with
    | .ok (_, rest) => rest
    | _ => s.drop 256
  else if s.take 5 = v2Sig5 then
    if s.length < 12 then s
    else if s.take 12 = v2Sig then
      if s.length < 16 then []
      else
        let length := (be16 (((s.take 16).drop 14).take 2)).toNat
        if (s.drop 16).length < length then [] else (s.drop 16).drop length
    else s
  else s
/-- the code before `fixes/C26-proxy-v2-family-nibble.patch` -/
def parseOld := parseWith parseV2Old

/-! ### encoders (what a PROXY-protocol sender writes) -/

def sp : Bytes := [0x20]
def crlf : Bytes := [0x0d, 0x0a]

/-- v1 line: `PROXY <proto> <src> <dst> <sport> <dport>\r\n` -/
def encV1 (proto src dst sport dport : Bytes) : Bytes :=
  proxyWord ++ sp ++ proto ++ sp ++ src ++ sp ++ dst ++ sp ++ sport ++ sp ++ dport ++ crlf

def put16 (n : Nat) : Bytes := [UInt8.ofNat (n / 256 % 256), UInt8.ofNat (n % 256)]

/-- v2 header: signature, version/command byte, family/transport byte, length, payload -/
def encV2 (verCmd famTrans : UInt8) (payload : Bytes) : Bytes :=
  v2Sig ++ [verCmd, famTrans] ++ put16 payload.length ++ payload

end KafVerif.ProxyProto
