import KafVerif.Model.KafkaDecoder
/-!
Model `Storage.Recovery`: point-in-time restore.

* byte level — `pkg/storage/recovery_exact.go`: `scanRecord`, `truncateRecordBatchToTimestamp`,
  `collectRecoverableBatches`, `buildRestorePlan`;
* object level — `pkg/storage/recovery.go`: `RecoverTopicToTimestamp` over an S3 object map with a
  fault oracle (the i-th S3 call fails iff `i ∈ fails`; a failed call has no effect), including
  `inspectSourceSegment`, candidate selection and the rollback `defer`.

Object keys are abstract triples (topic, partition, base offset); the string formatting /
parsing of keys is not part of this model (C22 covers key formats).
-/
namespace KafVerif.Kafka

/-! ### byte level -/

/-- `scanRecord(reader)`: (timestampDelta, int32(offsetDelta)) and the unread bytes -/
def scanRecord (mk : Alloc) (r : Bytes) : GoResult ((Int × Int) × Bytes) := do
  let len ← ofOpt (readVarint64 r)
  if len.1 < 0 then .err
  else if len.1 > len.2.length then .err
  else do
    mk len.1 1
    let p ← ofOpt (readN len.1.toNat len.2)
    match p.1 with
    | [] => .err
    | _ :: b1 => do
      let ts ← ofOpt (readVarint64 b1)
      let od ← ofOpt (readVarint64 ts.2)
      .ok ((ts.1, wrap32 od.1), p.2)

structure ScanSt where
  kept : Nat
  keptBytes : Nat
  lastOD : Int
  maxIncl : Int
deriving DecidableEq, Repr

/-- the `for i := int32(0); i < recordCount; i++` loop of `truncateRecordBatchToTimestamp`;
`total` = len(batch[61:]) -/
def scanLoop (mk : Alloc) (firstTs cutoff : Int) (total : Nat) : Nat → Bytes → ScanSt → GoResult ScanSt
  | 0, _, st => .ok st
  | n + 1, r, st => do
    let s ← scanRecord mk r
    let rts := wrap64 (firstTs + s.1.1)
    if rts > cutoff then .ok st
    else
      let st' : ScanSt := ⟨st.kept + 1, total - s.2.length, s.1.2, if rts > st.maxIncl then rts else st.maxIncl⟩
      scanLoop mk firstTs cutoff total n s.2 st'

/-- `binary.BigEndian.PutUintNN(b[i:], v)` -/
def patch (b : Bytes) (i : Nat) (v : Bytes) : Bytes := b.take i ++ (v ++ b.drop (i + v.length))

/-- the rewritten batch: header fields patched in the order of the code, CRC last -/
def rewriteBatch (crc : Bytes → Nat) (batch : Bytes) (st : ScanSt) : Bytes :=
  let t0 := batch.take (61 + st.keptBytes)
  let t1 := patch t0 8 (u32be (t0.length - 12))
  let t2 := patch t1 23 (i32be st.lastOD)
  let t3 := patch t2 35 (i64be st.maxIncl)
  let t4 := patch t3 57 (i32be st.kept)
  patch t4 17 (u32be (crc (t4.drop 21)))

/-- `truncateRecordBatchToTimestamp(batch, cutoffMs)`: (kept batch if any, done) -/
def truncateBatch (crc : Bytes → Nat) (mk : Alloc) (batch : Bytes) (cutoff : Int) : GoResult (Option SBatch × Bool) :=
  if batch.length < 61 then .err
  else
    let firstTs := toS64 (beDec (sl batch 27 35))
    let maxTs := toS64 (beDec (sl batch 35 43))
    if maxTs ≤ cutoff then (do let b ← ofOpt (newRecordBatch batch); .ok (some b, false))
    else if firstTs > cutoff then .ok (none, true)
    else if toS16 (beDec (sl batch 21 23)) % 8 ≠ 0 then .err
    else
      let recordCount := toS32 (beDec (sl batch 57 61))
      let data := batch.drop 61
      do
        let st ← scanLoop mk firstTs cutoff data.length recordCount.toNat data ⟨0, 0, 0, firstTs⟩
        if st.kept = 0 then .ok (none, true)
        else if (st.kept : Int) = recordCount then (do let b ← ofOpt (newRecordBatch batch); .ok (some b, true))
        else do
          let b ← ofOpt (newRecordBatch (rewriteBatch crc batch st))
          .ok (some b, true)

/-- frame loop of `collectRecoverableBatches` over the unread body -/
def collectLoop (crc : Bytes → Nat) (mk : Alloc) (cutoff : Int) : Nat → Bytes → GoResult (List SBatch)
  | 0, _ => .ok []
  | fuel + 1, rem =>
    if rem.length < 12 then .ok []
    else
      let batchLen := beDec (sl rem 8 12)
      if batchLen = 0 then .ok []
      else
        let frameLen := 12 + batchLen
        if frameLen > rem.length then .err              -- "record batch exceeds segment bounds"
        else do
          mk frameLen 1                                -- append([]byte(nil), body[offset:offset+frameLen]...)
          let t ← truncateBatch crc mk (rem.take frameLen) cutoff
          if t.2 then .ok t.1.toList
          else do
            let more ← collectLoop crc mk cutoff fuel (rem.drop frameLen)
            .ok (t.1.toList ++ more)

/-- `collectRecoverableBatches(segmentBytes, cutoffMs)` -/
def collectRecoverable (crc : Bytes → Nat) (mk : Alloc) (seg : Bytes) (cutoff : Int) : GoResult (List SBatch) :=
  if seg.length < 32 + 16 then .err
  else if sl seg 0 4 ≠ segMagic then .err
  else
    let body := sl seg 32 (seg.length - 16)
    collectLoop crc mk cutoff (body.length + 1) body

structure Plan where
  seg : Bytes
  idx : Bytes
  base : Int
  last : Int
  keep : Bool
deriving DecidableEq, Repr

/-- `buildRestorePlan(segmentBytes, indexBytes, restoreTo, createdAt)` -/
def buildRestorePlan (crc : Bytes → Nat) (mk : Alloc) (seg idx : Bytes) (restoreMs createdMs : Int) : GoResult Plan := do
  let pi ← parseIndexRoot mk idx
  let batches ← collectRecoverable crc mk seg restoreMs
  if batches.isEmpty then .ok ⟨[], [], 0, 0, false⟩
  else do
    let a ← ofOpt (buildSegment crc pi.1 batches createdMs)
    .ok ⟨a.seg, a.idx, a.base, a.last, true⟩

/-! ### object level -/

structure Key where
  topic : Nat            -- 0 = source topic, 1 = target topic, ≥ 2 = unrelated
  part : Int
  base : Int
deriving DecidableEq, Repr

abbrev Objs := List (Key × Bytes)

def oput (m : Objs) (k : Key) (v : Bytes) : Objs := (k, v) :: m.filter (fun e => e.1 ≠ k)
def odel (m : Objs) (k : Key) : Objs := m.filter (fun e => e.1 ≠ k)
def oget (m : Objs) (k : Key) : Option Bytes := (m.find? (fun e => e.1 = k)).map (·.2)

structure S3 where
  segs : Objs
  idxs : Objs
  calls : Nat
  fails : List Nat
deriving Repr

/-- one S3 call: does it fail (`failing`), and the call counter after it (`bump`) -/
def S3.failing (s : S3) : Bool := s.fails.contains s.calls
def S3.bump (s : S3) : S3 := { s with calls := s.calls + 1 }

structure Src where
  key : Key
  last : Int
  created : Int
  size : Nat
deriving DecidableEq, Repr

/-- `inspectSourceSegment`: two ranged downloads (header, footer) -/
def inspect (s : S3) (k : Key) (data : Bytes) : Option Src × S3 :=
  if data.length < 16 then (none, s)
  else if s.failing then (none, s.bump)                       -- ranged DownloadSegment (header)
  else match parseSegmentHeaderCreatedAt (data.take 32) with
    | none => (none, s.bump)
    | some created =>
      if s.bump.failing then (none, s.bump.bump)              -- ranged DownloadSegment (footer)
      else match parseSegmentFooter (data.drop (data.length - 16)) with
        | none => (none, s.bump.bump)
        | some last => (some ⟨k, last, created, data.length⟩, s.bump.bump)

def inspectAll : S3 → Objs → Option (List Src) × S3
  | s, [] => (some [], s)
  | s, (k, d) :: t =>
    match inspect s k d with
    | (none, s) => (none, s)
    | (some x, s) =>
      match inspectAll s t with
      | (none, s) => (none, s)
      | (some xs, s) => (some (x :: xs), s)

def insertBy {α} (lt : α → α → Bool) (x : α) : List α → List α
  | [] => [x]
  | y :: t => if lt x y then x :: y :: t else y :: insertBy lt x t

def sortBy {α} (lt : α → α → Bool) : List α → List α
  | [] => []
  | x :: t => insertBy lt x (sortBy lt t)

/-- index of the last candidate: first segment created after the cutoff, else the last one -/
def lastCandidate (restoreMs : Int) : List Src → Nat
  | [] => 0
  | [_] => 0
  | s :: t => if s.created > restoreMs then 0 else 1 + lastCandidate restoreMs t

structure Summary where
  part : Int
  copied : Nat
  last : Int
deriving DecidableEq, Repr

structure CopySt where
  s3 : S3
  copied : List Key               -- target keys uploaded so far (copiedObjects), oldest first
deriving Repr

/-- one iteration of `for i := 0; i <= lastCandidate; i++`: download segment and index, build the
plan (`isLast`: this is the last candidate, so it is truncated), upload both objects.
Returns (error | (summary, continue?)) and the state. -/
def copyOne (crc : Bytes → Nat) (mk : Alloc) (restoreMs : Int) (seg : Src) (isLast : Bool) (sum : Summary) (st : CopySt) :
    GoResult (Summary × Bool) × CopySt :=
  let s1 := st.s3.bump
  if st.s3.failing then (.err, ⟨s1, st.copied⟩) else            -- DownloadSegment
  match oget s1.segs seg.key with
  | none => (.err, ⟨s1, st.copied⟩)
  | some segBytes =>
    let s2 := s1.bump
    if s1.failing then (.err, ⟨s2, st.copied⟩) else              -- DownloadIndex
    match oget s2.idxs seg.key with
    | none => (.err, ⟨s2, st.copied⟩)
    | some idxBytes =>
      let planR : GoResult Plan :=
        if isLast then buildRestorePlan crc mk segBytes idxBytes restoreMs seg.created
        else .ok ⟨segBytes, idxBytes, seg.key.base, seg.last, true⟩
      match planR with
      | .err => (.err, ⟨s2, st.copied⟩)
      | .panic => (.panic, ⟨s2, st.copied⟩)
      | .ok plan =>
        if !plan.keep then (.ok (sum, false), ⟨s2, st.copied⟩)      -- break
        else
          let tk : Key := ⟨1, seg.key.part, plan.base⟩
          let s3 := s2.bump
          if s2.failing then (.err, ⟨s3, st.copied⟩) else        -- UploadSegment
          let s3' : S3 := { s3 with segs := oput s3.segs tk plan.seg }
          let copied := st.copied ++ [tk]
          let s4 := s3'.bump
          if s3'.failing then (.err, ⟨s4, copied⟩) else          -- UploadIndex
          let s4' : S3 := { s4 with idxs := oput s4.idxs tk plan.idx }
          (.ok ({ sum with copied := sum.copied + 1, last := plan.last }, true), ⟨s4', copied⟩)

/-- the candidates of one partition, in offset order; the last list element is the last candidate -/
def copySegs (crc : Bytes → Nat) (mk : Alloc) (restoreMs : Int) :
    List Src → Summary → CopySt → GoResult Summary × CopySt
  | [], sum, st => (.ok sum, st)
  | seg :: rest, sum, st =>
    match copyOne crc mk restoreMs seg rest.isEmpty sum st with
    | (.ok (sum', true), st') => copySegs crc mk restoreMs rest sum' st'
    | (.ok (sum', false), st') => (.ok sum', st')
    | (.err, st') => (.err, st')
    | (.panic, st') => (.panic, st')

/-- the `for _, partition := range partitions` loop -/
def copyParts (crc : Bytes → Nat) (mk : Alloc) (restoreMs : Int) :
    List (Int × List Src) → CopySt → GoResult (List Summary) × CopySt
  | [], st => (.ok [], st)
  | (p, segs) :: t, st =>
    let lc := lastCandidate restoreMs segs
    match copySegs crc mk restoreMs (segs.take (lc + 1)) ⟨p, 0, -1⟩ st with
    | (.ok sum, st) =>
      (match copyParts crc mk restoreMs t st with
       | (.ok sums, st) => (.ok (sum :: sums), st)
       | (r, st) => (r, st))
    | (.err, st) => (.err, st)
    | (.panic, st) => (.panic, st)

/-- the deferred rollback: newest first, index then segment; delete errors are ignored.
Second component: did any delete fail? (ghost output for the theorem) -/
def rollback : List Key → S3 → S3 × Bool
  | [], s => (s, false)
  | k :: t, s =>
    let f1 := s.failing                                        -- DeleteIndex
    let s1 : S3 := if f1 then s.bump else { s.bump with idxs := odel s.idxs k }
    let f2 := s1.failing                                       -- DeleteSegment
    let s2 : S3 := if f2 then s1.bump else { s1.bump with segs := odel s1.segs k }
    ((rollback t s2).1, f1 || f2 || (rollback t s2).2)

def partsOf (srcs : List Src) : List Int :=
  sortBy (fun a b => decide (a < b)) ((srcs.map (·.key.part)).eraseDups)

def groupParts (srcs : List Src) : List (Int × List Src) :=
  (partsOf srcs).map fun p =>
    (p, sortBy (fun a b => decide (a.key.base < b.key.base)) (srcs.filter (fun x => x.key.part = p)))

structure RecoverOut where
  res : GoResult (List Summary)
  s3 : S3
  delFailed : Bool
deriving Repr

/-- `RecoverTopicToTimestamp` (argument validation omitted: the harness passes valid names).
`allowed` = cfg.Partitions (empty = all). -/
def recoverTopic (crc : Bytes → Nat) (mk : Alloc) (restoreMs : Int) (allowed : List Int) (s : S3) : RecoverOut :=
  if s.failing then ⟨.err, s.bump, false⟩ else                      -- ListSegments(target)
  if s.segs.any (fun e => e.1.topic = 1) then ⟨.err, s.bump, false⟩ else
  if s.bump.failing then ⟨.err, s.bump.bump, false⟩ else            -- ListSegments(source)
  match inspectAll s.bump.bump (s.segs.filter (fun e => e.1.topic = 0)) with
  | (none, s) => ⟨.err, s, false⟩
  | (some srcs, s) =>
    let srcs := if allowed.isEmpty then srcs else srcs.filter (fun x => allowed.contains x.key.part)
    match copyParts crc mk restoreMs (groupParts srcs) ⟨s, []⟩ with
    | (.ok sums, st) => ⟨.ok sums, st.s3, false⟩
    | (r, st) => ⟨r, (rollback st.copied.reverse st.s3).1, (rollback st.copied.reverse st.s3).2⟩

/-! ### the restore time is a `time.Time`, not a millisecond count

`cfg.RestoreTo` has nanosecond resolution; record timestamps and segment creation times are
millisecond counts.  The code converts in two places:

* `buildRestorePlan`: `collectRecoverableBatches(segmentBytes, restoreTo.UnixMilli())`;
* candidate selection: `segment.CreatedAt.After(cfg.RestoreTo)` with
  `CreatedAt = time.UnixMilli(header field)`.

Go's `Time` (without monotonic reading) is a pair (seconds since the epoch, floored; `nsec ∈ [0, 10^9)`):
`time.Unix(sec, nsec)` normalises to that form, `UnixMilli()` is `unixSec()*1e3 + nsec()/1e6` and
`After` compares the pairs lexicographically.  Since `nsec` is never negative, `UnixMilli` rounds towards
minus infinity for times before 1970 as well (`time.Unix(0, -1).UnixMilli() = -1`, not `0`). -/

structure GoTime where
  sec : Int
  nsec : Nat
deriving DecidableEq, Repr

/-- the invariant of Go's representation -/
def GoTime.Valid (t : GoTime) : Prop := t.nsec < 1000000000

/-- `time.Unix(0, ns)`: Go divides truncating and then moves a negative remainder up by one second,
which is floor division -/
def GoTime.ofNanos (ns : Int) : GoTime := ⟨ns / 1000000000, (ns % 1000000000).toNat⟩

/-- `time.UnixMilli(ms)` = `Unix(ms/1e3, (ms%1e3)*1e6)` after normalisation -/
def GoTime.ofMilli (ms : Int) : GoTime := ⟨ms / 1000, ((ms % 1000) * 1000000).toNat⟩

/-- `t.UnixMilli()` = `t.unixSec()*1e3 + int64(t.nsec())/1e6` (no int64 overflow for |t| < 292 million years) -/
def GoTime.unixMilli (t : GoTime) : Int := t.sec * 1000 + ((t.nsec / 1000000 : Nat) : Int)

/-- `t.UnixNano()` (mathematical value) -/
def GoTime.unixNano (t : GoTime) : Int := t.sec * 1000000000 + (t.nsec : Int)

/-- `t.After(u)` -/
def GoTime.after (t u : GoTime) : Bool := decide (t.sec > u.sec) || (decide (t.sec = u.sec) && decide (t.nsec > u.nsec))

/-- `lastCandidate` as the code computes it: `segment.CreatedAt.After(cfg.RestoreTo)` on `time.Time`s -/
def lastCandidateAt (restoreTo : GoTime) : List Src → Nat
  | [] => 0
  | [_] => 0
  | s :: t => if (GoTime.ofMilli s.created).after restoreTo then 0 else 1 + lastCandidateAt restoreTo t

/-- `RecoverTopicToTimestamp` with `cfg.RestoreTo = restoreTo`: the millisecond model run at
`restoreTo.UnixMilli()` (`KafVerif.C08.cutoff_is_floor` and `KafVerif.C08.candidate_after_is_floor` say why this is the
code: the record cutoff is that value by definition, and `lastCandidateAt restoreTo = lastCandidate restoreTo.unixMilli`) -/
def recoverTopicAt (crc : Bytes → Nat) (mk : Alloc) (restoreTo : GoTime) (allowed : List Int) (s : S3) : RecoverOut :=
  recoverTopic crc mk restoreTo.unixMilli allowed s

end KafVerif.Kafka
