import KafVerif.Prelude.Basic
/-!
Model of the two `metadata.Store` implementations (C17): `InMemoryStore` (`pkg/metadata/store.go`)
and `EtcdStore` (`pkg/metadata/etcd_store.go`), operation by operation, as the code stands after
the "fix:" commits (C05 monotone `UpdateOffsets`, C15 clone, C16 struct keys, C17 parity fixes,
C21 read-modify-write snapshot, C22 name rule).

Names are abstract ids (`Nat`): the key constructors are injective on accepted names (C22) and the
consumer-offset keys on separator-free group/topic names (C16), so the etcd key space is modelled
as one association list per key family (`next_offset`, `config`, `partitions/<p>` state, consumer
offsets, group metadata) plus the snapshot key.  Topic id `0` stands for the empty name, ids ≥ 100
for names the legal-name rule rejects; group id `0` is the empty group id.

Asymmetries that are CODE and therefore mirrored:
* `EtcdStore` checks existence through its local snapshot copy and re-reads the snapshot key before
  every topic mutation (`updateSnapshot`);
* `EtcdStore.FetchTopicConfig` never consults the embedded store's `topicConfigs`: without a config
  key it derives the default with `replication factor := number of partitions`; it answers
  `ErrInvalidTopic` for the empty name where the in-memory store answers `ErrUnknownTopic`;
  `CreatePartitions` updates only the embedded store's config (a config key written earlier goes stale);
* `EtcdStore.ListConsumerOffsets` re-parses the keys and silently drops commits whose group id is
  empty or whose topic is empty / contains '/' (the in-memory store lists them);
* `UpdateOffsets`: in memory `if next > offsets[key]` (absent = 0); in etcd "absent → put, present and
  ≥ next → skip" — the same on non-negative offsets.
-/
namespace KafVerif.MetaStore

/-! ### association lists (Go maps / etcd key ranges) -/

def aget {κ ν} [DecidableEq κ] (l : List (κ × ν)) (k : κ) : Option ν :=
  match l with
  | [] => none
  | e :: r => if e.1 = k then some e.2 else aget r k

def aput {κ ν} [DecidableEq κ] (l : List (κ × ν)) (k : κ) (v : ν) : List (κ × ν) :=
  match l with
  | [] => [(k, v)]
  | e :: r => if e.1 = k then (k, v) :: r else e :: aput r k v

def adel {κ ν} [DecidableEq κ] (l : List (κ × ν)) (k : κ) : List (κ × ν) := l.filter fun e => e.1 ≠ k

/-! ### state -/

structure Cfg where
  parts : Int
  rf : Int
  /-- retention / segment bytes / config map, as one abstract payload; 0 = the defaults -/
  payload : Nat
deriving Repr, DecidableEq

/-- `InMemoryStore`. -/
structure Mem where
  brokers : Nat
  topics : List (Nat × Nat)
  offsets : List ((Nat × Int) × Int)
  coffs : List ((Nat × Nat × Int) × (Int × Nat))
  groups : List (Nat × Nat)
  configs : List (Nat × Cfg)
deriving Repr

/-- `EtcdStore`: the embedded `InMemoryStore` (`metadata`) and the etcd key space. -/
structure Etcd where
  loc : Mem
  snap : Option (List (Nat × Nat))
  kvOff : List ((Nat × Int) × Int)
  kvCfg : List (Nat × Cfg)
  kvPst : List ((Nat × Int) × Unit)
  kvCoff : List ((Nat × Nat × Int) × (Int × Nat))
  kvGroups : List (Nat × Nat)
deriving Repr

inductive Op where
  | createTopic (t : Nat) (n rf : Int)
  | deleteTopic (t : Nat)
  | createPartitions (t : Nat) (n : Int)
  | metadata (ts : List Nat)
  | nextOffset (t : Nat) (p : Int)
  | updateOffsets (t : Nat) (p last : Int)
  | commit (g t : Nat) (p off : Int) (md : Nat)
  | fetch (g t : Nat) (p : Int)
  | listOffsets
  | putGroup (g payload : Nat)
  | fetchGroup (g : Nat)
  | listGroups
  | deleteGroup (g : Nat)
  | fetchConfig (t : Nat)
  | updateConfig (t : Nat) (parts : Int) (payload : Nat)
deriving Repr, DecidableEq

inductive Out where
  | ok | errExists | errInvalid | errUnknown | errOther
  | topics (l : List (Nat × Option Nat))
  | offset (o : Int)
  | coff (o : Int) (md : Nat)
  | coffs (l : List ((Nat × Nat × Int) × Int))
  | group (p : Option Nat)
  | groups (l : List (Nat × Nat))
  | cfg (c : Cfg)
deriving Repr, DecidableEq

/-! ### canonical order of listings (Go map order is random, etcd order is by key) -/

def insertBy {α} (lt : α → α → Bool) (x : α) : List α → List α
  | [] => [x]
  | y :: r => if lt x y then x :: y :: r else y :: insertBy lt x r

def sortBy {α} (lt : α → α → Bool) (l : List α) : List α := l.foldr (insertBy lt) []

def ltCoff (a b : (Nat × Nat × Int) × Int) : Bool :=
  a.1.1 < b.1.1 || (a.1.1 == b.1.1 && (a.1.2.1 < b.1.2.1 || (a.1.2.1 == b.1.2.1 && a.1.2.2 < b.1.2.2)))

def listCoffs (l : List ((Nat × Nat × Int) × (Int × Nat))) : Out :=
  .coffs (sortBy ltCoff (l.map fun e => (e.1, e.2.1)))

def listGroups (l : List (Nat × Nat)) : Out := .groups (sortBy (fun a b => a.1 < b.1) l)

/-! ### InMemoryStore -/

/-- `ValidTopicName` on abstract ids. -/
def validName (t : Nat) : Bool := t ≠ 0 && t < 100

def tparts (ts : List (Nat × Nat)) (t : Nat) : Option Nat := aget ts t

/-- `topicHasPartition` (partitions are numbered 0..n-1). -/
def hasPartition (ts : List (Nat × Nat)) (t : Nat) (p : Int) : Bool :=
  match tparts ts t with
  | some n => decide (0 ≤ p ∧ p < (n : Int))
  | none => false

/-- `Metadata(ctx, names)` / `filterTopics`. -/
def metaOut (ts : List (Nat × Nat)) (names : List Nat) : Out :=
  if names = [] then .topics (ts.map fun e => (e.1, some e.2))
  else .topics (names.map fun t => (t, tparts ts t))

def defaultCfg (n : Nat) (rf : Int) : Cfg := { parts := n, rf := rf, payload := 0 }

/-- `spec.ReplicationFactor <= 0` becomes 1. -/
def effRf (rf : Int) : Int := if rf ≤ 0 then 1 else rf

/-- The guards of `InMemoryStore.CreateTopic`, in code order. -/
def createCheck (brokers : Nat) (topics : List (Nat × Nat)) (t : Nat) (n rf : Int) : Out :=
  if !validName t || n ≤ 0 then .errInvalid
  else if (tparts topics t).isSome then .errExists
  else if effRf rf > (brokers : Int) then .errInvalid
  else .ok

def memCreateTopic (m : Mem) (t : Nat) (n rf : Int) : Mem × Out :=
  if createCheck m.brokers m.topics t n rf = .ok then
    ({ m with topics := m.topics ++ [(t, n.toNat)], configs := aput m.configs t (defaultCfg n.toNat (effRf rf)) }, .ok)
  else (m, createCheck m.brokers m.topics t n rf)

/-- The guards of `InMemoryStore.CreatePartitions`, in code order. -/
def growCheck (topics : List (Nat × Nat)) (t : Nat) (n : Int) : Out :=
  if t = 0 || n ≤ 0 then .errInvalid
  else match tparts topics t with
    | none => .errUnknown
    | some cur => if n ≤ (cur : Int) then .errInvalid else .ok

def memCreatePartitions (m : Mem) (t : Nat) (n : Int) : Mem × Out :=
  if growCheck m.topics t n = .ok then
    let cfg := (aget m.configs t).getD (defaultCfg n.toNat n)
    ({ m with topics := aput m.topics t n.toNat, configs := aput m.configs t { cfg with parts := n } }, .ok)
  else (m, growCheck m.topics t n)

def memDeleteTopic (m : Mem) (t : Nat) : Mem × Out :=
  if (tparts m.topics t).isNone then (m, .errUnknown) else
  ({ m with topics := adel m.topics t,
            offsets := m.offsets.filter (fun e => e.1.1 ≠ t),
            coffs := m.coffs.filter (fun e => e.1.2.1 ≠ t) }, .ok)

def memUpdateConfig (m : Mem) (t : Nat) (parts : Int) (payload : Nat) : Mem × Out :=
  if t = 0 then (m, .errInvalid) else
  match tparts m.topics t with
  | none => (m, .errUnknown)
  | some cur =>
    let parts := if parts = 0 then (cur : Int) else parts
    ({ m with configs := aput m.configs t { parts := parts, rf := 1, payload := payload } }, .ok)

def stepM (m : Mem) : Op → Mem × Out
  | .createTopic t n rf => memCreateTopic m t n rf
  | .deleteTopic t => memDeleteTopic m t
  | .createPartitions t n => memCreatePartitions m t n
  | .metadata ts => (m, metaOut m.topics ts)
  | .nextOffset t p =>
    if hasPartition m.topics t p then (m, .offset ((aget m.offsets (t, p)).getD 0)) else (m, .errUnknown)
  | .updateOffsets t p last =>
    if last + 1 > (aget m.offsets (t, p)).getD 0 then ({ m with offsets := aput m.offsets (t, p) (last + 1) }, .ok)
    else (m, .ok)
  | .commit g t p off md => ({ m with coffs := aput m.coffs (g, t, p) (off, md) }, .ok)
  | .fetch g t p => match aget m.coffs (g, t, p) with
    | some (o, md) => (m, .coff o md)
    | none => (m, .coff 0 0)
  | .listOffsets => (m, listCoffs m.coffs)
  | .putGroup g payload => if g = 0 then (m, .errOther) else ({ m with groups := aput m.groups g payload }, .ok)
  | .fetchGroup g => (m, .group (aget m.groups g))
  | .listGroups => (m, listGroups m.groups)
  | .deleteGroup g => ({ m with groups := adel m.groups g }, .ok)
  | .fetchConfig t =>
    match tparts m.topics t with
    | none => (m, .errUnknown)
    | some n => (m, .cfg ((aget m.configs t).getD (defaultCfg n n)))
  | .updateConfig t parts payload => memUpdateConfig m t parts payload

/-! ### EtcdStore -/

/-- `refreshSnapshotLocked`: the local copy becomes the snapshot stored in etcd (if any). -/
def refresh (e : Etcd) : Etcd :=
  match e.snap with
  | none => e
  | some ts => { e with loc := { e.loc with topics := ts } }

/-- `persistSnapshotLocked` with the revision just read: nobody else writes in a single-store
history, so the txn succeeds. -/
def persist (e : Etcd) : Etcd := { e with snap := some e.loc.topics }

def etcdCreateTopic (e : Etcd) (t : Nat) (n rf : Int) : Etcd × Out :=
  let e := refresh e
  let r := memCreateTopic e.loc t n rf
  if r.2 = .ok then (persist { e with loc := r.1 }, .ok) else (e, r.2)

def etcdCreatePartitions (e : Etcd) (t : Nat) (n : Int) : Etcd × Out :=
  if t = 0 || n ≤ 0 then (e, .errInvalid) else
  let e := refresh e
  match tparts e.loc.topics t with
  | none => (e, .errUnknown)
  | some cur =>
    if n ≤ (cur : Int) then (e, .errInvalid) else
    let r := memCreatePartitions e.loc t n
    if r.2 = .ok then
      let e := persist { e with loc := r.1 }
      -- one partition-state key per new partition
      let newKeys := (List.range (n.toNat - cur)).map fun i => ((t, ((cur + i : Nat) : Int)), ())
      ({ e with kvPst := newKeys.foldl (fun acc k => aput acc k.1 k.2) e.kvPst }, .ok)
    else (e, r.2)

def etcdDeleteTopic (e : Etcd) (t : Nat) : Etcd × Out :=
  let e := refresh e
  if (tparts e.loc.topics t).isNone then (e, .errUnknown) else
  let r := memDeleteTopic e.loc t
  if r.2 = .ok then
    (persist { e with loc := r.1,
                      kvOff := e.kvOff.filter (fun x => x.1.1 ≠ t),
                      kvCfg := e.kvCfg.filter (fun x => x.1 ≠ t),
                      kvPst := e.kvPst.filter (fun x => x.1.1 ≠ t),
                      kvCoff := e.kvCoff.filter (fun x => x.1.2.1 ≠ t) }, .ok)
  else (e, r.2)

def stepE (e : Etcd) : Op → Etcd × Out
  | .createTopic t n rf => etcdCreateTopic e t n rf
  | .deleteTopic t => etcdDeleteTopic e t
  | .createPartitions t n => etcdCreatePartitions e t n
  | .metadata ts => (e, metaOut e.loc.topics ts)
  | .nextOffset t p =>
    if hasPartition e.loc.topics t p then (e, .offset ((aget e.kvOff (t, p)).getD 0)) else (e, .errUnknown)
  | .updateOffsets t p last =>
    match aget e.kvOff (t, p) with
    | none => ({ e with kvOff := aput e.kvOff (t, p) (last + 1) }, .ok)
    | some cur => if cur ≥ last + 1 then (e, .ok) else ({ e with kvOff := aput e.kvOff (t, p) (last + 1) }, .ok)
  | .commit g t p off md => ({ e with kvCoff := aput e.kvCoff (g, t, p) (off, md) }, .ok)
  | .fetch g t p => match aget e.kvCoff (g, t, p) with
    | some (o, md) => (e, .coff o md)
    | none => (e, .coff 0 0)
  | .listOffsets =>
    -- `ParseConsumerOffsetKey` drops keys whose group or topic is empty or contains '/'
    (e, listCoffs (e.kvCoff.filter fun x => x.1.1 ≠ 0 && validName x.1.2.1))
  | .putGroup g payload => if g = 0 then (e, .errOther) else ({ e with kvGroups := aput e.kvGroups g payload }, .ok)
  | .fetchGroup g => (e, .group (aget e.kvGroups g))
  | .listGroups => (e, listGroups e.kvGroups)
  | .deleteGroup g => ({ e with kvGroups := adel e.kvGroups g }, .ok)
  | .fetchConfig t =>
    if t = 0 then (e, .errInvalid) else
    match aget e.kvCfg t with
    | some c => (e, .cfg c)
    | none => match tparts e.loc.topics t with
      | none => (e, .errUnknown)
      | some n => (e, .cfg (defaultCfg n n))
  | .updateConfig t parts payload =>
    if t = 0 then (e, .errInvalid) else
    match tparts e.loc.topics t with
    | none => (e, .errUnknown)
    | some cur =>
      let parts := if parts = 0 then (cur : Int) else parts
      let r := memUpdateConfig e.loc t parts payload
      if r.2 = .ok then ({ e with loc := r.1, kvCfg := aput e.kvCfg t { parts := parts, rf := 1, payload := payload } }, .ok)
      else (e, r.2)

def initM (brokers : Nat) : Mem := { brokers := brokers, topics := [], offsets := [], coffs := [], groups := [], configs := [] }
def initE (brokers : Nat) : Etcd :=
  { loc := initM brokers, snap := none, kvOff := [], kvCfg := [], kvPst := [], kvCoff := [], kvGroups := [] }

def runM (m : Mem) : List Op → List Out
  | [] => []
  | op :: r => (stepM m op).2 :: runM (stepM m op).1 r

def runE (e : Etcd) : List Op → List Out
  | [] => []
  | op :: r => (stepE e op).2 :: runE (stepE e op).1 r

/-! ### the code before the two C17 parity fixes -/

/-- `InMemoryStore.DeleteTopic` before the fix: committed consumer offsets of the topic stay. -/
def memDeleteTopicOld (m : Mem) (t : Nat) : Mem × Out :=
  if (tparts m.topics t).isNone then (m, .errUnknown) else
  ({ m with topics := adel m.topics t, offsets := m.offsets.filter (fun e => e.1.1 ≠ t) }, .ok)

def stepMOld (m : Mem) : Op → Mem × Out
  | .deleteTopic t => memDeleteTopicOld m t
  | op => stepM m op

def runMOld (m : Mem) : List Op → List Out
  | [] => []
  | op :: r => (stepMOld m op).2 :: runMOld (stepMOld m op).1 r

/-- `EtcdStore.CreatePartitions` before the fix: the topic is looked up before the arguments are
checked. -/
def etcdCreatePartitionsOld (e : Etcd) (t : Nat) (n : Int) : Etcd × Out :=
  let e := refresh e
  match tparts e.loc.topics t with
  | none => (e, .errUnknown)
  | some cur => if n ≤ (cur : Int) then (e, .errInvalid) else etcdCreatePartitions e t n

def stepEOld (e : Etcd) : Op → Etcd × Out
  | .createPartitions t n => etcdCreatePartitionsOld e t n
  | op => stepE e op

def runEOld (e : Etcd) : List Op → List Out
  | [] => []
  | op :: r => (stepEOld e op).2 :: runEOld (stepEOld e op).1 r

/-! ### etcd resource limits

etcd rejects a request that is too large (`--max-request-bytes`, default 1.5 MiB; the client refuses
to send more than 2 MiB) and a transaction with more than `--max-txn-ops` (default 128) operations.
`InMemoryStore` has no such limits, so they are exactly where the two stores can part ways.

* The only request of `EtcdStore` whose size grows with the STATE is the snapshot put of
  `persistSnapshotLocked` (`json.Marshal` of every topic with every partition).  `size` is the byte
  size of that request as a function of the topic table; when it exceeds `maxSnap` the conditional
  put fails, `updateSnapshot` returns the error, the local copy keeps the mutation (until the next
  `refreshSnapshotLocked`) and the etcd keys `mutate` already touched stay touched.
* HEAD issues only one-operation transactions.  `oneTxn = true` models the variant in which
  `deleteConsumerOffsets` removes all commits of the topic in ONE transaction (seeded change
  C17-r3-1): with more than `maxTxnOps` commits the transaction is rejected, `mutate` fails after
  `deleteTopicOffsets` already ran, nothing is persisted. -/

structure Limits where
  /-- `--max-txn-ops` -/
  maxTxnOps : Nat
  /-- largest snapshot request etcd accepts -/
  maxSnap : Nat
  /-- request bytes of the snapshot put, by topic table -/
  size : List (Nat × Nat) → Nat

def etcdCreateTopicL (L : Limits) (e : Etcd) (t : Nat) (n rf : Int) : Etcd × Out :=
  let e := refresh e
  let r := memCreateTopic e.loc t n rf
  if r.2 = .ok then
    if L.size r.1.topics ≤ L.maxSnap then (persist { e with loc := r.1 }, .ok)
    else ({ e with loc := r.1 }, .errOther)
  else (e, r.2)

def etcdCreatePartitionsL (L : Limits) (e : Etcd) (t : Nat) (n : Int) : Etcd × Out :=
  if t = 0 || n ≤ 0 then (e, .errInvalid) else
  let e := refresh e
  match tparts e.loc.topics t with
  | none => (e, .errUnknown)
  | some cur =>
    if n ≤ (cur : Int) then (e, .errInvalid) else
    let r := memCreatePartitions e.loc t n
    if r.2 = .ok then
      if L.size r.1.topics ≤ L.maxSnap then
        let e := persist { e with loc := r.1 }
        let newKeys := (List.range (n.toNat - cur)).map fun i => ((t, ((cur + i : Nat) : Int)), ())
        ({ e with kvPst := newKeys.foldl (fun acc k => aput acc k.1 k.2) e.kvPst }, .ok)
      else ({ e with loc := r.1 }, .errOther)     -- returns before the partition-state puts
    else (e, r.2)

def etcdDeleteTopicL (L : Limits) (oneTxn : Bool) (e : Etcd) (t : Nat) : Etcd × Out :=
  let e := refresh e
  if (tparts e.loc.topics t).isNone then (e, .errUnknown) else
  let r := memDeleteTopic e.loc t
  if r.2 = .ok then
    -- `deleteTopicOffsets`: one range delete
    let e1 := { e with loc := r.1,
                       kvOff := e.kvOff.filter (fun x => x.1.1 ≠ t),
                       kvCfg := e.kvCfg.filter (fun x => x.1 ≠ t),
                       kvPst := e.kvPst.filter (fun x => x.1.1 ≠ t) }
    -- `deleteConsumerOffsets`: one delete per key (HEAD) or one transaction with one op per key
    if oneTxn && (e.kvCoff.filter (fun x => x.1.2.1 = t)).length > L.maxTxnOps then (e1, .errOther)
    else
      let e2 := { e1 with kvCoff := e.kvCoff.filter (fun x => x.1.2.1 ≠ t) }
      if L.size r.1.topics ≤ L.maxSnap then (persist e2, .ok) else (e2, .errOther)
  else (e, r.2)

def stepEL (L : Limits) (oneTxn : Bool) (e : Etcd) : Op → Etcd × Out
  | .createTopic t n rf => etcdCreateTopicL L e t n rf
  | .deleteTopic t => etcdDeleteTopicL L oneTxn e t
  | .createPartitions t n => etcdCreatePartitionsL L e t n
  | op => stepE e op

def runEL (L : Limits) (oneTxn : Bool) (e : Etcd) : List Op → List Out
  | [] => []
  | op :: r => (stepEL L oneTxn e op).2 :: runEL L oneTxn (stepEL L oneTxn e op).1 r

/-- The limits of the embedded etcd the harness runs (defaults): 128 operations per transaction,
1.5 MiB per request; the snapshot costs ≈ 126 bytes per partition and ≈ 90 per topic
(measured: 25 000 partitions = 3 133 347 request bytes), plus ≈ 400 bytes of brokers / envelope. -/
def etcdDefaults : Limits :=
  { maxTxnOps := 128, maxSnap := 1572864,
    size := fun ts => 400 + ts.foldl (fun acc e => acc + 90 + 126 * e.2) 0 }

end KafVerif.MetaStore
