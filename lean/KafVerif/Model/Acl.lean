import KafVerif.Model.GoStrK
/-!
Model of `pkg/acl/acl.go` (broker ACL authorizer), line by line.

* `newAuthorizer`     = `NewAuthorizer` AFTER the proposed fix (rule lists of entries that share a
                        trimmed name are merged in configuration order).
* `newAuthorizerOld`  = `NewAuthorizer` as found (map insert: the last duplicate entry wins).
* `allowsWith m`      = `Authorizer.Allows`, parametric in the rule matcher `m`;
* `matchesRule`       = the concrete `matches`/`actionMatches`/`resourceMatches`/`nameMatches`.

The Go `map[string]PrincipalRules` is modelled as a function `name ↦ Option (allow, deny)`.
-/
namespace KafVerif.Acl
open KafVerif.GoStr

structure Rule where
  action : List Char
  resource : List Char
  name : List Char
deriving Repr, DecidableEq

structure PrincipalRules where
  name : List Char
  allow : List Rule
  deny : List Rule
deriving Repr, DecidableEq

structure Config where
  enabled : Bool
  defaultPolicy : List Char
  principals : List PrincipalRules
deriving Repr, DecidableEq

structure Req where
  principal : List Char
  action : List Char
  resource : List Char
  name : List Char
deriving Repr, DecidableEq

/-- the `principals` map of an `Authorizer`: trimmed name ↦ (Allow, Deny) -/
abbrev PMap := List Char → Option (List Rule × List Rule)

def PMap.empty : PMap := fun _ => none
def PMap.set (m : PMap) (k : List Char) (v : List Rule × List Rule) : PMap :=
  fun k' => if k' = k then some v else m k'

structure Authorizer where
  enabled : Bool
  defaultAllow : Bool
  principals : PMap

def allowStr : List Char := ['a', 'l', 'l', 'o', 'w']
def anonymousStr : List Char := ['a', 'n', 'o', 'n', 'y', 'm', 'o', 'u', 's']
def starStr : List Char := ['*']

/-- loop body of `NewAuthorizer` (fixed): skip empty names, merge with an existing entry. -/
def stepNew (m : PMap) (p : PrincipalRules) : PMap :=
  let name := trimSpace p.name
  if name = [] then m
  else match m name with
    | some (al, dn) => m.set name (al ++ p.allow, dn ++ p.deny)
    | none => m.set name (p.allow, p.deny)

/-- loop body of `NewAuthorizer` as found: `principals[name] = p`. -/
def stepOld (m : PMap) (p : PrincipalRules) : PMap :=
  let name := trimSpace p.name
  if name = [] then m else m.set name (p.allow, p.deny)

def defaultAllowOf (cfg : Config) : Bool := equalFold (trimSpace cfg.defaultPolicy) allowStr

def newAuthorizer (cfg : Config) : Authorizer :=
  { enabled := cfg.enabled, defaultAllow := defaultAllowOf cfg,
    principals := cfg.principals.foldl stepNew PMap.empty }

def newAuthorizerOld (cfg : Config) : Authorizer :=
  { enabled := cfg.enabled, defaultAllow := defaultAllowOf cfg,
    principals := cfg.principals.foldl stepOld PMap.empty }

/-- the principal a request is evaluated for: trimmed, empty → "anonymous" -/
def effPrincipal (principal : List Char) : List Char :=
  let p := trimSpace principal
  if p = [] then anonymousStr else p

/-- `Authorizer.Allows` (non-nil receiver). -/
def allowsWith (m : Rule → Req → Bool) (a : Authorizer) (req : Req) : Bool :=
  if !a.enabled then true
  else
    match a.principals (effPrincipal req.principal) with
    | none => a.defaultAllow
    | some (al, dn) =>
      if dn.any (fun r => m r req) then false
      else if al.any (fun r => m r req) then true
      else a.defaultAllow

def actionMatches (rule action : List Char) : Bool :=
  if rule = [] || rule = starStr then true else equalFold rule action

def resourceMatches (rule resource : List Char) : Bool :=
  if rule = [] || rule = starStr then true else equalFold rule resource

/-- `nameMatches`: exact, `prefix*`, `*`/empty. -/
def nameMatches (ruleName name : List Char) : Bool :=
  let rn := trimSpace ruleName
  if rn = [] || rn = starStr then true
  else if hasSuffix rn starStr then hasPrefix name rn.dropLast
  else rn == name

def matchesRule (rule : Rule) (req : Req) : Bool :=
  if !actionMatches rule.action req.action then false
  else if !resourceMatches rule.resource req.resource then false
  else nameMatches rule.name req.name

def allows (cfg : Config) (req : Req) : Bool := allowsWith matchesRule (newAuthorizer cfg) req
def allowsOld (cfg : Config) (req : Req) : Bool := allowsWith matchesRule (newAuthorizerOld cfg) req

/-! ### the property's reading: rules of ALL entries named `p` -/

def entriesOf (ps : List PrincipalRules) (p : List Char) : List PrincipalRules :=
  ps.filter fun e => trimSpace e.name == p
def denyOf (ps : List PrincipalRules) (p : List Char) : List Rule := (entriesOf ps p).flatMap (·.deny)
def allowOf (ps : List PrincipalRules) (p : List Char) : List Rule := (entriesOf ps p).flatMap (·.allow)

def denyRules (cfg : Config) (p : List Char) : List Rule := denyOf cfg.principals p
def allowRules (cfg : Config) (p : List Char) : List Rule := allowOf cfg.principals p

/-- The decision the property prescribes. -/
def specWith (m : Rule → Req → Bool) (cfg : Config) (req : Req) : Bool :=
  if !cfg.enabled then true
  else if (denyRules cfg (effPrincipal req.principal)).any (fun r => m r req) then false
  else if (allowRules cfg (effPrincipal req.principal)).any (fun r => m r req) then true
  else defaultAllowOf cfg

end KafVerif.Acl
