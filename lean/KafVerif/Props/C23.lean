import KafVerif.Model.Acl
import KafVerif.Model.SqlAcl
/-!
C23 — ACL decisions: deny overrides, defaults apply, rules are monotone.

Statement (properties.jsonl): for any ACL configuration, a request is denied if any matching
deny rule exists for its principal; otherwise it is allowed if a matching allow rule exists, and
otherwise (including for unknown principals) the default policy applies.  Adding an allow rule
never removes access, and adding a deny rule never grants it.

Part A: the broker authorizer (`pkg/acl/acl.go`).  Every theorem is for EVERY configuration
(any number of entries, duplicates, blank names, any strings), EVERY request and EVERY rule
matcher `m` (so in particular for the concrete `matchesRule`).  "The rules of principal p" are
the rules of ALL configuration entries whose trimmed name is p.

Part B: the SQL proxy ACL (`internal/proxy/acl.go`), for every `path.Match` function.
-/
namespace KafVerif.Acl
open KafVerif.GoStr

/-! ### NewAuthorizer builds exactly the per-principal rule lists -/

theorem set_same (m : PMap) (k : List Char) (v) : (m.set k v) k = some v := by simp [PMap.set]
theorem set_other (m : PMap) (k q : List Char) (v) (h : q ≠ k) : (m.set k v) q = m q := by
  simp [PMap.set, h]

theorem stepNew_ne (m : PMap) (p : PrincipalRules) (q : List Char) (h : trimSpace p.name ≠ q) :
    (stepNew m p) q = m q := by
  by_cases hn : trimSpace p.name = []
  · simp [stepNew, hn]
  · simp only [stepNew, hn, if_false]
    cases hm : m (trimSpace p.name) with
    | none => exact set_other _ _ _ _ (Ne.symm h)
    | some v => obtain ⟨al, dn⟩ := v; exact set_other _ _ _ _ (Ne.symm h)

theorem stepNew_eq (m : PMap) (p : PrincipalRules) (q : List Char) (h : trimSpace p.name = q) (hq : q ≠ []) :
    (stepNew m p) q =
      match m q with
      | some (a, d) => some (a ++ p.allow, d ++ p.deny)
      | none => some (p.allow, p.deny) := by
  simp only [stepNew, h, hq, if_false]
  split <;> simp_all [set_same]

theorem entriesOf_cons_ne (p : PrincipalRules) (ps : List PrincipalRules) (q : List Char)
    (h : trimSpace p.name ≠ q) : entriesOf (p :: ps) q = entriesOf ps q := by
  simp [entriesOf, List.filter_cons, h]

theorem entriesOf_cons_eq (p : PrincipalRules) (ps : List PrincipalRules) (q : List Char)
    (h : trimSpace p.name = q) : entriesOf (p :: ps) q = p :: entriesOf ps q := by
  simp [entriesOf, List.filter_cons, h]

theorem foldl_stepNew (ps : List PrincipalRules) (m : PMap) (q : List Char) (hq : q ≠ []) :
    (ps.foldl stepNew m) q =
      match m q with
      | some (a, d) => some (a ++ allowOf ps q, d ++ denyOf ps q)
      | none => if entriesOf ps q = [] then none else some (allowOf ps q, denyOf ps q) := by
  induction ps generalizing m with
  | nil => cases h : m q with
    | none => simp [entriesOf, h]
    | some v => simp [allowOf, denyOf, entriesOf, h]
  | cons p ps ih =>
    rw [List.foldl_cons, ih]
    by_cases hp : trimSpace p.name = q
    · rw [stepNew_eq m p q hp hq]
      simp only [allowOf, denyOf, entriesOf_cons_eq p ps q hp, List.flatMap_cons]
      cases h : m q with
      | none => simp
      | some v => simp [List.append_assoc]
    · rw [stepNew_ne m p q hp]
      simp only [allowOf, denyOf, entriesOf_cons_ne p ps q hp]

theorem effPrincipal_ne_nil (s : List Char) : effPrincipal s ≠ [] := by
  by_cases h : trimSpace s = []
  · simp [effPrincipal, h, anonymousStr]
  · simp [effPrincipal, h]

/-- `NewAuthorizer` (fixed): the map entry of `p` holds the rules of all entries named `p`. -/
theorem newAuthorizer_lookup (cfg : Config) (q : List Char) (hq : q ≠ []) :
    (newAuthorizer cfg).principals q =
      if entriesOf cfg.principals q = [] then none
      else some (allowRules cfg q, denyRules cfg q) := by
  simp [newAuthorizer, foldl_stepNew _ _ q hq, PMap.empty, allowRules, denyRules]

/-- **Refinement**: the implemented decision equals the property's decision procedure, for every
configuration, request and matcher. -/
theorem _root_.KafVerif.C23.allows_eq_spec (m : Rule → Req → Bool) (cfg : Config) (req : Req) :
    allowsWith m (newAuthorizer cfg) req = specWith m cfg req := by
  unfold allowsWith specWith
  have hne := effPrincipal_ne_nil req.principal
  rw [newAuthorizer_lookup cfg _ hne]
  by_cases hen : cfg.enabled = true
  · simp only [newAuthorizer, hen, Bool.not_true]
    by_cases he : entriesOf cfg.principals (effPrincipal req.principal) = []
    · simp [he, denyRules, allowRules, denyOf, allowOf]
    · simp [he]
  · simp [newAuthorizer, hen]

/-! ### the clauses of the property -/

/-- **Deny overrides.**  If ANY deny rule of ANY entry of the request's principal matches, the
request is denied. -/
theorem _root_.KafVerif.C23.deny_overrides (m : Rule → Req → Bool) (cfg : Config) (req : Req)
    (hen : cfg.enabled = true)
    (h : ∃ r ∈ denyRules cfg (effPrincipal req.principal), m r req = true) :
    allowsWith m (newAuthorizer cfg) req = false := by
  rw [KafVerif.C23.allows_eq_spec]
  obtain ⟨r, hr, hm⟩ := h
  have : (denyRules cfg (effPrincipal req.principal)).any (fun r => m r req) = true :=
    List.any_eq_true.mpr ⟨r, hr, hm⟩
  simp [specWith, hen, this]

/-- **Allow applies.**  No matching deny rule and some matching allow rule ⇒ allowed. -/
theorem _root_.KafVerif.C23.allow_applies (m : Rule → Req → Bool) (cfg : Config) (req : Req)
    (hd : ∀ r ∈ denyRules cfg (effPrincipal req.principal), m r req = false)
    (h : ∃ r ∈ allowRules cfg (effPrincipal req.principal), m r req = true) :
    allowsWith m (newAuthorizer cfg) req = true := by
  rw [KafVerif.C23.allows_eq_spec]
  obtain ⟨r, hr, hm⟩ := h
  have h1 : (denyRules cfg (effPrincipal req.principal)).any (fun r => m r req) = false := by
    rw [List.any_eq_false]; intro x hx; simp [hd x hx]
  have h2 : (allowRules cfg (effPrincipal req.principal)).any (fun r => m r req) = true :=
    List.any_eq_true.mpr ⟨r, hr, hm⟩
  simp [specWith, h1, h2]

/-- **Default applies** (known principal, nothing matches). -/
theorem _root_.KafVerif.C23.default_applies (m : Rule → Req → Bool) (cfg : Config) (req : Req)
    (hen : cfg.enabled = true)
    (hd : ∀ r ∈ denyRules cfg (effPrincipal req.principal), m r req = false)
    (ha : ∀ r ∈ allowRules cfg (effPrincipal req.principal), m r req = false) :
    allowsWith m (newAuthorizer cfg) req = defaultAllowOf cfg := by
  rw [KafVerif.C23.allows_eq_spec]
  have h1 : (denyRules cfg (effPrincipal req.principal)).any (fun r => m r req) = false := by
    rw [List.any_eq_false]; intro x hx; simp [hd x hx]
  have h2 : (allowRules cfg (effPrincipal req.principal)).any (fun r => m r req) = false := by
    rw [List.any_eq_false]; intro x hx; simp [ha x hx]
  simp [specWith, hen, h1, h2]

/-- **Default applies to unknown principals**: no entry carries the principal's name. -/
theorem _root_.KafVerif.C23.default_unknown (m : Rule → Req → Bool) (cfg : Config) (req : Req)
    (hen : cfg.enabled = true)
    (hu : ∀ e ∈ cfg.principals, trimSpace e.name ≠ effPrincipal req.principal) :
    allowsWith m (newAuthorizer cfg) req = defaultAllowOf cfg := by
  have he : entriesOf cfg.principals (effPrincipal req.principal) = [] := by
    simp only [entriesOf, List.filter_eq_nil_iff]
    intro e hmem; simpa using hu e hmem
  apply KafVerif.C23.default_applies m cfg req hen <;> simp [denyRules, allowRules, denyOf, allowOf, he]

/-- ACLs switched off: everything is allowed. -/
theorem _root_.KafVerif.C23.disabled_allows (m : Rule → Req → Bool) (cfg : Config) (req : Req)
    (hen : cfg.enabled = false) : allowsWith m (newAuthorizer cfg) req = true := by
  simp [allowsWith, newAuthorizer, hen]

/-! ### monotonicity -/

/-- General form: if the new configuration has (as sets, per principal) no fewer allow rules and
no more deny rules, and the same switch and default, every allowed request stays allowed. -/
theorem _root_.KafVerif.C23.mono (m : Rule → Req → Bool) (cfg cfg' : Config) (req : Req)
    (hen : cfg'.enabled = cfg.enabled) (hdef : defaultAllowOf cfg' = defaultAllowOf cfg)
    (hal : ∀ p r, r ∈ allowRules cfg p → r ∈ allowRules cfg' p)
    (hdn : ∀ p r, r ∈ denyRules cfg' p → r ∈ denyRules cfg p)
    (h : allowsWith m (newAuthorizer cfg) req = true) :
    allowsWith m (newAuthorizer cfg') req = true := by
  rw [KafVerif.C23.allows_eq_spec] at h ⊢
  unfold specWith at h ⊢
  rw [hen, hdef]
  by_cases he : cfg.enabled = true
  · simp only [he, Bool.not_true] at h ⊢
    by_cases hd : (denyRules cfg (effPrincipal req.principal)).any (fun r => m r req) = true
    · simp [hd] at h
    · have hd' : (denyRules cfg' (effPrincipal req.principal)).any (fun r => m r req) = false := by
        rw [List.any_eq_false]
        intro x hx hmx
        exact hd (List.any_eq_true.mpr ⟨x, hdn _ x hx, hmx⟩)
      have hd0 : (denyRules cfg (effPrincipal req.principal)).any (fun r => m r req) = false := by
        simpa using hd
      simp only [hd0, hd'] at h ⊢
      by_cases ha : (allowRules cfg (effPrincipal req.principal)).any (fun r => m r req) = true
      · obtain ⟨x, hx, hmx⟩ := List.any_eq_true.mp ha
        have : (allowRules cfg' (effPrincipal req.principal)).any (fun r => m r req) = true :=
          List.any_eq_true.mpr ⟨x, hal _ x hx, hmx⟩
        simp [this]
      · have ha0 : (allowRules cfg (effPrincipal req.principal)).any (fun r => m r req) = false := by
          simpa using ha
        simp only [ha0] at h
        simp at h
        simp [h]
  · simp [he]

/-- membership in the per-principal rule lists, spelled out -/
theorem mem_allowOf (ps : List PrincipalRules) (p : List Char) (r : Rule) :
    r ∈ allowOf ps p ↔ ∃ e ∈ ps, trimSpace e.name = p ∧ r ∈ e.allow := by
  simp [allowOf, entriesOf, List.mem_flatMap, List.mem_filter, and_assoc]

theorem mem_denyOf (ps : List PrincipalRules) (p : List Char) (r : Rule) :
    r ∈ denyOf ps p ↔ ∃ e ∈ ps, trimSpace e.name = p ∧ r ∈ e.deny := by
  simp [denyOf, entriesOf, List.mem_flatMap, List.mem_filter, and_assoc]

/-- **Adding an allow rule never removes access** — rule `r` inserted at ANY position of the
allow list (`a1 ++ a2` ↦ `a1 ++ r :: a2`) of ANY entry (`pre ++ entry :: post`). -/
theorem _root_.KafVerif.C23.add_allow_rule_mono (m : Rule → Req → Bool) (en : Bool) (dp : List Char)
    (pre post : List PrincipalRules) (name : List Char) (a1 a2 dn : List Rule) (r : Rule) (req : Req)
    (h : allowsWith m (newAuthorizer ⟨en, dp, pre ++ ⟨name, a1 ++ a2, dn⟩ :: post⟩) req = true) :
    allowsWith m (newAuthorizer ⟨en, dp, pre ++ ⟨name, a1 ++ r :: a2, dn⟩ :: post⟩) req = true := by
  refine KafVerif.C23.mono m ⟨en, dp, pre ++ ⟨name, a1 ++ a2, dn⟩ :: post⟩ ⟨en, dp, pre ++ ⟨name, a1 ++ r :: a2, dn⟩ :: post⟩ req rfl rfl ?_ ?_ h
  · intro p x hx
    simp only [allowRules, mem_allowOf, List.mem_append, List.mem_cons] at hx ⊢
    obtain ⟨e, he, hn, hxe⟩ := hx
    rcases he with he | rfl | he
    · exact ⟨e, Or.inl he, hn, hxe⟩
    · refine ⟨⟨name, a1 ++ r :: a2, dn⟩, Or.inr (Or.inl rfl), hn, ?_⟩
      simp only [List.mem_append, List.mem_cons] at hxe ⊢
      rcases hxe with h1 | h1
      · exact Or.inl h1
      · exact Or.inr (Or.inr h1)
    · exact ⟨e, Or.inr (Or.inr he), hn, hxe⟩
  · intro p x hx
    simp only [denyRules, mem_denyOf, List.mem_append, List.mem_cons] at hx ⊢
    obtain ⟨e, he, hn, hxe⟩ := hx
    rcases he with he | rfl | he
    · exact ⟨e, Or.inl he, hn, hxe⟩
    · exact ⟨⟨name, a1 ++ a2, dn⟩, Or.inr (Or.inl rfl), hn, hxe⟩
    · exact ⟨e, Or.inr (Or.inr he), hn, hxe⟩

/-- **Adding an allow entry never removes access** — a whole new entry (any name, e.g. one that
duplicates an existing principal) carrying only allow rules, inserted anywhere. -/
theorem _root_.KafVerif.C23.add_allow_entry_mono (m : Rule → Req → Bool) (en : Bool) (dp : List Char)
    (pre post : List PrincipalRules) (name : List Char) (rules : List Rule) (req : Req)
    (h : allowsWith m (newAuthorizer ⟨en, dp, pre ++ post⟩) req = true) :
    allowsWith m (newAuthorizer ⟨en, dp, pre ++ ⟨name, rules, []⟩ :: post⟩) req = true := by
  refine KafVerif.C23.mono m ⟨en, dp, pre ++ post⟩ ⟨en, dp, pre ++ ⟨name, rules, []⟩ :: post⟩ req rfl rfl ?_ ?_ h
  · intro p x hx
    simp only [allowRules, mem_allowOf, List.mem_append, List.mem_cons] at hx ⊢
    obtain ⟨e, he, hn, hxe⟩ := hx
    rcases he with he | he
    · exact ⟨e, Or.inl he, hn, hxe⟩
    · exact ⟨e, Or.inr (Or.inr he), hn, hxe⟩
  · intro p x hx
    simp only [denyRules, mem_denyOf, List.mem_append, List.mem_cons] at hx ⊢
    obtain ⟨e, he, hn, hxe⟩ := hx
    rcases he with he | rfl | he
    · exact ⟨e, Or.inl he, hn, hxe⟩
    · simp at hxe
    · exact ⟨e, Or.inr he, hn, hxe⟩

/-- **Adding a deny rule never grants access** (rule inserted anywhere into any entry). -/
theorem _root_.KafVerif.C23.add_deny_rule_antimono (m : Rule → Req → Bool) (en : Bool) (dp : List Char)
    (pre post : List PrincipalRules) (name : List Char) (al d1 d2 : List Rule) (r : Rule) (req : Req)
    (h : allowsWith m (newAuthorizer ⟨en, dp, pre ++ ⟨name, al, d1 ++ r :: d2⟩ :: post⟩) req = true) :
    allowsWith m (newAuthorizer ⟨en, dp, pre ++ ⟨name, al, d1 ++ d2⟩ :: post⟩) req = true := by
  refine KafVerif.C23.mono m ⟨en, dp, pre ++ ⟨name, al, d1 ++ r :: d2⟩ :: post⟩ ⟨en, dp, pre ++ ⟨name, al, d1 ++ d2⟩ :: post⟩ req rfl rfl ?_ ?_ h
  · intro p x hx
    simp only [allowRules, mem_allowOf, List.mem_append, List.mem_cons] at hx ⊢
    obtain ⟨e, he, hn, hxe⟩ := hx
    rcases he with he | rfl | he
    · exact ⟨e, Or.inl he, hn, hxe⟩
    · exact ⟨⟨name, al, d1 ++ d2⟩, Or.inr (Or.inl rfl), hn, hxe⟩
    · exact ⟨e, Or.inr (Or.inr he), hn, hxe⟩
  · intro p x hx
    simp only [denyRules, mem_denyOf, List.mem_append, List.mem_cons] at hx ⊢
    obtain ⟨e, he, hn, hxe⟩ := hx
    rcases he with he | rfl | he
    · exact ⟨e, Or.inl he, hn, hxe⟩
    · refine ⟨⟨name, al, d1 ++ r :: d2⟩, Or.inr (Or.inl rfl), hn, ?_⟩
      simp only [List.mem_append, List.mem_cons] at hxe ⊢
      rcases hxe with h1 | h1
      · exact Or.inl h1
      · exact Or.inr (Or.inr h1)
    · exact ⟨e, Or.inr (Or.inr he), hn, hxe⟩

/-- **Adding a deny entry never grants access** (new entry with only deny rules, anywhere). -/
theorem _root_.KafVerif.C23.add_deny_entry_antimono (m : Rule → Req → Bool) (en : Bool) (dp : List Char)
    (pre post : List PrincipalRules) (name : List Char) (rules : List Rule) (req : Req)
    (h : allowsWith m (newAuthorizer ⟨en, dp, pre ++ ⟨name, [], rules⟩ :: post⟩) req = true) :
    allowsWith m (newAuthorizer ⟨en, dp, pre ++ post⟩) req = true := by
  refine KafVerif.C23.mono m ⟨en, dp, pre ++ ⟨name, [], rules⟩ :: post⟩ ⟨en, dp, pre ++ post⟩ req rfl rfl ?_ ?_ h
  · intro p x hx
    simp only [allowRules, mem_allowOf, List.mem_append, List.mem_cons] at hx ⊢
    obtain ⟨e, he, hn, hxe⟩ := hx
    rcases he with he | rfl | he
    · exact ⟨e, Or.inl he, hn, hxe⟩
    · simp at hxe
    · exact ⟨e, Or.inr he, hn, hxe⟩
  · intro p x hx
    simp only [denyRules, mem_denyOf, List.mem_append, List.mem_cons] at hx ⊢
    obtain ⟨e, he, hn, hxe⟩ := hx
    rcases he with he | he
    · exact ⟨e, Or.inl he, hn, hxe⟩
    · exact ⟨e, Or.inr (Or.inr he), hn, hxe⟩

/-! ### the concrete matcher: name patterns (exact / prefix wildcard / star) -/

/-- `*` and the empty pattern match every name. -/
theorem _root_.KafVerif.C23.name_star (n : List Char) : nameMatches ['*'] n = true ∧ nameMatches [] n = true := by
  constructor <;> simp [nameMatches, trimSpace, trimLeft, trimRight, starStr, isSpace]

/-- exact pattern: a trimmed, non-empty pattern that does not end in `*` matches exactly itself -/
theorem _root_.KafVerif.C23.name_exact (rn n : List Char) (ht : trimSpace rn = rn) (hne : rn ≠ [])
    (hs : hasSuffix rn ['*'] = false) : nameMatches rn n = (rn == n) := by
  have : rn ≠ ['*'] := by intro h; subst h; simp [hasSuffix] at hs
  simp [nameMatches, ht, hne, this, hs, starStr]

/-- prefix wildcard: `p*` (p non-empty, pattern trimmed) matches exactly the names that start with p -/
theorem _root_.KafVerif.C23.name_prefix (p n : List Char) (hp : p ≠ []) (ht : trimSpace (p ++ ['*']) = p ++ ['*']) :
    nameMatches (p ++ ['*']) n = p.isPrefixOf n := by
  have h1 : p ++ ['*'] ≠ [] := by simp
  have h2 : p ++ ['*'] ≠ starStr := by
    intro h
    have := congrArg List.length h
    simp [starStr] at this
    exact hp this
  have h3 : hasSuffix (p ++ ['*']) starStr = true := by
    simp [hasSuffix, starStr, List.reverse_append]
  simp [nameMatches, ht, h1, h2, h3, hasPrefix, List.dropLast_concat]

/-! ### the code as found violates "deny overrides" and both monotonicity clauses -/

def ruleAll : Rule := { action := [], resource := [], name := [] }
def reqP : Req := { principal := ['p'], action := ['x'], resource := ['t'], name := ['n'] }
def cfgDup : Config := { enabled := true, defaultPolicy := [], principals :=
  [{ name := ['p'], allow := [], deny := [ruleAll] }, { name := ['p'], allow := [ruleAll], deny := [] }] }

/-- pre-fix: a matching deny rule of the principal exists, yet the request is allowed -/
theorem _root_.KafVerif.C23.old_violates_deny_overrides :
    ∃ cfg req, cfg.enabled = true ∧
      (∃ r ∈ denyRules cfg (effPrincipal req.principal), (fun _ _ => true) r req = true) ∧
      allowsWith (fun _ _ => true) (newAuthorizerOld cfg) req = true :=
  ⟨cfgDup, reqP, rfl, ⟨ruleAll, by decide, rfl⟩, by decide⟩

/-- pre-fix: appending an entry that only carries a deny rule GRANTS access (it replaces the
principal's earlier deny-all entry; default policy allow) -/
theorem _root_.KafVerif.C23.old_violates_add_deny :
    ∃ (ps : List PrincipalRules) (name : List Char) (rules : List Rule) (req : Req),
      allowsWith (fun r _ => r.name = []) (newAuthorizerOld ⟨true, allowStr, ps⟩) req = false ∧
      allowsWith (fun r _ => r.name = []) (newAuthorizerOld ⟨true, allowStr, ps ++ [⟨name, [], rules⟩]⟩) req = true :=
  ⟨[{ name := ['p'], allow := [], deny := [ruleAll] }],
   ['p'], [{ action := [], resource := [], name := ['z'] }], reqP, by decide, by decide⟩

/-! ### non-vacuity -/

example : allows cfgDup reqP = false := by decide
example : allowsOld cfgDup reqP = true := by decide
example : ∃ r ∈ denyRules cfgDup (effPrincipal reqP.principal), matchesRule r reqP = true :=
  ⟨ruleAll, by decide, by decide⟩
/-- exact patterns are CASE-SENSITIVE (only actions and resources fold case): instance of `name_exact` -/
theorem _root_.KafVerif.C23.name_exact_case_sensitive :
    nameMatches ['o', 'r', 'd', 'e', 'r', 's'] ['O', 'r', 'd', 'e', 'r', 's'] = false ∧
    nameMatches ['O', 'r', 'd', '*'] ['o', 'r', 'd', 'e', 'r', 's'] = false ∧
    matchesRule ⟨['P', 'R', 'O', 'D', 'U', 'C', 'E'], ['T', 'o', 'p', 'i', 'c'], ['o', 'r', 'd', 'e', 'r', 's']⟩
      ⟨['p'], ['p', 'r', 'o', 'd', 'u', 'c', 'e'], ['t', 'o', 'p', 'i', 'c'], ['o', 'r', 'd', 'e', 'r', 's']⟩ = true := by
  refine ⟨?_, by decide, by decide⟩
  rw [KafVerif.C23.name_exact _ _ (by decide) (by decide) (by decide)]
  decide

/-- the same rule text as ALLOW in one entry and DENY in another entry of the principal (either
order, any spelling of the name), or both in one entry: the request is denied (instances of `deny_overrides`) -/
def cfgSameRule (first : Bool) : Config := { enabled := true, defaultPolicy := [], principals :=
  if first then [{ name := ['p'], allow := [ruleAll], deny := [] }, { name := [' ', 'p'], allow := [], deny := [ruleAll] }]
  else [{ name := ['p'], allow := [], deny := [ruleAll] }, { name := ['p', ' '], allow := [ruleAll], deny := [] }] }
example : allows (cfgSameRule true) reqP = false ∧ allows (cfgSameRule false) reqP = false := by decide
example : allows { enabled := true, defaultPolicy := allowStr, principals :=
    [{ name := ['p'], allow := [ruleAll], deny := [ruleAll] }, { name := ['p'], allow := [], deny := [] }] } reqP = false := by decide
example : nameMatches "orders-*".toList "orders-eu".toList = true := by decide
example : nameMatches "orders-*".toList "order".toList = false := by decide
example : trimSpace (['a', 'b'] ++ ['*']) = ['a', 'b'] ++ ['*'] := by decide

end KafVerif.Acl

/-! ## Part B — SQL proxy ACL -/
namespace KafVerif.SqlAcl
open KafVerif.GoStr

abbrev PM := List Char → List Char → Option Bool

theorem matchPatterns_eq (pm : PM) (ps : List (List Char)) (t : List Char) :
    matchPatterns pm ps t = ps.any fun p => patAccepts pm p t := by
  unfold matchPatterns
  cases ps <;> simp

/-- **Deny overrides**: a topic accepted by any deny pattern is refused. -/
theorem _root_.KafVerif.C23.sql_deny_overrides (pm : PM) (a : ACL) (t : List Char)
    (h : ∃ p ∈ a.deny, patAccepts pm p t = true) : allows pm a t = false := by
  obtain ⟨p, hp, hm⟩ := h
  have : matchPatterns pm a.deny t = true := by
    rw [matchPatterns_eq]; exact List.any_eq_true.mpr ⟨p, hp, hm⟩
  simp [allows, this]

/-- **Allow applies**. -/
theorem _root_.KafVerif.C23.sql_allow_applies (pm : PM) (a : ACL) (t : List Char)
    (hd : ∀ p ∈ a.deny, patAccepts pm p t = false)
    (h : ∃ p ∈ a.allow, patAccepts pm p t = true) : allows pm a t = true := by
  obtain ⟨p, hp, hm⟩ := h
  have h1 : matchPatterns pm a.deny t = false := by
    rw [matchPatterns_eq, List.any_eq_false]; intro x hx; simp [hd x hx]
  have h2 : matchPatterns pm a.allow t = true := by
    rw [matchPatterns_eq]; exact List.any_eq_true.mpr ⟨p, hp, hm⟩
  simp [allows, h1, h2]

/-- **Default applies**: nothing matches ⇒ the default, which this ACL derives from the allow
list (no allow list = allow all, otherwise deny). -/
theorem _root_.KafVerif.C23.sql_default_applies (pm : PM) (a : ACL) (t : List Char)
    (hd : ∀ p ∈ a.deny, patAccepts pm p t = false)
    (ha : ∀ p ∈ a.allow, patAccepts pm p t = false) : allows pm a t = a.allow.isEmpty := by
  have h1 : matchPatterns pm a.deny t = false := by
    rw [matchPatterns_eq, List.any_eq_false]; intro x hx; simp [hd x hx]
  have h2 : matchPatterns pm a.allow t = false := by
    rw [matchPatterns_eq, List.any_eq_false]; intro x hx; simp [ha x hx]
  cases hal : a.allow <;> simp_all [allows]

/-- **Adding deny patterns never grants** (any superset of the deny list). -/
theorem _root_.KafVerif.C23.sql_add_deny_antimono (pm : PM) (a : ACL) (deny' : List (List Char)) (t : List Char)
    (hsub : ∀ p ∈ a.deny, p ∈ deny') (h : allows pm { a with deny := deny' } t = true) :
    allows pm a t = true := by
  unfold allows at h ⊢
  simp only [matchPatterns_eq] at h ⊢
  by_cases hd : (a.deny.any fun p => patAccepts pm p t) = true
  · obtain ⟨p, hp, hm⟩ := List.any_eq_true.mp hd
    have : (deny'.any fun p => patAccepts pm p t) = true := List.any_eq_true.mpr ⟨p, hsub p hp, hm⟩
    simp [this] at h
  · have hd0 : (a.deny.any fun p => patAccepts pm p t) = false := by simpa using hd
    by_cases hd' : (deny'.any fun p => patAccepts pm p t) = true
    · simp [hd'] at h
    · have hd1 : (deny'.any fun p => patAccepts pm p t) = false := by simpa using hd'
      simpa [hd0, hd1] using h

/-- FULL statement wanted by the property (does NOT hold, see `sql_first_allow_revokes`):
`∀ a allow' t, a.allow ⊆ allow' → allows a t → allows {a with allow := allow'} t`.
Proved part: **adding allow patterns to a NON-EMPTY allow list never removes access.** -/
theorem _root_.KafVerif.C23.sql_add_allow_mono_partial (pm : PM) (a : ACL) (allow' : List (List Char)) (t : List Char)
    (hne : a.allow ≠ []) (hsub : ∀ p ∈ a.allow, p ∈ allow') (h : allows pm a t = true) :
    allows pm { a with allow := allow' } t = true := by
  unfold allows at h ⊢
  simp only [matchPatterns_eq] at h ⊢
  by_cases hd : (a.deny.any fun p => patAccepts pm p t) = true
  · simp [hd] at h
  · have hd0 : (a.deny.any fun p => patAccepts pm p t) = false := by simpa using hd
    have hl : ¬ a.allow.length = 0 := by
      intro h0; exact hne (List.length_eq_zero_iff.mp h0)
    simp only [hd0, hl, if_false, Bool.false_eq_true] at h ⊢
    obtain ⟨p, hp, hm⟩ := List.any_eq_true.mp h
    have : (allow'.any fun p => patAccepts pm p t) = true := List.any_eq_true.mpr ⟨p, hsub p hp, hm⟩
    simp [this]

/-- The first allow pattern flips the default from allow-all to deny: adding an allow rule
REMOVES access (property clause "adding an allow rule never removes access" is violated by the
SQL proxy ACL as designed). -/
theorem _root_.KafVerif.C23.sql_first_allow_revokes :
    ∃ (a : ACL) (p t : List Char), allows globMatch a t = true ∧
      allows globMatch { a with allow := a.allow ++ [p] } t = false :=
  ⟨{ allow := [], deny := [] }, ['a'], ['b'], by decide, by decide⟩

example : allows globMatch { allow := ["ord*".toList], deny := ["orders-eu".toList] } "orders-us".toList = true := by decide
example : allows globMatch { allow := ["ord*".toList], deny := ["orders-eu".toList] } "orders-eu".toList = false := by decide
example : patAccepts globMatch " a?c ".toList "abc".toList = true := by decide

end KafVerif.SqlAcl
