import KafVerif.Lemmas.PLogReadSegment
import KafVerif.Lemmas.PLogReadWhole
import KafVerif.Lemmas.PLogReadReach
import KafVerif.Lemmas.PLogLoss
/-!
C04 — A fetch below the high watermark always makes progress.

Statement (properties.jsonl): when a consumer fetches at an offset o below the high watermark with a
positive byte limit, the response includes the start of the batch holding o (or of the first batch
after o, if o falls in a gap); it never consists only of records before o.

* `findIndexEntry_le`   the index lookup (binary search as coded) returns an entry of the table whose
                        offset is ≤ o, or the first entry — for every table, sorted or not.
* `segment_progress`    any interval, any chain of framed batches, any offset in the segment, any positive limit:
                        `sliceCachedSegment` answers `take n` of the bytes starting at the batch holding the offset.
* `fetch_progress`      `Read` as a whole on a good log: non-empty data starting at the holder's first byte.
* `below_watermark_has_batch`  below `nextOffset` on a chain such a holder exists.
* `fetch_progress_reachable`   the two combined for EVERY reachable state (declared-length record sets, `Small` run).
* `fetch_progress_gapped`      `fetch_progress` for a segment list WITH HOLES (`SegGap`).
* `fetch_progress_after_loss`  any reachable state, then ANY set of index / segment objects lost and a restart at any store offset:
                        if `RestoreFromS3` succeeds, every fetch at an offset at or below the last retained offset — inside a retained
                        segment, before the first one, or IN A HOLE between two retained segments — returns non-empty data that
                        starts at the first byte of the first retained batch reaching the offset.
* `fetch_progress_after_loss_run`  … and in every state reached from the restored log by appends / flushes / gated flushes / reads
                        (up to the next restart): e.g. an offset in the hole while newer batches are buffered.
* `search_lookup_misses_hole`  witness for the seeded change C04-r2-1: `Read`'s segment lookup rewritten with `sort.Search`
                        answers nothing for an offset in a hole between two retained segments; the coded lookup snaps forward.
* `restore_rejects_committed_without_index`, `restore_rejects_after_index_loss`
                        for EVERY log / listing / loss list / store offset: a listed segment below the store offset whose index object
                        is unusable makes `RestoreFromS3` fail (the partition is not served);
                        `restored_segments_indexed`: after a successful restore every registered segment has index entries.
* `lenient_restore_no_progress`  witness for the seeded change C04-r3-1: a restore that registers such a segment without index
                        entries makes `Read(1..3, 70)` answer batch 0 of a four-batch segment (cache on and off).
* `old_livelock`        the code before the fix: three one-record batches in one segment, index
                        interval 100, `Read(2, 61)` returns exactly the batch with base 0 on the cached and on
                        the range-read path; the fixed code returns the batch with base 2.
-/
namespace KafVerif.PLog
open KafVerif KafVerif.RecBatch

/-! ### index lookup -/

/-- **C04 (index lookup).** For every index table and offset, `findIndexEntry` returns a member of the
table whose offset is at most `o`, or the table's first entry (the empty table gives `(0, 0)`).
Remark: the search does NOT always return the greatest entry at or before `o` — with entries at
0, 10, 20, 30, 40 and `o = 15` it falls through to the first entry — which costs a longer frame
walk but never correctness. -/
theorem _root_.KafVerif.C04.findIndexEntry_le (es : List (Int × Int)) (o : Int) (hne : es ≠ []) :
    findIndexEntry es o ∈ es ∧ ((findIndexEntry es o).1 ≤ o ∨ findIndexEntry es o = es.headD (0, 0)) :=
  findIndexEntry_spec es o hne

example : findIndexEntry [(0, 32), (10, 100), (20, 200), (30, 300), (40, 400)] 15 = (0, 32) := by decide

/-! ### progress -/

/-- **C04 (segment paths).** For a segment built by `BuildSegment` with ANY index interval from a chain of
framed batches, every offset `o` inside it and every POSITIVE byte limit: `sliceCachedSegment` (cached
and full-download path) answers `take n` of the bytes that start at the batch holding `o`, with
`n = min(maxBytes, bytes left in the segment) ≥ 1`: the answer begins with the first `n` bytes of that
batch (all of it when `maxBytes` allows). -/
theorem _root_.KafVerif.C04.segment_progress {s e : Int} {bs : List Batch} (iv : Int)
    (hne : bs ≠ []) (hc : Chain s bs e) (hfr : ∀ b ∈ bs, Framed b ∧ HdrOK b)
    (hsmall : (body bs).length + 48 < 2147483648) (o m : Int) (ho1 : s ≤ o) (ho2 : o < e) (_hm : 0 < m) :
    ∃ (h : Batch) (t : List Batch) (n : Nat), runFrom bs o = h :: t ∧ h.base ≤ o ∧ o ≤ h.last ∧ 1 ≤ n ∧
      sliceCached (buildSegment iv bs).size (buildSegment iv bs).entries o m (buildSegment iv bs).data =
        .data ((h.bytes ++ body t).take n) ∧
      (n = (h.bytes ++ body t).length ∨ (n : Int) = m) := by
  obtain ⟨n, hn1, hslice, hn2, hn3⟩ := sliceCached_segment iv hne hc hfr hsmall o m ho1 ho2
  obtain ⟨bh, hbh, hbh1, hbh2⟩ := KafVerif.C02.chain_covers hc o ho1 ho2
  have hrne : runFrom bs o ≠ [] := runFrom_ne_nil hbh (by omega)
  cases hr : runFrom bs o with
  | nil => exact absurd hr hrne
  | cons h t =>
    have hh := runFrom_head hr
    -- h is the batch holding o: everything before it ends before o, and the chain has no gap
    have hmem : h ∈ bs := mem_runFrom (by rw [hr]; simp)
    have hbase : h.base ≤ o := by
      -- bh holds o; bh is in runFrom (it reaches o), h is the first of runFrom
      have hsplit := split_runFrom bs o
      rw [hr] at hsplit
      have hbh_in : bh ∈ h :: t := by
        rw [hsplit] at hbh
        rcases List.mem_append.mp hbh with hb | hb
        · have := takeWhile_all bs o bh hb; omega
        · exact hb
      simp only [List.mem_cons] at hbh_in
      rcases hbh_in with rfl | hin
      · exact hbh1
      · have hpw := (KafVerif.C02.chain_strict hc).2
        rw [hsplit] at hpw
        have := (List.pairwise_append.mp hpw).2.1
        have := (List.pairwise_cons.mp this).1 bh hin
        omega
    rw [hr, body_cons] at hslice hn2 hn3
    refine ⟨h, t, n, rfl, hbase, by omega, hn1, hslice, ?_⟩
    rcases hn3 with h3 | h3
    · exact Or.inl h3
    · exact Or.inr h3.2

/-- **C04 (main).** Under the hypotheses of C03 `read_run` (C02 chain invariant, segments as built from
framed batches, coherent cache/S3): for EVERY offset `o` that some batch of the log reaches — in
particular every `o` with `start ≤ o < nextOffset`, i.e. below the high watermark — and every byte
limit, `Read` returns a non-empty answer that starts at the first byte of the batch holding `o` (the
first batch after `o` if `o` is before the log): the answer and that batch's bytes agree on their
common length. It never consists only of earlier batches. -/
theorem _root_.KafVerif.C04.fetch_progress {start : Int} {l : PLog} (m0 : Int) (hseg : SegChain start l.segs m0)
    (htail : Chain m0 (l.fl ++ l.buf) l.next) (hbuilt : ∀ g ∈ l.segs, SegBuilt l.interval g)
    (hcoh : Coherent l) (hne : ∀ b ∈ l.fl ++ l.buf, b.bytes ≠ []) (o m : Int)
    (h : Batch) (t : List Batch) (hrun : runFrom l.log o = h :: t) :
    ∃ d, (read l o m).2 = .data d ∧ d ≠ [] ∧ (d <+: h.bytes ∨ h.bytes <+: d) ∧ ¬ h.last < o := by
  have hlog : l.log = segBatches l.segs ++ (l.fl ++ l.buf) := by simp [PLog.log]
  obtain ⟨_, h2⟩ := read_good m0 hseg htail hbuilt hcoh hne o m
  rw [← hlog, hrun] at h2
  obtain ⟨d, hd, hdne, hpre⟩ := h2 (by simp)
  refine ⟨d, hd, hdne, ?_, runFrom_head hrun⟩
  rw [body_cons] at hpre
  exact List.prefix_or_prefix_of_prefix hpre (List.prefix_append _ _)

/-- below the high watermark some batch reaches `o` (so `fetch_progress` applies) -/
theorem _root_.KafVerif.C04.below_watermark_has_batch {start : Int} {l : PLog}
    (hc : Chain start l.log l.next) (o : Int) (h1 : start ≤ o) (h2 : o < l.next) :
    ∃ h t, runFrom l.log o = h :: t ∧ h.base ≤ o ∧ o ≤ h.last := by
  obtain ⟨bh, hbh, hbh1, hbh2⟩ := KafVerif.C02.chain_covers hc o h1 h2
  have hrne : runFrom l.log o ≠ [] := runFrom_ne_nil hbh (by omega)
  cases hr : runFrom l.log o with
  | nil => exact absurd hr hrne
  | cons h t =>
    have hh := runFrom_head hr
    refine ⟨h, t, rfl, ?_, by omega⟩
    have hsplit := split_runFrom l.log o
    rw [hr] at hsplit
    have hbh_in : bh ∈ h :: t := by
      rw [hsplit] at hbh
      rcases List.mem_append.mp hbh with hb | hb
      · have := takeWhile_all l.log o bh hb; omega
      · exact hb
    simp only [List.mem_cons] at hbh_in
    rcases hbh_in with rfl | hin
    · exact hbh1
    · have hpw := (KafVerif.C02.chain_strict hc).2
      rw [hsplit] at hpw
      have := (List.pairwise_append.mp hpw).2.1
      have := (List.pairwise_cons.mp this).1 bh hin
      omega

/-- **C04 (main, closed over reachability).** For every index interval, cache setting, start offset and EVERY
operation sequence whose appended record sets declare their batch length (run `Small`): in the reached state, for
every offset `o` with `start ≤ o < nextOffset` (below the high watermark) and every byte limit, `Read` returns
non-empty data that starts at the first byte of the batch `h` holding `o` (`h.base ≤ o ≤ h.last`): the answer is
a prefix of `h`'s bytes or has them as a prefix. -/
theorem _root_.KafVerif.C04.fetch_progress_reachable (iv : Int) (c : Bool) (start : Int) (ops : List Op)
    (hr : RunOK (PLog.new iv c start) ops) (o m : Int) :
    let l := ops.foldl step (PLog.new iv c start)
    start ≤ o → o < l.next →
    ∃ h d, h ∈ l.log ∧ h.base ≤ o ∧ o ≤ h.last ∧ (read l o m).2 = .data d ∧ d ≠ [] ∧
      (d <+: h.bytes ∨ h.bytes <+: d) := by
  intro l ho1 ho2
  obtain ⟨hi, hg, _⟩ := good_reach (PLog.new iv c start) ops (inv_new iv c start) (good_new iv c start) hr
  have hchain := (KafVerif.C02.offsets_chain iv c start ops).1
  obtain ⟨m0, h1, h2, _⟩ := hi
  obtain ⟨g1, g2, g3, _⟩ := hg
  obtain ⟨h, t, hrun, hb1, hb2⟩ := KafVerif.C04.below_watermark_has_batch hchain o ho1 ho2
  obtain ⟨d, hd, hdne, hpre, _⟩ := KafVerif.C04.fetch_progress m0 h1 h2 g1 g2 (fun b hb => by
    have := (g3 b hb).1.2
    intro hnil; rw [hnil] at this; simp [hdrMin] at this) o m h t hrun
  exact ⟨h, d, mem_runFrom (by rw [hrun]; simp), hb1, hb2, hd, hdne, hpre⟩

/-- **C04 (log with holes).** `fetch_progress` with `SegGap` in place of `SegChain`: whenever `h` is the first batch of the
(retained) log that reaches `o` — the batch holding `o`, or the first batch after the gap `o` falls into — `Read` returns
non-empty data starting at `h`'s first byte. -/
theorem _root_.KafVerif.C04.fetch_progress_gapped {start : Int} {l : PLog} (m0 : Int) (hseg : SegGap start l.segs m0)
    (htail : Chain m0 (l.fl ++ l.buf) l.next) (hbuilt : ∀ g ∈ l.segs, SegBuilt l.interval g)
    (hcoh : Coherent l) (hne : ∀ b ∈ l.fl ++ l.buf, b.bytes ≠ []) (o m : Int)
    (h : Batch) (t : List Batch) (hrun : runFrom l.log o = h :: t) :
    ∃ d, (read l o m).2 = .data d ∧ d ≠ [] ∧ (d <+: h.bytes ∨ h.bytes <+: d) ∧ ¬ h.last < o := by
  have hlog : l.log = segBatches l.segs ++ (l.fl ++ l.buf) := by simp [PLog.log]
  obtain ⟨_, h2⟩ := read_gapped m0 hseg htail hbuilt hcoh hne o m
  rw [← hlog, hrun] at h2
  obtain ⟨d, hd, hdne, hpre⟩ := h2 (by simp)
  refine ⟨d, hd, hdne, ?_, runFrom_head hrun⟩
  rw [body_cons] at hpre
  exact List.prefix_or_prefix_of_prefix hpre (List.prefix_append _ _)

/-- **C04 (after object loss, closed over reachability).** Every reachable state (`RunOK` history), then ANY list of lost objects
(index object deleted / corrupt, segment object deleted) and a restart at ANY store offset `st ≥ start`.  If `RestoreFromS3`
succeeds with last restored offset `last`, then for EVERY offset `0 ≤ o ≤ last` (in particular every offset below the restored high
watermark `last + 1`, including the offsets of a hole between two retained segments and those before the first one) and every
byte limit, `Read` returns non-empty data that starts at the first byte of `h`, the FIRST retained batch with `o ≤ h.last`
(every retained batch before `h` ends before `o`).  It never answers offset-out-of-range and never skips a retained segment. -/
theorem _root_.KafVerif.C04.fetch_progress_after_loss (iv : Int) (c : Bool) (start : Int) (ops : List Op)
    (hr : RunOK (PLog.new iv c start) ops) (losses : List Loss) (st last : Int) (hst : start ≤ st)
    (hres : (restoreAt (losses.foldl lose { l := ops.foldl step (PLog.new iv c start) }) st).2 = .ok last)
    (o m : Int) (ho0 : 0 ≤ o) (ho : o ≤ last) :
    let l' := (restoreAt (losses.foldl lose { l := ops.foldl step (PLog.new iv c start) }) st).1.l
    ∃ pre h t d, l'.log = pre ++ h :: t ∧ (∀ b ∈ pre, b.last < o) ∧ o ≤ h.last ∧
      (read l' o m).2 = .data d ∧ d ≠ [] ∧ (d <+: h.bytes ∨ h.bytes <+: d) := by
  intro l'
  obtain ⟨hi, hg, _⟩ := good_reach (PLog.new iv c start) ops (inv_new iv c start) (good_new iv c start) hr
  obtain ⟨r1, r2, r3, r4, r5, _, r7, r8⟩ := restore_gapped hi hg losses st last hst hres
  have htail : Chain l'.next (l'.fl ++ l'.buf) l'.next := by
    show Chain l'.next (l'.fl ++ l'.buf) l'.next; rw [r2, r3]; simp [Chain]
  have hne : ∀ b ∈ l'.fl ++ l'.buf, b.bytes ≠ [] := by intro b hb; rw [r2, r3] at hb; simp at hb
  -- some retained batch reaches o: the last batch of the last retained segment
  have hrne : runFrom l'.log o ≠ [] := by
    cases hl : l'.segs.getLast? with
    | none =>
      have hnil : l'.segs = [] := by simpa using hl
      have := r8 hnil
      omega
    | some g =>
      obtain ⟨hlast, _⟩ := r7 g hl
      have hgm : g ∈ l'.segs := List.mem_of_getLast? hl
      obtain ⟨hgne, hgc, _, _⟩ := seggap_mem r1 g hgm
      obtain ⟨b, hb, hbl⟩ := getLast_batch hgne hgc
      have hbm : b ∈ l'.log := by
        simp only [PLog.log, segBatches, List.mem_append, List.mem_flatten, List.mem_map]
        exact Or.inl (Or.inl ⟨g.batches, ⟨g, hgm, rfl⟩, hb⟩)
      exact runFrom_ne_nil hbm (by omega)
  cases hrun : runFrom l'.log o with
  | nil => exact absurd hrun hrne
  | cons h t =>
    obtain ⟨d, hd, hdne, hpre, hh⟩ := KafVerif.C04.fetch_progress_gapped l'.next r1 htail r4 r5 hne o m h t hrun
    refine ⟨l'.log.takeWhile (fun b => decide (b.last < o)), h, t, d, ?_, takeWhile_all l'.log o, by omega, hd, hdne, hpre⟩
    have := split_runFrom l'.log o
    rw [hrun] at this
    exact this

/-- **C04 (after object loss, and everything up to the next restart).** As `fetch_progress_after_loss`, followed by ANY sequence
`ops2` of appends (declared length), flushes, gated flushes, releases, reads and cache drops on the restored log (run `Small`, no
further restart): in the state reached, whenever `h` is the first batch of the log that reaches `o` (committed before or after the
restart, in flight, or buffered — e.g. `o` in a hole while newer batches sit in the write buffer), `Read` returns non-empty data
starting at `h`'s first byte.  It never skips a retained segment in favour of the buffered tail. -/
theorem _root_.KafVerif.C04.fetch_progress_after_loss_run (iv : Int) (c : Bool) (start : Int) (ops : List Op)
    (hr : RunOK (PLog.new iv c start) ops) (losses : List Loss) (st last : Int) (hst : start ≤ st)
    (hres : (restoreAt (losses.foldl lose { l := ops.foldl step (PLog.new iv c start) }) st).2 = .ok last)
    (ops2 : List Op)
    (hr2 : RunOKG (restoreAt (losses.foldl lose { l := ops.foldl step (PLog.new iv c start) }) st).1.l ops2)
    (o m : Int) (h : Batch) (t : List Batch) :
    let l' := ops2.foldl step (restoreAt (losses.foldl lose { l := ops.foldl step (PLog.new iv c start) }) st).1.l
    runFrom l'.log o = h :: t →
    ∃ d, (read l' o m).2 = .data d ∧ d ≠ [] ∧ (d <+: h.bytes ∨ h.bytes <+: d) ∧ ¬ h.last < o := by
  intro l' hrun
  obtain ⟨hi, hg, _⟩ := good_reach (PLog.new iv c start) ops (inv_new iv c start) (good_new iv c start) hr
  obtain ⟨i0, g0⟩ := restore_invG hi hg (cacheOff_reach iv c start ops) losses st last hst hres
  obtain ⟨⟨m0, h1, h2, _⟩, g1, g2, g3, _⟩ := gapped_reach _ ops2 i0 g0 hr2
  exact KafVerif.C04.fetch_progress_gapped m0 h1 h2 g1 g2 (fun b hb => by
    have := (g3 b hb).1.2
    intro hnil; rw [hnil] at this; simp [hdrMin] at this) o m h t hrun

/-! ### the segment lookup rewritten as a binary search (seeded change C04-r2-1) -/

/-- a 61-byte one-record batch with a declared length and a marker byte -/
def tiny (marker : UInt8) : Bytes :=
  [0,0,0,0,0,0,0,0, 0,0,0,49, marker] ++ zeros 44 ++ [0,0,0,1]

/-- three one-record segments (offsets 0, 1, 2); the index object of the middle one is lost; restart at store offset 1 -/
def holeLog0 : PLog :=
  ([.append (tiny 1), .flush, .append (tiny 2), .flush, .append (tiny 3), .flush] : List Op).foldl step (PLog.new 1 false 0)

def holeLog : LLog := loseIndex { l := holeLog0 } 1

set_option maxRecDepth 100000 in
/-- **Witness (seeded change C04-r2-1).** The restore keeps the segments with bases 0 and 2 (the middle one is skipped as
orphaned), the restored high watermark is 3.  For the fetch offset 1 — in the hole — the coded lookup `findSeg` snaps forward
to the segment with base 2 and `Read` answers the batch at offset 2; the lookup rewritten with `sort.Search`
(`findSegSearch`: last segment starting at or before the offset, snap-forward only before the first segment) finds nothing,
so `Read` would fall through to the (empty) write buffer and answer offset-out-of-range. -/
theorem _root_.KafVerif.C04.search_lookup_misses_hole :
    (restoreAt holeLog 1).2 = .ok 2 ∧ ((restoreAt holeLog 1).1.l.segs.map (·.base)) = [0, 2] ∧ (restoreAt holeLog 1).1.l.hw = 3 ∧
    findSegSearch (restoreAt holeLog 1).1.l.segs 1 = none ∧
    ((findSeg (restoreAt holeLog 1).1.l.segs 1).map fun r => (r.1.base, r.2)) = some (2, 2) ∧
    (read (restoreAt holeLog 1).1.l 1 61).2 = .data (patch ((parse (tiny 3)).getD ⟨0, 0, 0, []⟩) 2).bytes := by
  decide

/-! ### a committed segment whose index object is lost (seeded change C04-r3-1) -/

theorem mem_insertSeg (s g : Seg) (l : List Seg) : g ∈ insertSeg s l ↔ g = s ∨ g ∈ l := by
  induction l with
  | nil => simp [insertSeg]
  | cons x t ih =>
    simp only [insertSeg]
    split
    · simp
    · simp only [List.mem_cons, ih]
      constructor
      · rintro (h | h | h)
        · exact Or.inr (Or.inl h)
        · exact Or.inl h
        · exact Or.inr (Or.inr h)
      · rintro (h | h | h)
        · exact Or.inr (Or.inl h)
        · exact Or.inl h
        · exact Or.inr (Or.inr h)

theorem mem_sortSegs (g : Seg) (l : List Seg) : g ∈ sortSegs l ↔ g ∈ l := by
  induction l with
  | nil => simp [sortSegs]
  | cons x t ih =>
    have : sortSegs (x :: t) = insertSeg x (sortSegs t) := rfl
    rw [this, mem_insertSeg, ih]; simp

/-- the index loop fails as soon as ONE listed segment below the store offset has no usable index -/
theorem scanIdx_none_of_committed (noIdx : List Int) (next : Int) (ss : List Seg) (g : Seg) (hg : g ∈ ss)
    (hno : noIdx.contains g.base = true) (hlt : g.base < next) : scanIdx noIdx next ss = none := by
  induction ss with
  | nil => simp at hg
  | cons x t ih =>
    simp only [List.mem_cons] at hg
    simp only [scanIdx]
    rcases hg with rfl | hg
    · rw [if_pos hno, if_neg (by omega)]
    · split
      · split
        · exact ih hg
        · rfl
      · rw [ih hg]; rfl

/-- **C04 (a committed segment is never served without its index).**  For EVERY log, S3 listing, set of unusable index objects and
store offset: if some listed segment object with `base < store offset` (it holds committed offsets) has no usable index object, then
`RestoreFromS3` fails — the partition is not opened, so no `Read` is ever answered from a segment registered without index entries
(the no-index fallback `sliceFullSegmentData` ignores the fetch offset). -/
theorem _root_.KafVerif.C04.restore_rejects_committed_without_index (x : LLog) (st : Int) (g : Seg) (hg : g ∈ x.l.s3)
    (hno : x.noIdx.contains g.base = true) (hlt : g.base < st) : (restoreAt x st).2 = .err := by
  unfold restoreAt
  rw [scanIdx_none_of_committed x.noIdx st (sortSegs x.l.s3) g ((mem_sortSegs g _).mpr hg) hno hlt]

theorem lose_keeps (b : Int) (g : Seg) (hgb : g.base = b) (a : Loss) (ha : a ≠ .seg b) (x : LLog) :
    (g ∈ x.l.s3 → g ∈ (lose x a).l.s3) ∧ (g ∈ x.l.s3 → x.noIdx.contains b = true → (lose x a).noIdx.contains b = true) := by
  cases a with
  | index b' =>
    simp only [lose, loseIndex]
    split
    · exact ⟨fun h => h, fun _ h => by simp at h ⊢; exact Or.inr h⟩
    · exact ⟨fun h => h, fun _ h => h⟩
  | seg b' =>
    have hne : b ≠ b' := by intro h; apply ha; rw [h]
    simp only [lose, loseSeg]
    refine ⟨fun h => ?_, fun _ h => ?_⟩
    · simp only [List.mem_filter]
      exact ⟨h, by simp; omega⟩
    · simp only [List.contains_eq_mem, List.mem_filter, decide_eq_true_eq] at h ⊢
      exact ⟨h, by simp; omega⟩

theorem lose_fold_keeps (b : Int) (g : Seg) (hgb : g.base = b) (losses : List Loss) (hl : ∀ a ∈ losses, a ≠ .seg b) (x : LLog)
    (hg : g ∈ x.l.s3) :
    g ∈ (losses.foldl lose x).l.s3 ∧ (x.noIdx.contains b = true → (losses.foldl lose x).noIdx.contains b = true) := by
  induction losses generalizing x with
  | nil => exact ⟨hg, fun h => h⟩
  | cons a t ih =>
    obtain ⟨k1, k2⟩ := lose_keeps b g hgb a (hl a (by simp)) x
    obtain ⟨i1, i2⟩ := ih (fun a' ha' => hl a' (by simp [ha'])) (lose x a) (k1 hg)
    exact ⟨i1, fun h => i2 (k2 hg h)⟩

/-- **C04 (… in terms of what was lost).**  Any log `l` (in particular every reachable one), any list of lost objects: if the
index object of a listed segment `g` is among the losses, its segment object is not, and the store offset is above `g.base`,
the restore fails — whatever else is lost, in whatever order. -/
theorem _root_.KafVerif.C04.restore_rejects_after_index_loss (l : PLog) (losses : List Loss) (st : Int) (g : Seg)
    (hg : g ∈ l.s3) (hidx : Loss.index g.base ∈ losses) (hseg : Loss.seg g.base ∉ losses) (hlt : g.base < st) :
    (restoreAt (losses.foldl lose { l := l }) st).2 = .err := by
  obtain ⟨pre, post, hsplit⟩ := List.append_of_mem hidx
  have hpre : ∀ a ∈ pre, a ≠ Loss.seg g.base := fun a ha h => hseg (by rw [hsplit, ← h]; simp [ha])
  have hpost : ∀ a ∈ post, a ≠ Loss.seg g.base := fun a ha h => hseg (by rw [hsplit, ← h]; simp [ha])
  rw [hsplit, List.foldl_append, List.foldl_cons]
  obtain ⟨p1, _⟩ := lose_fold_keeps g.base g rfl pre hpre { l := l } hg
  generalize pre.foldl lose { l := l } = x1 at p1 ⊢
  have hmid : g ∈ (lose x1 (.index g.base)).l.s3 ∧ (lose x1 (.index g.base)).noIdx.contains g.base = true := by
    simp only [lose, loseIndex]
    split
    · exact ⟨p1, by simp⟩
    · rename_i hn
      refine ⟨p1, ?_⟩
      apply Classical.byContradiction
      intro hc
      apply hn
      exact ⟨List.any_eq_true.mpr ⟨g, p1, by simp⟩, by simpa using hc⟩
  obtain ⟨q1, q2⟩ := lose_fold_keeps g.base g rfl post hpost _ hmid.1
  exact KafVerif.C04.restore_rejects_committed_without_index _ st g q1 (q2 hmid.2) hlt

/-- **C04 (every restored segment has its index).**  Reachable state (`RunOK` history), any losses, any store offset: after a
SUCCESSFUL restore every registered segment carries a non-empty index table (the one `BuildSegment` wrote), so `Read` never takes
the no-index fallback. -/
theorem _root_.KafVerif.C04.restored_segments_indexed (iv : Int) (c : Bool) (start : Int) (ops : List Op)
    (hr : RunOK (PLog.new iv c start) ops) (losses : List Loss) (st last : Int) (hst : start ≤ st)
    (hres : (restoreAt (losses.foldl lose { l := ops.foldl step (PLog.new iv c start) }) st).2 = .ok last) :
    ∀ g ∈ (restoreAt (losses.foldl lose { l := ops.foldl step (PLog.new iv c start) }) st).1.l.segs, g.entries ≠ [] := by
  obtain ⟨hi, hg, _⟩ := good_reach (PLog.new iv c start) ops (inv_new iv c start) (good_new iv c start) hr
  obtain ⟨r1, _, _, r4, _⟩ := restore_gapped hi hg losses st last hst hres
  intro g hgm
  obtain ⟨_, he, _⟩ := r4 g hgm
  obtain ⟨hne, _⟩ := seggap_mem r1 g hgm
  rw [he]
  cases hb : g.batches with
  | nil => exact absurd hb hne
  | cons b t => simp [buildSegment, buildIndex]

/-- four one-record batches (offsets 0..3) in ONE committed segment -/
def lostIdxLog0 (cache : Bool) : PLog :=
  ([.append (tiny 1), .append (tiny 2), .append (tiny 3), .append (tiny 4), .flush] : List Op).foldl step (PLog.new 100 cache 0)

/-- … its index object is deleted (the store offset is 4) -/
def lostIdxLog (cache : Bool) : LLog :=
  loseIndex { l := lostIdxLog0 cache } 0

/-- the first 61 bytes of a read answer -/
def firstFrame : ReadOut → Bytes
  | .data d => d.take 61
  | _ => []

set_option maxRecDepth 100000 in
/-- **Witness (seeded change C04-r3-1).**  The coded restore refuses the partition (`err`).  The lenient restore registers the
segment [0..3] without index entries; `Read(o, 70)` for o = 1, 2, 3 then answers the segment body from its FIRST batch cut at 70
bytes — it starts with the batch at offset 0, never with the batch holding `o` — with the segment cache on and off; the consumer
re-sends the same fetch forever.  With the index in place the same reads start at the batch holding the offset. -/
theorem _root_.KafVerif.C04.lenient_restore_no_progress :
    (restoreAt (lostIdxLog true) 4).2 = .err ∧ (restoreAt (lostIdxLog false) 4).2 = .err ∧
    (restoreAtLenient (lostIdxLog true) 4).2 = .ok 3 ∧
    ((restoreAtLenient (lostIdxLog true) 4).1.l.segs.map fun s => (s.base, s.last, s.entries)) = [(0, 3, [])] ∧
    (restoreAtLenient (lostIdxLog true) 4).1.l.hw = 4 ∧
    (∀ o ∈ [1, 2, 3], ∀ cache ∈ [true, false],
      firstFrame (read (restoreAtLenient (lostIdxLog cache) 4).1.l o 70).2 = (patch ((parse (tiny 1)).getD ⟨0, 0, 0, []⟩) 0).bytes) ∧
    firstFrame (read (restoreAt { l := lostIdxLog0 false } 4).1.l 1 70).2 = (patch ((parse (tiny 2)).getD ⟨0, 0, 0, []⟩) 1).bytes ∧
    firstFrame (read (restoreAt { l := lostIdxLog0 true } 4).1.l 3 70).2 = (patch ((parse (tiny 4)).getD ⟨0, 0, 0, []⟩) 3).bytes := by
  decide

set_option maxRecDepth 100000 in
/-- non-vacuity of the hypotheses of `restore_rejects_committed_without_index` / `restore_rejects_after_index_loss`: the four-batch
segment is listed, its index is lost, its base is below the store offset 4 -/
example : (∃ g ∈ (lostIdxLog true).l.s3, (lostIdxLog true).noIdx.contains g.base = true ∧ g.base < 4) ∧
    (∃ g ∈ (lostIdxLog0 true).s3, Loss.index g.base ∈ [Loss.seg 7, Loss.index 0] ∧ Loss.seg g.base ∉ [Loss.seg 7, Loss.index 0] ∧ g.base < 4) := by
  decide

/-! ### the code before the fix -/


/-- three one-record batches flushed into one segment, index interval 100 -/
def livelockLog (cache : Bool) : PLog :=
  ([.append (tiny 1), .append (tiny 2), .append (tiny 3), .flush] : List Op).foldl step (PLog.new 100 cache 0)

set_option maxRecDepth 100000 in
/-- **Pre-fix witness (livelock).** Offset 2 is below the high watermark 3; with a limit of 61 bytes the
old read path answers exactly the batch with base offset 0 — on the cached path and (cache off) on the
range-read path — so a consumer at offset 2 gets nothing it can use and asks again.  The fixed read
path answers the batch that holds offset 2. -/
theorem _root_.KafVerif.C04.old_livelock :
    (livelockLog true).hw = 3 ∧
    (readOld (livelockLog true) 2 61).2 = .data (patch ((parse (tiny 1)).getD ⟨0, 0, 0, []⟩) 0).bytes ∧
    (readOld (livelockLog false) 2 61).2 = .data (patch ((parse (tiny 1)).getD ⟨0, 0, 0, []⟩) 0).bytes ∧
    (read (livelockLog true) 2 61).2 = .data (patch ((parse (tiny 3)).getD ⟨0, 0, 0, []⟩) 2).bytes ∧
    (read (livelockLog false) 2 61).2 = .data (patch ((parse (tiny 3)).getD ⟨0, 0, 0, []⟩) 2).bytes := by
  decide

/-! ### non-vacuity of the hypotheses -/

instance (b : Batch) : Decidable (Framed b) := by unfold Framed; infer_instance
instance (b : Batch) : Decidable (HdrOK b) := by unfold HdrOK; infer_instance
def decChain : (bs : List Batch) → (s e : Int) → Decidable (Chain s bs e)
  | [], s, e => inferInstanceAs (Decidable (s = e))
  | b :: t, s, e =>
    have := decChain t (b.base + b.lod + 1) e
    inferInstanceAs (Decidable (b.base = s ∧ 0 ≤ b.lod ∧ Chain (b.base + b.lod + 1) t e))
instance (s e : Int) (bs : List Batch) : Decidable (Chain s bs e) := decChain bs s e

def g0 : Seg := (livelockLog true).segs.getD 0 ⟨0, 0, 0, [], [], []⟩

set_option maxRecDepth 100000 in
/-- non-vacuity: the hypotheses of `fetch_progress` / C03 `read_run` hold for the livelock layout (one segment of
three framed batches, index interval 100, cache on) -/
example : (livelockLog true).segs.length = 1 ∧ (g0.batches ≠ [] ∧ g0.base = 0 ∧ Chain 0 g0.batches (g0.last + 1) ∧ g0.last + 1 = 3) ∧
    SegBuilt 100 g0 ∧ 
    Chain 3 ((livelockLog true).fl ++ (livelockLog true).buf) (livelockLog true).next ∧
    s3get (livelockLog true).s3 g0.base = some g0.data ∧ cacheGet (livelockLog true).cached g0.base = some g0.data := by
  refine ⟨by decide, by decide, ?_, by decide, by decide, by decide⟩
  · refine ⟨by decide, by decide, by decide, by decide, by decide⟩

instance (l : PLog) : Decidable (Small l) := by unfold Small; infer_instance
instance (op : Op) : Decidable (Declared op) := by cases op <;> unfold Declared <;> infer_instance
def decRunOK : (ops : List Op) → (l : PLog) → Decidable (RunOK l ops)
  | [], l => inferInstanceAs (Decidable (Small l))
  | op :: t, l =>
    have := decRunOK t (step l op)
    inferInstanceAs (Decidable (Small l ∧ Declared op ∧ RunOK (step l op) t))
instance (l : PLog) (ops : List Op) : Decidable (RunOK l ops) := decRunOK ops l

set_option maxRecDepth 100000 in
/-- non-vacuity of `RunOK`: the livelock history (and a longer one with a gated flush, a restart and reads) -/
example : RunOK (PLog.new 100 true 0)
    [.append (tiny 1), .append (tiny 2), .flush, .append (tiny 3), .gate, .append (tiny 4), .read 2 61, .release,
     .restartAt 2, .append (tiny 5), .read 3 70, .dropcache, .read 1 10] := by decide

instance instDecNoRestartC04 (op : Op) : Decidable (NoRestart op) := by cases op <;> unfold NoRestart <;> infer_instance
def decRunOKG : (ops : List Op) → (l : PLog) → Decidable (RunOKG l ops)
  | [], l => inferInstanceAs (Decidable (Small l))
  | op :: t, l =>
    have := decRunOKG t (step l op)
    inferInstanceAs (Decidable (Small l ∧ Declared op ∧ NoRestart op ∧ RunOKG (step l op) t))
instance (l : PLog) (ops : List Op) : Decidable (RunOKG l ops) := decRunOKG ops l

set_option maxRecDepth 100000 in
/-- non-vacuity of the hypotheses of `fetch_progress_after_loss(_run)`: the hole layout is a `RunOK` history, the restore succeeds,
a tail appended afterwards is a `RunOKG` run, and offset 1 (in the hole) is answered with the batch at offset 2 while a newer
batch is buffered -/
example : RunOK (PLog.new 1 false 0) [.append (tiny 1), .flush, .append (tiny 2), .flush, .append (tiny 3), .flush] ∧
    (restoreAt ([Loss.index 1].foldl lose { l := holeLog0 }) 1).2 = .ok 2 ∧
    RunOKG (restoreAt ([Loss.index 1].foldl lose { l := holeLog0 }) 1).1.l [.append (tiny 4), .read 1 61] ∧
    (read (([.append (tiny 4)] : List Op).foldl step (restoreAt ([Loss.index 1].foldl lose { l := holeLog0 }) 1).1.l) 1 61).2 =
      .data (patch ((parse (tiny 3)).getD ⟨0, 0, 0, []⟩) 2).bytes := by
  decide

end KafVerif.PLog
