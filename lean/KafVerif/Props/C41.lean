import KafVerif.Model.Lockset
import KafVerif.Gen.C41Locksets
/-!
C41 — The broker data path is free of data races.  (PARTIAL by nature: the property is about the Go
memory model.  Proved here: the lock-discipline theorem on the trace model and the obligation that
every mutable shared field of the analysed types has a common guarding mutex in the table regenerated
from the source.  The `-race` stress run is testing.)
-/
namespace KafVerif.Lockset

theorem runFrom_append (m : Nat) (s : Option Nat) (A B : List Ev) :
    runFrom m s (A ++ B) = match runFrom m s A with
      | some s' => runFrom m s' B
      | none => none := by
  induction A generalizing s with
  | nil => rfl
  | cons e t ih =>
    simp only [List.cons_append, runFrom]
    cases stepM m s e with
    | none => rfl
    | some s' => exact ih s'

/-- from "held by t1" to "held by t2 ≠ t1" the trace must contain a release by t1 -/
theorem first_release (m t1 t2 : Nat) (hne : t1 ≠ t2) (B : List Ev)
    (h : runFrom m (some t1) B = some (some t2)) :
    ∃ B1 B', B = B1 ++ Ev.rel t1 m :: B' ∧ runFrom m none B' = some (some t2) := by
  induction B with
  | nil => simp [runFrom] at h; exact absurd h hne
  | cons e t ih =>
    simp only [runFrom] at h
    cases e with
    | acq t' m' =>
      by_cases hm : m' = m
      · simp [stepM, hm] at h
      · simp only [stepM, hm, if_false] at h
        obtain ⟨B1, B', e1, e2⟩ := ih h
        exact ⟨Ev.acq t' m' :: B1, B', by rw [e1]; rfl, e2⟩
    | rel t' m' =>
      by_cases hm : m' = m
      · by_cases ht : t' = t1
        · subst hm; subst ht
          simp only [stepM, if_true] at h
          exact ⟨[], t, rfl, h⟩
        · have : ¬ (some t1 = some t') := by intro e; injection e with e; exact ht e.symm
          simp [stepM, hm, this] at h
      · simp only [stepM, hm, if_false] at h
        obtain ⟨B1, B', e1, e2⟩ := ih h
        exact ⟨Ev.rel t' m' :: B1, B', by rw [e1]; rfl, e2⟩
    | rd t' x =>
      simp only [stepM] at h
      obtain ⟨B1, B', e1, e2⟩ := ih h
      exact ⟨Ev.rd t' x :: B1, B', by rw [e1]; rfl, e2⟩
    | wr t' x =>
      simp only [stepM] at h
      obtain ⟨B1, B', e1, e2⟩ := ih h
      exact ⟨Ev.wr t' x :: B1, B', by rw [e1]; rfl, e2⟩

/-- ending "held by t2" means t2 already held it or acquired it on the way -/
theorem some_acquire (m t2 : Nat) (B : List Ev) (s : Option Nat)
    (h : runFrom m s B = some (some t2)) :
    s = some t2 ∨ ∃ B2 B3, B = B2 ++ Ev.acq t2 m :: B3 := by
  induction B generalizing s with
  | nil => simp [runFrom] at h; exact Or.inl h
  | cons e t ih =>
    simp only [runFrom] at h
    cases e with
    | acq t' m' =>
      by_cases hm : m' = m
      · by_cases hs : s = none
        · simp only [stepM, hm, hs, if_true] at h
          rcases ih _ h with e | ⟨B2, B3, e⟩
          · injection e with e; subst e; subst hm
            exact Or.inr ⟨[], t, rfl⟩
          · exact Or.inr ⟨Ev.acq t' m' :: B2, B3, by rw [e]; rfl⟩
        · simp [stepM, hm, hs] at h
      · simp only [stepM, hm, if_false] at h
        rcases ih _ h with e | ⟨B2, B3, e⟩
        · exact Or.inl e
        · exact Or.inr ⟨Ev.acq t' m' :: B2, B3, by rw [e]; rfl⟩
    | rel t' m' =>
      by_cases hm : m' = m
      · by_cases hs : s = some t'
        · simp only [stepM, hm, hs, if_true] at h
          rcases ih _ h with e | ⟨B2, B3, e⟩
          · simp at e
          · exact Or.inr ⟨Ev.rel t' m' :: B2, B3, by rw [e]; rfl⟩
        · simp [stepM, hm, hs] at h
      · simp only [stepM, hm, if_false] at h
        rcases ih _ h with e | ⟨B2, B3, e⟩
        · exact Or.inl e
        · exact Or.inr ⟨Ev.rel t' m' :: B2, B3, by rw [e]; rfl⟩
    | rd t' x =>
      simp only [stepM] at h
      rcases ih _ h with e | ⟨B2, B3, e⟩
      · exact Or.inl e
      · exact Or.inr ⟨Ev.rd t' x :: B2, B3, by rw [e]; rfl⟩
    | wr t' x =>
      simp only [stepM] at h
      rcases ih _ h with e | ⟨B2, B3, e⟩
      · exact Or.inl e
      · exact Or.inr ⟨Ev.wr t' x :: B2, B3, by rw [e]; rfl⟩

theorem stepM_access (m : Nat) (s : Option Nat) (e : Ev) (p : Nat × Nat) (h : access e = some p) :
    stepM m s e = some s := by
  cases e <;> simp [access] at h <;> rfl

/-- **C41 (discipline ⇒ happens-before).** In every trace that respects mutex semantics, if every
access to `x` is made while holding the fixed mutex `m`, then any two accesses to `x` by different
threads are separated by a release of `m` by the first thread followed by an acquire of `m` by the
second — they are ordered by release→acquire happens-before, hence not a data race. -/
theorem _root_.KafVerif.C41.lockset_drf (m x : Nat) (tr : List Ev) (hd : Disciplined m x tr)
    (A B C : List Ev) (e1 e2 : Ev) (t1 t2 : Nat) (htr : tr = A ++ e1 :: (B ++ e2 :: C))
    (h1 : access e1 = some (t1, x)) (h2 : access e2 = some (t2, x)) (hne : t1 ≠ t2) :
    ∃ B1 B2 B3, B = B1 ++ Ev.rel t1 m :: (B2 ++ Ev.acq t2 m :: B3) := by
  have hA : runFrom m none A = some (some t1) := hd A (B ++ e2 :: C) e1 t1 htr h1
  have hAB : runFrom m none (A ++ e1 :: B) = some (some t2) := by
    apply hd (A ++ e1 :: B) C e2 t2 _ h2
    rw [htr]; simp
  rw [runFrom_append, hA] at hAB
  simp only [runFrom, stepM_access m (some t1) e1 _ h1] at hAB
  obtain ⟨B1, B', eB, hB'⟩ := first_release m t1 t2 hne B hAB
  rcases some_acquire m t2 B' none hB' with e | ⟨B2, B3, e⟩
  · simp at e
  · exact ⟨B1, B2, B3, by rw [eB, e]⟩

open KafVerif.Gen.C41 in
/-- **table obligation** (regenerated on every run): every field of PartitionLog, WriteBuffer,
SegmentCache and the handler's `logs` map that is written after construction has one mutex that is
held exclusively at each of its writes and at least shared at each of its reads (helpers documented
"caller must hold" are resolved through their call sites; methods that only run before the object
is published are listed separately and checked to precede publication). -/
theorem _root_.KafVerif.C41.fields_guarded : ∀ f ∈ fields, fieldOk f = true := by decide

open KafVerif.Gen.C41 in
/-- **shared elements are immutable or guarded** (regenerated on every run): every store that goes through an
element shared via a guarded container of PartitionLog / WriteBuffer / SegmentCache — a field of an `*IndexEntry`
obtained from `l.indexEntries[..]`, a `[]*IndexEntry` / `*IndexEntry` parameter or the result of `findIndexEntry`,
an element of a `[]segmentRange` / `[]RecordBatch`, bytes hanging off one — and whose root is not a fresh local is
made by a method of the owning analysed type while it holds one of its mutexes exclusively (and all stores through
the same element type agree on that mutex).  On today's source the only such store is
`l.indexEntries[base] = artifact.RelativeIndex` in `uploadFlush`, under `l.mu`; the readers use the entries after
releasing `l.mu`, which is race-free exactly because no row of this table is unguarded. -/
theorem _root_.KafVerif.C41.shared_elements_immutable_or_guarded :
    ∀ w ∈ sharedElemWrites, elemWriteOk sharedElemWrites w = true := by decide

/-- non-vacuity of the predicate: an unguarded store through `*IndexEntry` (what an in-place "clamp" of
`entry.Position` in `computeSegmentRange` produces) is rejected, next to the guarded publication in `uploadFlush` -/
example : elemWritesOk
    [{ owner := "PartitionLog", elem := "IndexEntry", func := "uploadFlush", line := 424, locks := [0] },
     { owner := "PartitionLog", elem := "IndexEntry", func := "computeSegmentRange", line := 723, locks := [] }] = false := by decide
/-- … a store from a free function is rejected, stores under different mutexes are rejected, a guarded one passes -/
example : elemWritesOk [{ owner := "", elem := "IndexEntry", func := "clampEntry", line := 1, locks := [] }] = false := by decide
example : elemWritesOk
    [{ owner := "PartitionLog", elem := "segmentRange", func := "a", line := 1, locks := [0] },
     { owner := "PartitionLog", elem := "segmentRange", func := "b", line := 2, locks := [1] }] = false := by decide
example : elemWritesOk
    [{ owner := "PartitionLog", elem := "IndexEntry", func := "uploadFlush", line := 424, locks := [0] }] = true := by decide

open KafVerif.Gen.C41 in
/-- the shared-element table is not vacuous on this source: the pass found at least one store (the guarded
publication of a segment's index entries), i.e. the type inference reaches `map[int64][]*IndexEntry` -/
theorem _root_.KafVerif.C41.shared_elements_nonvacuous : 1 ≤ sharedElemWrites.length := by decide

open KafVerif.Gen.C41 in
/-- the pre-publication exemptions are justified at every call site found in the source -/
theorem _root_.KafVerif.C41.prepublication_ok : prepubViolations = 0 := by decide

open KafVerif.Gen.C41 in
/-- the table is not vacuous: there are mutable fields with recorded accesses -/
theorem _root_.KafVerif.C41.table_nonvacuous :
    4 ≤ (fields.filter fun f => f.mutable && !f.accesses.isEmpty).length := by decide

/-! ### non-vacuity of the trace theorem -/

/-- a disciplined two-thread trace exists, and the theorem's conclusion is the real witness -/
example : runFrom 0 none [.acq 1 0, .wr 1 7, .rel 1 0, .acq 2 0, .rd 2 7, .rel 2 0] = some none := by decide
/-- an undisciplined trace (second access without the lock) is rejected by `Disciplined` -/
example : ¬ Disciplined 0 7 [.acq 1 0, .wr 1 7, .rel 1 0, .rd 2 7] := by
  intro h
  have := h [.acq 1 0, .wr 1 7, .rel 1 0] [] (.rd 2 7) 2 rfl rfl
  revert this; decide

end KafVerif.Lockset
