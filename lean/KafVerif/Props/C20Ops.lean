import KafVerif.Gen.C20WatchOps
import KafVerif.Model.RouterOpsSpec
/-!
C20, static tie.  `Gen/C20WatchOps.lean` is regenerated from the CURRENT `partition_router.go` /
`group_router.go` by `checks/C20.py` (go/ast) before this file is built.

* `partition_ops_match`, `group_ops_match`       the regenerated control skeletons ARE the table the model
                                                 assumes (`routerSpec`, one and the same shape for both routers);
* `partition_watch_discipline`, `group_watch_discipline`
                                                 shape-independent: every `Watch` registration passes
                                                 `WithRev(rev+1)`; `rev` is assigned only from `loadAll`'s
                                                 `Header.Revision` (successful read) or from an applied event's
                                                 `ModRevision` under `>`; no event is skipped/applied depending on
                                                 `rev`; PUT and DELETE are both applied; the loop reloads after a
                                                 closed stream; the first watch starts from the constructor's read;
* `partition_variant_fixed`, `group_variant_fixed`  the loops implement variant `fixed`, the one `converges` is about;
* `watch_discipline_sound`                       what `watchDiscipline rows = true` means, row by row;
* `watch_step_denotes`, `procEv_rev_denotes`, `load_step_denotes`
                                                 the model's `watch` / `deliver` / `load` steps are the meaning of
                                                 `WithRev(rev+1)`, of the `>` bookkeeping row and of
                                                 `return resp.Header.Revision`.
-/
namespace KafVerif.C20
open KafVerif.SrcOps KafVerif.Router KafVerif.RouterOps

theorem partition_ops_match : KafVerif.Gen.C20.partition = partitionExpected := by decide +kernel

theorem group_ops_match : KafVerif.Gen.C20.group = groupExpected := by decide +kernel

theorem partition_watch_discipline : watchDiscipline KafVerif.Gen.C20.partition = true := by decide +kernel

theorem group_watch_discipline : watchDiscipline KafVerif.Gen.C20.group = true := by decide +kernel

theorem partition_variant_fixed : variantOf KafVerif.Gen.C20.partition = some .fixed := by decide +kernel

theorem group_variant_fixed : variantOf KafVerif.Gen.C20.group = some .fixed := by decide +kernel

/-- What the Boolean checker guarantees about ANY table it accepts. -/
theorem watch_discipline_sound (rows : List Row) (h : watchDiscipline rows = true) :
    (∀ r ∈ rows, isWatchReg r = true →
        ∃ key opts, watchArgs r = some (key :: opts) ∧ "WithRev(rev + 1)" ∈ opts ∧ "WithPrefix()" ∈ opts ∧
          ∀ a ∈ opts, a = "WithRev(rev + 1)" ∨ plainOpt a = true) ∧
    (∃ r ∈ rows, isWatchReg r = true) ∧
    revUpds rows = [.eventMax, .fromLoad] ∧
    revGuarded rows = [] ∧
    reloadsAfterClose rows = true ∧ appliesPutAndDelete rows = true ∧ startsFromLoad rows = true := by
  simp only [watchDiscipline, Bool.and_eq_true, beq_iff_eq, List.isEmpty_iff] at h
  obtain ⟨⟨⟨⟨⟨h1, h2⟩, h3⟩, h4⟩, h5⟩, h6⟩ := h
  refine ⟨?_, ?_, h2, h3, h4, h5, h6⟩
  · intro r hr hw
    simp only [regsFromRev, Bool.and_eq_true, List.all_eq_true, List.mem_filter, and_imp] at h1
    have := h1.2 r hr hw
    cases ha : watchArgs r with
    | none => simp [ha] at this
    | some args =>
      cases args with
      | nil => simp [ha] at this
      | cons key opts =>
        simp only [ha, Bool.and_eq_true, List.contains_iff_mem, List.all_eq_true, Bool.or_eq_true,
          beq_iff_eq] at this
        exact ⟨key, opts, rfl, this.1.1, this.1.2, fun a h => (this.2 a h).symm⟩
  · simp only [regsFromRev, Bool.and_eq_true, Bool.not_eq_true', List.isEmpty_eq_false_iff_exists_mem,
      List.mem_filter] at h1
    obtain ⟨⟨r, hr, hw⟩, _⟩ := h1
    exact ⟨r, hr, hw⟩

/-- model step `watch` = registering with the start revision the table names:
`WithRev(rev+1)` for `fixed`/`skipSameRev`, "from now on" for `noRev` -/
theorem watch_step_denotes (acc : Nat → Bool) (var : Variant) (w : World)
    (hw : w.r.watching = false) (hs : startOk var w = true) :
    let w' := step acc var w .watch
    w'.r.watching = true ∧ w'.r.cursor + 1 = startRev (startOf var) w := by
  cases var <;> simp [step, hw, hs, startRev, startOf]

/-- model `procEv`'s revision bookkeeping = the row `[ev.Kv.ModRevision > rev]  rev := ev.Kv.ModRevision` -/
theorem procEv_rev_denotes (acc : Nat → Bool) (R : Nat) (st : Loop) (e : Router.Ev) :
    (procEv acc .fixed R st e).rev = (if R > st.rev then R else st.rev) ∧
    (procEv acc .fixed R st e).table = applyEv acc st.table e := by
  simp [procEv]

/-- model step `load` = `r.routes = fresh` built from ONE Get, and `return resp.Header.Revision` of that Get -/
theorem load_step_denotes (acc : Nat → Bool) (var : Variant) (w : World) (hw : w.r.watching = false) :
    let w' := step acc var w .load
    w'.r.rev = w.log.length ∧ w'.r.table = stateAt acc w.log w.log.length := by
  simp [step, hw]

-- non-vacuity / the checker rejects what it should
example : variantOf [⟨"watch", ["for"], [], .etcd "Watch" ["k", "WithPrefix()", "WithPrevKV()"]⟩] = some .noRev := by decide +kernel
example : variantOf [⟨"watch", ["for"], [], .etcd "Watch" ["k", "WithPrefix()", "WithRev(rev + 1)"]⟩,
                     ⟨"watch", gEv ++ ["ev.Kv.ModRevision <= rev"], ["rev"], .jump "continue"⟩] = some .skipSameRev := by decide +kernel
example : regsFromRev [⟨"watch", ["for"], [], .etcd "Watch" ["k", "WithPrefix()", "WithRev(rev + 2)"]⟩] = false := by decide +kernel
example : revUpd ⟨"watch", gEv ++ ["ev.Kv.ModRevision >= rev"], ["rev"], .write "rev" "" "ev.Kv.ModRevision" true⟩ = some .other := by decide +kernel

end KafVerif.C20
