import KafVerif.Model.Router
/-!
C20 — proxy routing tables converge to the current lease owners.

Statement (properties.jsonl): after any sequence of lease changes and watch-stream
interruptions, once changes stop, the proxy's partition and group routing tables match the owners
recorded in etcd.  Quantifier: every sequence of lease puts/deletes interleaved with router
start-up and watch reconnects.

`converges` is for EVERY op sequence (puts, deletes, loads, failed reloads, watches, deliveries,
closes, invalidations in any order), every accepted-key predicate, and both outcomes of the last
reconnect read.
-/
namespace KafVerif.Router

theorem stateAt_append (acc : Nat → Bool) (log : List Ev) (e : Ev) (n : Nat) (h : n ≤ log.length) :
    stateAt acc (log ++ [e]) n = stateAt acc log n := by
  unfold stateAt
  rw [List.take_append_of_le_length h]

theorem stateAt_succ (acc : Nat → Bool) (log : List Ev) (n : Nat) (e : Ev) (h : log[n]? = some e) :
    stateAt acc log (n + 1) = applyEv acc (stateAt acc log n) e := by
  unfold stateAt
  rw [List.take_add_one, h]
  simp [List.foldl_append]

/-- The table is the accepted-key snapshot at revision `rev`, except for invalidated routes
(absent until re-learnt); a running watch resumes exactly after `rev`. -/
def Inv (acc : Nat → Bool) (w : World) : Prop :=
  w.r.rev ≤ w.log.length ∧ (w.r.watching = true → w.r.cursor = w.r.rev) ∧
  ∀ k, w.r.table k = if w.r.inval k then none else stateAt acc w.log w.r.rev k

theorem inv_init (acc : Nat → Bool) : Inv acc init := by
  refine ⟨by simp [init], by simp [init], ?_⟩
  intro k; simp [init, stateAt]

theorem applyEv_other (acc : Nat → Bool) (t : Nat → Option Nat) (e : Ev) (k : Nat)
    (h : ¬ (k = evKey e ∧ acc k = true)) : applyEv acc t e k = t k := by
  cases e with
  | put k' v =>
    simp only [applyEv, evKey] at *
    by_cases ha : acc k' = true
    · simp only [ha, if_true]
      by_cases hk : k = k'
      · subst hk; exact absurd ⟨rfl, ha⟩ h
      · simp [hk]
    · simp [ha]
  | del k' =>
    simp only [applyEv, evKey] at *
    by_cases ha : acc k' = true
    · simp only [ha, if_true]
      by_cases hk : k = k'
      · subst hk; exact absurd ⟨rfl, ha⟩ h
      · simp [hk]
    · simp [ha]

/-- on the event's own (accepted) key the result does not depend on the table it is applied to -/
theorem applyEv_same (acc : Nat → Bool) (t t' : Nat → Option Nat) (e : Ev) (k : Nat)
    (h : k = evKey e ∧ acc k = true) : applyEv acc t e k = applyEv acc t' e k := by
  obtain ⟨hk, ha⟩ := h
  cases e with
  | put k' v => simp only [evKey] at hk; subst hk; simp [applyEv, ha]
  | del k' => simp only [evKey] at hk; subst hk; simp [applyEv, ha]

theorem inv_step (acc : Nat → Bool) (w : World) (op : Op) (h : Inv acc w) : Inv acc (step acc true w op) := by
  obtain ⟨h1, h2, h3⟩ := h
  cases op with
  | put k v =>
    refine ⟨by simp [step]; omega, h2, ?_⟩
    intro x; simp only [step]; rw [stateAt_append acc _ _ _ h1]; exact h3 x
  | del k =>
    refine ⟨by simp [step]; omega, h2, ?_⟩
    intro x; simp only [step]; rw [stateAt_append acc _ _ _ h1]; exact h3 x
  | load =>
    simp only [step]
    split
    · exact ⟨h1, h2, h3⟩
    · rename_i hw
      refine ⟨by simp, by simp [hw], ?_⟩
      intro x; simp
  | loadFail => exact ⟨h1, h2, h3⟩
  | watch =>
    simp only [step]
    split
    · exact ⟨h1, h2, h3⟩
    · exact ⟨h1, by simp, h3⟩
  | deliver =>
    simp only [step]
    split
    · rename_i hw
      split
      · rename_i e he
        have hc := h2 hw
        have hlt : w.r.cursor < w.log.length := by
          have := List.getElem?_eq_some_iff.mp he; exact this.1
        refine ⟨by simp; omega, by simp, ?_⟩
        intro x
        simp only
        rw [stateAt_succ acc w.log w.r.cursor e he]
        by_cases hx : x = evKey e ∧ acc x = true
        · have hi : (if x = evKey e ∧ acc x = true then false else w.r.inval x) = false := if_pos hx
          rw [hi]
          simp only [Bool.false_eq_true, if_false]
          exact applyEv_same acc _ _ e x hx
        · have hx' : ¬ (x = evKey e ∧ acc x = true) := hx
          simp only [hx', if_false]
          rw [applyEv_other acc _ e x hx, applyEv_other acc _ e x hx, h3 x, hc]
      · exact ⟨h1, h2, h3⟩
    · exact ⟨h1, h2, h3⟩
  | close => exact ⟨h1, by simp [step], h3⟩
  | invalidate k =>
    refine ⟨h1, h2, ?_⟩
    intro x; simp only [step]
    by_cases hx : x = k
    · simp [hx]
    · simp only [hx, if_false]; exact h3 x

theorem inv_run (acc : Nat → Bool) (w : World) (ops : List Op) (h : Inv acc w) : Inv acc (run acc true w ops) := by
  induction ops generalizing w with
  | nil => exact h
  | cons op ops ih => exact ih _ (inv_step acc w op h)

theorem deliverN_spec (acc : Nat → Bool) (n : Nat) (w : World) (h : Inv acc w) (hw : w.r.watching = true)
    (hn : n = w.log.length - w.r.cursor) :
    Inv acc (deliverN acc true n w) ∧ (deliverN acc true n w).r.rev = (deliverN acc true n w).log.length := by
  induction n generalizing w with
  | zero =>
    refine ⟨h, ?_⟩
    obtain ⟨h1, h2, _⟩ := h
    have := h2 hw
    simp only [deliverN]; omega
  | succ n ih =>
    have hinv := inv_step acc w .deliver h
    obtain ⟨h1, h2, _⟩ := h
    have hc := h2 hw
    have hlt : w.r.cursor < w.log.length := by omega
    have he : w.log[w.r.cursor]? = some w.log[w.r.cursor] := List.getElem?_eq_getElem hlt
    simp only [deliverN]
    apply ih _ hinv
    · simp [step, hw, he]
    · simp [step, hw, he]; omega

theorem quiesce_spec (acc : Nat → Bool) (reloadOk : Bool) (w0 : World) (hrun : Inv acc w0) :
    Inv acc (quiesce acc true reloadOk w0) ∧
      (quiesce acc true reloadOk w0).r.rev = (quiesce acc true reloadOk w0).log.length := by
  unfold quiesce
  by_cases hw : w0.r.watching = true
  · simp only [hw, if_true]
    exact deliverN_spec acc _ w0 hrun hw rfl
  · have hwf : w0.r.watching = false := by simpa using hw
    simp only [hwf, Bool.false_eq_true, if_false]
    have hl := inv_step acc w0 (if reloadOk = true then Op.load else Op.loadFail) hrun
    have hwl : (step acc true w0 (if reloadOk = true then Op.load else Op.loadFail)).r.watching = false := by
      cases reloadOk <;> simp [step, hwf]
    have hww := inv_step acc _ .watch hl
    apply deliverN_spec acc _ _ hww
    · generalize step acc true w0 (if reloadOk = true then Op.load else Op.loadFail) = w1 at hwl
      simp [step, hwl]
    · rfl

/-- **C20 (convergence).**  Whatever happened before — any interleaving of lease puts/deletes
with loads, failed reloads, watch (re)registrations, deliveries, watch closures and
invalidations — once changes stop and the router has its watch back (the reconnect read may have
succeeded or failed) and the owed events are delivered, every route equals the owner recorded in
etcd; the only exception are routes the proxy itself dropped with `Invalidate` and that no later
event or reload re-taught, which are absent (never wrong). -/
theorem _root_.KafVerif.C20.converges (acc : Nat → Bool) (ops : List Op) (reloadOk : Bool) (k : Nat) :
    (quiesce acc true reloadOk (run acc true init ops)).r.table k =
      if (quiesce acc true reloadOk (run acc true init ops)).r.inval k then none
      else stateAt acc (quiesce acc true reloadOk (run acc true init ops)).log
        (quiesce acc true reloadOk (run acc true init ops)).log.length k := by
  have key := quiesce_spec acc reloadOk _ (inv_run acc init ops (inv_init acc))
  rw [key.1.2.2 k, key.2]

/-! ### no invalidation in the history: exact equality -/

def isInvalidate : Op → Bool
  | .invalidate _ => true
  | _ => false

theorem noinval_step (acc : Nat → Bool) (fixed : Bool) (w : World) (op : Op) (h : ∀ x, w.r.inval x = false)
    (hop : isInvalidate op = false) : ∀ x, (step acc fixed w op).r.inval x = false := by
  intro x
  cases op with
  | put k v => exact h x
  | del k => exact h x
  | load => simp only [step]; split <;> simp [h x]
  | loadFail => exact h x
  | watch => simp only [step]; split <;> simp [h x]
  | deliver =>
    simp only [step]
    split
    · split
      · simp only; split <;> simp [h x]
      · exact h x
    · exact h x
  | close => exact h x
  | invalidate k => simp [isInvalidate] at hop

theorem noinval_run (acc : Nat → Bool) (fixed : Bool) (w : World) (ops : List Op) (h : ∀ x, w.r.inval x = false)
    (hops : ∀ op ∈ ops, isInvalidate op = false) : ∀ x, (run acc fixed w ops).r.inval x = false := by
  induction ops generalizing w with
  | nil => exact h
  | cons op ops ih =>
    exact ih _ (noinval_step acc fixed w op h (hops op (by simp))) (fun o ho => hops o (by simp [ho]))

theorem noinval_deliverN (acc : Nat → Bool) (fixed : Bool) (n : Nat) (w : World) (h : ∀ x, w.r.inval x = false) :
    ∀ x, (deliverN acc fixed n w).r.inval x = false := by
  induction n generalizing w with
  | zero => exact h
  | succ n ih => exact ih _ (noinval_step acc fixed w .deliver h rfl)

/-- **C20 (the property as stated).**  For every sequence of lease puts/deletes interleaved with
router start-up, watch closures, successful and failed reconnect reads and deliveries (no
`Invalidate` calls): once changes stop and the owed events are delivered, the routing table equals
the owners recorded in etcd, on every key. -/
theorem _root_.KafVerif.C20.converges_exact (acc : Nat → Bool) (ops : List Op) (reloadOk : Bool)
    (hno : ∀ op ∈ ops, isInvalidate op = false) (k : Nat) :
    (quiesce acc true reloadOk (run acc true init ops)).r.table k =
      stateAt acc (quiesce acc true reloadOk (run acc true init ops)).log
        (quiesce acc true reloadOk (run acc true init ops)).log.length k := by
  have hni : (quiesce acc true reloadOk (run acc true init ops)).r.inval k = false := by
    have h0 := noinval_run acc true init ops (by simp [init]) hno
    unfold quiesce
    apply noinval_deliverN
    generalize run acc true init ops = w0 at h0
    intro x
    split
    · exact h0 x
    · apply noinval_step _ _ _ _ _ rfl
      apply noinval_step _ _ _ _ h0
      cases reloadOk <;> rfl
  rw [KafVerif.C20.converges acc ops reloadOk k, hni]
  simp

/-- A route that is present is never different from etcd's owner after quiescence, even with
invalidations (an invalidated route is absent, not wrong). -/
theorem _root_.KafVerif.C20.present_routes_correct (acc : Nat → Bool) (ops : List Op) (reloadOk : Bool) (k v : Nat)
    (h : (quiesce acc true reloadOk (run acc true init ops)).r.table k = some v) :
    stateAt acc (quiesce acc true reloadOk (run acc true init ops)).log
        (quiesce acc true reloadOk (run acc true init ops)).log.length k = some v := by
  rw [KafVerif.C20.converges acc ops reloadOk k] at h
  split at h
  · simp at h
  · exact h

/-! ### the code as found violates the property (kept so a regression is recognised) -/

/-- start-up gap: a lease put committed between `loadAll`'s read and the registration of the
revision-less watch is never applied; after quiescence the table still lacks the owner. -/
theorem _root_.KafVerif.C20.norev_violates_startup :
    (quiesce (fun _ => true) false true (run (fun _ => true) false init [.load, .put 0 7, .watch])).r.table 0 = none ∧
    stateAt (fun _ => true) (quiesce (fun _ => true) false true (run (fun _ => true) false init [.load, .put 0 7, .watch])).log 1 0
      = some 7 := by
  decide

/-- reconnect with a failed reload: events committed while the watch was down are lost for good. -/
theorem _root_.KafVerif.C20.norev_violates_failed_reload :
    (quiesce (fun _ => true) false false
      (run (fun _ => true) false init [.put 0 1, .load, .watch, .close, .del 0, .put 1 2])).r.table 0 = some 1 ∧
    stateAt (fun _ => true) [.put 0 1, .del 0, .put 1 2] 3 0 = none := by
  decide

/-! ### non-vacuity: concrete histories with gaps, closures and a failed reload -/

example : (quiesce (fun _ => true) true false
    (run (fun _ => true) true init [.put 0 1, .load, .put 0 2, .watch, .deliver, .close, .del 0, .put 1 2])).r.table 1 = some 2 := by
  decide
example : (quiesce (fun k => k != 3) true true
    (run (fun k => k != 3) true init [.load, .put 3 1, .put 2 5, .watch, .invalidate 2])).r.table 2 = some 5 := by
  decide

end KafVerif.Router
