import KafVerif.Model.Router
/-!
C20 — proxy routing tables converge to the current lease owners.

Statement (properties.jsonl): after any sequence of lease changes and watch-stream
interruptions, once changes stop, the proxy's partition and group routing tables match the owners
recorded in etcd.  Quantifier: every sequence of lease puts/deletes interleaved with router
start-up and watch reconnects.

`converges` is for EVERY op sequence (single puts/deletes, multi-key revisions, compactions, loads,
failed reloads, watch registrations that succeed or hit ErrCompacted, deliveries, closes,
invalidations in any order), every accepted-key predicate, and both outcomes of the last reconnect
read (a failed last read only when the resume revision has not been compacted away — otherwise the
loop keeps reloading and the failed attempt is just one more op of the history).
-/
namespace KafVerif.Router

theorem stateAt_append (acc : Nat → Bool) (log : List (List Ev)) (e : List Ev) (n : Nat) (h : n ≤ log.length) :
    stateAt acc (log ++ [e]) n = stateAt acc log n := by
  unfold stateAt
  rw [List.take_append_of_le_length h]

theorem stateAt_succ (acc : Nat → Bool) (log : List (List Ev)) (n : Nat) (e : List Ev) (h : log[n]? = some e) :
    stateAt acc log (n + 1) = applyEvs acc (stateAt acc log n) e := by
  unfold stateAt
  rw [List.take_add_one, h]
  simp [List.foldl_append]

/-- `t` is the snapshot `s` except for invalidated routes, which are absent -/
def Agree (t : Nat → Option Nat) (inval : Nat → Bool) (s : Nat → Option Nat) : Prop :=
  ∀ k, t k = if inval k then none else s k

/-- The table is the accepted-key snapshot at revision `rev`, except for invalidated routes
(absent until re-learnt); a running watch resumes exactly after `rev`; revisions are non-empty;
the compaction point is a past revision. -/
def Inv (acc : Nat → Bool) (w : World) : Prop :=
  w.r.rev ≤ w.log.length ∧ (w.r.watching = true → w.r.cursor = w.r.rev) ∧
  Agree w.r.table w.r.inval (stateAt acc w.log w.r.rev) ∧ (∀ b ∈ w.log, b ≠ []) ∧ w.compacted ≤ w.log.length

theorem inv_init (acc : Nat → Bool) : Inv acc init := by
  refine ⟨by simp [init], by simp [init], ?_, by simp [init], by simp [init]⟩
  intro k; simp [init, stateAt]

theorem applyEv_other (acc : Nat → Bool) (t : Nat → Option Nat) (e : Ev) (k : Nat)
    (h : ¬ (k = evKey e ∧ acc k = true)) : applyEv acc t e k = t k := by
  cases e with
  | put k' v =>
    simp only [applyEv, evKey] at *
    by_cases ha : acc k' = true
    · simp only [ha, if_true]
      by_cases hk : k = k'
      · subst hk; exact absurd ⟨rfl, ha⟩ h
      · simp [hk]
    · simp [ha]
  | del k' =>
    simp only [applyEv, evKey] at *
    by_cases ha : acc k' = true
    · simp only [ha, if_true]
      by_cases hk : k = k'
      · subst hk; exact absurd ⟨rfl, ha⟩ h
      · simp [hk]
    · simp [ha]

/-- on the event's own (accepted) key the result does not depend on the table it is applied to -/
theorem applyEv_same (acc : Nat → Bool) (t t' : Nat → Option Nat) (e : Ev) (k : Nat)
    (h : k = evKey e ∧ acc k = true) : applyEv acc t e k = applyEv acc t' e k := by
  obtain ⟨hk, ha⟩ := h
  cases e with
  | put k' v => simp only [evKey] at hk; subst hk; simp [applyEv, ha]
  | del k' => simp only [evKey] at hk; subst hk; simp [applyEv, ha]

/-- applying one event keeps the table in agreement with the snapshot (and re-teaches its key) -/
theorem agree_applyEv (acc : Nat → Bool) (t s : Nat → Option Nat) (inval : Nat → Bool) (e : Ev) (h : Agree t inval s) :
    Agree (applyEv acc t e) (fun x => if x = evKey e ∧ acc x then false else inval x) (applyEv acc s e) := by
  intro x
  by_cases hx : x = evKey e ∧ acc x = true
  · have hi : (if x = evKey e ∧ acc x = true then false else inval x) = false := if_pos hx
    simp only [hi, Bool.false_eq_true, if_false]
    exact applyEv_same acc _ _ e x hx
  · have hi : (if x = evKey e ∧ acc x = true then false else inval x) = inval x := if_neg hx
    simp only [hi]
    rw [applyEv_other acc _ e x hx, applyEv_other acc _ e x hx]
    exact h x

/-- the event loop of the FIXED code over one revision's events: every event is applied, `rev`
ends at that revision (`if ev.ModRevision > rev { rev = ev.ModRevision }`) -/
theorem loop_fixed (acc : Nat → Bool) (var : Variant) (hvar : var ≠ .skipSameRev) (R : Nat) (evs : List Ev) (st : Loop)
    (s : Nat → Option Nat) (hrev : st.rev ≤ R) (hag : Agree st.table st.inval s) :
    Agree (evs.foldl (procEv acc var R) st).table (evs.foldl (procEv acc var R) st).inval (applyEvs acc s evs) ∧
      (evs.foldl (procEv acc var R) st).rev = (if evs = [] then st.rev else R) := by
  induction evs generalizing st s with
  | nil => exact ⟨hag, by simp⟩
  | cons e evs ih =>
    have hp : procEv acc var R st e =
        { table := applyEv acc st.table e, rev := if R > st.rev then R else st.rev,
          inval := fun x => if x = evKey e ∧ acc x then false else st.inval x } := by
      cases var <;> simp_all [procEv]
    have hrev' : (procEv acc var R st e).rev = R := by
      rw [hp]; simp only; split <;> omega
    have := ih (procEv acc var R st e) (applyEv acc s e) (by omega)
      (by rw [hp]; exact agree_applyEv acc st.table s st.inval e hag)
    simp only [List.foldl_cons, applyEvs] at this ⊢
    refine ⟨this.1, ?_⟩
    rw [this.2, hrev']
    split <;> simp

theorem inv_step (acc : Nat → Bool) (var : Variant) (hvar : var = .fixed) (w : World) (op : Op) (h : Inv acc w) :
    Inv acc (step acc var w op) := by
  subst hvar
  obtain ⟨h1, h2, h3, h4, h5⟩ := h
  have happ : ∀ e : List Ev, e ≠ [] →
      Inv acc { w with log := w.log ++ [e] } := by
    intro e he
    refine ⟨by simp; omega, h2, ?_, ?_, by simp; omega⟩
    · intro x; simp only; rw [stateAt_append acc _ _ _ h1]; exact h3 x
    · intro b hb
      simp only [List.mem_append, List.mem_singleton] at hb
      rcases hb with hb | rfl
      · exact h4 b hb
      · exact he
  cases op with
  | put k v => exact happ _ (by simp)
  | del k =>
    simp only [step]
    split
    · exact happ _ (by simp)
    · exact ⟨h1, h2, h3, h4, h5⟩
  | batch evs =>
    simp only [step]
    split
    · rename_i hne
      exact happ evs (by intro he; subst he; simp at hne)
    · exact ⟨h1, h2, h3, h4, h5⟩
  | compact => exact ⟨h1, h2, h3, h4, by simp [step]⟩
  | load =>
    simp only [step]
    split
    · exact ⟨h1, h2, h3, h4, h5⟩
    · rename_i hw
      refine ⟨by simp, by simp [hw], ?_, h4, h5⟩
      intro x; simp
  | loadFail => exact ⟨h1, h2, h3, h4, h5⟩
  | watch =>
    simp only [step]
    split
    · exact ⟨h1, h2, h3, h4, h5⟩
    · split
      · exact ⟨h1, by simp, h3, h4, h5⟩
      · exact ⟨h1, h2, h3, h4, h5⟩
  | deliver =>
    simp only [step]
    split
    · rename_i hw
      split
      · rename_i evs he
        have hc := h2 hw
        have hlt : w.r.cursor < w.log.length := (List.getElem?_eq_some_iff.mp he).1
        have hne : evs ≠ [] := h4 evs (List.mem_of_getElem? he)
        have hl := loop_fixed acc .fixed (by simp) (w.r.cursor + 1) evs ⟨w.r.table, w.r.rev, w.r.inval⟩
          (stateAt acc w.log w.r.rev) (by simp; omega) h3
        simp only [hne, if_false] at hl
        refine ⟨by simp only [hl.2]; omega, by simp [hl.2], ?_, h4, h5⟩
        simp only [hl.2]
        rw [stateAt_succ acc w.log w.r.cursor evs he]
        rw [hc] at hl ⊢
        exact hl.1
      · exact ⟨h1, h2, h3, h4, h5⟩
    · exact ⟨h1, h2, h3, h4, h5⟩
  | close => exact ⟨h1, by simp [step], h3, h4, h5⟩
  | invalidate k =>
    refine ⟨h1, h2, ?_, h4, h5⟩
    intro x; simp only [step]
    by_cases hx : x = k
    · simp [hx]
    · simp only [hx, if_false]; exact h3 x

theorem inv_run (acc : Nat → Bool) (w : World) (ops : List Op) (h : Inv acc w) : Inv acc (run acc .fixed w ops) := by
  induction ops generalizing w with
  | nil => exact h
  | cons op ops ih => exact ih _ (inv_step acc .fixed rfl w op h)

theorem deliverN_spec (acc : Nat → Bool) (n : Nat) (w : World) (h : Inv acc w) (hw : w.r.watching = true)
    (hn : n = w.log.length - w.r.cursor) :
    Inv acc (deliverN acc .fixed n w) ∧ (deliverN acc .fixed n w).r.rev = (deliverN acc .fixed n w).log.length ∧
      (deliverN acc .fixed n w).r.watching = true := by
  induction n generalizing w with
  | zero =>
    have := h.2.1 hw
    have := h.1
    exact ⟨h, by simp only [deliverN]; omega, hw⟩
  | succ n ih =>
    have hinv := inv_step acc .fixed rfl w .deliver h
    have hc := h.2.1 hw
    have hlt : w.r.cursor < w.log.length := by omega
    have he : w.log[w.r.cursor]? = some w.log[w.r.cursor] := List.getElem?_eq_getElem hlt
    simp only [deliverN]
    apply ih _ hinv
    · simp [step, hw, he]
    · simp [step, hw, he]; omega

/-- the last reconnect read may fail only if the resume revision is still in etcd's history
(otherwise every Watch fails with ErrCompacted and the loop goes on reloading) -/
def CanQuiesce (reloadOk : Bool) (w : World) : Prop :=
  w.r.watching = true ∨ reloadOk = true ∨ ¬ (w.r.rev + 1 < w.compacted)

theorem quiesce_spec (acc : Nat → Bool) (reloadOk : Bool) (w0 : World) (hrun : Inv acc w0) (hq : CanQuiesce reloadOk w0) :
    Inv acc (quiesce acc .fixed reloadOk w0) ∧
      (quiesce acc .fixed reloadOk w0).r.rev = (quiesce acc .fixed reloadOk w0).log.length ∧
      (quiesce acc .fixed reloadOk w0).r.watching = true := by
  unfold quiesce
  by_cases hw : w0.r.watching = true
  · simp only [hw, if_true]
    exact deliverN_spec acc _ w0 hrun hw rfl
  · have hwf : w0.r.watching = false := by simpa using hw
    simp only [hwf, Bool.false_eq_true, if_false]
    have hl := inv_step acc .fixed rfl w0 (if reloadOk = true then Op.load else Op.loadFail) hrun
    have hwl : (step acc .fixed w0 (if reloadOk = true then Op.load else Op.loadFail)).r.watching = false ∧
        startOk .fixed (step acc .fixed w0 (if reloadOk = true then Op.load else Op.loadFail)) = true := by
      cases reloadOk with
      | true =>
        have := hrun.2.2.2.2
        simp [step, hwf, startOk]; omega
      | false =>
        rcases hq with hq | hq | hq
        · simp [hwf] at hq
        · simp at hq
        · simp only [Bool.false_eq_true, if_false, step, hwf, startOk]; simpa using hq
    have hww := inv_step acc .fixed rfl _ .watch hl
    apply deliverN_spec acc _ _ hww
    · generalize step acc .fixed w0 (if reloadOk = true then Op.load else Op.loadFail) = w1 at hwl
      simp [step, hwl.1, hwl.2]
    · rfl

/-- **C20 (convergence).**  Whatever happened before — any interleaving of lease changes (single
keys, several keys in one revision), compactions, loads, failed reloads, watch (re)registrations
(successful or ErrCompacted), deliveries, watch closures and invalidations — once changes stop and
the router has its watch back and the owed events are delivered, the router IS watching and every
route equals the owner recorded in etcd; the only exception are routes the proxy itself dropped
with `Invalidate` and that no later event or reload re-taught, which are absent (never wrong). -/
theorem _root_.KafVerif.C20.converges (acc : Nat → Bool) (ops : List Op) (reloadOk : Bool) (k : Nat)
    (hq : CanQuiesce reloadOk (run acc .fixed init ops)) :
    (quiesce acc .fixed reloadOk (run acc .fixed init ops)).r.watching = true ∧
    (quiesce acc .fixed reloadOk (run acc .fixed init ops)).r.table k =
      if (quiesce acc .fixed reloadOk (run acc .fixed init ops)).r.inval k then none
      else stateAt acc (quiesce acc .fixed reloadOk (run acc .fixed init ops)).log
        (quiesce acc .fixed reloadOk (run acc .fixed init ops)).log.length k := by
  have key := quiesce_spec acc reloadOk _ (inv_run acc init ops (inv_init acc)) hq
  refine ⟨key.2.2, ?_⟩
  rw [key.1.2.2.1 k, key.2.1]

/-- a successful reconnect read always gets the watch back: the loop cannot stay stuck on a
compacted revision -/
theorem _root_.KafVerif.C20.reload_unsticks (acc : Nat → Bool) (ops : List Op) :
    (quiesce acc .fixed true (run acc .fixed init ops)).r.watching = true :=
  (quiesce_spec acc true _ (inv_run acc init ops (inv_init acc)) (Or.inr (Or.inl rfl))).2.2

/-! ### no invalidation in the history: exact equality -/

def isInvalidate : Op → Bool
  | .invalidate _ => true
  | _ => false

theorem noinval_loop (acc : Nat → Bool) (var : Variant) (R : Nat) (evs : List Ev) (st : Loop) (h : ∀ x, st.inval x = false) :
    ∀ x, (evs.foldl (procEv acc var R) st).inval x = false := by
  induction evs generalizing st with
  | nil => exact h
  | cons e evs ih =>
    simp only [List.foldl_cons]
    apply ih
    intro x
    cases var <;> simp only [procEv] <;> (try split) <;> (try simp only []) <;> (try split) <;> simp [h x]

theorem noinval_step (acc : Nat → Bool) (var : Variant) (w : World) (op : Op) (h : ∀ x, w.r.inval x = false)
    (hop : isInvalidate op = false) : ∀ x, (step acc var w op).r.inval x = false := by
  intro x
  cases op with
  | put k v => exact h x
  | del k => simp only [step]; split <;> exact h x
  | batch evs => simp only [step]; split <;> exact h x
  | compact => exact h x
  | load => simp only [step]; split <;> simp [h x]
  | loadFail => exact h x
  | watch => simp only [step]; split <;> (try split) <;> simp [h x]
  | deliver =>
    simp only [step]
    split
    · split
      · exact noinval_loop acc var _ _ _ h x
      · exact h x
    · exact h x
  | close => exact h x
  | invalidate k => simp [isInvalidate] at hop

theorem noinval_run (acc : Nat → Bool) (var : Variant) (w : World) (ops : List Op) (h : ∀ x, w.r.inval x = false)
    (hops : ∀ op ∈ ops, isInvalidate op = false) : ∀ x, (run acc var w ops).r.inval x = false := by
  induction ops generalizing w with
  | nil => exact h
  | cons op ops ih =>
    exact ih _ (noinval_step acc var w op h (hops op (by simp))) (fun o ho => hops o (by simp [ho]))

theorem noinval_deliverN (acc : Nat → Bool) (var : Variant) (n : Nat) (w : World) (h : ∀ x, w.r.inval x = false) :
    ∀ x, (deliverN acc var n w).r.inval x = false := by
  induction n generalizing w with
  | zero => exact h
  | succ n ih => exact ih _ (noinval_step acc var w .deliver h rfl)

/-- **C20 (the property as stated).**  For every sequence of lease changes (including several keys
in one revision) and compactions interleaved with router start-up, watch closures, successful and
failed reconnect reads and deliveries (no `Invalidate` calls): once changes stop and the owed
events are delivered, the routing table equals the owners recorded in etcd, on every key. -/
theorem _root_.KafVerif.C20.converges_exact (acc : Nat → Bool) (ops : List Op) (reloadOk : Bool)
    (hq : CanQuiesce reloadOk (run acc .fixed init ops))
    (hno : ∀ op ∈ ops, isInvalidate op = false) (k : Nat) :
    (quiesce acc .fixed reloadOk (run acc .fixed init ops)).r.table k =
      stateAt acc (quiesce acc .fixed reloadOk (run acc .fixed init ops)).log
        (quiesce acc .fixed reloadOk (run acc .fixed init ops)).log.length k := by
  have hni : (quiesce acc .fixed reloadOk (run acc .fixed init ops)).r.inval k = false := by
    have h0 := noinval_run acc .fixed init ops (by simp [init]) hno
    unfold quiesce
    apply noinval_deliverN
    generalize run acc .fixed init ops = w0 at h0
    intro x
    split
    · exact h0 x
    · apply noinval_step _ _ _ _ _ rfl
      apply noinval_step _ _ _ _ h0
      cases reloadOk <;> rfl
  rw [(KafVerif.C20.converges acc ops reloadOk k hq).2, hni]
  simp

/-- A route that is present is never different from etcd's owner after quiescence, even with
invalidations (an invalidated route is absent, not wrong). -/
theorem _root_.KafVerif.C20.present_routes_correct (acc : Nat → Bool) (ops : List Op) (reloadOk : Bool) (k v : Nat)
    (hq : CanQuiesce reloadOk (run acc .fixed init ops))
    (h : (quiesce acc .fixed reloadOk (run acc .fixed init ops)).r.table k = some v) :
    stateAt acc (quiesce acc .fixed reloadOk (run acc .fixed init ops)).log
        (quiesce acc .fixed reloadOk (run acc .fixed init ops)).log.length k = some v := by
  rw [(KafVerif.C20.converges acc ops reloadOk k hq).2] at h
  split at h
  · simp at h
  · exact h

/-! ### variants that violate the property (kept so a regression is recognised) -/

/-- code as found, start-up gap: a lease put committed between `loadAll`'s read and the
registration of the revision-less watch is never applied. -/
theorem _root_.KafVerif.C20.norev_violates_startup :
    (quiesce (fun _ => true) .noRev true (run (fun _ => true) .noRev init [.load, .put 0 7, .watch])).r.table 0 = none ∧
    stateAt (fun _ => true) (quiesce (fun _ => true) .noRev true (run (fun _ => true) .noRev init [.load, .put 0 7, .watch])).log 1 0
      = some 7 := by
  decide

/-- code as found, reconnect with a failed reload: events committed while the watch was down are lost. -/
theorem _root_.KafVerif.C20.norev_violates_failed_reload :
    (quiesce (fun _ => true) .noRev false
      (run (fun _ => true) .noRev init [.put 0 1, .load, .watch, .close, .del 0, .put 1 2])).r.table 0 = some 1 ∧
    stateAt (fun _ => true) [[.put 0 1], [.del 0], [.put 1 2]] 3 0 = none := by
  decide

/-- "skip events with ModRevision <= rev": a session revoke deletes two lease keys in ONE revision;
only the first delete is applied, the second route stays on the departed broker for good. -/
theorem _root_.KafVerif.C20.skipSameRev_violates :
    (quiesce (fun _ => true) .skipSameRev true
      (run (fun _ => true) .skipSameRev init [.put 0 1, .put 1 1, .load, .watch, .batch [.del 0, .del 1]])).r.table 1 = some 1 ∧
    stateAt (fun _ => true) [[.put 0 1], [.put 1 1], [.del 0, .del 1]] 3 1 = none := by
  decide

/-! ### non-vacuity: gaps, closures, a failed reload, a multi-key revision, a compaction -/

example : (quiesce (fun _ => true) .fixed false
    (run (fun _ => true) .fixed init [.put 0 1, .load, .put 0 2, .watch, .deliver, .close, .del 0, .put 1 2])).r.table 1 = some 2 := by
  decide
example : (quiesce (fun k => k != 3) .fixed true
    (run (fun k => k != 3) .fixed init [.load, .put 3 1, .put 2 5, .watch, .invalidate 2])).r.table 2 = some 5 := by
  decide
example : (quiesce (fun _ => true) .fixed true
    (run (fun _ => true) .fixed init [.put 0 1, .put 1 1, .load, .watch, .batch [.del 0, .del 1]])).r.table 1 = none := by
  decide
-- watch cut + change + compaction + failed reload: the watch fails (ErrCompacted), the next reload unsticks it
example : (run (fun _ => true) .fixed init [.put 0 1, .load, .watch, .close, .put 0 2, .put 1 3, .compact, .loadFail, .watch]).r.watching = false := by
  decide
example : (quiesce (fun _ => true) .fixed true
    (run (fun _ => true) .fixed init [.put 0 1, .load, .watch, .close, .put 0 2, .put 1 3, .compact, .loadFail, .watch])).r.table 0 = some 2 := by
  decide

end KafVerif.Router
