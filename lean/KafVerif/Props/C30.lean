import KafVerif.Model.LfsResolve
import KafVerif.Model.LfsIceberg
/-!
C30 — LFS readers never return a blob that fails its envelope checksum.

Statement (properties.jsonl): with checksum validation on, the LFS resolver and consumer return a
blob only if its checksum matches the one the envelope declares, and only if it is within any
configured size limit.  The proxy download endpoint sends bytes only if their SHA-256 and size
match the envelope the caller supplied.  Quantifier: every envelope (algorithm, checksum fields)
and every object content the storage returns (tampered, truncated, oversized).

"The checksum the envelope declares" is what `EnvelopeChecksum` yields (DESIGN section 5;
`checksum_alg: none` declares none — pinned by the repo's tests).  All theorems are for EVERY
hash function `H`, every configuration, every envelope and every storage behaviour.
-/
namespace KafVerif.LfsResolve

/-! ### what an envelope declares -/

theorem envelopeChecksum_ok_alg {e : Env} {alg : Alg} {exp : Bytes}
    (h : envelopeChecksum e = some (alg, exp, true)) : alg ≠ .none ∧ exp ≠ [] := by
  unfold envelopeChecksum at h
  cases hn : normalizeAlg e.checksumAlg with
  | none => simp [hn] at h
  | some a =>
    rw [hn] at h
    cases hc : e.checksum.isEmpty <;> cases hs : e.sha256.isEmpty <;> cases a <;>
      simp [hc, hs] at h <;>
      (obtain ⟨rfl, rfl⟩ := h; refine ⟨by simp, ?_⟩; intro he; simp [he] at hc hs)

/-- **C30 (every decodable envelope with an algorithm declares a checksum).**  A value that
`DecodeEnvelope` accepts always has a non-empty `sha256`, so unless the algorithm is `none` (or
unsupported = error) `EnvelopeChecksum` returns `ok = true` with a non-empty expected digest:
validation is never skipped silently. -/
theorem _root_.KafVerif.C30.declares (e : Env) (a : Alg) (hv : decodeValid e = true)
    (hn : normalizeAlg e.checksumAlg = some a) (ha : a ≠ .none) :
    ∃ alg exp, envelopeChecksum e = some (alg, exp, true) ∧ alg ≠ .none ∧ exp ≠ [] := by
  have hs : e.sha256.isEmpty = false := by
    unfold decodeValid at hv
    cases h : e.sha256.isEmpty <;> simp_all
  have key : ∃ alg exp, envelopeChecksum e = some (alg, exp, true) := by
    unfold envelopeChecksum
    rw [hn]
    cases hc : e.checksum.isEmpty <;> cases a <;> simp_all
  obtain ⟨alg, exp, h⟩ := key
  exact ⟨alg, exp, h, envelopeChecksum_ok_alg h⟩

theorem computeChecksum_of_ne_none (H : Alg → Bytes → Bytes) {alg : Alg} (h : alg ≠ .none) (d : Bytes) :
    computeChecksum H alg d = H alg d := by
  cases alg <;> simp_all [computeChecksum]

/-- the validation step shared by `Resolve` and `Unwrap` -/
theorem declared_matches (H : Alg → Bytes → Bytes) {e : Env} {alg : Alg} {expected : Bytes} {ok : Bool}
    {payload : Bytes} (hec : envelopeChecksum e = some (alg, expected, ok))
    (hcmp : ok = true → ¬ (computeChecksum H alg payload != expected) = true) :
    ∀ alg' exp', envelopeChecksum e = some (alg', exp', true) → alg' ≠ .none ∧ H alg' payload = exp' := by
  intro alg' exp' hdecl
  rw [hec] at hdecl
  simp only [Option.some.injEq, Prod.mk.injEq] at hdecl
  obtain ⟨rfl, rfl, rfl⟩ := hdecl
  have hne := (envelopeChecksum_ok_alg hec).1
  refine ⟨hne, ?_⟩
  have := hcmp rfl
  rw [computeChecksum_of_ne_none H hne] at this
  simpa using this

/-! ### Resolver.Resolve -/

/-- **C30 (resolver).** Whenever `Resolve` returns a payload for an envelope: it is the object
stored under the envelope's key, it is within the configured size limit (if one is configured),
and — with validation on — its checksum under the declared algorithm equals the declared value. -/
theorem _root_.KafVerif.C30.resolve_sound (H : Alg → Bytes → Bytes) (cfg : Cfg)
    (s3 : Option (Bytes → Option Bytes)) (v : Value) (blob : Bytes) (a : Alg) (x : Bytes)
    (h : resolve H cfg s3 v = .ok blob a x) :
    ∃ e fetch, v = .env e ∧ decodeValid e = true ∧ s3 = some fetch ∧ fetch e.key = some blob ∧
      (cfg.maxSize > 0 → (blob.length : Int) ≤ cfg.maxSize) ∧
      (cfg.validate = true → ∀ alg exp, envelopeChecksum e = some (alg, exp, true) →
        alg ≠ .none ∧ H alg blob = exp) := by
  cases v with
  | raw v => simp only [resolve] at h; split at h <;> simp at h
  | env e =>
    simp only [resolve] at h
    split at h
    · simp at h
    · rename_i hv
      split at h
      · simp at h
      · rename_i fetch
        split at h
        · simp at h
        · rename_i payload hf
          split at h
          · simp at h
          · rename_i hmax
            have hsize : cfg.maxSize > 0 → (payload.length : Int) ≤ cfg.maxSize := by
              intro hp
              simp only [Bool.and_eq_true, decide_eq_true_eq, not_and] at hmax
              have := hmax hp
              omega
            split at h
            · simp at h
            · rename_i alg expected ok hec
              split at h
              · rename_i hvo
                split at h
                · simp at h
                · rename_i hcmp
                  simp only [Out.ok.injEq] at h
                  obtain ⟨rfl, rfl, rfl⟩ := h
                  exact ⟨e, fetch, rfl, by simpa using hv, rfl, hf, hsize,
                    fun _ => declared_matches H hec (fun _ => hcmp)⟩
              · rename_i hvo
                simp only [Out.ok.injEq] at h
                obtain ⟨rfl, rfl, rfl⟩ := h
                refine ⟨e, fetch, rfl, by simpa using hv, rfl, hf, hsize, ?_⟩
                intro hval
                apply declared_matches H hec
                intro hok
                simp [hval, hok] at hvo

/-- **C30 (pass-through).** `Resolve` hands a value back unchanged exactly when it is not an envelope. -/
theorem _root_.KafVerif.C30.resolve_passthrough (H : Alg → Bytes → Bytes) (cfg : Cfg)
    (s3 : Option (Bytes → Option Bytes)) (v : Value) (w : Bytes)
    (h : resolve H cfg s3 v = .passthrough w) : v = .raw w ∧ LfsEnvelope.isEnvGo w = false := by
  cases v with
  | raw v =>
    simp only [resolve] at h
    split at h
    · rename_i hne
      simp only [Out.passthrough.injEq] at h
      subst h
      exact ⟨rfl, by simpa using hne⟩
    · simp at h
  | env e =>
    simp only [resolve] at h
    repeat (first | contradiction | split at h)
    all_goals simp at h

/-! ### Consumer.Unwrap -/

/-- **C30 (consumer).** With validation on, `Unwrap` returns a blob for an envelope only if its
checksum under the declared algorithm equals the declared value (there is no size limit to
honour in `Consumer`). -/
theorem _root_.KafVerif.C30.unwrap_sound (H : Alg → Bytes → Bytes) (fetch : Bytes → Option Bytes)
    (v : Value) (blob : Bytes) (a : Alg) (x : Bytes)
    (h : unwrap H true fetch v = .ok blob a x) :
    ∃ e, v = .env e ∧ decodeValid e = true ∧ fetch e.key = some blob ∧
      ∀ alg exp, envelopeChecksum e = some (alg, exp, true) → alg ≠ .none ∧ H alg blob = exp := by
  cases v with
  | raw v => simp only [unwrap] at h; split at h <;> simp at h
  | env e =>
    simp only [unwrap] at h
    split at h
    · simp at h
    · rename_i hv
      split at h
      · simp at h
      · rename_i b hf
        simp only [if_true] at h
        split at h
        · simp at h
        · rename_i alg expected ok hec
          split at h
          · rename_i hok
            split at h
            · simp at h
            · rename_i hcmp
              simp only [Out.ok.injEq] at h
              obtain ⟨rfl, rfl, rfl⟩ := h
              exact ⟨e, rfl, by simpa using hv, hf, declared_matches H hec (fun _ => hcmp)⟩
          · rename_i hok
            simp only [Out.ok.injEq] at h
            obtain ⟨rfl, rfl, rfl⟩ := h
            refine ⟨e, rfl, by simpa using hv, hf, declared_matches H hec ?_⟩
            intro h1; exact absurd h1 hok

/-! ### proxy download endpoint -/

theorem streamVerify_sound (sha : Bytes → Bytes) (expSHA : Bytes) (expSize : Int) (obj : Obj) (b : Bytes)
    (h : streamVerify sha expSHA expSize obj = .bytes b) : sha b = expSHA ∧ (b.length : Int) = expSize := by
  cases obj with
  | missing => simp [streamVerify] at h
  | body bytes readErr =>
    simp only [streamVerify] at h
    repeat (first | contradiction | split at h)
    all_goals (first | (simp at h; done) | skip)
    rename_i h1 h2 h3
    simp only [Resp.bytes.injEq] at h
    subst h
    exact ⟨by simpa using h3, by simpa using h2⟩

theorem checkIntegrity_some {mode : Mode} {maxBlob : Int} {ig : Integrity} {s : Bytes} {n : Int}
    (h : checkIntegrity mode maxBlob ig = some (s, n)) :
    s = toLower (trimSpace ig.sha256) ∧ n = ig.size ∧ s.length = 64 ∧ 0 ≤ n := by
  unfold checkIntegrity at h
  split at h
  · simp at h
  · simp only [] at h
    split at h
    · simp at h
    · rename_i hlen
      split at h
      · simp at h
      · split at h
        · simp at h
        · split at h
          · simp at h
          · rename_i hneg
            split at h
            · simp at h
            · split at h
              · simp at h
              · split at h
                · simp at h
                · simp only [Option.some.injEq, Prod.mk.injEq] at h
                  obtain ⟨rfl, rfl⟩ := h
                  exact ⟨rfl, rfl, by simpa using hlen, by omega⟩

/-- **C30 (download).** The download endpoint sends object bytes only if their SHA-256 equals the
(trimmed, lower-cased) digest the caller supplied AND their number equals the size the caller
supplied — for every request and every behaviour of the storage (missing, tampered, truncated,
extended, failing mid-read). -/
theorem _root_.KafVerif.C30.download_sound (sha : Bytes → Bytes) (presignEnabled : Bool) (maxBlob : Int)
    (modeRaw : Bytes) (integ : Option Integrity) (obj : Obj) (b : Bytes)
    (h : download sha presignEnabled maxBlob modeRaw integ obj = .bytes b) :
    ∃ ig, integ = some ig ∧ sha b = toLower (trimSpace ig.sha256) ∧ (b.length : Int) = ig.size := by
  unfold download downloadWith at h
  simp only [] at h
  split at h
  · simp at h
  · split at h
    · simp at h
    · split at h
      · simp at h
      · rename_i ig
        split at h
        · simp at h
        · rename_i s n hci
          split at h
          · simp at h
          · have hs := checkIntegrity_some hci
            have := streamVerify_sound sha _ _ obj b h
            exact ⟨ig, rfl, by rw [this.1, hs.1], by rw [this.2, hs.2.1]⟩

/-- **C30 (error responses carry no object bytes; a matching object is served).** Completeness side
of the download decision: an intact object of the declared size and digest IS sent (so the
theorem above is not satisfied by refusing everything). -/
theorem _root_.KafVerif.C30.streamVerify_complete (sha : Bytes → Bytes) (b : Bytes) (readErr : Bool) :
    streamVerify sha (sha b) b.length (.body b false) = .bytes b ∧
    (readErr = true → streamVerify sha (sha b) b.length (.body b readErr) = .status 502) := by
  have ht : b.take (b.length + 1) = b := List.take_of_length_le (by omega)
  constructor
  · simp [streamVerify, ht]
  · intro hr
    subst hr
    simp [streamVerify, ht]

/-! ### the code before the fix violates the size clause (kept so a regression is recognised) -/

/-- a 2-byte object whose digest matches is served although the caller declared 5 bytes -/
theorem _root_.KafVerif.C30.downloadOld_violates :
    ∃ (sha : Bytes → Bytes) (ig : Integrity) (obj : Obj) (b : Bytes),
      downloadOld sha false 0 [] (some ig) obj = .bytes b ∧ (b.length : Int) ≠ ig.size :=
  ⟨fun _ => List.replicate 64 0x30, ⟨List.replicate 64 0x30, [], 5⟩, .body [1, 2] false, [1, 2], by decide⟩

/-! ### non-vacuity -/

def H0 : Alg → Bytes → Bytes := fun a d => LfsEnvelope.ascii a.name ++ d   -- a toy injective "hash"
def env0 : Env := { version := 1, bucket := [1], key := [7], sha256 := H0 .sha256 [9, 9], checksum := H0 .md5 [9, 9],
                    checksumAlg := LfsEnvelope.ascii " MD5 " }

example : resolve H0 ⟨10, true⟩ (some fun _ => some [9, 9]) (.env env0) = .ok [9, 9] .md5 (H0 .md5 [9, 9]) := by decide
example : resolve H0 ⟨10, true⟩ (some fun _ => some [9, 8]) (.env env0) = .err := by decide
example : resolve H0 ⟨1, true⟩ (some fun _ => some [9, 9]) (.env env0) = .err := by decide
example : unwrap H0 true (fun _ => some [9, 9]) (.env env0) = .ok [9, 9] .md5 (H0 .md5 [9, 9]) := by decide
example : download (fun _ => List.replicate 64 0x30) false 0 [] (some ⟨List.replicate 64 0x30, [], 2⟩) (.body [1, 2] false)
    = .bytes [1, 2] := by decide
example : download (fun _ => List.replicate 64 0x30) false 0 [] (some ⟨List.replicate 64 0x30, [], 5⟩) (.body [1, 2] false)
    = .status 502 := by decide

end KafVerif.LfsResolve

/-! ## third reader: the iceberg processor's resolve stage (one Processor, several mappings)

Statement: a record of mapping `m` is resolved by a resolver configured from `m`'s OWN `LfsConfig`
— whatever segments of whatever mappings the same Processor handled before, in whatever order —
so every blob the stage hands on satisfies the checksum / size settings of ITS mapping. -/
namespace KafVerif.LfsIceberg
open KafVerif.LfsResolve

/-- the code's provider hands out the mapping's own configuration in every state -/
theorem perMapping_cfg (st : PState) (c : LfsCfg) : perMapping st c = (st, resolverCfg c) := rfl

theorem stepWith_perMapping (H : Alg → Bytes → Bytes) (p : Proc) (st : PState) (m : Nat) (recs : List Rec) :
    stepWith perMapping H p st m recs = (st, ownCall H p m recs) := by
  unfold stepWith ownCall perMapping
  cases p.mappings[m]? with
  | none => rfl
  | some c => simp only []; split <;> rfl

theorem runWith_perMapping (H : Alg → Bytes → Bytes) (p : Proc) (st : PState) (hist : List (Nat × List Rec)) :
    runWith perMapping H p st hist = (st, hist.map fun x => ownCall H p x.1 x.2) := by
  induction hist generalizing st with
  | nil => rfl
  | cons x rest ih =>
    obtain ⟨m, recs⟩ := x
    simp [runWith, stepWith_perMapping, ih]

/-- **C30 (iceberg: own configuration).**  For every processor (mapping list, reader), every state
and EVERY history of previously processed segments, the outcome of a segment of mapping `m` is the
one computed from `m`'s own `LfsConfig` (`ownCall`): the resolver the workers use is configured by
`resolverCfg` of the mapping the segment belongs to, independent of processing history / order. -/
theorem _root_.KafVerif.C30.resolve_uses_own_config (H : Alg → Bytes → Bytes) (p : Proc) (st : PState)
    (hist : List (Nat × List Rec)) (m : Nat) (recs : List Rec) :
    (stepWith perMapping H p (runWith perMapping H p st hist).1 m recs).2 = ownCall H p m recs ∧
    ∀ c, (perMapping (runWith perMapping H p st hist).1 c).2 = resolverCfg c := by
  rw [stepWith_perMapping]
  exact ⟨rfl, fun _ => rfl⟩

/-- **C30 (iceberg: order independence).**  The outcomes of a whole history are, position by
position, the own-configuration outcomes: permuting, repeating or interleaving segments of
different mappings cannot change what any single segment yields. -/
theorem _root_.KafVerif.C30.iceberg_history_independent (H : Alg → Bytes → Bytes) (p : Proc) (st : PState)
    (hist : List (Nat × List Rec)) :
    (runWith perMapping H p st hist).2 = hist.map fun x => ownCall H p x.1 x.2 := by
  rw [runWith_perMapping]

theorem resolveRecordWith_blob {H : Alg → Bytes → Bytes} {c : LfsCfg} {rc : Cfg}
    {s3 : Option (Bytes → Option Bytes)} {r : Rec} {b : Bytes}
    (h : resolveRecordWith H c rc s3 r = .blob b) :
    (c.mode = .resolve ∨ c.mode = .hybrid) ∧ ∃ a x, resolve H rc s3 r.value = .ok b a x := by
  have job : ∀ {o : RecOut}, o = (match resolve H rc s3 r.value with
        | .err => RecOut.fail | .passthrough _ => .kept | .ok b _ _ => .blob b) → o = .blob b →
      ∃ a x, resolve H rc s3 r.value = .ok b a x := by
    intro o ho hb
    subst ho
    split at hb
    · simp at hb
    · simp at hb
    · rename_i b' a x hr
      simp only [RecOut.blob.injEq] at hb
      subst hb
      exact ⟨a, x, hr⟩
  unfold resolveRecordWith at h
  simp only [] at h
  split at h
  · split at h <;> simp at h
  · split at h
    · simp at h
    · split at h
      · simp at h
      · split at h
        · simp at h
        · rename_i hm
          split at h
          · exact ⟨Or.inr hm, job rfl h⟩
          · simp at h
        · rename_i hm
          exact ⟨Or.inl hm, job rfl h⟩
        · simp at h

theorem callWith_blob {H : Alg → Bytes → Bytes} {c : LfsCfg} {rc : Cfg} {s3 : Option (Bytes → Option Bytes)}
    {recs : List Rec} {outs : List (RecOut × Nat)} {b : Bytes} {i : Nat}
    (h : callWith H c rc s3 recs = .ok outs) (hm : (RecOut.blob b, i) ∈ outs) :
    ∃ r, recs[i]? = some r ∧ resolveRecordWith H c rc s3 r = .blob b := by
  unfold callWith at h
  split at h
  · simp only [passAll, CallOut.ok.injEq] at h
    subst h
    rw [List.mem_zipIdx_iff_getElem?] at hm
    simp only [List.getElem?_map] at hm
    cases hr : recs[i]? <;> simp [hr] at hm
  · split at h
    · simp at h
    · simp only [] at h
      split at h
      · simp at h
      · simp only [CallOut.ok.injEq] at h
        subst h
        rw [List.mem_filter, List.mem_zipIdx_iff_getElem?] at hm
        have hm := hm.1
        simp only [List.getElem?_map] at hm
        cases hr : recs[i]? with
        | none => simp [hr] at hm
        | some r => exact ⟨r, rfl, by simpa [hr] using hm⟩

/-- **C30 (iceberg: every returned blob satisfies ITS mapping's settings).**  After any history,
whenever the stage hands on a record of mapping `m` whose value was replaced by a blob `b`: the
record was an envelope, `b` is what the shared reader stores under the envelope's key, `b` is
within `m`'s `max_inline_size` (when > 0), and — unless `m` turned `validate_checksum` off — its
digest under the declared algorithm equals the declared value. -/
theorem _root_.KafVerif.C30.iceberg_sound (H : Alg → Bytes → Bytes) (p : Proc) (st : PState)
    (hist : List (Nat × List Rec)) (m : Nat) (recs : List Rec) (outs : List (RecOut × Nat)) (b : Bytes) (i : Nat)
    (h : (stepWith perMapping H p (runWith perMapping H p st hist).1 m recs).2 = .ok outs)
    (hm : (RecOut.blob b, i) ∈ outs) :
    ∃ c r e fetch, p.mappings[m]? = some c ∧ recs[i]? = some r ∧ r.value = .env e ∧ decodeValid e = true ∧
      p.s3 = some fetch ∧ fetch e.key = some b ∧
      (c.mode = .resolve ∨ c.mode = .hybrid) ∧
      (c.maxInline > 0 → (b.length : Int) ≤ c.maxInline) ∧
      (checksumEnabled c = true → ∀ alg exp, envelopeChecksum e = some (alg, exp, true) →
        alg ≠ .none ∧ H alg b = exp) := by
  rw [stepWith_perMapping] at h
  simp only [ownCall] at h
  cases hc : p.mappings[m]? with
  | none =>
    rw [hc] at h
    simp only [passAll, CallOut.ok.injEq] at h
    subst h
    rw [List.mem_zipIdx_iff_getElem?] at hm
    simp only [List.getElem?_map] at hm
    cases hr : recs[i]? <;> simp [hr] at hm
  | some c =>
    rw [hc] at h
    obtain ⟨r, hri, hrb⟩ := callWith_blob h hm
    obtain ⟨hmode, a, x, hres⟩ := resolveRecordWith_blob hrb
    obtain ⟨e, fetch, hv, hd, hs3, hf, hsz, hck⟩ := KafVerif.C30.resolve_sound H _ _ _ _ _ _ hres
    exact ⟨c, r, e, fetch, rfl, hri, hv, hd, hs3, hf, hmode, hsz, hck⟩

/-- **C30 (iceberg: an intact blob within the mapping's limits IS resolved).**  Completeness side,
so that the theorems above are not met by refusing everything: in `resolve` mode a decodable
envelope whose stored blob is within `max_inline_size` and matches the declared checksum (or whose
envelope declares none) is replaced by that blob. -/
theorem _root_.KafVerif.C30.iceberg_complete (H : Alg → Bytes → Bytes) (c : LfsCfg) (fetch : Bytes → Option Bytes)
    (e : Env) (size : Int) (b : Bytes) (alg : Alg) (exp : Bytes) (ok : Bool)
    (hmode : c.mode = .resolve) (hv : decodeValid e = true) (hf : fetch e.key = some b)
    (hs : c.maxInline > 0 → (b.length : Int) ≤ c.maxInline)
    (hec : envelopeChecksum e = some (alg, exp, ok))
    (hck : ok = true → computeChecksum H alg b = exp) :
    resolveRecordWith H c (resolverCfg c) (some fetch) ⟨.env e, size⟩ = .blob b := by
  have hres : resolve H (resolverCfg c) (some fetch) (.env e) = .ok b alg exp := by
    simp only [resolve, hv, hf, hec, resolverCfg]
    have hsz : ¬ (c.maxInline > 0 ∧ (b.length : Int) > c.maxInline) := by
      intro ⟨h1, h2⟩; have := hs h1; omega
    cases ok with
    | false => simp [hsz]
    | true => simp [hsz, hck rfl]
  simp [resolveRecordWith, hmode, hv, hres]

/-! ### counter-model: a resolver built once per Processor violates the property -/

/-- toy "hash" = identity, and an envelope declaring (default algorithm) the digest `[9, 9]`; kept free
of string literals so that kernel `decide` stays cheap -/
def H1 : Alg → Bytes → Bytes := fun _ d => d
def env1 : Env := { version := 1, bucket := [1], key := [7], sha256 := [9, 9], checksum := [], checksumAlg := [] }

/-- Mapping 0 is lax (validation off, no limit), mapping 1 strict (validation on, limit 1).  With the
once-cached resolver, after ONE segment of the lax mapping the strict mapping is handed a 2-byte
blob that fails its envelope checksum (and exceeds its limit); its own configuration refuses it,
and so does the once-cached resolver when the strict mapping happens to come first. -/
theorem _root_.KafVerif.C30.resolveCached_violates :
    ∃ (p : Proc) (hist : List (Nat × List Rec)) (m : Nat) (recs : List Rec),
      (stepWith onceCached H1 p (runWith onceCached H1 p ⟨none⟩ hist).1 m recs).2 = .ok [(.blob [9, 8], 0)] ∧
      ownCall H1 p m recs = .err ∧
      (stepWith onceCached H1 p (runWith onceCached H1 p ⟨none⟩ []).1 m recs).2 = .err :=
  ⟨⟨some fun _ => some [9, 8], [⟨.resolve, 0, some false⟩, ⟨.resolve, 1, some true⟩]⟩,
   [(0, [⟨.env env1, 2⟩])], 1, [⟨.env env1, 2⟩], by decide⟩

/-! ### non-vacuity -/

def proc1 (stored : Bytes) : Proc :=
  ⟨some fun _ => some stored, [⟨.resolve, 0, some false⟩, ⟨.resolve, 2, none⟩, ⟨.hybrid, 1, some true⟩, ⟨.skip, 0, none⟩]⟩

-- lax first, then strict: the strict mapping still refuses the tampered blob, the lax one returns it
example : (runWith perMapping H1 (proc1 [9, 8]) ⟨none⟩ [(0, [⟨.env env1, 2⟩]), (1, [⟨.env env1, 2⟩])]).2
    = [.ok [(.blob [9, 8], 0)], .err] := by decide
-- intact blob: resolved by the strict mapping; hybrid with limit 1 keeps the 2-byte envelope as a reference;
-- skip drops it (the plain value stays); a topic without mapping is not touched
example : (runWith perMapping H1 (proc1 [9, 9]) ⟨none⟩
      [(1, [⟨.env env1, 2⟩]), (2, [⟨.env env1, 2⟩]), (3, [⟨.raw [1], 0⟩, ⟨.env env1, 2⟩]), (7, [⟨.env env1, 2⟩])]).2
    = [.ok [(.blob [9, 9], 0)], .ok [(.kept, 0)], .ok [(.kept, 0)], .ok [(.kept, 0)]] := by decide

end KafVerif.LfsIceberg
