import KafVerif.Model.LfsResolve
/-!
C30 — LFS readers never return a blob that fails its envelope checksum.

Statement (properties.jsonl): with checksum validation on, the LFS resolver and consumer return a
blob only if its checksum matches the one the envelope declares, and only if it is within any
configured size limit.  The proxy download endpoint sends bytes only if their SHA-256 and size
match the envelope the caller supplied.  Quantifier: every envelope (algorithm, checksum fields)
and every object content the storage returns (tampered, truncated, oversized).

"The checksum the envelope declares" is what `EnvelopeChecksum` yields (DESIGN section 5;
`checksum_alg: none` declares none — pinned by the repo's tests).  All theorems are for EVERY
hash function `H`, every configuration, every envelope and every storage behaviour.
-/
namespace KafVerif.LfsResolve

/-! ### what an envelope declares -/

theorem envelopeChecksum_ok_alg {e : Env} {alg : Alg} {exp : Bytes}
    (h : envelopeChecksum e = some (alg, exp, true)) : alg ≠ .none ∧ exp ≠ [] := by
  unfold envelopeChecksum at h
  cases hn : normalizeAlg e.checksumAlg with
  | none => simp [hn] at h
  | some a =>
    rw [hn] at h
    cases hc : e.checksum.isEmpty <;> cases hs : e.sha256.isEmpty <;> cases a <;>
      simp [hc, hs] at h <;>
      (obtain ⟨rfl, rfl⟩ := h; refine ⟨by simp, ?_⟩; intro he; simp [he] at hc hs)

/-- **C30 (every decodable envelope with an algorithm declares a checksum).**  A value that
`DecodeEnvelope` accepts always has a non-empty `sha256`, so unless the algorithm is `none` (or
unsupported = error) `EnvelopeChecksum` returns `ok = true` with a non-empty expected digest:
validation is never skipped silently. -/
theorem _root_.KafVerif.C30.declares (e : Env) (a : Alg) (hv : decodeValid e = true)
    (hn : normalizeAlg e.checksumAlg = some a) (ha : a ≠ .none) :
    ∃ alg exp, envelopeChecksum e = some (alg, exp, true) ∧ alg ≠ .none ∧ exp ≠ [] := by
  have hs : e.sha256.isEmpty = false := by
    unfold decodeValid at hv
    cases h : e.sha256.isEmpty <;> simp_all
  have key : ∃ alg exp, envelopeChecksum e = some (alg, exp, true) := by
    unfold envelopeChecksum
    rw [hn]
    cases hc : e.checksum.isEmpty <;> cases a <;> simp_all
  obtain ⟨alg, exp, h⟩ := key
  exact ⟨alg, exp, h, envelopeChecksum_ok_alg h⟩

theorem computeChecksum_of_ne_none (H : Alg → Bytes → Bytes) {alg : Alg} (h : alg ≠ .none) (d : Bytes) :
    computeChecksum H alg d = H alg d := by
  cases alg <;> simp_all [computeChecksum]

/-- the validation step shared by `Resolve` and `Unwrap` -/
theorem declared_matches (H : Alg → Bytes → Bytes) {e : Env} {alg : Alg} {expected : Bytes} {ok : Bool}
    {payload : Bytes} (hec : envelopeChecksum e = some (alg, expected, ok))
    (hcmp : ok = true → ¬ (computeChecksum H alg payload != expected) = true) :
    ∀ alg' exp', envelopeChecksum e = some (alg', exp', true) → alg' ≠ .none ∧ H alg' payload = exp' := by
  intro alg' exp' hdecl
  rw [hec] at hdecl
  simp only [Option.some.injEq, Prod.mk.injEq] at hdecl
  obtain ⟨rfl, rfl, rfl⟩ := hdecl
  have hne := (envelopeChecksum_ok_alg hec).1
  refine ⟨hne, ?_⟩
  have := hcmp rfl
  rw [computeChecksum_of_ne_none H hne] at this
  simpa using this

/-! ### Resolver.Resolve -/

/-- **C30 (resolver).** Whenever `Resolve` returns a payload for an envelope: it is the object
stored under the envelope's key, it is within the configured size limit (if one is configured),
and — with validation on — its checksum under the declared algorithm equals the declared value. -/
theorem _root_.KafVerif.C30.resolve_sound (H : Alg → Bytes → Bytes) (cfg : Cfg)
    (s3 : Option (Bytes → Option Bytes)) (v : Value) (blob : Bytes) (a : Alg) (x : Bytes)
    (h : resolve H cfg s3 v = .ok blob a x) :
    ∃ e fetch, v = .env e ∧ decodeValid e = true ∧ s3 = some fetch ∧ fetch e.key = some blob ∧
      (cfg.maxSize > 0 → (blob.length : Int) ≤ cfg.maxSize) ∧
      (cfg.validate = true → ∀ alg exp, envelopeChecksum e = some (alg, exp, true) →
        alg ≠ .none ∧ H alg blob = exp) := by
  cases v with
  | raw v => simp only [resolve] at h; split at h <;> simp at h
  | env e =>
    simp only [resolve] at h
    split at h
    · simp at h
    · rename_i hv
      split at h
      · simp at h
      · rename_i fetch
        split at h
        · simp at h
        · rename_i payload hf
          split at h
          · simp at h
          · rename_i hmax
            have hsize : cfg.maxSize > 0 → (payload.length : Int) ≤ cfg.maxSize := by
              intro hp
              simp only [Bool.and_eq_true, decide_eq_true_eq, not_and] at hmax
              have := hmax hp
              omega
            split at h
            · simp at h
            · rename_i alg expected ok hec
              split at h
              · rename_i hvo
                split at h
                · simp at h
                · rename_i hcmp
                  simp only [Out.ok.injEq] at h
                  obtain ⟨rfl, rfl, rfl⟩ := h
                  exact ⟨e, fetch, rfl, by simpa using hv, rfl, hf, hsize,
                    fun _ => declared_matches H hec (fun _ => hcmp)⟩
              · rename_i hvo
                simp only [Out.ok.injEq] at h
                obtain ⟨rfl, rfl, rfl⟩ := h
                refine ⟨e, fetch, rfl, by simpa using hv, rfl, hf, hsize, ?_⟩
                intro hval
                apply declared_matches H hec
                intro hok
                simp [hval, hok] at hvo

/-- **C30 (pass-through).** `Resolve` hands a value back unchanged exactly when it is not an envelope. -/
theorem _root_.KafVerif.C30.resolve_passthrough (H : Alg → Bytes → Bytes) (cfg : Cfg)
    (s3 : Option (Bytes → Option Bytes)) (v : Value) (w : Bytes)
    (h : resolve H cfg s3 v = .passthrough w) : v = .raw w ∧ LfsEnvelope.isEnvGo w = false := by
  cases v with
  | raw v =>
    simp only [resolve] at h
    split at h
    · rename_i hne
      simp only [Out.passthrough.injEq] at h
      subst h
      exact ⟨rfl, by simpa using hne⟩
    · simp at h
  | env e =>
    simp only [resolve] at h
    repeat (first | contradiction | split at h)
    all_goals simp at h

/-! ### Consumer.Unwrap -/

/-- **C30 (consumer).** With validation on, `Unwrap` returns a blob for an envelope only if its
checksum under the declared algorithm equals the declared value (there is no size limit to
honour in `Consumer`). -/
theorem _root_.KafVerif.C30.unwrap_sound (H : Alg → Bytes → Bytes) (fetch : Bytes → Option Bytes)
    (v : Value) (blob : Bytes) (a : Alg) (x : Bytes)
    (h : unwrap H true fetch v = .ok blob a x) :
    ∃ e, v = .env e ∧ decodeValid e = true ∧ fetch e.key = some blob ∧
      ∀ alg exp, envelopeChecksum e = some (alg, exp, true) → alg ≠ .none ∧ H alg blob = exp := by
  cases v with
  | raw v => simp only [unwrap] at h; split at h <;> simp at h
  | env e =>
    simp only [unwrap] at h
    split at h
    · simp at h
    · rename_i hv
      split at h
      · simp at h
      · rename_i b hf
        simp only [if_true] at h
        split at h
        · simp at h
        · rename_i alg expected ok hec
          split at h
          · rename_i hok
            split at h
            · simp at h
            · rename_i hcmp
              simp only [Out.ok.injEq] at h
              obtain ⟨rfl, rfl, rfl⟩ := h
              exact ⟨e, rfl, by simpa using hv, hf, declared_matches H hec (fun _ => hcmp)⟩
          · rename_i hok
            simp only [Out.ok.injEq] at h
            obtain ⟨rfl, rfl, rfl⟩ := h
            refine ⟨e, rfl, by simpa using hv, hf, declared_matches H hec ?_⟩
            intro h1; exact absurd h1 hok

/-! ### proxy download endpoint -/

theorem streamVerify_sound (sha : Bytes → Bytes) (expSHA : Bytes) (expSize : Int) (obj : Obj) (b : Bytes)
    (h : streamVerify sha expSHA expSize obj = .bytes b) : sha b = expSHA ∧ (b.length : Int) = expSize := by
  cases obj with
  | missing => simp [streamVerify] at h
  | body bytes readErr =>
    simp only [streamVerify] at h
    repeat (first | contradiction | split at h)
    all_goals (first | (simp at h; done) | skip)
    rename_i h1 h2 h3
    simp only [Resp.bytes.injEq] at h
    subst h
    exact ⟨by simpa using h3, by simpa using h2⟩

theorem checkIntegrity_some {mode : Mode} {maxBlob : Int} {ig : Integrity} {s : Bytes} {n : Int}
    (h : checkIntegrity mode maxBlob ig = some (s, n)) :
    s = toLower (trimSpace ig.sha256) ∧ n = ig.size ∧ s.length = 64 ∧ 0 ≤ n := by
  unfold checkIntegrity at h
  split at h
  · simp at h
  · simp only [] at h
    split at h
    · simp at h
    · rename_i hlen
      split at h
      · simp at h
      · split at h
        · simp at h
        · split at h
          · simp at h
          · rename_i hneg
            split at h
            · simp at h
            · split at h
              · simp at h
              · split at h
                · simp at h
                · simp only [Option.some.injEq, Prod.mk.injEq] at h
                  obtain ⟨rfl, rfl⟩ := h
                  exact ⟨rfl, rfl, by simpa using hlen, by omega⟩

/-- **C30 (download).** The download endpoint sends object bytes only if their SHA-256 equals the
(trimmed, lower-cased) digest the caller supplied AND their number equals the size the caller
supplied — for every request and every behaviour of the storage (missing, tampered, truncated,
extended, failing mid-read). -/
theorem _root_.KafVerif.C30.download_sound (sha : Bytes → Bytes) (presignEnabled : Bool) (maxBlob : Int)
    (modeRaw : Bytes) (integ : Option Integrity) (obj : Obj) (b : Bytes)
    (h : download sha presignEnabled maxBlob modeRaw integ obj = .bytes b) :
    ∃ ig, integ = some ig ∧ sha b = toLower (trimSpace ig.sha256) ∧ (b.length : Int) = ig.size := by
  unfold download downloadWith at h
  simp only [] at h
  split at h
  · simp at h
  · split at h
    · simp at h
    · split at h
      · simp at h
      · rename_i ig
        split at h
        · simp at h
        · rename_i s n hci
          split at h
          · simp at h
          · have hs := checkIntegrity_some hci
            have := streamVerify_sound sha _ _ obj b h
            exact ⟨ig, rfl, by rw [this.1, hs.1], by rw [this.2, hs.2.1]⟩

/-- **C30 (error responses carry no object bytes; a matching object is served).** Completeness side
of the download decision: an intact object of the declared size and digest IS sent (so the
theorem above is not satisfied by refusing everything). -/
theorem _root_.KafVerif.C30.streamVerify_complete (sha : Bytes → Bytes) (b : Bytes) (readErr : Bool) :
    streamVerify sha (sha b) b.length (.body b false) = .bytes b ∧
    (readErr = true → streamVerify sha (sha b) b.length (.body b readErr) = .status 502) := by
  have ht : b.take (b.length + 1) = b := List.take_of_length_le (by omega)
  constructor
  · simp [streamVerify, ht]
  · intro hr
    subst hr
    simp [streamVerify, ht]

/-! ### the code before the fix violates the size clause (kept so a regression is recognised) -/

/-- a 2-byte object whose digest matches is served although the caller declared 5 bytes -/
theorem _root_.KafVerif.C30.downloadOld_violates :
    ∃ (sha : Bytes → Bytes) (ig : Integrity) (obj : Obj) (b : Bytes),
      downloadOld sha false 0 [] (some ig) obj = .bytes b ∧ (b.length : Int) ≠ ig.size :=
  ⟨fun _ => List.replicate 64 0x30, ⟨List.replicate 64 0x30, [], 5⟩, .body [1, 2] false, [1, 2], by decide⟩

/-! ### non-vacuity -/

def H0 : Alg → Bytes → Bytes := fun a d => LfsEnvelope.ascii a.name ++ d   -- a toy injective "hash"
def env0 : Env := { version := 1, bucket := [1], key := [7], sha256 := H0 .sha256 [9, 9], checksum := H0 .md5 [9, 9],
                    checksumAlg := LfsEnvelope.ascii " MD5 " }

example : resolve H0 ⟨10, true⟩ (some fun _ => some [9, 9]) (.env env0) = .ok [9, 9] .md5 (H0 .md5 [9, 9]) := by decide
example : resolve H0 ⟨10, true⟩ (some fun _ => some [9, 8]) (.env env0) = .err := by decide
example : resolve H0 ⟨1, true⟩ (some fun _ => some [9, 9]) (.env env0) = .err := by decide
example : unwrap H0 true (fun _ => some [9, 9]) (.env env0) = .ok [9, 9] .md5 (H0 .md5 [9, 9]) := by decide
example : download (fun _ => List.replicate 64 0x30) false 0 [] (some ⟨List.replicate 64 0x30, [], 2⟩) (.body [1, 2] false)
    = .bytes [1, 2] := by decide
example : download (fun _ => List.replicate 64 0x30) false 0 [] (some ⟨List.replicate 64 0x30, [], 5⟩) (.body [1, 2] false)
    = .status 502 := by decide

end KafVerif.LfsResolve
