import KafVerif.Model.ProxyProto
/-!
C26 — PROXY protocol parsing preserves the stream exactly.

Statement: when a connection starts with a valid PROXY v1 or v2 header, the broker reports exactly the
source and destination addresses it encodes; the bytes after the header reach the Kafka reader unchanged;
a connection without such a header passes through unchanged; no input makes the parser crash.
All theorems are for EVERY stream / address / port / trailing bytes.
-/
namespace KafVerif.ProxyProto

theorem goSlice_ok' {b : Bytes} {i j : Int} (h : 0 ≤ i ∧ i ≤ j ∧ j ≤ b.length) :
    goSlice b i j = .ok ((b.drop i.toNat).take (j - i).toNat) := by
  simp [goSlice, h]

theorem bind_ne_panic {α β} (r : GoResult α) (f : α → GoResult β) (h1 : r ≠ .panic)
    (h2 : ∀ a, r = .ok a → f a ≠ .panic) : r.bind f ≠ .panic := by
  cases r with
  | ok a => exact h2 a rfl
  | err => simp [GoResult.bind]
  | panic => exact absurd rfl h1

theorem readLineAux_ne_panic (n : Nat) (s acc : Bytes) : readLineAux n s acc ≠ .panic := by
  induction n generalizing s acc with
  | zero => simp [readLineAux]
  | succ n ih =>
    cases s with
    | nil => simp [readLineAux]
    | cons b rest =>
      unfold readLineAux
      split
      · simp
      · exact ih _ _

/-- what `readLine` returns is a split of the input -/
theorem readLineAux_split (n : Nat) (s acc line rest : Bytes) (h : readLineAux n s acc = .ok (line, rest)) :
    acc ++ s = line ++ rest := by
  induction n generalizing s acc with
  | zero => simp [readLineAux] at h
  | succ n ih =>
    cases s with
    | nil => simp [readLineAux] at h
    | cons b t =>
      unfold readLineAux at h
      split at h
      · injection h with h; injection h with h1 h2; subst h1 h2; simp
      · have := ih _ _ h; simpa using this

theorem parseV1_ne_panic (s : Bytes) : parseV1 s ≠ .panic := by
  unfold parseV1
  apply bind_ne_panic _ _ (readLineAux_ne_panic _ _ _)
  intro ⟨line, rest⟩ _
  simp only
  split
  · simp
  · split <;> simp

theorem parseV2Inet_ne_panic (p : Bytes) : parseV2Inet p ≠ .panic := by
  unfold parseV2Inet
  split
  · simp
  · rename_i h
    rw [goSlice_ok' (by omega), goSlice_ok' (by omega), goSlice_ok' (by omega), goSlice_ok' (by omega)]
    simp [GoResult.bind]

theorem parseV2Inet6_ne_panic (p : Bytes) : parseV2Inet6 p ≠ .panic := by
  unfold parseV2Inet6
  split
  · simp
  · rename_i h
    rw [goSlice_ok' (by omega), goSlice_ok' (by omega), goSlice_ok' (by omega), goSlice_ok' (by omega)]
    simp [GoResult.bind]

theorem parseV2With_ne_panic (f : Nat → Nat) (s : Bytes) : parseV2With f s ≠ .panic := by
  unfold parseV2With
  dsimp only
  split
  · simp
  · split
    · simp
    · split
      · simp
      · split
        · simp
        · split
          · exact bind_ne_panic _ _ (parseV2Inet_ne_panic _) (by intro a _; simp)
          · split
            · exact bind_ne_panic _ _ (parseV2Inet6_ne_panic _) (by intro a _; simp)
            · simp

theorem parseWith_ne_panic (pv2 : Bytes → GoResult (Option Info × Bytes)) (h : ∀ s, pv2 s ≠ .panic) (s : Bytes) :
    parseWith pv2 s ≠ .panic := by
  unfold parseWith
  split
  · simp
  · split
    · exact parseV1_ne_panic s
    · split
      · split
        · simp
        · split
          · exact h s
          · simp
      · simp

theorem parseV1_suffix (s : Bytes) (i : Option Info) (rest : Bytes) (h : parseV1 s = .ok (i, rest)) :
    ∃ hdr, s = hdr ++ rest := by
  unfold parseV1 readLine at h
  cases hl : readLineAux 256 s [] with
  | panic => rw [hl] at h; simp [GoResult.bind] at h
  | err => rw [hl] at h; simp [GoResult.bind] at h
  | ok p =>
    obtain ⟨line, r⟩ := p
    rw [hl] at h
    simp only [GoResult.bind] at h
    have hs := readLineAux_split _ _ _ _ _ hl
    simp only [List.nil_append] at hs
    split at h
    · injection h with h; injection h with _ h2; subst h2; exact ⟨line, hs⟩
    · split at h
      · simp at h
      · injection h with h; injection h with _ h2; subst h2; exact ⟨line, hs⟩

theorem bind_ok_inv {α β} {r : GoResult α} {f : α → GoResult β} {x : β} (h : r.bind f = .ok x) :
    ∃ a, r = .ok a ∧ f a = .ok x := by
  cases r with
  | ok a => exact ⟨a, rfl, h⟩
  | err => simp [GoResult.bind] at h
  | panic => simp [GoResult.bind] at h

theorem parseV2With_suffix (f : Nat → Nat) (s : Bytes) (i : Option Info) (rest : Bytes)
    (h : parseV2With f s = .ok (i, rest)) : ∃ hdr, s = hdr ++ rest := by
  unfold parseV2With at h
  dsimp only at h
  have key : ∀ n, s = (s.take 16 ++ (s.drop 16).take n) ++ (s.drop 16).drop n := by
    intro n; rw [List.append_assoc, List.take_append_drop, List.take_append_drop]
  split at h
  · simp at h
  · split at h
    · simp at h
    · split at h
      · simp at h
      · split at h
        · injection h with h; injection h with _ h2; subst h2; exact ⟨_, key _⟩
        · split at h
          · obtain ⟨a, _, h⟩ := bind_ok_inv h
            injection h with h; injection h with _ h2; subst h2; exact ⟨_, key _⟩
          · split at h
            · obtain ⟨a, _, h⟩ := bind_ok_inv h
              injection h with h; injection h with _ h2; subst h2; exact ⟨_, key _⟩
            · injection h with h; injection h with _ h2; subst h2; exact ⟨_, key _⟩

/-! ### round trips -/

theorem be16_put16 (n : Nat) (h : n < 65536) : be16 (put16 n) = n := by
  simp [be16, put16]; omega

theorem parse_encV2 (vc ft : UInt8) (payload rest : Bytes) (hn : payload.length < 65536) :
    parse (encV2 vc ft payload ++ rest) =
      if vc.toNat % 16 = 0 then .ok (some localInfo, rest)
      else if ft.toNat / 16 = 1 then (parseV2Inet payload).bind fun i => .ok (some i, rest)
      else if ft.toNat / 16 = 2 then (parseV2Inet6 payload).bind fun i => .ok (some i, rest)
      else .ok (none, rest) := by
  have hs : encV2 vc ft payload ++ rest = v2Sig ++ ([vc, ft] ++ (put16 payload.length ++ (payload ++ rest))) := by
    simp [encV2, List.append_assoc]
  rw [hs]
  have hput : put16 payload.length = [UInt8.ofNat (payload.length / 256 % 256), UInt8.ofNat (payload.length % 256)] := rfl
  have hb := be16_put16 payload.length hn
  rw [hput] at hb
  unfold parse parseWith parseV2 parseV2With
  simp only [v2Sig, hput, List.cons_append, List.nil_append, List.length_cons, List.take_succ_cons, List.take_zero,
    List.drop_succ_cons, List.drop_zero, proxyWord, v2Sig5]
  simp [List.getD, hb]
  rw [if_neg (by omega), if_neg (by omega), if_neg (by omega), if_neg (by omega)]

theorem goSlice_mid (b pre x post : Bytes) (i j : Int) (hb : b = pre ++ (x ++ post))
    (hi : i = pre.length) (hj : j = (pre.length : Int) + x.length) : goSlice b i j = .ok x := by
  subst hb hi hj
  rw [goSlice_ok' (by simp only [List.length_append]; omega)]
  have h1 : ((pre.length : Int)).toNat = pre.length := by omega
  have h2 : ((pre.length : Int) + x.length - pre.length).toNat = x.length := by omega
  rw [h1, h2]
  simp

theorem parseV2Inet_enc (src dst tlv : Bytes) (sp dp : Nat) (h1 : src.length = 4) (h2 : dst.length = 4)
    (h3 : sp < 65536) (h4 : dp < 65536) :
    parseV2Inet (src ++ dst ++ put16 sp ++ put16 dp ++ tlv) =
      .ok { isLocal := false, srcIP := src, dstIP := dst, srcPort := sp, dstPort := dp, srcAddr := [], dstAddr := [] } := by
  unfold parseV2Inet
  have hl : ¬ ((src ++ dst ++ put16 sp ++ put16 dp ++ tlv).length < 12) := by simp [put16]; omega
  have hp : (put16 sp).length = 2 ∧ (put16 dp).length = 2 := ⟨rfl, rfl⟩
  simp only [hl, if_false]
  rw [goSlice_mid _ [] src (dst ++ put16 sp ++ put16 dp ++ tlv) 0 4 (by simp) (by simp) (by simp [h1]),
      goSlice_mid _ src dst (put16 sp ++ put16 dp ++ tlv) 4 8 (by simp) (by simp [h1]) (by simp [h1, h2]),
      goSlice_mid _ (src ++ dst) (put16 sp) (put16 dp ++ tlv) 8 10 (by simp) (by simp [h1, h2]) (by simp [h1, h2, put16]),
      goSlice_mid _ (src ++ dst ++ put16 sp) (put16 dp) tlv 10 12 (by simp) (by simp [h1, h2, put16]) (by simp [h1, h2, put16])]
  simp only [GoResult.bind, be16_put16 sp h3, be16_put16 dp h4]

theorem parseV2Inet6_enc (src dst tlv : Bytes) (sp dp : Nat) (h1 : src.length = 16) (h2 : dst.length = 16)
    (h3 : sp < 65536) (h4 : dp < 65536) :
    parseV2Inet6 (src ++ dst ++ put16 sp ++ put16 dp ++ tlv) =
      .ok { isLocal := false, srcIP := src, dstIP := dst, srcPort := sp, dstPort := dp, srcAddr := [], dstAddr := [] } := by
  unfold parseV2Inet6
  have hl : ¬ ((src ++ dst ++ put16 sp ++ put16 dp ++ tlv).length < 36) := by simp [put16]; omega
  simp only [hl, if_false]
  rw [goSlice_mid _ [] src (dst ++ put16 sp ++ put16 dp ++ tlv) 0 16 (by simp) (by simp) (by simp [h1]),
      goSlice_mid _ src dst (put16 sp ++ put16 dp ++ tlv) 16 32 (by simp) (by simp [h1]) (by simp [h1, h2]),
      goSlice_mid _ (src ++ dst) (put16 sp) (put16 dp ++ tlv) 32 34 (by simp) (by simp [h1, h2]) (by simp [h1, h2, put16]),
      goSlice_mid _ (src ++ dst ++ put16 sp) (put16 dp) tlv 34 36 (by simp) (by simp [h1, h2, put16]) (by simp [h1, h2, put16])]
  simp only [GoResult.bind, be16_put16 sp h3, be16_put16 dp h4]

/-- a v1 token: non-empty, no ASCII whitespace -/
def Tok (t : Bytes) : Prop := t ≠ [] ∧ ∀ b ∈ t, isSpace b = false

theorem fieldsAux_tok (tok rest cur : Bytes) (h : ∀ b ∈ tok, isSpace b = false) :
    fieldsAux (tok ++ rest) cur = fieldsAux rest (cur ++ tok) := by
  induction tok generalizing cur with
  | nil => simp
  | cons a t ih =>
    have ha : isSpace a = false := h a (by simp)
    have ht : ∀ b ∈ t, isSpace b = false := fun b hb => h b (by simp [hb])
    simp only [List.cons_append, fieldsAux, ha]
    rw [ih (cur ++ [a]) ht]
    simp

theorem fieldsAux_sep (b : UInt8) (rest cur : Bytes) (hb : isSpace b = true) (hc : cur ≠ []) :
    fieldsAux (b :: rest) cur = cur :: fieldsAux rest [] := by
  cases cur with
  | nil => exact absurd rfl hc
  | cons x xs => simp [fieldsAux, hb]

theorem fields_step (tok rest : Bytes) (b : UInt8) (ht : Tok tok) (hb : isSpace b = true) :
    fieldsAux (tok ++ b :: rest) [] = tok :: fieldsAux rest [] := by
  rw [fieldsAux_tok _ _ _ ht.2, List.nil_append, fieldsAux_sep _ _ _ hb ht.1]

theorem fields_last (tok : Bytes) (ht : Tok tok) : fieldsAux (tok ++ crlf) [] = [tok] := by
  unfold crlf
  rw [fields_step tok [0x0a] 0x0d ht (by decide)]
  simp [fieldsAux, isSpace]

theorem proxyWord_tok : Tok proxyWord := ⟨by decide, by decide⟩

theorem fields_encV1 (proto src dst sport dport : Bytes)
    (h1 : Tok proto) (h2 : Tok src) (h3 : Tok dst) (h4 : Tok sport) (h5 : Tok dport) :
    fields (encV1 proto src dst sport dport) = [proxyWord, proto, src, dst, sport, dport] := by
  unfold fields encV1 sp
  simp only [List.append_assoc, List.cons_append, List.nil_append]
  rw [fields_step proxyWord _ 0x20 proxyWord_tok (by decide), fields_step proto _ 0x20 h1 (by decide), fields_step src _ 0x20 h2 (by decide),
      fields_step dst _ 0x20 h3 (by decide), fields_step sport _ 0x20 h4 (by decide), fields_last _ h5]

theorem readLineAux_line (n : Nat) (body rest acc : Bytes) (hb : ∀ b ∈ body, (b == 10) = false) (hn : body.length < n) :
    readLineAux n (body ++ 10 :: rest) acc = .ok (acc ++ body ++ [10], rest) := by
  induction body generalizing n acc with
  | nil =>
    cases n with
    | zero => omega
    | succ n => simp [readLineAux]
  | cons a t ih =>
    cases n with
    | zero => simp at hn
    | succ n =>
      have ha : (a == 10) = false := hb a (by simp)
      simp only [List.cons_append, readLineAux, ha]
      rw [ih n (acc ++ [a]) (fun b h => hb b (by simp [h])) (by simp at hn; omega)]
      simp

theorem tok_no_lf (t : Bytes) (h : ∀ b ∈ t, isSpace b = false) : ∀ b ∈ t, (b == 10) = false := by
  intro b hb
  have := h b hb
  unfold isSpace at this
  simp only [Bool.or_eq_false_iff] at this
  exact this.1.1.1.1.2


theorem mem_nolf_sp : ∀ b ∈ sp, (b == 10) = false := by decide
theorem mem_nolf_cr : ∀ b ∈ [(0x0d : UInt8)], (b == 10) = false := by decide

theorem nolf_append {a b : Bytes} (ha : ∀ x ∈ a, (x == 10) = false) (hb : ∀ x ∈ b, (x == 10) = false) :
    ∀ x ∈ a ++ b, (x == 10) = false := by
  intro x hx
  rcases List.mem_append.mp hx with h | h
  · exact ha x h
  · exact hb x h

theorem parse_v1_line (toks : List Bytes) (body rest : Bytes)
    (hb : ∀ b ∈ body, (b == 10) = false) (hl : body.length < 256)
    (hp : body.take 5 = proxyWord) (hf : fields (body ++ [10]) = toks) :
    parse (body ++ [10] ++ rest) =
      (if toks.length ≥ 2 ∧ toUpper (toks.getD 1 []) = unknownWord then .ok (some localInfo, rest)
       else if toks.length < 6 then .err
       else .ok (some { isLocal := false, srcIP := (toks.getD 2 []), dstIP := (toks.getD 3 []), srcPort := atoiOrZero ((toks.getD 4 [])), dstPort := atoiOrZero ((toks.getD 5 [])), srcAddr := joinHostPort ((toks.getD 2 [])) ((toks.getD 4 [])), dstAddr := joinHostPort ((toks.getD 3 [])) ((toks.getD 5 [])) }, rest)) := by
  have h5 : 5 ≤ body.length := by
    have : (body.take 5).length = 5 := by rw [hp]; rfl
    rw [List.length_take] at this; omega
  have htake : (body ++ [10] ++ rest).take 5 = proxyWord := by
    rw [List.append_assoc, List.take_append_of_le_length h5]; exact hp
  unfold parse parseWith
  have hlen : ¬ ((body ++ [10] ++ rest).length < 5) := by simp only [List.length_append]; omega
  simp only [hlen, if_false, htake, if_true]
  unfold parseV1 readLine
  have hrl : readLineAux 256 (body ++ [10] ++ rest) [] = .ok (body ++ [10], rest) := by
    have := readLineAux_line 256 body rest [] hb hl
    simpa [List.append_assoc] using this
  rw [hrl]
  simp only [GoResult.bind, hf]

/-- decimal value of a digit string -/
def decVal (ds : Bytes) : Int := ds.foldl (fun a c => a * 10 + ((c.toNat : Int) - 48)) 0

theorem atoiAux_digits (ds : Bytes) (out : Int) (k : Nat) (hd : ∀ c ∈ ds, 48 ≤ c.toNat ∧ c.toNat ≤ 57)
    (h0 : 0 ≤ out) (hk : out < 10 ^ k) (hl : k + ds.length ≤ 18) :
    atoiAux ds out = ds.foldl (fun a c => a * 10 + ((c.toNat : Int) - 48)) out := by
  induction ds generalizing out k with
  | nil => simp [atoiAux]
  | cons c t ih =>
    have hc := hd c (by simp)
    have hnd : ¬ (c.toNat < 48 ∨ c.toNat > 57) := by omega
    simp only [atoiAux, hnd, if_false, List.foldl_cons]
    have hk1 : out * 10 + ((c.toNat : Int) - 48) < 10 ^ (k + 1) := by
      have : (10 : Int) ^ (k + 1) = 10 ^ k * 10 := by rw [Int.pow_succ]
      omega
    have hbig : (10 : Int) ^ (k + 1) ≤ 10 ^ 18 := by
      have hk18 : k + 1 ≤ 18 := by simp at hl; omega
      have := Nat.pow_le_pow_right (show 1 ≤ 10 by decide) hk18
      exact_mod_cast this
    have hw : wrap64 (out * 10 + ((c.toNat : Int) - 48)) = out * 10 + ((c.toNat : Int) - 48) := by
      unfold wrap64
      have h1 : 0 ≤ out * 10 + ((c.toNat : Int) - 48) := by omega
      have h2 : out * 10 + ((c.toNat : Int) - 48) < 2 ^ 63 := by omega
      have h3 : (out * 10 + ((c.toNat : Int) - 48)) % (2 ^ 64 : Int) = out * 10 + ((c.toNat : Int) - 48) :=
        Int.emod_eq_of_lt h1 (by omega)
      simp only [h3]
      split <;> omega
    rw [hw]
    exact ih _ (k + 1) (fun x hx => hd x (by simp [hx])) (by omega) hk1 (by simp at hl ⊢; omega)


theorem readLineAux_overlong (n : Nat) : ∀ (s acc : Bytes), n ≤ s.length → (∀ b ∈ s.take n, (b == 10) = false) →
    readLineAux n s acc = .err := by
  induction n with
  | zero => intro s acc _ _; simp [readLineAux]
  | succ n ih =>
    intro s acc hl hb
    cases s with
    | nil => simp at hl
    | cons a t =>
      have ha : (a == 10) = false := hb a (by simp)
      simp only [readLineAux, ha]
      exact ih t _ (by simpa using hl) (fun b h => hb b (by simp [h]))

/-- a stream that starts with "PROXY" and has no LF among its first 256 bytes -/
theorem parse_v1_overlong (s : Bytes) (hp : s.take 5 = proxyWord) (hl : 256 ≤ s.length)
    (hb : ∀ b ∈ s.take 256, (b == 10) = false) : parse s = .err ∧ errRest s = s.drop 256 := by
  have hlen : ¬ (s.length < 5) := by omega
  have hrl : readLineAux 256 s [] = .err := readLineAux_overlong 256 s [] hl hb
  constructor
  · unfold parse parseWith
    simp only [hlen, if_false, hp, if_true]
    unfold parseV1 readLine
    rw [hrl]; rfl
  · unfold errRest readLine
    simp only [hlen, if_false, hp, if_true, hrl]

theorem digit_not_space (c : UInt8) (h : 48 ≤ c.toNat ∧ c.toNat ≤ 57) : isSpace c = false := by
  have key : ∀ k : UInt8, k.toNat < 48 → (c == k) = false := by
    intro k hk
    simp only [beq_eq_false_iff_ne, ne_eq]
    intro e; subst e; omega
  unfold isSpace
  simp [key 9 (by decide), key 10 (by decide), key 11 (by decide), key 12 (by decide), key 13 (by decide), key 32 (by decide)]

/-- a decimal port token -/
def Digits (t : Bytes) : Prop := t ≠ [] ∧ ∀ c ∈ t, 48 ≤ c.toNat ∧ c.toNat ≤ 57

theorem digits_tok (t : Bytes) (h : Digits t) : Tok t := ⟨h.1, fun b hb => digit_not_space b (h.2 b hb)⟩

theorem toUpper_length (l : Bytes) : (toUpper l).length = l.length := by simp [toUpper]

theorem errRest_encV2 (vc ft : UInt8) (payload rest : Bytes) (hn : payload.length < 65536) :
    errRest (encV2 vc ft payload ++ rest) = rest := by
  have hs : encV2 vc ft payload ++ rest = v2Sig ++ ([vc, ft] ++ (put16 payload.length ++ (payload ++ rest))) := by
    simp [encV2, List.append_assoc]
  rw [hs]
  have hput : put16 payload.length = [UInt8.ofNat (payload.length / 256 % 256), UInt8.ofNat (payload.length % 256)] := rfl
  have hb := be16_put16 payload.length hn
  rw [hput] at hb
  unfold errRest
  simp only [v2Sig, hput, List.cons_append, List.nil_append, List.length_cons, List.take_succ_cons, List.take_zero,
    List.drop_succ_cons, List.drop_zero, proxyWord, v2Sig5]
  simp [hb]
  rw [if_neg (by omega), if_neg (by omega), if_neg (by omega), if_neg (by omega)]

/-- the stream ends inside the v2 header's declared payload -/
theorem parse_v2_truncated (vc ft : UInt8) (n : Nat) (avail : Bytes) (hn : n < 65536) (ha : avail.length < n) :
    parse (v2Sig ++ [vc, ft] ++ put16 n ++ avail) = .err ∧ errRest (v2Sig ++ [vc, ft] ++ put16 n ++ avail) = [] := by
  have hput : put16 n = [UInt8.ofNat (n / 256 % 256), UInt8.ofNat (n % 256)] := rfl
  have hb := be16_put16 n hn
  rw [hput] at hb
  constructor
  · unfold parse parseWith parseV2 parseV2With
    simp only [v2Sig, hput, List.cons_append, List.nil_append, List.length_cons, List.take_succ_cons, List.take_zero,
      List.drop_succ_cons, List.drop_zero, proxyWord, v2Sig5]
    simp [hb, ha]
  · unfold errRest
    simp only [v2Sig, hput, List.cons_append, List.nil_append, List.length_cons, List.take_succ_cons, List.take_zero,
      List.drop_succ_cons, List.drop_zero, proxyWord, v2Sig5]
    simp [hb, ha]
    rw [if_neg (by omega), if_neg (by omega)]

theorem errRest_suffix (s : Bytes) : ∃ consumed, s = consumed ++ errRest s := by
  unfold errRest
  split
  · exact ⟨[], rfl⟩
  · split
    · unfold readLine
      split
      · rename_i line rest h
        have := readLineAux_split _ _ _ _ _ h
        exact ⟨line, by simpa using this⟩
      · exact ⟨s.take 256, (List.take_append_drop 256 s).symm⟩
    · split
      · split
        · exact ⟨[], rfl⟩
        · split
          · split
            · exact ⟨s, by simp⟩
            · dsimp only
              split
              · exact ⟨s, by simp⟩
              · exact ⟨s.take 16 ++ (s.drop 16).take _, by rw [List.append_assoc, List.take_append_drop, List.take_append_drop]⟩
          · exact ⟨[], rfl⟩
      · exact ⟨[], rfl⟩

end KafVerif.ProxyProto

namespace KafVerif.C26
open KafVerif KafVerif.ProxyProto

/-- (1) No input makes the parser crash. -/
theorem total (s : Bytes) : parse s ≠ .panic := parseWith_ne_panic _ (parseV2With_ne_panic _) s

/-- the stream begins with something `parseProxyHeader` treats as a header start -/
def startsWithHeader (s : Bytes) : Prop :=
  s.take 5 = proxyWord ∨ (s.take 5 = v2Sig5 ∧ (s.length < 12 ∨ s.take 12 = v2Sig))

/-- (2) A connection without such a header passes through unchanged: no info, and the wrapped
connection delivers exactly the original bytes (this includes streams shorter than 5 bytes and streams
that share only the first 5..11 bytes with the v2 signature). -/
theorem passthrough (s : Bytes) (h : ¬ startsWithHeader s) : parse s = .ok (none, s) := by
  unfold startsWithHeader at h
  unfold parse parseWith
  split
  · rfl
  · split
    · rename_i h2; exact absurd (Or.inl h2) h
    · split
      · rename_i h3
        split
        · rename_i h4; exact absurd (Or.inr ⟨h3, Or.inl h4⟩) h
        · split
          · rename_i h5; exact absurd (Or.inr ⟨h3, Or.inr h5⟩) h
          · rfl
      · rfl

/-- (3) In every successful case the bytes the Kafka reader gets are a suffix of what was sent:
`sent = consumed header ++ rest`. -/
theorem remainder_suffix (s : Bytes) (i : Option Info) (rest : Bytes) (h : parse s = .ok (i, rest)) :
    ∃ hdr, s = hdr ++ rest := by
  unfold parse parseWith at h
  split at h
  · injection h with h; injection h with _ h2; subst h2; exact ⟨[], rfl⟩
  · split at h
    · exact parseV1_suffix s i rest h
    · split at h
      · split at h
        · simp at h
        · split at h
          · exact parseV2With_suffix _ s i rest h
          · injection h with h; injection h with _ h2; subst h2; exact ⟨[], rfl⟩
      · injection h with h; injection h with _ h2; subst h2; exact ⟨[], rfl⟩

/-- (4a) v2 LOCAL command (any family byte, any payload incl. TLVs): reported as local, and exactly the
bytes after header+payload reach the reader. -/
theorem v2_local_roundtrip (vc ft : UInt8) (payload rest : Bytes) (hn : payload.length < 65536)
    (hc : vc.toNat % 16 = 0) : parse (encV2 vc ft payload ++ rest) = .ok (some localInfo, rest) := by
  rw [parse_encV2 vc ft payload rest hn]; simp [hc]

/-- (4b) v2 PROXY command, AF_INET (family = HIGH nibble 1, any transport nibble), any trailing TLV bytes:
exactly the encoded addresses and ports, and exactly the trailing stream. -/
theorem v2_inet_roundtrip (vc ft : UInt8) (src dst tlv rest : Bytes) (sp dp : Nat)
    (hc : vc.toNat % 16 ≠ 0) (hf : ft.toNat / 16 = 1) (h1 : src.length = 4) (h2 : dst.length = 4)
    (h3 : sp < 65536) (h4 : dp < 65536) (hn : (src ++ dst ++ put16 sp ++ put16 dp ++ tlv).length < 65536) :
    parse (encV2 vc ft (src ++ dst ++ put16 sp ++ put16 dp ++ tlv) ++ rest) =
      .ok (some { isLocal := false, srcIP := src, dstIP := dst, srcPort := sp, dstPort := dp, srcAddr := [], dstAddr := [] }, rest) := by
  rw [parse_encV2 _ _ _ rest hn, parseV2Inet_enc src dst tlv sp dp h1 h2 h3 h4]; simp [hc, hf, GoResult.bind]

/-- (4c) v2 PROXY command, AF_INET6 (HIGH nibble 2 — e.g. 0x21 = TCP over IPv6). -/
theorem v2_inet6_roundtrip (vc ft : UInt8) (src dst tlv rest : Bytes) (sp dp : Nat)
    (hc : vc.toNat % 16 ≠ 0) (hf : ft.toNat / 16 = 2) (h1 : src.length = 16) (h2 : dst.length = 16)
    (h3 : sp < 65536) (h4 : dp < 65536) (hn : (src ++ dst ++ put16 sp ++ put16 dp ++ tlv).length < 65536) :
    parse (encV2 vc ft (src ++ dst ++ put16 sp ++ put16 dp ++ tlv) ++ rest) =
      .ok (some { isLocal := false, srcIP := src, dstIP := dst, srcPort := sp, dstPort := dp, srcAddr := [], dstAddr := [] }, rest) := by
  rw [parse_encV2 _ _ _ rest hn, parseV2Inet6_enc src dst tlv sp dp h1 h2 h3 h4]; simp [hc, hf, GoResult.bind]

/-- (5a) v1 `PROXY <proto> <src> <dst> <sport> <dport>\r\n` with whitespace-free non-empty tokens, a
line of at most 256 bytes and a protocol other than UNKNOWN: exactly the address tokens, the ports as
`atoiOrZero` reads them (`v1_port_decimal`: = their decimal value), and exactly the trailing stream. -/
theorem v1_roundtrip (proto src dst sport dport rest : Bytes)
    (h1 : Tok proto) (h2 : Tok src) (h3 : Tok dst) (h4 : Tok sport) (h5 : Tok dport)
    (hu : toUpper proto ≠ unknownWord) (hlen : (encV1 proto src dst sport dport).length ≤ 256) :
    parse (encV1 proto src dst sport dport ++ rest) =
      .ok (some { isLocal := false, srcIP := src, dstIP := dst, srcPort := atoiOrZero sport, dstPort := atoiOrZero dport, srcAddr := joinHostPort src sport, dstAddr := joinHostPort dst dport }, rest) := by
  have hf := fields_encV1 proto src dst sport dport h1 h2 h3 h4 h5
  have hbody : encV1 proto src dst sport dport =
      (proxyWord ++ sp ++ proto ++ sp ++ src ++ sp ++ dst ++ sp ++ sport ++ sp ++ dport ++ [0x0d]) ++ [10] := by
    simp [encV1, crlf, List.append_assoc]
  rw [hbody] at hf hlen ⊢
  have t := fun x (h : Tok x) => tok_no_lf x h.2
  rw [parse_v1_line _ _ rest
    (nolf_append (nolf_append (nolf_append (nolf_append (nolf_append (nolf_append (nolf_append (nolf_append (nolf_append (nolf_append
      (nolf_append (t _ proxyWord_tok) mem_nolf_sp) (t _ h1)) mem_nolf_sp) (t _ h2)) mem_nolf_sp) (t _ h3)) mem_nolf_sp) (t _ h4)) mem_nolf_sp) (t _ h5)) mem_nolf_cr)
    (by simp only [List.length_append] at hlen ⊢; simp at hlen ⊢; omega)
    (by simp [proxyWord, List.append_assoc]) hf]
  simp [hu]

/-- (5b) v1 `PROXY UNKNOWN\r\n` (any letter case): local, stream preserved. -/
theorem v1_unknown_roundtrip (proto rest : Bytes) (h1 : Tok proto) (hu : toUpper proto = unknownWord) :
    parse (proxyWord ++ sp ++ proto ++ crlf ++ rest) = .ok (some localInfo, rest) := by
  have hlen : proto.length = 7 := by rw [← toUpper_length, hu]; rfl
  have hf : fields ((proxyWord ++ sp ++ proto ++ [0x0d]) ++ [10]) = [proxyWord, proto] := by
    unfold fields sp
    simp only [List.append_assoc, List.cons_append, List.nil_append]
    rw [fields_step proxyWord _ 0x20 proxyWord_tok (by decide)]
    have := fields_last proto h1
    unfold crlf at this
    rw [this]
  have hs : proxyWord ++ sp ++ proto ++ crlf ++ rest = (proxyWord ++ sp ++ proto ++ [0x0d]) ++ [10] ++ rest := by
    simp [crlf, List.append_assoc]
  have t := fun x (h : Tok x) => tok_no_lf x h.2
  rw [hs, parse_v1_line _ _ rest
    (nolf_append (nolf_append (nolf_append (t _ proxyWord_tok) mem_nolf_sp) (t _ h1)) mem_nolf_cr)
    (by simp [proxyWord, sp]; omega) (by simp [proxyWord, List.append_assoc]) hf]
  simp [hu]

/-- (5c) a port token of at most 18 decimal digits is reported as its decimal value. -/
theorem v1_port_decimal (ds : Bytes) (hd : ∀ c ∈ ds, 48 ≤ c.toNat ∧ c.toNat ≤ 57) (hl : ds.length ≤ 18) :
    atoiOrZero ds = decVal ds :=
  atoiAux_digits ds 0 0 hd (by omega) (by simp) (by omega)

/-- TCP over IPv6 from 2001:db8::1 port 51234 to 2001:db8::2 port 9092, followed by "rest". -/
def tcp6Header : Bytes :=
  encV2 0x21 0x21 ([0x20, 0x01, 0x0d, 0xb8, 0, 0, 0, 0, 0, 0, 0, 0, 0, 0, 0, 1] ++ [0x20, 0x01, 0x0d, 0xb8, 0, 0, 0, 0, 0, 0, 0, 0, 0, 0, 0, 2] ++ put16 51234 ++ put16 9092)

set_option maxRecDepth 8000 in
/-- (6) The code before the fix read the address family from the LOW nibble (the transport protocol), so a
TCP-over-IPv6 header was parsed as IPv4: it reports 32.1.13.184 → 0.0.0.0, ports 0/0. -/
theorem parseOld_misreads_tcp6 :
    ∃ s i rest, parseOld s = .ok (some i, rest) ∧ parse s ≠ parseOld s ∧ i.srcIP = [0x20, 0x01, 0x0d, 0xb8] ∧ i.srcPort = 0 :=
  ⟨tcp6Header ++ [1, 2],
   { isLocal := false, srcIP := [0x20, 0x01, 0x0d, 0xb8], dstIP := [0, 0, 0, 0], srcPort := 0, dstPort := 0, srcAddr := [], dstAddr := [] },
   [1, 2], by decide, by decide, rfl, rfl⟩

/-- (5d) v1 with decimal port tokens (1..18 digits, leading zeros allowed): the reported ports are the decimal values. -/
theorem v1_roundtrip_decimal_ports (proto src dst sport dport rest : Bytes)
    (h1 : Tok proto) (h2 : Tok src) (h3 : Tok dst) (h4 : Digits sport) (h5 : Digits dport)
    (l4 : sport.length ≤ 18) (l5 : dport.length ≤ 18)
    (hu : toUpper proto ≠ unknownWord) (hlen : (encV1 proto src dst sport dport).length ≤ 256) :
    parse (encV1 proto src dst sport dport ++ rest) =
      .ok (some { isLocal := false, srcIP := src, dstIP := dst, srcPort := decVal sport, dstPort := decVal dport,
                  srcAddr := joinHostPort src sport, dstAddr := joinHostPort dst dport }, rest) := by
  rw [v1_roundtrip proto src dst sport dport rest h1 h2 h3 (digits_tok _ h4) (digits_tok _ h5) hu hlen,
    v1_port_decimal sport h4.2 l4, v1_port_decimal dport h5.2 l5]

set_option maxRecDepth 4000 in
/-- (5e) The code does not range-check ports: a decimal token above 65535 is reported as its value (so "≤ 65535" is a
property of the sender, not a hypothesis the parser needs), and 2^64+1 wraps to 1. -/
theorem v1_port_not_range_checked :
    atoiOrZero [0x36, 0x35, 0x35, 0x33, 0x36] = 65536 ∧
    atoiOrZero [0x31,0x38,0x34,0x34,0x36,0x37,0x34,0x34,0x30,0x37,0x33,0x37,0x30,0x39,0x35,0x35,0x31,0x36,0x31,0x37] = 1 := by
  decide

/-- (5f) Boundary: a v1 line of exactly the maximum accepted length (256 bytes including CR LF) round-trips. -/
theorem v1_max_length_roundtrip (proto src dst sport dport rest : Bytes)
    (h1 : Tok proto) (h2 : Tok src) (h3 : Tok dst) (h4 : Tok sport) (h5 : Tok dport)
    (hu : toUpper proto ≠ unknownWord) (hlen : (encV1 proto src dst sport dport).length = 256) :
    parse (encV1 proto src dst sport dport ++ rest) =
      .ok (some { isLocal := false, srcIP := src, dstIP := dst, srcPort := atoiOrZero sport, dstPort := atoiOrZero dport, srcAddr := joinHostPort src sport, dstAddr := joinHostPort dst dport }, rest) :=
  v1_roundtrip proto src dst sport dport rest h1 h2 h3 h4 h5 hu (by omega)

/-- (5g) Boundary: one byte longer (and any longer line) is rejected, and the parser has consumed exactly 256 bytes — for a
257-byte line everything but its final LF — and not a byte more. -/
theorem v1_overlong_rejected (proto src dst sport dport rest : Bytes)
    (h1 : Tok proto) (h2 : Tok src) (h3 : Tok dst) (h4 : Tok sport) (h5 : Tok dport)
    (hlen : 256 < (encV1 proto src dst sport dport).length) :
    parse (encV1 proto src dst sport dport ++ rest) = .err ∧
    errRest (encV1 proto src dst sport dport ++ rest) = (encV1 proto src dst sport dport ++ rest).drop 256 := by
  have hbody : encV1 proto src dst sport dport =
      (proxyWord ++ sp ++ proto ++ sp ++ src ++ sp ++ dst ++ sp ++ sport ++ sp ++ dport ++ [0x0d]) ++ [10] := by
    simp [encV1, crlf, List.append_assoc]
  have t := fun x (h : Tok x) => tok_no_lf x h.2
  have hnolf := (nolf_append (nolf_append (nolf_append (nolf_append (nolf_append (nolf_append (nolf_append (nolf_append (nolf_append (nolf_append
      (nolf_append (t _ proxyWord_tok) mem_nolf_sp) (t _ h1)) mem_nolf_sp) (t _ h2)) mem_nolf_sp) (t _ h3)) mem_nolf_sp) (t _ h4)) mem_nolf_sp) (t _ h5)) mem_nolf_cr)
  rw [hbody] at hlen ⊢
  have hp5 : (proxyWord ++ sp ++ proto ++ sp ++ src ++ sp ++ dst ++ sp ++ sport ++ sp ++ dport ++ [0x0d]).take 5 = proxyWord := by
    simp [proxyWord, List.append_assoc]
  generalize (proxyWord ++ sp ++ proto ++ sp ++ src ++ sp ++ dst ++ sp ++ sport ++ sp ++ dport ++ [0x0d]) = B at *
  have hB : 256 ≤ B.length := by simp at hlen; omega
  have htk : (B ++ [10] ++ rest).take 256 = B.take 256 := by
    rw [List.append_assoc, List.take_append_of_le_length hB]
  apply parse_v1_overlong
  · rw [List.append_assoc, List.take_append_of_le_length (by omega)]; exact hp5
  · simp; omega
  · rw [htk]; intro b hb; exact hnolf b (List.mem_of_mem_take hb)


/-- (4d) v2 PROXY command whose address family is neither AF_INET nor AF_INET6 (AF_UNSPEC 0, AF_UNIX 3, reserved 4..15; any
transport nibble, any payload): as coded the result is "no info" (`nil, nil`) — and the header with its whole declared payload
is consumed, so the stream after it is preserved exactly: input = header ++ rest, reader gets rest. -/
theorem v2_unhandled_family (vc ft : UInt8) (payload rest : Bytes) (hn : payload.length < 65536)
    (hc : vc.toNat % 16 ≠ 0) (hf : ft.toNat / 16 ≠ 1 ∧ ft.toNat / 16 ≠ 2) :
    parse (encV2 vc ft payload ++ rest) = .ok (none, rest) := by
  rw [parse_encV2 vc ft payload rest hn]; simp [hc, hf.1, hf.2]

/-- (4e) The transport nibble (low half of byte 13: STREAM/DGRAM/other) and the version nibble (high half of byte 12) do not
influence the result, as coded. -/
theorem v2_transport_and_version_nibbles_ignored (vc vc' ft ft' : UInt8) (payload rest : Bytes) (hn : payload.length < 65536)
    (hv : vc.toNat % 16 = vc'.toNat % 16) (hf : ft.toNat / 16 = ft'.toNat / 16) :
    parse (encV2 vc ft payload ++ rest) = parse (encV2 vc' ft' payload ++ rest) := by
  rw [parse_encV2 vc ft payload rest hn, parse_encV2 vc' ft' payload rest hn, hv, hf]

/-- (4f) Boundary: length field 0xFFFF (the largest a header can declare), LOCAL command. -/
theorem v2_max_length_local (vc ft : UInt8) (payload rest : Bytes) (hn : payload.length = 65535)
    (hc : vc.toNat % 16 = 0) : parse (encV2 vc ft payload ++ rest) = .ok (some localInfo, rest) :=
  v2_local_roundtrip vc ft payload rest (by omega) hc

/-- (4g) Boundary: length field 0xFFFF, PROXY command over IPv4 with 65523 bytes of TLVs / IPv6 with 65499. -/
theorem v2_max_length_inet (vc ft : UInt8) (src dst tlv rest : Bytes) (sp dp : Nat)
    (hc : vc.toNat % 16 ≠ 0) (hf : ft.toNat / 16 = 1) (h1 : src.length = 4) (h2 : dst.length = 4)
    (h3 : sp < 65536) (h4 : dp < 65536) (ht : tlv.length = 65523) :
    parse (encV2 vc ft (src ++ dst ++ put16 sp ++ put16 dp ++ tlv) ++ rest) =
      .ok (some { isLocal := false, srcIP := src, dstIP := dst, srcPort := sp, dstPort := dp, srcAddr := [], dstAddr := [] }, rest) :=
  v2_inet_roundtrip vc ft src dst tlv rest sp dp hc hf h1 h2 h3 h4 (by simp [put16, h1, h2, ht])

theorem v2_max_length_inet6 (vc ft : UInt8) (src dst tlv rest : Bytes) (sp dp : Nat)
    (hc : vc.toNat % 16 ≠ 0) (hf : ft.toNat / 16 = 2) (h1 : src.length = 16) (h2 : dst.length = 16)
    (h3 : sp < 65536) (h4 : dp < 65536) (ht : tlv.length = 65499) :
    parse (encV2 vc ft (src ++ dst ++ put16 sp ++ put16 dp ++ tlv) ++ rest) =
      .ok (some { isLocal := false, srcIP := src, dstIP := dst, srcPort := sp, dstPort := dp, srcAddr := [], dstAddr := [] }, rest) :=
  v2_inet6_roundtrip vc ft src dst tlv rest sp dp hc hf h1 h2 h3 h4 (by simp [put16, h1, h2, ht])

/-- (4h) A PROXY command whose declared payload is too short for its family's address block is rejected, having consumed
exactly header + declared payload. -/
theorem v2_short_address_rejected (vc ft : UInt8) (payload rest : Bytes) (hn : payload.length < 65536)
    (hc : vc.toNat % 16 ≠ 0)
    (hf : (ft.toNat / 16 = 1 ∧ payload.length < 12) ∨ (ft.toNat / 16 = 2 ∧ payload.length < 36)) :
    parse (encV2 vc ft payload ++ rest) = .err ∧ errRest (encV2 vc ft payload ++ rest) = rest := by
  refine ⟨?_, errRest_encV2 vc ft payload rest hn⟩
  rw [parse_encV2 vc ft payload rest hn]
  rcases hf with ⟨hf, hl⟩ | ⟨hf, hl⟩
  · simp [hc, hf, parseV2Inet, hl, GoResult.bind]
  · simp [hc, hf, parseV2Inet6, hl, GoResult.bind]

/-- (4i) A header that declares more payload than the stream holds (any declared length up to 0xFFFF) is rejected. -/
theorem v2_truncated_rejected (vc ft : UInt8) (n : Nat) (avail : Bytes) (hn : n < 65536) (ha : avail.length < n) :
    parse (v2Sig ++ [vc, ft] ++ put16 n ++ avail) = .err ∧ errRest (v2Sig ++ [vc, ft] ++ put16 n ++ avail) = [] :=
  parse_v2_truncated vc ft n avail hn ha

/-- (3b) Also when the header is REJECTED the wrapped connection delivers a suffix of what was sent. -/
theorem err_remainder_suffix (s : Bytes) : ∃ consumed, s = consumed ++ errRest s := errRest_suffix s

/-! non-vacuity -/
example : Tok [0x54, 0x43, 0x50, 0x34] := ⟨by decide, by decide⟩
example : parse (encV1 [0x54, 0x43, 0x50, 0x34] [0x31] [0x32] [0x38, 0x30] [0x39] ++ [7, 7]) =
    .ok (some { isLocal := false, srcIP := [0x31], dstIP := [0x32], srcPort := 80, dstPort := 9, srcAddr := [0x31, 0x3a, 0x38, 0x30], dstAddr := [0x32, 0x3a, 0x39] }, [7, 7]) := by decide
set_option maxRecDepth 8000 in
example : parse (tcp6Header ++ [1, 2]) = .ok (some { isLocal := false, srcIP := [0x20, 0x01, 0x0d, 0xb8, 0, 0, 0, 0, 0, 0, 0, 0, 0, 0, 0, 1], dstIP := [0x20, 0x01, 0x0d, 0xb8, 0, 0, 0, 0, 0, 0, 0, 0, 0, 0, 0, 2], srcPort := 51234, dstPort := 9092, srcAddr := [], dstAddr := [] }, [1, 2]) := by decide
-- a 256-byte v1 line (236-byte source token) is accepted, the 257-byte one is rejected with its LF left in the stream
set_option maxRecDepth 100000 in
example : (encV1 [0x54, 0x43, 0x50, 0x34] (List.replicate 236 0x31) [0x32] [0x38, 0x30] [0x39]).length = 256 := by decide
set_option maxRecDepth 100000 in
example : parse (encV1 [0x54, 0x43, 0x50, 0x34] (List.replicate 236 0x31) [0x32] [0x38, 0x30] [0x39] ++ [7]) =
    .ok (some { isLocal := false, srcIP := List.replicate 236 0x31, dstIP := [0x32], srcPort := 80, dstPort := 9,
                srcAddr := List.replicate 236 0x31 ++ [0x3a, 0x38, 0x30], dstAddr := [0x32, 0x3a, 0x39] }, [7]) := by decide
set_option maxRecDepth 100000 in
example : parse (encV1 [0x54, 0x43, 0x50, 0x34] (List.replicate 237 0x31) [0x32] [0x38, 0x30] [0x39] ++ [7]) = .err ∧
    errRest (encV1 [0x54, 0x43, 0x50, 0x34] (List.replicate 237 0x31) [0x32] [0x38, 0x30] [0x39] ++ [7]) = [10, 7] := by decide
example : Digits [0x36, 0x35, 0x35, 0x33, 0x35] := ⟨by decide, by decide⟩
-- AF_UNIX (family 3) PROXY command: no info, stream preserved
example : parse (encV2 0x21 0x31 [1, 2, 3] ++ [9, 9]) = .ok (none, [9, 9]) := by decide
example : parse (encV2 0x21 0x11 [1, 2, 3] ++ [9, 9]) = .err ∧ errRest (encV2 0x21 0x11 [1, 2, 3] ++ [9, 9]) = [9, 9] := by decide
example : ¬ startsWithHeader [0, 0, 0, 5, 1, 2, 3, 4, 5] := by unfold startsWithHeader; decide
example : parse [0x50, 0x52] = .ok (none, [0x50, 0x52]) := by decide

end KafVerif.C26
