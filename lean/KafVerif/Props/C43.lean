import KafVerif.Lemmas.GroupEffect
import KafVerif.Props.C15
/-!
C43 — Group members expire exactly when their session lapses.

Statement (properties.jsonl): a group member that stops heartbeating is removed, and the group
rebalances, once its session timeout has passed (or, during a rebalance, once the rebalance
timeout passes without it rejoining); a member that keeps heartbeating within its session timeout
is never removed.

Model: `KafVerif.Group` with its explicit clock.  `cleanupOutcome st now` is the body of the loop of
`cleanupGroups` for one group (`removeExpiredMembers`, `dropRebalanceLaggers`, delete / rebalance);
`cleanupGroup` applies it to the state.  All theorems are for EVERY group state and EVERY time.
-/
namespace KafVerif.Group
open Group

/-- the member missed the rebalance deadline: `dropRebalanceLaggers` would remove it -/
def lagging (st : Group) (now : Nat) (m : Member) : Bool :=
  !(decide (st.deadline = 0) || decide (now < st.deadline)) && (m.joinGen != st.gen)

/-- members left after `removeExpiredMembers` and `dropRebalanceLaggers` -/
theorem cleanup_survivors (st : Group) (now : Nat) :
    ((st.removeExpired now).1.dropLaggers now).1.members =
      st.members.filter fun e => !expired now e.2 && !lagging st now e.2 := by
  unfold removeExpired dropLaggers
  simp only [dropMembers_deadline, dropMembers_gen]
  by_cases h : st.deadline = 0 ∨ now < st.deadline
  · simp only [h, if_true, dropMembers_members]
    apply List.filter_congr
    intro e _
    have : lagging st now e.2 = false := by
      unfold lagging; rcases h with h | h <;> simp [h]
    simp [this]
  · simp only [h, if_false, dropMembers_members, List.filter_filter]
    apply List.filter_congr
    intro e _
    have h1 : ¬ st.deadline = 0 := fun hh => h (Or.inl hh)
    have h2 : ¬ now < st.deadline := fun hh => h (Or.inr hh)
    unfold lagging
    simp [h1, h2, Bool.and_comm]

theorem resetJoins_keys (ms : List (Nat × Member)) (e' : Nat × Member) (h : e' ∈ resetJoins ms) :
    ∃ e ∈ ms, e.1 = e'.1 ∧ e'.2 = { e.2 with joinGen := 0 } := by
  unfold resetJoins at h
  obtain ⟨e, he, rfl⟩ := List.mem_map.mp h
  exact ⟨e, he, rfl, rfl⟩

theorem cleanupOutcome_members (st : Group) (now : Nat) (st' : Group) (h : (cleanupOutcome st now).group? = some st') :
    ∀ e' ∈ st'.members, ∃ e ∈ st.members, e.1 = e'.1 ∧ expired now e.2 = false ∧ lagging st now e.2 = false := by
  intro e' he'
  have key : ∀ e ∈ ((st.removeExpired now).1.dropLaggers now).1.members,
      e ∈ st.members ∧ expired now e.2 = false ∧ lagging st now e.2 = false := by
    intro e he
    rw [cleanup_survivors] at he
    have := List.mem_filter.mp he
    simp only [Bool.and_eq_true, Bool.not_eq_eq_eq_not, Bool.not_true] at this
    exact ⟨this.1, this.2.1, this.2.2⟩
  unfold cleanupOutcome at h
  simp only at h
  split at h
  · simp [CleanupOutcome.group?] at h
  · split at h
    · simp only [CleanupOutcome.group?, Option.some.injEq] at h
      subst h
      rename_i hne _
      have hne' : ((st.removeExpired now).1.dropLaggers now).1.members ≠ [] := by
        intro hh; simp [hh] at hne
      rw [(startRebalance_of_nonempty _ 0 now hne').2.2.2] at he'
      obtain ⟨e, he, hk, _⟩ := resetJoins_keys _ e' he'
      exact ⟨e, (key e he).1, hk, (key e he).2⟩
    · simp only [CleanupOutcome.group?, Option.some.injEq] at h
      subst h
      exact ⟨e', (key e' he').1, rfl, (key e' he').2⟩

/-- **C43 (a lapsed member is removed).** After one cleanup pass at time `now`, every member that
is still in the group stems from an entry whose session had NOT lapsed
(`now − lastHeartbeat ≤ sessionTimeout`): members without contact for longer than their session
timeout are gone (and if nobody is left the group itself is deleted). -/
theorem _root_.KafVerif.C43.expiry_happens (st : Group) (now : Nat) (st' : Group)
    (h : (cleanupOutcome st now).group? = some st') :
    ∀ e' ∈ st'.members, ∃ e ∈ st.members, e.1 = e'.1 ∧ now - e.2.lastHb ≤ sessionOf e.2 := by
  intro e' he'
  obtain ⟨e, he, hk, hx, _⟩ := cleanupOutcome_members st now st' h e' he'
  refine ⟨e, he, hk, ?_⟩
  unfold expired at hx
  simpa using hx

/-- **C43 (a lagger is dropped).** During a rebalance, once the rebalance deadline has passed, every
member still in the group after the cleanup pass had joined the current generation. -/
theorem _root_.KafVerif.C43.lagger_dropped (st : Group) (now : Nat) (st' : Group)
    (h : (cleanupOutcome st now).group? = some st') (hd : st.deadline ≠ 0) (hpassed : st.deadline ≤ now) :
    ∀ e' ∈ st'.members, ∃ e ∈ st.members, e.1 = e'.1 ∧ e.2.joinGen = st.gen := by
  intro e' he'
  obtain ⟨e, he, hk, _, hl⟩ := cleanupOutcome_members st now st' h e' he'
  refine ⟨e, he, hk, ?_⟩
  unfold lagging at hl
  have h2 : ¬ now < st.deadline := by omega
  simpa [hd, h2] using hl

/-- **C43 (no early expiry).** A member whose last accepted contact is at most its session timeout
ago, and which is not a lagger of a rebalance whose deadline has passed, survives the cleanup pass:
the group is not deleted and still has an entry for the member. -/
theorem _root_.KafVerif.C43.no_early_expiry (st : Group) (now : Nat) (e : Nat × Member) (he : e ∈ st.members)
    (hlive : now - e.2.lastHb ≤ sessionOf e.2)
    (hjoined : st.deadline = 0 ∨ now < st.deadline ∨ e.2.joinGen = st.gen) :
    ∃ st', (cleanupOutcome st now).group? = some st' ∧ ∃ e' ∈ st'.members, e'.1 = e.1 ∧ e'.2.lastHb = e.2.lastHb := by
  have hsurv : e ∈ ((st.removeExpired now).1.dropLaggers now).1.members := by
    rw [cleanup_survivors]
    refine List.mem_filter.mpr ⟨he, ?_⟩
    have h1 : expired now e.2 = false := by unfold expired; simpa using hlive
    have h2 : lagging st now e.2 = false := by
      unfold lagging
      rcases hjoined with h | h | h <;> simp [h]
    simp [h1, h2]
  have hne : ((st.removeExpired now).1.dropLaggers now).1.members ≠ [] := List.ne_nil_of_mem hsurv
  unfold cleanupOutcome
  simp only
  have hemp : ((st.removeExpired now).1.dropLaggers now).1.members.isEmpty = false := by
    cases hm : ((st.removeExpired now).1.dropLaggers now).1.members <;> simp_all
  simp only [hemp, Bool.false_eq_true, if_false]
  split
  · refine ⟨_, rfl, ?_⟩
    rw [(startRebalance_of_nonempty _ 0 now hne).2.2.2]
    exact ⟨(e.1, { e.2 with joinGen := 0 }), List.mem_map.mpr ⟨e, hsurv, rfl⟩, rfl, rfl⟩
  · exact ⟨_, rfl, e, hsurv, rfl, rfl⟩

/-- **C43 (the group rebalances).** When the cleanup pass removed somebody and members remain, the
group is in PreparingRebalance with the generation incremented; when it removed nobody, the group is
exactly as before. -/
theorem _root_.KafVerif.C43.cleanup_rebalances (st : Group) (now : Nat) (hne : st.members ≠ []) :
    (∀ st', cleanupOutcome st now = .rebalanced st' →
        st'.phase = .preparing ∧ st'.gen = st.gen + 1 ∧ st'.asg = [] ∧
        ∃ e ∈ st.members, expired now e.2 = true ∨ lagging st now e.2 = true)
    ∧ (∀ st', cleanupOutcome st now = .kept st' → st' = st)
    ∧ ((∀ e ∈ st.members, expired now e.2 = false ∧ lagging st now e.2 = false) → cleanupOutcome st now = .kept st) := by
  have hall : (∀ e ∈ st.members, expired now e.2 = false ∧ lagging st now e.2 = false) →
      (st.removeExpired now) = (st, false) ∧ ((st.removeExpired now).1.dropLaggers now) = (st, false) := by
    intro h
    have h1 : (st.removeExpired now).1 = st := dropMembers_none st _ (fun e he => (h e he).1) hne
    have h1b : (st.removeExpired now).2 = false := by
      cases hb : (st.removeExpired now).2 with
      | false => rfl
      | true =>
        obtain ⟨e, he, hx⟩ := (dropMembers_changed st (expired now)).mp hb
        rw [(h e he).1] at hx; cases hx
    have hr : st.removeExpired now = (st, false) := Prod.ext h1 h1b
    refine ⟨hr, ?_⟩
    rw [hr]
    unfold dropLaggers
    split
    · rfl
    · rename_i hd
      have h2 : ∀ e ∈ st.members, (e.2.joinGen != st.gen) = false := by
        intro e he
        have := (h e he).2
        unfold lagging at this
        have h1 : ¬ st.deadline = 0 := fun hh => hd (Or.inl hh)
        have h2 : ¬ now < st.deadline := fun hh => hd (Or.inr hh)
        simpa [h1, h2] using this
      have h3 : (st.dropMembers fun m => m.joinGen != st.gen).1 = st := dropMembers_none st _ h2 hne
      have h4 : (st.dropMembers fun m => m.joinGen != st.gen).2 = false := by
        cases hb : (st.dropMembers fun m => m.joinGen != st.gen).2 with
        | false => rfl
        | true =>
          obtain ⟨e, he, hx⟩ := (dropMembers_changed st _).mp hb
          rw [h2 e he] at hx; cases hx
      exact Prod.ext h3 h4
  have hsome : (∃ e ∈ st.members, expired now e.2 = true ∨ lagging st now e.2 = true) ∨
      (∀ e ∈ st.members, expired now e.2 = false ∧ lagging st now e.2 = false) := by
    by_cases hx : ∃ e ∈ st.members, expired now e.2 = true ∨ lagging st now e.2 = true
    · exact Or.inl hx
    · right
      intro e he
      constructor
      · cases hb : expired now e.2 with
        | false => rfl
        | true => exact absurd ⟨e, he, Or.inl hb⟩ hx
      · cases hb : lagging st now e.2 with
        | false => rfl
        | true => exact absurd ⟨e, he, Or.inr hb⟩ hx
  have hkept : (∀ e ∈ st.members, expired now e.2 = false ∧ lagging st now e.2 = false) → cleanupOutcome st now = .kept st := by
    intro h
    obtain ⟨hr, hd⟩ := hall h
    have hd' : st.dropLaggers now = (st, false) := by rw [hr] at hd; exact hd
    unfold cleanupOutcome
    simp only [hr, hd']
    have : st.members.isEmpty = false := by cases hm : st.members <;> simp_all
    simp [this]
  refine ⟨?_, ?_, hkept⟩
  · intro st' h
    rcases hsome with hx | hx
    · refine ⟨?_, ?_, ?_, hx⟩ <;>
      · unfold cleanupOutcome at h
        simp only at h
        split at h
        · cases h
        · split at h
          · rename_i hemp _
            have hne' : ((st.removeExpired now).1.dropLaggers now).1.members ≠ [] := by
              intro hh; simp [hh] at hemp
            have := startRebalance_of_nonempty ((st.removeExpired now).1.dropLaggers now).1 0 now hne'
            cases h
            first
              | exact this.2.1
              | (rw [this.1]; unfold removeExpired dropLaggers; split <;> rfl)
              | exact this.2.2.1
          · cases h
    · rw [hkept hx] at h; cases h
  · intro st' h
    rcases hsome with hx | hx
    · -- somebody is removed: the outcome cannot be `kept`
      exfalso
      unfold cleanupOutcome at h
      simp only at h
      split at h
      · cases h
      · split at h
        · cases h
        · rename_i hflags
          obtain ⟨e, he, hx⟩ := hx
          have hf1 : (st.removeExpired now).2 = false := by
            cases hb : (st.removeExpired now).2 <;> simp_all
          have hf2 : ((st.removeExpired now).1.dropLaggers now).2 = false := by
            cases hb : ((st.removeExpired now).1.dropLaggers now).2 <;> simp_all
          have hexp : ∀ e ∈ st.members, expired now e.2 = false := by
            intro e he
            cases hb : expired now e.2 with
            | false => rfl
            | true =>
              have := (dropMembers_changed st (expired now)).mpr ⟨e, he, hb⟩
              unfold removeExpired at hf1; rw [hf1] at this; cases this
          have h1 : (st.removeExpired now).1 = st := dropMembers_none st _ hexp hne
          rcases hx with hx | hx
          · rw [hexp e he] at hx; cases hx
          · unfold lagging at hx
            simp only [Bool.and_eq_true, Bool.not_eq_eq_eq_not, Bool.not_true, Bool.or_eq_false_iff,
              decide_eq_false_iff_not, bne_iff_ne, ne_eq] at hx
            rw [h1] at hf2
            unfold dropLaggers at hf2
            have hd : ¬ (st.deadline = 0 ∨ now < st.deadline) := by
              rintro (h | h)
              · exact hx.1.1 h
              · exact hx.1.2 h
            simp only [hd, if_false] at hf2
            have := (dropMembers_changed st (fun m => m.joinGen != st.gen)).mpr ⟨e, he, by simpa using hx.2⟩
            rw [hf2] at this; cases this
    · rw [hkept hx] at h; cases h; rfl

/-- **C43 (the cleanup pass, in every reachable state).** For every history `ops` and every group
loaded in the coordinator after it, one pass of `cleanupGroups` leaves exactly `cleanupOutcome` of
that group (deleted / rebalanced / unchanged) — so the group-level theorems below speak about the
real pass over the whole table. -/
theorem _root_.KafVerif.C43.cleanup_pass (ops : List Op) (g : Nat) (st : Group)
    (h : lookup (run init ops).groups g = some st) :
    lookup (step (run init ops) .cleanup).1.groups g = (cleanupOutcome st (run init ops).clock).group? := by
  simp only [step, stepV]
  rw [cleanup_lookup _ (sorted_run ops), h]

/-- **C43 (no early expiry, reachable states).** After any history: a member whose last accepted
contact is within its session timeout and which is not a lagger past the rebalance deadline is still
a member of its (still loaded) group after the cleanup pass. -/
theorem _root_.KafVerif.C43.no_early_expiry_pass (ops : List Op) (g : Nat) (st : Group) (e : Nat × Member)
    (h : lookup (run init ops).groups g = some st) (he : e ∈ st.members)
    (hlive : (run init ops).clock - e.2.lastHb ≤ sessionOf e.2)
    (hjoined : st.deadline = 0 ∨ (run init ops).clock < st.deadline ∨ e.2.joinGen = st.gen) :
    ∃ st', lookup (step (run init ops) .cleanup).1.groups g = some st' ∧ ∃ e' ∈ st'.members, e'.1 = e.1 ∧ e'.2.lastHb = e.2.lastHb := by
  obtain ⟨st', ho, hm⟩ := KafVerif.C43.no_early_expiry st _ e he hlive hjoined
  exact ⟨st', by rw [KafVerif.C43.cleanup_pass ops g st h]; exact ho, hm⟩

/-- **C43 (every accepted heartbeat refreshes the session).** A heartbeat that is answered NONE or
REBALANCE_IN_PROGRESS (i.e. accepted as coming from a member of the current generation — also while
the group is rebalancing) leaves the member with `lastHeartbeat = now`. -/
theorem _root_.KafVerif.C43.contact_refreshes (s s' : State) (g mid : Nat) (gen : Int) (c : Int)
    (h : heartbeat fixed s g mid gen = (s', .code c)) (hc : c = NONE ∨ c = REBALANCE_IN_PROGRESS) :
    ∃ st mem, lookup s'.groups g = some st ∧ lookup st.members mid = some mem ∧ mem.lastHb = s.clock := by
  unfold heartbeat at h
  split at h
  · simp only [Prod.mk.injEq, Reply.code.injEq] at h
    rcases hc with hc | hc <;> (rw [hc] at h; exact absurd h.2 (by decide))
  · simp only [Prod.mk.injEq, Reply.code.injEq] at h
    rcases hc with hc | hc <;> (rw [hc] at h; exact absurd h.2 (by decide))
  · rename_i s1 st hl
    have hclock := (loadGroup_frame hl).clock
    split at h
    · simp only [Prod.mk.injEq, Reply.code.injEq] at h
      rcases hc with hc | hc <;> (rw [hc] at h; exact absurd h.2 (by decide))
    · rename_i m hm
      split at h
      · simp only [Prod.mk.injEq, Reply.code.injEq] at h
        rcases hc with hc | hc <;> (rw [hc] at h; exact absurd h.2 (by decide))
      · split at h
        · rename_i hv; simp [fixed] at hv
        · simp only [Prod.mk.injEq] at h
          obtain ⟨hs, _⟩ := h
          subst hs
          refine ⟨{ st with members := insert st.members mid { m with lastHb := s1.clock } }, { m with lastHb := s1.clock }, ?_, ?_, ?_⟩
          · rw [persist_groups]; simp [setGroup, lookup_insert]
          · simp [lookup_insert]
          · exact hclock

/-- **C43 (every processed join refreshes the session).** Whatever branch JoinGroup takes (new member,
re-join, rebalance started or continued), the member it answers has `lastHeartbeat = now` afterwards. -/
theorem _root_.KafVerif.C43.join_refreshes (s s' : State) (g mid : Nat) (se rb : Int) (pt : Nat) (pr : Option (Nat × List Nat)) (nk : Nat)
    (code : Int) (gen ld me pn : Nat) (ms : List (Nat × List Nat))
    (h : join fixed s g mid se rb pt pr nk = (s', .join code gen ld me pn ms)) :
    ∃ st mem, lookup s'.groups g = some st ∧ lookup st.members me = some mem ∧ mem.lastHb = s.clock := by
  unfold join at h
  cases he : ensureGroup fixed s g with
  | none => rw [he] at h; simp at h
  | some x =>
    obtain ⟨s1, st0⟩ := x
    rw [he] at h
    have hclock : s1.clock = s.clock := (ensureGroup_frame he).clock
    simp only [joinReply, Prod.mk.injEq, Reply.join.injEq] at h
    obtain ⟨hs, _, _, _, hme, _, _⟩ := h
    refine ⟨(joinCore fixed st0 mid se rb pt pr nk s1.clock).1, ?_⟩
    -- the member record through joinMember / joinPhase / joinMark / joinFinish
    have key : ∃ mem, lookup (joinCore fixed st0 mid se rb pt pr nk s1.clock).1.members
        (joinCore fixed st0 mid se rb pt pr nk s1.clock).2.1 = some mem ∧ mem.lastHb = s1.clock := by
      unfold joinCore
      simp only
      obtain ⟨m', hmem, _, _, _, _, _, _, hhb, _, _⟩ := joinMember_spec st0 mid se pt pr nk s1.clock
      generalize joinMember st0 mid se pt pr nk s1.clock = jm at hmem
      obtain ⟨stA, memberID, ex, prev⟩ := jm
      simp only at hmem ⊢
      have hA : lookup stA.members memberID = some m' := by rw [hmem, lookup_insert]; simp
      have hneA : stA.members ≠ [] := by rw [hmem]; exact insert_ne_nil _ _ _
      have h1 : ∃ m1, lookup (joinPhase fixed stA memberID ex prev (topicsOfProto pr) (timeoutOf rb) s1.clock).members memberID = some m1 ∧
          m1.lastHb = s1.clock := by
        rcases joinPhase_cases fixed stA memberID ex prev (topicsOfProto pr) (timeoutOf rb) s1.clock with
          ⟨st', he', hm', _, _, _⟩ | ⟨he', _⟩ | ⟨he', _⟩
        · rw [he', (startRebalance_of_nonempty st' _ _ (by rw [hm']; exact hneA)).2.2.2, lookup_resetJoins, hm', hA]
          exact ⟨_, rfl, hhb⟩
        · rw [he']; exact ⟨m', hA, hhb⟩
        · rw [he']; exact ⟨m', hA, hhb⟩
      obtain ⟨m1, hm1, hhb1⟩ := h1
      generalize joinPhase fixed stA memberID ex prev (topicsOfProto pr) (timeoutOf rb) s1.clock = st1 at hm1 ⊢
      rw [(joinFinish_spec st1 memberID).1, (joinMark_spec st1 memberID).1, lookup_setJoinGen, hm1]
      refine ⟨_, rfl, ?_⟩
      simp only [if_true]
      exact hhb1
    obtain ⟨mem, hmem, hhb⟩ := key
    refine ⟨mem, ?_, by rw [← hme]; exact hmem, by rw [hhb, hclock]⟩
    rw [← hs]
    simp [persist_groups, setGroup, lookup_insert]

/-! ### across a coordinator failover -/

/-- **C43 (the persisted heartbeat is current).** After every history without injected store faults, the
store holds for every loaded group exactly its current image — in particular every member's persisted
`HeartbeatAt` is its in-memory `lastHeartbeat` (each accepted heartbeat is written through). -/
theorem _root_.KafVerif.C43.persisted_heartbeat_current (ops : List Op) (hff : FaultFree ops) (g : Nat) (st : Group)
    (h : lookup (run init ops).groups g = some st) :
    ∃ p, lookup (run init ops).persisted g = some p ∧
      p.members.map (fun e => (e.1, e.2.hbAt, e.2.sessionMs)) = st.members.map (fun e => (e.1, e.2.lastHb, e.2.session)) := by
  refine ⟨build st, (sn_run ops hff).synced g st h, ?_⟩
  unfold build
  simp [List.map_map, Function.comp_def]

/-- the member records a new coordinator restores carry the last heartbeat and session timeout the old one had -/
theorem _root_.KafVerif.C43.heartbeat_survives_failover (ops : List Op) (hff : FaultFree ops) (g mid : Nat) (st : Group) (m : Member)
    (h : lookup (run init ops).groups g = some st) (hm : lookup st.members mid = some m) :
    ∃ r m', lookup (run init (ops ++ [.failover, .load g])).groups g = some r ∧ lookup r.members mid = some m' ∧
      m'.lastHb = m.lastHb ∧ m'.session = m.session ∧ r.phase = st.phase ∧
      (st.phase = .stable → r.deadline = 0) := by
  have hw : WFN st := (sn_run ops hff).inv.1 (g, st) (lookup_some_mem h)
  have hmem : (restore fixed (build st) (run init ops).clock).members =
      st.members.map fun e => (e.1, { e.2 with joinGen := if st.phase = .preparing then 0 else st.gen }) := by
    unfold restore
    simp only [ensureLeader_members, build, List.map_map, Function.comp_def]
    apply List.map_congr_left
    intro e he
    have := hw.wf.session e he
    simp [this, fixed]
  refine ⟨restore fixed (build st) (run init ops).clock, { m with joinGen := if st.phase = .preparing then 0 else st.gen },
    failover_load_lookup ops hff g st h, ?_, rfl, rfl, ?_, ?_⟩
  · rw [hmem, lookup_map_val, hm]; rfl
  · unfold restore; simp [build]
  · intro hph
    unfold restore
    simp [build, hph]

/-- **C43 (no early expiry across a failover).** After any history without injected store faults: take a
Stable group and a member whose last accepted contact is `lastHeartbeat`.  Replace the coordinator
(`failover`), let the new one load the group, let `d` ms pass and run the cleanup pass: if
`now + d − lastHeartbeat ≤ sessionTimeout` the member is still a member — a member that kept heartbeating
within its session timeout is not expired because the coordinator moved. -/
theorem _root_.KafVerif.C43.no_early_expiry_across_failover (ops : List Op) (hff : FaultFree ops) (g mid : Nat) (st : Group)
    (m : Member) (d : Nat) (h : lookup (run init ops).groups g = some st) (hph : st.phase = .stable)
    (hm : lookup st.members mid = some m) (hlive : (run init ops).clock + d - m.lastHb ≤ sessionOf m) :
    ∃ st', lookup (run init (ops ++ [.failover, .load g, .tick d, .cleanup])).groups g = some st' ∧
      ∃ e' ∈ st'.members, e'.1 = mid ∧ e'.2.lastHb = m.lastHb := by
  obtain ⟨r, m', hr, hm', hhb, hse, _, hdl⟩ := KafVerif.C43.heartbeat_survives_failover ops hff g mid st m h hm
  have hsplit : ops ++ [.failover, .load g, .tick d, .cleanup] = (ops ++ [.failover, .load g] ++ [.tick d]) ++ [.cleanup] := by simp
  have hclock2 : (run init (ops ++ [.failover, .load g])).clock = (run init ops).clock := by
    have : run init (ops ++ [.failover, .load g]) = (step (step (run init ops) .failover).1 (.load g)).1 := by
      unfold run; rw [List.foldl_append]; rfl
    rw [this]
    simp only [step, stepV]
    split
    · rfl
    · rename_i s1 o hl; exact (loadGroup_frame hl).clock
  have hrun3 : run init (ops ++ [.failover, .load g] ++ [.tick d]) =
      { run init (ops ++ [.failover, .load g]) with clock := (run init (ops ++ [.failover, .load g])).clock + d } := by
    unfold run; rw [List.foldl_append]; rfl
  have hgroups3 : lookup (run init (ops ++ [.failover, .load g] ++ [.tick d])).groups g = some r := by rw [hrun3]; exact hr
  have hclock3 : (run init (ops ++ [.failover, .load g] ++ [.tick d])).clock = (run init ops).clock + d := by
    rw [hrun3, ← hclock2]
  have hsess : sessionOf m' = sessionOf m := by unfold sessionOf; rw [hse]
  obtain ⟨st', hst', e', he', hk, hl⟩ := KafVerif.C43.no_early_expiry_pass (ops ++ [.failover, .load g] ++ [.tick d]) g r (mid, m')
    hgroups3 (lookup_some_mem hm') (by rw [hclock3, hhb, hsess]; exact hlive) (Or.inl (hdl hph))
  refine ⟨st', ?_, e', he', hk, by rw [hl, hhb]⟩
  rw [hsplit]
  have : run init (ops ++ [.failover, .load g] ++ [.tick d] ++ [.cleanup]) =
      (step (run init (ops ++ [.failover, .load g] ++ [.tick d])) .cleanup).1 := by
    unfold run; rw [List.foldl_append]; rfl
  rw [this]; exact hst'

/-- **C43 (pre-fix defect, witness).** Before the fix a member with a 10 s session that heartbeats
7 s after its join (answered REBALANCE_IN_PROGRESS: the leader has not synced yet) is expired by
the cleanup 7 s later — 7 s after its last accepted contact; the fixed code keeps it. -/
theorem _root_.KafVerif.C43.heartbeatOld_violates :
    let ops : List Op := [.join 1 0 10000 10000 1 (some (1, [0])) 5, .tick 7000, .heartbeat 1 5 1, .tick 7000, .cleanup]
    (ops.foldl (fun s op => (stepV { c43Old := true } s op).1) init).groups = []
    ∧ ((ops.foldl (fun s op => (stepV fixed s op).1) init).groups.map (·.1)) = [1] := by
  decide

-- non-vacuity: the hypotheses of the theorems above are satisfiable
example : ((cleanupOutcome { newGroup with gen := 1, phase := .stable, members := [(5, ⟨[0], 10000, 1000, 1⟩)] } 9000).group?).isSome = true := by
  decide
example : (heartbeat fixed (run init [.join 1 0 10000 10000 1 (some (1, [0])) 5]) 1 5 1).2 = .code REBALANCE_IN_PROGRESS := by decide

end KafVerif.Group
